(* C12 -- abstract model of redb's checksummed forest and of its verification (definitions only).

   ABSTRACTION (what the objects stand for in a redb file):
   * a *pointer* (N) names a page -- PageNumber (region, index, order) -- together with the context it is
     decoded in (fixed key width, fixed value width, kind of values), which the parent supplies; in an
     intact file every page is reached in exactly one context, so this is the page number, but in a
     damaged file one page can be reached in two contexts with different covered prefixes, and the image
     must stay single-valued (the correspondence driver encodes the context into the pointer, and
     prefixes the covered prefix with a 13-byte tag naming the context, so that `parse` below is a function
     of the tagged prefix alone; H of a tagged prefix is the checksum of the untagged bytes);
   * an *image* maps a pointer to the page's COVERED PREFIX: the bytes [0, end) of the page, where
     `end` is `value_end(last pair)` of a leaf / `key_end(last key)` of a branch (exactly the range
     `leaf_checksum` / `branch_checksum` hash), or to None when the pointer lies outside the file's
     layout or the page does not decode.  Bytes of a page beyond `end` are NOT part of the image:
     no checksum covers them and (validated by the sweep, not proved) no reader looks at them;
   * `parse pl` are the (child pointer, stored child checksum) pairs found inside a covered prefix:
     the children of a branch page, the table roots inside the table definitions stored in a leaf of
     a master table (data tree / system tree), the subtree roots of the dynamic collections stored
     in a leaf of a multimap table.  It is a function of the covered prefix alone;
   * a *slot* is one of the two 128-byte commit slots of the super-header: `s_payload` = its first
     SLOT_CHECKSUM_OFFSET = 112 bytes (version, root flags, data root, system root, transaction id),
     `s_sum` = the stored slot checksum; `parse (s_payload s)` = the data root and the system root
     with their stored checksums;
   * `H` is the checksum function (XXH3-128 in the code), kept abstract.

   verify  = RawBtree::verify_checksum_helper + TableTree::verify_checksums +
             verify_tree_and_subtree_checksums, fused into one top-down walk (the fuel `d` plays the
             role of MAX_BTREE_DEPTH and of the `visited` cycle check: a cycle exhausts the fuel);
   read    = what a reader following the same pointers is served (it checks nothing);
   reach   = the pointers such a reader dereferences;
   select  = UnrepairedDatabaseHeader::select_primary_slot;
   recover = Database::do_repair's decision (primary verifies / fall back to the other slot /
             "Primary is corrupted despite 2-phase commit" / "All roots are corrupted").
   Not modelled: the layout/file-length reconciliation and the allocator-state comparison of
   check_integrity_inner -- they can only turn a clean verdict into Ok(false)/Err, they never
   change which slot is served. *)
From Coq Require Import List NArith Bool.
Import ListNotations.
Require Import RV.Gen.Consts.

Section Merkle.
  Variable sum : Type.
  Variable sum_eqb : sum -> sum -> bool.
  Variable H : list N -> sum.
  Variable parse : list N -> list (N * sum).

  Definition image := N -> option (list N).

  Fixpoint verify (d : nat) (img : image) (p : N) (c : sum) : bool :=
    match d with
    | O => false
    | S d' =>
      match img p with
      | None => false
      | Some pl =>
        sum_eqb (H pl) c && forallb (fun pc => verify d' img (fst pc) (snd pc)) (parse pl)
      end
    end.

  (* What a reader is served: the covered prefixes along the pointers it follows.
     Cut = the reader hits the depth limit or an undecodable page (it gets an error there). *)
  Inductive tree := T (payload : list N) (kids : list tree) | Cut.

  Fixpoint read (d : nat) (img : image) (p : N) : tree :=
    match d with
    | O => Cut
    | S d' =>
      match img p with
      | None => Cut
      | Some pl => T pl (map (fun pc => read d' img (fst pc)) (parse pl))
      end
    end.

  Fixpoint reach (d : nat) (img : image) (p : N) : list N :=
    match d with
    | O => []
    | S d' =>
      match img p with
      | None => [p]
      | Some pl => p :: flat_map (fun pc => reach d' img (fst pc)) (parse pl)
      end
    end.

  (* ---- commit slots and slot selection *)
  Record slot := { s_payload : list N; s_sum : sum; s_txid : N }.

  Definition slot_sum_ok (s : slot) : bool := sum_eqb (H (s_payload s)) (s_sum s).
  Definition trees_verify (d : nat) (img : image) (s : slot) : bool :=
    forallb (fun pc => verify d img (fst pc) (snd pc)) (parse (s_payload s)).
  Definition serve (d : nat) (img : image) (s : slot) : list tree :=
    map (fun pc => read d img (fst pc)) (parse (s_payload s)).
  Definition cov (d : nat) (img : image) (s : slot) : list N :=
    flat_map (fun pc => reach d img (fst pc)) (parse (s_payload s)).

  Record db := { two_phase : bool; primary : slot; secondary : slot; pages : image }.

  Definition slot_of (x : db) (b : bool) : slot := if b then primary x else secondary x.

  (* Some true = the primary is kept, Some false = the secondary is taken, None = open fails *)
  Definition select (x : db) : option bool :=
    if two_phase x then (if slot_sum_ok (primary x) then Some true else None)
    else if negb (slot_sum_ok (primary x)) then (if slot_sum_ok (secondary x) then Some false else None)
    else if (s_txid (primary x) <? s_txid (secondary x))%N && slot_sum_ok (secondary x) then Some false
    else Some true.

  Inductive verdict := Clean (s : slot) | Repaired (s : slot) | Failed.

  Definition recover (d : nat) (x : db) : verdict :=
    match select x with
    | None => Failed
    | Some b =>
      if trees_verify d (pages x) (slot_of x b) then
        (if b then Clean (slot_of x b) else Repaired (slot_of x b))
      else if two_phase x then Failed
      else if trees_verify d (pages x) (slot_of x (negb b)) then Repaired (slot_of x (negb b))
      else Failed
    end.

  (* s' arose from s by altering the payload bytes or the stored checksum, not both *)
  Definition slot_near (s' s : slot) : Prop := s_sum s' = s_sum s \/ s_payload s' = s_payload s.
End Merkle.

(* Fuel that lets the fused walk go as deep as the code does: slot -> master table tree ->
   table tree -> multimap subtree, each at most MAX_BTREE_DEPTH levels. *)
Definition walk_depth : nat := 3 * N.to_nat MAX_BTREE_DEPTH + 1.

