(* C12 -- a concrete file for the whole-verdict model (definitions only), on top of the toy forest of
   MerkleEx.v: 512-byte pages, no region header, 16 data pages per region, two full regions and a
   trailing one of 5 pages, i.e. 512 + 2*8192 + 2560 = 19456 bytes.  Allocator states are the lists of
   reached pointers, compared as lists. *)
From Coq Require Import List NArith Bool.
Import ListNotations.
From RV Require Import Storage.Layout Integrity.Merkle Integrity.MerkleEx Integrity.Verdict.
Open Scope N_scope.

Definition toy_rebuild (L : db_layout) (img : image) (s : slot (list N)) : option (list N) :=
  Some (cov (list N) toy_parse 3 img s).
Definition toy_counted (img : image) (s : slot (list N)) : bool := true.
Definition toy_uncounted (img : image) (s : slot (list N)) : bool := false.

Definition toy_file (len : N) (rr : bool) (full trail : N) (x : db (list N)) (loaded : option (list N))
  : file (list N) (list N) :=
  {| f_len := len; f_magic := true; f_rr := rr; f_ps := 512; f_hp := 0; f_cap := 16;
     f_full := full; f_trail := trail; f_vers := true; f_db := x; f_loaded := loaded |}.

Definition toy_len : N := 19456.
Definition toy_alloc : list N := [5; 10; 11].

(* cleanly closed: no recovery flag, 2-phase flag, allocator-state table of the closing commit *)
Definition toy_closed : file (list N) (list N) :=
  toy_file toy_len false 2 5 (toy_db true toy_img) (Some toy_alloc).
(* left by a crash: recovery flag, 1-phase commit, page 11 of the newest commit never reached the disk,
   torn region counts *)
Definition toy_crashed : file (list N) (list N) :=
  toy_file toy_len true 7 0 (toy_db false toy_img_altered) None.

Definition tfull := full (list N) bytes_eqb H_id toy_parse (list N) bytes_eqb toy_rebuild toy_counted 512 3.
Definition tfull_uncounted := full (list N) bytes_eqb H_id toy_parse (list N) bytes_eqb toy_rebuild toy_uncounted 512 3.
Definition tcheck := check_stage (list N) bytes_eqb H_id toy_parse (list N) bytes_eqb toy_rebuild 3.

(* verdict class and served slot, for the examples *)
Inductive vclass := VTrue (s : slot (list N)) (L : db_layout) | VFalse (s : slot (list N)) (L : db_layout) | VErrOpen | VErrCheck.
Definition vclass_of (r : fres (list N) (list N)) : vclass :=
  match r with
  | FOk _ _ true o => VTrue (o_slot _ _ o) (o_L _ _ o)
  | FOk _ _ false o => VFalse (o_slot _ _ o) (o_L _ _ o)
  | FErrOpen _ _ => VErrOpen
  | FErrCheck _ _ => VErrCheck
  end.

Definition toy_L (full : N) (trail : option N) : db_layout :=
  mkDL (mkRL 16 0 512) full (match trail with Some t => Some (mkRL t 0 512) | None => None end).
