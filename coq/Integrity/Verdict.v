(* C12 -- the WHOLE verdict of `Database::open` followed by `check_integrity()` on a closed file
   (definitions only; proofs in VerdictP.v).  Extends Merkle.v (slot selection, repair decision,
   checksum walk) by the stages that file left out:

   * header validation of `UnrepairedDatabaseHeader::from_bytes` (magic, page size = the page size the
     database is opened with, region geometry bounds, slot versions, and -- only without the
     RECOVERY_REQUIRED flag -- the stored region counts) and the short-file check of
     `TransactionalMemory::new`;
   * `finalize`: with RECOVERY_REQUIRED the layout is recomputed from the FILE LENGTH
     (`layout_from_file_len`, Storage/Layout.v); without it a file shorter than the stored layout is
     Corrupted, a longer one gets the recomputed layout (`layout_stale`), an equal one keeps the stored
     counts;
   * `Database::new`: the quick path (TWO_PHASE_COMMIT flag and a valid allocator-state table: nothing is
     verified, the stored allocator state is loaded) or `do_repair` (= Merkle.recover) + allocator
     rebuild + a repair commit with recounted table lengths; then `begin_writable` (sets
     RECOVERY_REQUIRED on disk, so the reload inside check_integrity always takes finalize's first
     branch and always has TWO_PHASE_COMMIT);
   * `check_integrity_inner` (no pending non-durable commit: the file was closed): reload + finalize
     (`layout_matched`), `do_repair` under the 2-phase flag, rebuild of the allocator state, comparison of
     roots (table-length recount) and of allocator hashes, verdict Ok(was_clean).

   ABSTRACTION.  `f_db` is Merkle.db: the primary bit of the god byte is "which slot is `primary`",
   `two_phase` the TWO_PHASE_COMMIT flag, `pages` the page image AS ADDRESSED UNDER THE LAYOUT THE CODE
   WORKS WITH -- VerdictP.open_layout / check_layout show that this layout is always the one
   `layout_from_file_len` gives for (file length, header geometry), up to Layout.dl_norm, under which
   addresses and membership are invariant (LayoutP.norm_equiv).  An altered length or geometry therefore
   means an arbitrary other `pages`.  Allocator states are values of an abstract type A with an equality
   test (the code compares XXH3 hashes of them): `f_loaded` = what the quick path ends with (None: no
   table / stale table), `rebuild L img s` = what `rebuild_allocator_state` produces from slot s's trees
   (None: a page outside the layout or overlapping), `counted img s` = the table lengths stored in the
   slot's roots equal the recount.  An `ost` names the commit served after a stage by the ORIGINAL slot
   whose roots it has (`o_slot`): the repair commit re-serialises the roots with recounted lengths and a
   new transaction id, neither of which `parse` reads. *)
From Coq Require Import List NArith Bool.
Import ListNotations.
From RV Require Import Gen.Consts Storage.Layout Integrity.Merkle.
Open Scope N_scope.

Definition counts (L : db_layout) : N * N :=
  (dl_num_full L, match dl_trailing L with Some t => rl_num_pages t | None => 0 end).
Definition counts_eqb (a b : N * N) : bool := (fst a =? fst b) && (snd a =? snd b).

Section Verdict.
  Variable sum : Type.
  Variable sum_eqb : sum -> sum -> bool.
  Variable H : list N -> sum.
  Variable parse : list N -> list (N * sum).
  Variable A : Type.
  Variable a_eqb : A -> A -> bool.
  Variable rebuild : db_layout -> image -> slot sum -> option A.
  Variable counted : image -> slot sum -> bool.
  Variable ps_exp : N.          (* the page size the database is opened with *)
  Variable d : nat.             (* walk depth *)

  Record file := {
    f_len : N;                  (* file length in bytes *)
    f_magic : bool;             (* the magic number is intact *)
    f_rr : bool;                (* god byte: RECOVERY_REQUIRED *)
    f_ps : N; f_hp : N; f_cap : N;      (* page size, region header pages, region max data pages *)
    f_full : N; f_trail : N;    (* stored region counts (unchecksummed) *)
    f_vers : bool;              (* both slots carry file format version 3 *)
    f_db : db sum;
    f_loaded : option A
  }.

  (* TransactionalMemory::new (length) + UnrepairedDatabaseHeader::from_bytes *)
  Definition stored_regions (f : file) : N := f_full f + (if 0 <? f_trail f then 1 else 0).
  Definition hdr_ok (f : file) : bool :=
    (DB_HEADER_SIZE <=? f_len f) && f_magic f && (f_ps f =? ps_exp) &&
    (0 <? f_cap f) && (f_cap f <=? MAX_PAGE_INDEX + 1) && (f_hp f <=? MAX_PAGE_INDEX + 1) &&
    (f_rr f || ((f_trail f <=? f_cap f) && (0 <? stored_regions f) && (stored_regions f <=? MAX_REGIONS))) &&
    f_vers f.

  (* DatabaseHeader::layout *)
  Definition stored_layout (f : file) : db_layout :=
    mkDL (mkRL (f_cap f) (f_hp f) (f_ps f)) (f_full f)
         (if 0 <? f_trail f then Some (mkRL (f_trail f) (f_hp f) (f_ps f)) else None).

  Definition len_layout (f : file) : option db_layout :=
    layout_from_file_len (f_len f) (f_hp f) (f_cap f) (f_ps f).

  (* the layout part of UnrepairedDatabaseHeader::finalize *)
  Definition finalize_layout (f : file) : option db_layout :=
    if f_rr f then len_layout f
    else if f_len f <? dl_len (stored_layout f) then None
    else if dl_len (stored_layout f) =? f_len f then Some (stored_layout f)
    else len_layout f.

  (* what a stage leaves behind *)
  Record ost := {
    o_slot : slot sum;          (* the commit now served (named by the slot whose roots it has) *)
    o_counts_ok : bool;         (* the table lengths in the primary slot's roots are the recounted ones *)
    o_alloc : A;                (* allocator state in memory *)
    o_L : db_layout;            (* layout in the header (in memory and on disk) *)
    o_fellback : bool           (* do_repair took repair_primary_corrupted (other slot, checksum not re-checked) *)
  }.

  Definition fellback (x : db sum) : bool :=
    match select sum sum_eqb H x with
    | Some b => negb (trees_verify sum sum_eqb H parse d (pages sum x) (slot_of sum x b))
    | None => false
    end.

  (* TransactionalMemory::new + Database::new *)
  Definition open_stage (f : file) : option ost :=
    if negb (hdr_ok f) then None else
    match finalize_layout f with
    | None => None
    | Some L1 =>
      let x := f_db f in
      match select sum sum_eqb H x with
      | None => None
      | Some _ =>
        match (if two_phase sum x then f_loaded f else None) with
        | Some a1 =>
          Some {| o_slot := primary sum x; o_counts_ok := counted (pages sum x) (primary sum x);
                  o_alloc := a1; o_L := L1; o_fellback := false |}
        | None =>
          match recover sum sum_eqb H parse d x with
          | Failed _ => None
          | Clean _ s | Repaired _ s =>
            match rebuild L1 (pages sum x) s with
            | None => None
            | Some a => Some {| o_slot := s; o_counts_ok := true; o_alloc := a; o_L := L1;
                                o_fellback := fellback x |}
            end
          end
        end
      end
    end.

  Inductive cres := COk (clean : bool) (o : ost) | CErr.

  (* check_integrity_inner on an open database without pending non-durable commit: the header on disk has
     RECOVERY_REQUIRED and TWO_PHASE_COMMIT, its primary slot is the one `o` serves *)
  Definition check_stage (f : file) (o : ost) : cres :=
    match len_layout f with
    | None => CErr
    | Some L2 =>
      if trees_verify sum sum_eqb H parse d (pages sum (f_db f)) (o_slot o) then
        match rebuild L2 (pages sum (f_db f)) (o_slot o) with
        | None => CErr
        | Some a2 =>
          COk (counts_eqb (counts L2) (counts (o_L o)) && o_counts_ok o && a_eqb (o_alloc o) a2)
              {| o_slot := o_slot o; o_counts_ok := true; o_alloc := a2; o_L := L2;
                 o_fellback := o_fellback o |}
        end
      else CErr
    end.

  Inductive fres := FOk (clean : bool) (o : ost) | FErrOpen | FErrCheck.

  Definition full (f : file) : fres :=
    match open_stage f with
    | None => FErrOpen
    | Some o => match check_stage f o with COk c o2 => FOk c o2 | CErr => FErrCheck end
    end.

  Definition is_err (r : fres) : Prop := r = FErrOpen \/ r = FErrCheck.

  (* what the database serves after a stage *)
  Definition served (f : file) (o : ost) : list (tree) :=
    serve sum parse d (pages sum (f_db f)) (o_slot o).

  (* a cleanly closed file of a well-formed history: header as a clean shutdown writes it, the stored
     layout describes the file (normal form), the primary slot is genuine, the allocator-state table is
     the closing commit's own and exact (C11: c11_snapshot_exact / c11_clean_close_loads), the table
     lengths are the counted ones *)
  Definition wf_closed (f : file) : Prop :=
    hdr_ok f = true /\ f_rr f = false /\ two_phase sum (f_db f) = true /\
    dl_len (stored_layout f) = f_len f /\ dl_norm (stored_layout f) = stored_layout f /\
    slot_sum_ok sum sum_eqb H (primary sum (f_db f)) = true /\
    trees_verify sum sum_eqb H parse d (pages sum (f_db f)) (primary sum (f_db f)) = true /\
    counted (pages sum (f_db f)) (primary sum (f_db f)) = true /\
    exists a a', f_loaded f = Some a /\
      rebuild (stored_layout f) (pages sum (f_db f)) (primary sum (f_db f)) = Some a' /\
      a_eqb a a' = true.

  (* a file left by a crash of a well-formed history: RECOVERY_REQUIRED set, the length maps onto a
     layout, recovery finds a slot whose trees verify and whose pages lie inside the layout *)
  Definition wf_crashed (f : file) : Prop :=
    hdr_ok f = true /\ f_rr f = true /\
    exists L s, len_layout f = Some L /\
      (recover sum sum_eqb H parse d (f_db f) = Clean sum s \/
       recover sum sum_eqb H parse d (f_db f) = Repaired sum s) /\
      (two_phase sum (f_db f) = false \/ f_loaded f = None) /\
      exists a, rebuild L (pages sum (f_db f)) s = Some a.

  (* only the length differs (the page image and the loaded allocator state are then arbitrary) *)
  Definition same_header (f' f : file) : Prop :=
    f_magic f' = f_magic f /\ f_rr f' = f_rr f /\ f_ps f' = f_ps f /\ f_hp f' = f_hp f /\
    f_cap f' = f_cap f /\ f_full f' = f_full f /\ f_trail f' = f_trail f /\ f_vers f' = f_vers f.
End Verdict.
