(* C12 -- proofs about the whole-verdict model (Verdict.v): the stages Merkle.v left out can only turn a
   clean verdict into Ok(false)/Err, never change the served slot; the layout the database works with is
   the one the file length dictates; a second check is clean. *)
From Coq Require Import List NArith Bool Lia.
Import ListNotations.
From RV Require Import Gen.Consts Storage.Layout Storage.LayoutP Integrity.Merkle Integrity.MerkleP Integrity.Verdict.
Open Scope N_scope.

Local Ltac nb :=
  repeat match goal with
  | H : (_ =? _) = true |- _ => apply N.eqb_eq in H
  | H : (_ =? _) = false |- _ => apply N.eqb_neq in H
  | H : (_ <=? _) = true |- _ => apply N.leb_le in H
  | H : (_ <=? _) = false |- _ => apply N.leb_gt in H
  | H : (_ <? _) = true |- _ => apply N.ltb_lt in H
  | H : (_ <? _) = false |- _ => apply N.ltb_ge in H
  end.

Lemma counts_eqb_refl : forall c, counts_eqb c c = true.
Proof. intros [a b]. unfold counts_eqb. simpl. rewrite !N.eqb_refl. reflexivity. Qed.

Section VerdictP.
  Variable sum : Type.
  Variable sum_eqb : sum -> sum -> bool.
  Variable H : list N -> sum.
  Variable parse : list N -> list (N * sum).
  Variable A : Type.
  Variable a_eqb : A -> A -> bool.
  Variable rebuild : db_layout -> image -> slot sum -> option A.
  Variable counted : image -> slot sum -> bool.
  Variable ps_exp : N.
  Variable d : nat.
  Hypothesis sum_eqb_spec : forall a b, sum_eqb a b = true <-> a = b.
  Hypothesis H_inj : forall x y, H x = H y -> x = y.
  Hypothesis a_eqb_refl : forall a, a_eqb a a = true.
  Hypothesis ps_pos : 0 < ps_exp.

  Notation file := (file sum A).
  Notation ost := (ost sum A).
  Notation hdr_ok := (hdr_ok sum A ps_exp).
  Notation stored_layout := (stored_layout sum A).
  Notation len_layout := (len_layout sum A).
  Notation finalize_layout := (finalize_layout sum A).
  Notation open_stage := (open_stage sum sum_eqb H parse A rebuild counted ps_exp d).
  Notation check_stage := (check_stage sum sum_eqb H parse A a_eqb rebuild d).
  Notation full := (full sum sum_eqb H parse A a_eqb rebuild counted ps_exp d).
  Notation fellback := (fellback sum sum_eqb H parse d).
  Notation wf_closed := (wf_closed sum sum_eqb H parse A a_eqb rebuild counted ps_exp d).
  Notation wf_crashed := (wf_crashed sum sum_eqb H parse A rebuild ps_exp d).
  Notation recover := (recover sum sum_eqb H parse).
  Notation select := (select sum sum_eqb H).
  Notation trees_verify := (trees_verify sum sum_eqb H parse).
  Notation slot_sum_ok := (slot_sum_ok sum sum_eqb H).
  Notation serve := (serve sum parse).
  Notation cov := (cov sum parse).
  Notation genuine := (genuine sum sum_eqb H parse).
  Notation FOk := (FOk sum A).
  Notation FErrOpen := (FErrOpen sum A).
  Notation FErrCheck := (FErrCheck sum A).
  Notation COk := (COk sum A).
  Notation is_err := (is_err sum A).

  (* ---- the decision of Merkle.recover, read backwards *)
  Lemma recover_serves : forall (x : db sum) s,
    recover d x = Clean sum s \/ recover d x = Repaired sum s ->
    trees_verify d (pages sum x) s = true.
  Proof.
    intros x s [E|E].
    - apply (clean_inv sum sum_eqb H parse) in E. tauto.
    - apply (repaired_inv sum sum_eqb H parse) in E. tauto.
  Qed.

  Lemma select_two_phase : forall (x : db sum) b,
    two_phase sum x = true -> select x = Some b -> b = true.
  Proof.
    unfold Merkle.select. intros x b ->. destruct (Merkle.slot_sum_ok _ _ _ _); congruence.
  Qed.

  Lemma recover_two_phase_clean : forall (x : db sum) b,
    two_phase sum x = true -> select x = Some b ->
    trees_verify d (pages sum x) (primary sum x) = true ->
    recover d x = Clean sum (primary sum x).
  Proof.
    intros x b H2 Hs Hv. pose proof (select_two_phase x b H2 Hs). subst b.
    unfold Merkle.recover. rewrite Hs. simpl. rewrite Hv. reflexivity.
  Qed.

  (* the slot recovery serves passed its checksum unless the un-checksummed fall-back was taken *)
  Lemma served_slot_checked : forall (x : db sum) s,
    recover d x = Clean sum s \/ recover d x = Repaired sum s ->
    fellback x = false -> slot_sum_ok s = true.
  Proof.
    intros x s Hr Hf. unfold Verdict.fellback in Hf. unfold Merkle.recover in Hr.
    destruct (select x) as [b|] eqn:Es; [|destruct Hr; discriminate].
    apply negb_false_iff in Hf. rewrite Hf in Hr.
    pose proof (select_checks_sum sum sum_eqb H x b Es) as Hok.
    destruct b; destruct Hr as [Hr|Hr]; inversion Hr; subst; exact Hok.
  Qed.

  (* ---- stage inversions *)
  Lemma open_stage_inv : forall (f : file) (o : ost),
    open_stage f = Some o ->
    hdr_ok f = true /\ finalize_layout f = Some (o_L sum A o) /\
    ((two_phase sum (f_db sum A f) = true /\ (exists b, select (f_db sum A f) = Some b) /\
      o_slot sum A o = primary sum (f_db sum A f) /\ o_fellback sum A o = false /\
      f_loaded sum A f = Some (o_alloc sum A o) /\
      o_counts_ok sum A o = counted (pages sum (f_db sum A f)) (primary sum (f_db sum A f)))
     \/
     ((recover d (f_db sum A f) = Clean sum (o_slot sum A o) \/
       recover d (f_db sum A f) = Repaired sum (o_slot sum A o)) /\
      rebuild (o_L sum A o) (pages sum (f_db sum A f)) (o_slot sum A o) = Some (o_alloc sum A o) /\
      o_counts_ok sum A o = true /\ o_fellback sum A o = fellback (f_db sum A f))).
  Proof.
    intros f o. unfold Verdict.open_stage.
    destruct (hdr_ok f) eqn:Eh; simpl; [|discriminate].
    destruct (finalize_layout f) as [L1|] eqn:EL; [|discriminate].
    destruct (select (f_db sum A f)) as [b|] eqn:Es; [|discriminate].
    destruct (two_phase sum (f_db sum A f)) eqn:E2.
    - destruct (f_loaded sum A f) as [a1|] eqn:El.
      + intros [= <-]. simpl. split; [reflexivity|]. split; [reflexivity|]. left.
        repeat split; eauto.
      + destruct (recover d (f_db sum A f)) as [s|s|] eqn:Er; try discriminate;
          (destruct (rebuild L1 (pages sum (f_db sum A f)) s) as [a|] eqn:Eb; [|discriminate]);
          intros [= <-]; simpl; (split; [reflexivity|]); (split; [reflexivity|]); right; auto.
    - destruct (recover d (f_db sum A f)) as [s|s|] eqn:Er; try discriminate;
        (destruct (rebuild L1 (pages sum (f_db sum A f)) s) as [a|] eqn:Eb; [|discriminate]);
        intros [= <-]; simpl; (split; [reflexivity|]); (split; [reflexivity|]); right; auto.
  Qed.

  Lemma check_stage_inv : forall (f : file) (o o2 : ost) c,
    check_stage f o = COk c o2 ->
    exists L2 a2, len_layout f = Some L2 /\
      trees_verify d (pages sum (f_db sum A f)) (o_slot sum A o) = true /\
      rebuild L2 (pages sum (f_db sum A f)) (o_slot sum A o) = Some a2 /\
      c = counts_eqb (counts L2) (counts (o_L sum A o)) && o_counts_ok sum A o && a_eqb (o_alloc sum A o) a2 /\
      o2 = {| o_slot := o_slot sum A o; o_counts_ok := true; o_alloc := a2; o_L := L2;
              o_fellback := o_fellback sum A o |}.
  Proof.
    intros f o o2 c. unfold Verdict.check_stage.
    destruct (len_layout f) as [L2|] eqn:EL; [|discriminate].
    destruct (trees_verify d (pages sum (f_db sum A f)) (o_slot sum A o)) eqn:Ev; [|discriminate].
    destruct (rebuild L2 (pages sum (f_db sum A f)) (o_slot sum A o)) as [a2|] eqn:Eb; [|discriminate].
    intros [= <- <-]. exists L2, a2. repeat split; auto.
  Qed.

  Lemma full_inv : forall (f : file) c (o : ost),
    full f = FOk c o -> exists o1, open_stage f = Some o1 /\ check_stage f o1 = COk c o.
  Proof.
    intros f c o. unfold Verdict.full.
    destruct (open_stage f) as [o1|]; [|discriminate].
    destruct (check_stage f o1) as [c' o'|] eqn:E; [|discriminate].
    intros [= <- <-]. eauto.
  Qed.

  (* ---- (a) the added stages never change which slot is served *)
  Theorem verdict_monotone : forall (f : file),
    (forall c o, full f = FOk c o ->
       (recover d (f_db sum A f) = Clean sum (o_slot sum A o) \/
        recover d (f_db sum A f) = Repaired sum (o_slot sum A o)) /\
       trees_verify d (pages sum (f_db sum A f)) (o_slot sum A o) = true /\
       (exists o1, open_stage f = Some o1 /\ o_slot sum A o1 = o_slot sum A o)) /\
    (recover d (f_db sum A f) = Failed sum -> is_err (full f)).
  Proof.
    intros f.
    assert (K : forall c o, full f = FOk c o ->
       (recover d (f_db sum A f) = Clean sum (o_slot sum A o) \/
        recover d (f_db sum A f) = Repaired sum (o_slot sum A o)) /\
       trees_verify d (pages sum (f_db sum A f)) (o_slot sum A o) = true /\
       (exists o1, open_stage f = Some o1 /\ o_slot sum A o1 = o_slot sum A o)).
    { intros c o Hf. apply full_inv in Hf as [o1 [Ho Hc]].
      apply check_stage_inv in Hc as (L2 & a2 & _ & Hv & _ & _ & ->). simpl.
      split; [|split; [exact Hv|exists o1; auto]].
      apply open_stage_inv in Ho as (_ & _ & [(H2 & [b Hs] & Hslot & _)|(Hr & _)]).
      - left. rewrite Hslot in *. eapply recover_two_phase_clean; eauto.
      - exact Hr. }
    split; [exact K|].
    intros Hfail. destruct (full f) as [c o| |] eqn:E; [|left; reflexivity|right; reflexivity].
    destruct (K c o eq_refl) as [[Hr|Hr] _]; congruence.
  Qed.

  (* ---- layouts: the stored region counts are used only if they describe the file length *)
  Lemma stored_layout_valid : forall (f : file),
    hdr_ok f = true -> f_rr sum A f = false ->
    valid_layout (stored_layout f) /\ dl_num_regions (stored_layout f) <= MAX_REGIONS.
  Proof.
    intros f Hh Hrr. unfold Verdict.hdr_ok in Hh. rewrite Hrr, orb_false_l in Hh.
    repeat (apply andb_true_iff in Hh as [Hh ?]).
    pose proof ps_pos as Hpp.
    unfold Verdict.stored_regions in *.
    unfold valid_layout, Verdict.stored_layout, dl_num_regions; cbn [dl_full dl_trailing dl_num_full rl_page_size rl_num_pages rl_header_pages].
    destruct (0 <? f_trail sum A f) eqn:Et;
      repeat match goal with Hc : _ && _ = true |- _ => apply andb_true_iff in Hc as [? ?] end;
      nb; simpl; repeat split; auto; try lia.
  Qed.

  Lemma hdr_geometry : forall (f : file), hdr_ok f = true ->
    f_ps sum A f = ps_exp /\ 0 < f_cap sum A f /\ DB_HEADER_SIZE <= f_len sum A f.
  Proof.
    intros f Hh. unfold Verdict.hdr_ok in Hh.
    repeat (apply andb_true_iff in Hh as [Hh ?]). nb. auto.
  Qed.

  Lemma finalize_layout_spec : forall (f : file) L1,
    hdr_ok f = true -> finalize_layout f = Some L1 ->
    valid_layout L1 /\ dl_len L1 = f_len sum A f /\
    dl_full L1 = mkRL (f_cap sum A f) (f_hp sum A f) (f_ps sum A f) /\
    dl_num_regions L1 <= MAX_REGIONS /\
    (len_layout f = Some L1 \/
     (f_rr sum A f = false /\ L1 = stored_layout f /\ len_layout f = Some (dl_norm L1))).
  Proof.
    intros f L1 Hh HF. destruct (hdr_geometry f Hh) as (Hps & Hcap & _).
    assert (Hps' : 0 < f_ps sum A f) by (rewrite Hps; exact ps_pos).
    assert (FromLen : len_layout f = Some L1 ->
            valid_layout L1 /\ dl_len L1 = f_len sum A f /\
            dl_full L1 = mkRL (f_cap sum A f) (f_hp sum A f) (f_ps sum A f) /\
            dl_num_regions L1 <= MAX_REGIONS /\
            (len_layout f = Some L1 \/
             (f_rr sum A f = false /\ L1 = stored_layout f /\ len_layout f = Some (dl_norm L1)))).
    { intros E. pose proof E as E'. unfold Verdict.len_layout in E'.
      apply layout_from_file_len_sound in E' as (V & Fu & Le & Mx); [|exact Hps'|exact Hcap].
      tauto. }
    unfold Verdict.finalize_layout in HF.
    destruct (f_rr sum A f) eqn:Err; [apply FromLen; exact HF|].
    destruct (f_len sum A f <? dl_len (stored_layout f)) eqn:E1; [discriminate|].
    destruct (dl_len (stored_layout f) =? f_len sum A f) eqn:E2; [|apply FromLen; exact HF].
    inversion HF; subst L1; clear HF. nb.
    destruct (stored_layout_valid f Hh Err) as [V Mx].
    split; [exact V|]. split; [exact E2|]. split; [reflexivity|]. split; [exact Mx|].
    right. split; [reflexivity|]. split; [reflexivity|].
    unfold Verdict.len_layout. rewrite <- E2.
    apply layout_from_file_len_complete; auto.
  Qed.

  Theorem open_layout : forall (f : file) (o : ost),
    open_stage f = Some o ->
    f_ps sum A f = ps_exp /\
    valid_layout (o_L sum A o) /\ dl_len (o_L sum A o) = f_len sum A f /\
    dl_full (o_L sum A o) = mkRL (f_cap sum A f) (f_hp sum A f) (f_ps sum A f) /\
    dl_num_regions (o_L sum A o) <= MAX_REGIONS /\
    (len_layout f = Some (o_L sum A o) \/
     (f_rr sum A f = false /\ o_L sum A o = stored_layout f /\
      len_layout f = Some (dl_norm (o_L sum A o)))).
  Proof.
    intros f o Ho. apply open_stage_inv in Ho as (Hh & HF & _).
    split; [apply (hdr_geometry f Hh)|]. apply finalize_layout_spec; assumption.
  Qed.

  Theorem check_layout : forall (f : file) c (o : ost),
    full f = FOk c o ->
    f_ps sum A f = ps_exp /\ len_layout f = Some (o_L sum A o) /\
    valid_layout (o_L sum A o) /\ dl_len (o_L sum A o) = f_len sum A f /\
    dl_full (o_L sum A o) = mkRL (f_cap sum A f) (f_hp sum A f) (f_ps sum A f) /\
    dl_num_regions (o_L sum A o) <= MAX_REGIONS.
  Proof.
    intros f c o Hf. apply full_inv in Hf as [o1 [Ho Hc]].
    apply open_stage_inv in Ho as (Hh & _ & _).
    destruct (hdr_geometry f Hh) as (Hps & Hcap & _).
    apply check_stage_inv in Hc as (L2 & a2 & EL & _ & _ & _ & ->). simpl.
    split; [exact Hps|]. split; [exact EL|].
    unfold Verdict.len_layout in EL.
    apply layout_from_file_len_sound in EL as (V & Fu & Le & Mx);
      [tauto | rewrite Hps; exact ps_pos | exact Hcap].
  Qed.

  (* ---- (b) whatever was done to the file: a verdict Ok(_) means the served contents are exactly the
     contents of one commit point of the original file, and the layout is the length's *)
  Theorem no_false_clean_full : forall (x0 : db sum) (f' : file) c (o : ost) (s0 : slot sum),
    full f' = FOk c o ->
    genuine d x0 s0 -> slot_near sum (o_slot sum A o) s0 ->
    (o_fellback sum A o = true -> slot_sum_ok (o_slot sum A o) = true) ->
    (s_payload sum (o_slot sum A o) = s_payload sum s0 /\
     serve d (pages sum (f_db sum A f')) (o_slot sum A o) = serve d (pages sum x0) s0 /\
     forall q, In q (cov d (pages sum x0) s0) -> pages sum (f_db sum A f') q = pages sum x0 q) /\
    (f_ps sum A f' = ps_exp /\ len_layout f' = Some (o_L sum A o) /\
     valid_layout (o_L sum A o) /\ dl_len (o_L sum A o) = f_len sum A f' /\
     dl_full (o_L sum A o) = mkRL (f_cap sum A f') (f_hp sum A f') (f_ps sum A f') /\
     dl_num_regions (o_L sum A o) <= MAX_REGIONS).
  Proof.
    intros x0 f' c o s0 Hf Hg Hn Hfb.
    split; [|eapply check_layout; exact Hf].
    destruct (verdict_monotone f') as [K _]. destruct (K c o Hf) as (Hr & Hv & o1 & Ho & Hs1).
    assert (Hok : slot_sum_ok (o_slot sum A o) = true).
    { destruct (o_fellback sum A o) eqn:Efb; [apply Hfb; reflexivity|].
      pose proof Hf as Hf'. apply full_inv in Hf' as [o1' [Ho' Hc]].
      apply check_stage_inv in Hc as (L2 & a2 & _ & _ & _ & _ & Eo).
      assert (Efb1 : o_fellback sum A o1' = false) by (rewrite Eo in Efb; exact Efb).
      assert (Es1 : o_slot sum A o1' = o_slot sum A o) by (rewrite Eo; reflexivity).
      apply open_stage_inv in Ho' as (_ & _ & [(H2 & [b Hs] & Hslot & _)|(Hr' & _ & _ & Hfe)]).
      - rewrite <- Es1, Hslot. pose proof (select_two_phase _ b H2 Hs); subst b.
        exact (select_checks_sum sum sum_eqb H _ true Hs).
      - rewrite <- Es1. eapply served_slot_checked; [exact Hr'|congruence]. }
    destruct Hr as [Hr|Hr].
    - destruct (no_false_clean sum sum_eqb H parse sum_eqb_spec H_inj d x0 (f_db sum A f') _ s0 Hr Hg Hn)
        as (P & _ & S & C). auto.
    - exact (repaired_is_committed sum sum_eqb H parse sum_eqb_spec H_inj d x0 (f_db sum A f') _ s0 Hr Hok Hg Hn).
  Qed.

  (* ---- (c) a cleanly closed file truncated or extended to another length *)
  Theorem length_alteration_detected : forall (f0 f' : file),
    hdr_ok f0 = true -> f_rr sum A f0 = false -> dl_len (stored_layout f0) = f_len sum A f0 ->
    same_header sum A f' f0 -> f_len sum A f' <> f_len sum A f0 ->
    (f_len sum A f' < f_len sum A f0 -> full f' = FErrOpen) /\
    (forall c o, full f' = FOk c o ->
       f_len sum A f0 < f_len sum A f' /\ len_layout f' = Some (o_L sum A o) /\
       dl_len (o_L sum A o) = f_len sum A f' /\ o_L sum A o <> stored_layout f0 /\
       exists o1, open_stage f' = Some o1 /\ o_L sum A o1 = o_L sum A o).
  Proof.
    intros f0 f' Hh Hrr Hlen (Em & Er & Eps & Ehp & Ecap & Efu & Etr & Ev) Hne.
    assert (ESL : stored_layout f' = stored_layout f0)
      by (unfold Verdict.stored_layout; rewrite Eps, Ehp, Ecap, Efu, Etr; reflexivity).
    assert (Trunc : f_len sum A f' < f_len sum A f0 -> open_stage f' = None).
    { intros Hlt. unfold Verdict.open_stage.
      destruct (hdr_ok f'); simpl; [|reflexivity].
      unfold Verdict.finalize_layout. rewrite Er, Hrr, ESL, Hlen.
      assert (f_len sum A f' <? f_len sum A f0 = true) as -> by (apply N.ltb_lt; exact Hlt).
      reflexivity. }
    split.
    - intros Hlt. unfold Verdict.full. rewrite (Trunc Hlt). reflexivity.
    - intros c o Hf.
      pose proof (check_layout f' c o Hf) as (_ & EL & _ & Le & _).
      pose proof Hf as Hf'. apply full_inv in Hf' as [o1 [Ho Hc]].
      assert (Hgt : f_len sum A f0 < f_len sum A f').
      { destruct (N.lt_ge_cases (f_len sum A f') (f_len sum A f0)) as [Hlt|Hge]; [|lia].
        rewrite (Trunc Hlt) in Ho. discriminate. }
      split; [exact Hgt|]. split; [exact EL|]. split; [exact Le|].
      split; [intros E; rewrite E, Hlen in Le; lia|].
      exists o1. split; [exact Ho|].
      pose proof Ho as Ho'. apply open_stage_inv in Ho' as (_ & HF & _).
      unfold Verdict.finalize_layout in HF. rewrite Er, Hrr, ESL, Hlen in HF.
      assert (f_len sum A f' <? f_len sum A f0 = false) as E1 by (apply N.ltb_ge; lia).
      assert (f_len sum A f0 =? f_len sum A f' = false) as E2 by (apply N.eqb_neq; lia).
      rewrite E1, E2 in HF.
      apply check_stage_inv in Hc as (L2 & a2 & EL2 & _ & _ & _ & ->). simpl. congruence.
  Qed.

  (* ---- (d) after any verdict Ok(_) a second check is clean and changes nothing *)
  Theorem second_check_clean : forall (f : file) (o o2 : ost) c,
    check_stage f o = COk c o2 -> check_stage f o2 = COk true o2.
  Proof.
    intros f o o2 c Hc. apply check_stage_inv in Hc as (L2 & a2 & EL & Hv & Eb & _ & ->).
    unfold Verdict.check_stage. simpl. rewrite EL, Hv, Eb.
    rewrite counts_eqb_refl, a_eqb_refl. reflexivity.
  Qed.

  Corollary second_check_clean_full : forall (f : file) c (o : ost),
    full f = FOk c o -> check_stage f o = COk true o.
  Proof.
    intros f c o Hf. apply full_inv in Hf as [o1 [_ Hc]]. eapply second_check_clean; eauto.
  Qed.

  (* ---- the well-formedness premises are sufficient for a clean verdict (baseline) *)
  Theorem closed_file_clean : forall (f : file),
    wf_closed f -> exists o, full f = FOk true o /\ o_slot sum A o = primary sum (f_db sum A f) /\
                             o_L sum A o = stored_layout f.
  Proof.
    intros f (Hh & Hrr & H2 & Hlen & Hnorm & Hok & Hv & Hcnt & a & a' & El & Eb & Ea).
    destruct (stored_layout_valid f Hh Hrr) as [V Mx].
    assert (EL : len_layout f = Some (stored_layout f)).
    { unfold Verdict.len_layout.
      replace (Some (stored_layout f)) with (Some (dl_norm (stored_layout f))) by (rewrite Hnorm; reflexivity).
      rewrite <- Hlen.
      destruct (hdr_geometry f Hh) as (Hps & Hcap & _).
      apply layout_from_file_len_complete; auto. }
    assert (Es : select (f_db sum A f) = Some true).
    { unfold Merkle.select. rewrite H2, Hok. reflexivity. }
    eexists. split.
    - unfold Verdict.full, Verdict.open_stage. rewrite Hh. simpl.
      unfold Verdict.finalize_layout. rewrite Hrr, Hlen, N.ltb_irrefl, N.eqb_refl.
      rewrite Es, H2, El.
      unfold Verdict.check_stage. simpl. rewrite EL, Hv, Eb, Hcnt, Ea, counts_eqb_refl. reflexivity.
    - simpl. auto.
  Qed.

  Theorem crashed_file_clean : forall (f : file),
    wf_crashed f -> exists o s, full f = FOk true o /\ o_slot sum A o = s /\
      (recover d (f_db sum A f) = Clean sum s \/ recover d (f_db sum A f) = Repaired sum s).
  Proof.
    intros f (Hh & Hrr & L & s & EL & Hr & Hq & a & Eb).
    assert (Hv : trees_verify d (pages sum (f_db sum A f)) s = true) by (eapply recover_serves; eauto).
    assert (Es : exists b, select (f_db sum A f) = Some b).
    { unfold Merkle.recover in Hr. destruct (select (f_db sum A f)) as [b|]; [eauto|].
      destruct Hr; discriminate. }
    destruct Es as [b Es].
    assert (Eq : (if two_phase sum (f_db sum A f) then f_loaded sum A f else None) = None).
    { destruct Hq as [-> | ->]; [reflexivity|]. destruct (two_phase sum (f_db sum A f)); reflexivity. }
    eexists. exists s. split; [|split; [|exact Hr]].
    - unfold Verdict.full, Verdict.open_stage. rewrite Hh. simpl.
      unfold Verdict.finalize_layout. rewrite Hrr, EL, Es, Eq.
      destruct Hr as [Hr|Hr]; rewrite Hr, Eb; unfold Verdict.check_stage; simpl;
        rewrite EL, Hv, Eb, counts_eqb_refl, a_eqb_refl; reflexivity.
    - reflexivity.
  Qed.
End VerdictP.
