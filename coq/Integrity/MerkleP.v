(* C12 -- proofs about the checksummed-forest model (Merkle argument). *)
From Coq Require Import List NArith Bool Lia.
Import ListNotations.
Require Import RV.Gen.Consts RV.Integrity.Merkle.

Section MerkleP.
  Variable sum : Type.
  Variable sum_eqb : sum -> sum -> bool.
  Variable H : list N -> sum.
  Variable parse : list N -> list (N * sum).
  Hypothesis sum_eqb_spec : forall a b, sum_eqb a b = true <-> a = b.
  Hypothesis H_inj : forall x y, H x = H y -> x = y.

  Notation verify := (verify sum sum_eqb H parse).
  Notation read := (read sum parse).
  Notation reach := (reach sum parse).
  Notation slot := (slot sum).
  Notation db := (db sum).
  Notation slot_sum_ok := (slot_sum_ok sum sum_eqb H).
  Notation trees_verify := (trees_verify sum sum_eqb H parse).
  Notation serve := (serve sum parse).
  Notation cov := (cov sum parse).
  Notation select := (select sum sum_eqb H).
  Notation recover := (recover sum sum_eqb H parse).
  Notation slot_near := (slot_near sum).

  Lemma map_ext_forallb : forall (A B : Type) (f g : A -> bool) (h h' : A -> B) (l : list A),
    forallb f l = true -> forallb g l = true ->
    (forall x, In x l -> f x = true -> g x = true -> h x = h' x) ->
    map h l = map h' l.
  Proof.
    induction l as [|a l IH]; simpl; intros Hf Hg Hx; [reflexivity|].
    apply andb_true_iff in Hf as [Hfa Hfl]. apply andb_true_iff in Hg as [Hga Hgl].
    f_equal; [apply Hx; auto | apply IH; auto].
  Qed.

  (* Merkle argument: two images that both verify from the same (pointer, checksum) agree on the
     covered prefix of every page a reader reaches, hence serve the same thing. *)
  Lemma verified_equal_pages : forall d img img' p c,
    verify d img' p c = true -> verify d img p c = true ->
    forall q, In q (reach d img p) -> img' q = img q.
  Proof.
    induction d as [|d IH]; simpl; intros img img' p c Hv' Hv q Hq; [contradiction|].
    destruct (img' p) as [pl'|] eqn:E'; [|discriminate].
    destruct (img p) as [pl|] eqn:E; [|discriminate].
    apply andb_true_iff in Hv' as [Hs' Hk']. apply andb_true_iff in Hv as [Hs Hk].
    apply sum_eqb_spec in Hs'. apply sum_eqb_spec in Hs.
    assert (pl' = pl) by (apply H_inj; congruence). subst pl'.
    destruct Hq as [<-|Hq]; [congruence|].
    apply in_flat_map in Hq as [pc [Hin Hq]].
    rewrite forallb_forall in Hk', Hk.
    eapply IH; [apply Hk'; exact Hin | apply Hk; exact Hin | exact Hq].
  Qed.

  Lemma verified_equal_read : forall d img img' p c,
    verify d img' p c = true -> verify d img p c = true ->
    read d img' p = read d img p.
  Proof.
    induction d as [|d IH]; simpl; intros img img' p c Hv' Hv; [reflexivity|].
    destruct (img' p) as [pl'|] eqn:E'; [|discriminate].
    destruct (img p) as [pl|] eqn:E; [|discriminate].
    apply andb_true_iff in Hv' as [Hs' Hk']. apply andb_true_iff in Hv as [Hs Hk].
    apply sum_eqb_spec in Hs'. apply sum_eqb_spec in Hs.
    assert (pl' = pl) by (apply H_inj; congruence). subst pl'.
    f_equal.
    eapply map_ext_forallb; [exact Hk' | exact Hk |].
    intros pc _ Hx' Hx. cbv beta in Hx', Hx. eapply IH; eassumption.
  Qed.

  Theorem verified_equal : forall d img img' p c,
    verify d img' p c = true -> verify d img p c = true ->
    read d img' p = read d img p /\ forall q, In q (reach d img p) -> img' q = img q.
  Proof.
    intros; split; [eapply verified_equal_read | eapply verified_equal_pages]; eauto.
  Qed.

  (* No hypothesis on H here: the reader's view depends on the covered set only. *)
  Theorem contents_depend_on_cov : forall d img img' p,
    (forall q, In q (reach d img p) -> img' q = img q) ->
    read d img' p = read d img p /\ reach d img' p = reach d img p.
  Proof.
    induction d as [|d IH]; simpl; intros img img' p Hq; [split; reflexivity|].
    assert (Hp : img' p = img p) by (apply Hq; destruct (img p); simpl; auto).
    rewrite Hp. destruct (img p) as [pl|] eqn:E; [|split; reflexivity].
    assert (Hk : forall pc, In pc (parse pl) ->
              read d img' (fst pc) = read d img (fst pc) /\ reach d img' (fst pc) = reach d img (fst pc)).
    { intros pc Hin. apply IH. intros q Hq'. apply Hq. right. apply in_flat_map. eauto. }
    split.
    - f_equal. apply map_ext_in. intros pc Hin. apply Hk; exact Hin.
    - f_equal. clear Hq Hp E.
      induction (parse pl) as [|a l IHl]; simpl; [reflexivity|].
      rewrite (proj2 (Hk a (or_introl eq_refl))). f_equal. apply IHl. intros; apply Hk; right; assumption.
  Qed.

  Theorem page_alteration_detected : forall d img img' p c q,
    verify d img p c = true -> In q (reach d img p) -> img' q <> img q ->
    verify d img' p c = false.
  Proof.
    intros d img img' p c q Hv Hin Hne.
    destruct (verify d img' p c) eqn:E; [|reflexivity].
    exfalso. apply Hne. eapply verified_equal_pages; eauto.
  Qed.

  (* ---- slots *)
  Lemma slot_payload_determined : forall s' s : slot,
    slot_sum_ok s' = true -> slot_sum_ok s = true -> slot_near s' s ->
    s_payload sum s' = s_payload sum s /\ s_sum sum s' = s_sum sum s.
  Proof.
    unfold Merkle.slot_sum_ok, Merkle.slot_near. intros s' s H' H0 Hn.
    apply sum_eqb_spec in H'. apply sum_eqb_spec in H0.
    destruct Hn as [Hs|Hp].
    - split; [apply H_inj; congruence | exact Hs].
    - split; [exact Hp | congruence].
  Qed.

  Theorem slot_alteration_detected : forall s' s : slot,
    slot_sum_ok s = true -> slot_near s' s ->
    (s_payload sum s' <> s_payload sum s \/ s_sum sum s' <> s_sum sum s) ->
    slot_sum_ok s' = false.
  Proof.
    intros s' s H0 Hn Hd. destruct (slot_sum_ok s') eqn:E; [|reflexivity].
    destruct (slot_payload_determined s' s E H0 Hn) as [A B]. destruct Hd; contradiction.
  Qed.

  Lemma serve_equal : forall d img img' (s' s : slot),
    s_payload sum s' = s_payload sum s ->
    trees_verify d img' s' = true -> trees_verify d img s = true ->
    serve d img' s' = serve d img s /\ forall q, In q (cov d img s) -> img' q = img q.
  Proof.
    unfold Merkle.trees_verify, Merkle.serve, Merkle.cov. intros d img img' s' s Hp Hv' Hv.
    rewrite Hp in *. split.
    - eapply map_ext_forallb; [exact Hv' | exact Hv |].
      intros pc _ Hx' Hx. cbv beta in Hx', Hx. eapply verified_equal_read; eassumption.
    - intros q Hq. apply in_flat_map in Hq as [pc [Hin Hq]].
      rewrite forallb_forall in Hv', Hv.
      eapply verified_equal_pages; [apply Hv'; exact Hin | apply Hv; exact Hin | exact Hq].
  Qed.

  Lemma select_checks_sum : forall (x : db) b, select x = Some b -> slot_sum_ok (slot_of sum x b) = true.
  Proof.
    unfold Merkle.select, Merkle.slot_of. intros x b.
    destruct (two_phase sum x).
    - destruct (slot_sum_ok (primary sum x)) eqn:E; intros [= <-]; exact E.
    - destruct (slot_sum_ok (primary sum x)) eqn:E; simpl.
      + destruct (s_txid sum (primary sum x) <? s_txid sum (secondary sum x))%N; simpl.
        * destruct (slot_sum_ok (secondary sum x)) eqn:E2; intros [= <-]; assumption.
        * intros [= <-]; exact E.
      + destruct (slot_sum_ok (secondary sum x)) eqn:E2; intros [= <-]; exact E2.
  Qed.

  Lemma clean_inv : forall d (x : db) s,
    recover d x = Clean sum s ->
    s = primary sum x /\ slot_sum_ok s = true /\ trees_verify d (pages sum x) s = true.
  Proof.
    unfold Merkle.recover. intros d x s.
    destruct (select x) as [b|] eqn:Es; [|discriminate].
    pose proof (select_checks_sum x b Es) as Hok.
    destruct (trees_verify d (pages sum x) (slot_of sum x b)) eqn:Et.
    - destruct b; intros [= <-]. simpl in *. auto.
    - destruct (two_phase sum x); [discriminate|].
      destruct (trees_verify d (pages sum x) (slot_of sum x (negb b))); discriminate.
  Qed.

  Lemma repaired_inv : forall d (x : db) s,
    recover d x = Repaired sum s ->
    (s = primary sum x \/ s = secondary sum x) /\ trees_verify d (pages sum x) s = true.
  Proof.
    unfold Merkle.recover. intros d x s.
    destruct (select x) as [b|] eqn:Es; [|discriminate].
    destruct (trees_verify d (pages sum x) (slot_of sum x b)) eqn:Et.
    - destruct b; intros [= <-]. simpl in *. auto.
    - destruct (two_phase sum x); [discriminate|].
      destruct (trees_verify d (pages sum x) (slot_of sum x (negb b))) eqn:Et2; [|discriminate].
      intros [= <-]. split; [destruct b; simpl; auto | exact Et2].
  Qed.

  (* a slot of the original file: written by a commit, checksummed, its trees intact *)
  Definition genuine (d : nat) (x0 : db) (s0 : slot) : Prop :=
    (s0 = primary sum x0 \/ s0 = secondary sum x0) /\
    slot_sum_ok s0 = true /\ trees_verify d (pages sum x0) s0 = true.

  (* Ok(true): whatever was done to the file, if the verdict is clean and the served slot is a
     one-sided alteration (or an unaltered copy, e.g. after a slot swap) of a genuine slot of the
     original, then what is served is exactly what that slot's commit wrote. *)
  Theorem no_false_clean : forall d (x0 x' : db) (s' s0 : slot),
    recover d x' = Clean sum s' -> genuine d x0 s0 -> slot_near s' s0 ->
    s_payload sum s' = s_payload sum s0 /\ s_sum sum s' = s_sum sum s0 /\
    serve d (pages sum x') s' = serve d (pages sum x0) s0 /\
    forall q, In q (cov d (pages sum x0) s0) -> pages sum x' q = pages sum x0 q.
  Proof.
    intros d x0 x' s' s0 Hc [_ [Hok0 Hv0]] Hn.
    apply clean_inv in Hc as [_ [Hok' Hv']].
    destruct (slot_payload_determined s' s0 Hok' Hok0 Hn) as [Hp Hs].
    destruct (serve_equal d (pages sum x0) (pages sum x') s' s0 Hp Hv' Hv0) as [A B].
    repeat split; assumption.
  Qed.

  (* Ok(false) / repair on open.  The fall-back of do_repair (repair_primary_corrupted) does not
     re-check the other slot's checksum, hence the explicit premise; it holds whenever the slot was
     chosen by select (select_checks_sum) or was not touched by the alteration. *)
  Theorem repaired_is_committed : forall d (x0 x' : db) (s' s0 : slot),
    recover d x' = Repaired sum s' -> slot_sum_ok s' = true -> genuine d x0 s0 -> slot_near s' s0 ->
    s_payload sum s' = s_payload sum s0 /\
    serve d (pages sum x') s' = serve d (pages sum x0) s0 /\
    forall q, In q (cov d (pages sum x0) s0) -> pages sum x' q = pages sum x0 q.
  Proof.
    intros d x0 x' s' s0 Hr Hok' [_ [Hok0 Hv0]] Hn.
    apply repaired_inv in Hr as [_ Hv'].
    destruct (slot_payload_determined s' s0 Hok' Hok0 Hn) as [Hp Hs].
    destruct (serve_equal d (pages sum x0) (pages sum x') s' s0 Hp Hv' Hv0) as [A B].
    repeat split; assumption.
  Qed.

  Lemma trees_verify_false : forall d img img' (s : slot) q,
    trees_verify d img s = true -> In q (cov d img s) -> img' q <> img q ->
    trees_verify d img' s = false.
  Proof.
    intros d img img' s q Hv Hq Hne.
    destruct (trees_verify d img' s) eqn:E; [|reflexivity].
    exfalso. apply Hne.
    destruct (serve_equal d img img' s s eq_refl E Hv) as [_ B]. apply B; exact Hq.
  Qed.

  (* Altering a covered byte of a page of a clean file (header untouched): never clean again;
     either an error, or the other (older) slot is served -- and then repaired_is_committed applies. *)
  Theorem alteration_detected : forall d (x0 x' : db) s0 q,
    recover d x0 = Clean sum s0 ->
    two_phase sum x' = two_phase sum x0 -> primary sum x' = primary sum x0 ->
    secondary sum x' = secondary sum x0 ->
    In q (cov d (pages sum x0) s0) -> pages sum x' q <> pages sum x0 q ->
    recover d x' = Failed sum \/
    (two_phase sum x0 = false /\ recover d x' = Repaired sum (secondary sum x0) /\
     trees_verify d (pages sum x') (secondary sum x0) = true).
  Proof.
    intros d x0 x' s0 q Hc H2 Hp Hs Hq Hne.
    pose proof Hc as Hc'. apply clean_inv in Hc' as [-> [Hok Hv]].
    assert (Hsel : select x' = select x0) by (unfold Merkle.select; rewrite H2, Hp, Hs; reflexivity).
    assert (Hb : select x0 = Some true).
    { unfold Merkle.recover in Hc. destruct (select x0) as [b|]; [|discriminate].
      destruct (trees_verify d (pages sum x0) (slot_of sum x0 b)).
      - destruct b; [reflexivity|discriminate].
      - destruct (two_phase sum x0); [discriminate|].
        destruct (trees_verify d (pages sum x0) (slot_of sum x0 (negb b))); discriminate. }
    pose proof (trees_verify_false d (pages sum x0) (pages sum x') (primary sum x0) q Hv Hq Hne) as Hf.
    unfold Merkle.recover. rewrite Hsel, Hb. simpl. rewrite Hp, Hf, H2, Hs.
    destruct (two_phase sum x0); [left; reflexivity|].
    destruct (trees_verify d (pages sum x') (secondary sum x0)) eqn:E; [right; auto | left; reflexivity].
  Qed.
End MerkleP.

(* ---- facts about the concrete instance used in the examples *)
Require Import RV.Integrity.MerkleEx.

Lemma bytes_eqb_spec : forall a b, bytes_eqb a b = true <-> a = b.
Proof.
  intros a b. unfold bytes_eqb. destruct (list_eq_dec N.eq_dec a b); split; congruence.
Qed.

Lemma H_id_inj : forall x y, H_id x = H_id y -> x = y.
Proof. unfold H_id. auto. Qed.
