(* C12 -- a concrete instance of the Merkle model (definitions only): checksum H := identity on byte
   strings (trivially injective), a toy page format.  Used for the non-vacuity examples. *)
From Coq Require Import List NArith Bool.
Import ListNotations.
Require Import RV.Integrity.Merkle.
Open Scope N_scope.

Definition bytes_eqb (a b : list N) : bool := if list_eq_dec N.eq_dec a b then true else false.
Definition H_id (x : list N) : list N := x.

(* toy covered prefix:  k, then k links (pointer, length of stored sum, stored sum), then data *)
Fixpoint toy_links (n : nat) (l : list N) : list (N * list N) :=
  match n with
  | O => []
  | S n' =>
    match l with
    | p :: len :: rest => (p, firstn (N.to_nat len) rest) :: toy_links n' (skipn (N.to_nat len) rest)
    | _ => []
    end
  end.
Definition toy_parse (pl : list N) : list (N * list N) :=
  match pl with k :: rest => toy_links (N.to_nat k) rest | [] => [] end.

Definition leaf10 : list N := [0; 7; 7].
Definition leaf11 : list N := [0; 8].
Definition branch5 : list N := [2; 10; 3; 0; 7; 7; 11; 2; 0; 8; 99].   (* newest commit: children 10, 11 *)
Definition branch6 : list N := [1; 10; 3; 0; 7; 7; 42].                (* previous commit: child 10 (shared) *)

Definition toy_img : image :=
  fun p => if p =? 10 then Some leaf10 else if p =? 11 then Some leaf11
           else if p =? 5 then Some branch5 else if p =? 6 then Some branch6 else None.

(* page 11 altered inside its covered prefix *)
Definition toy_img_altered : image :=
  fun p => if p =? 11 then Some [0; 9] else toy_img p.

Definition slot_new : slot (list N) :=
  {| s_payload := [1; 5; 11] ++ branch5; s_sum := [1; 5; 11] ++ branch5; s_txid := 7 |}.
Definition slot_old : slot (list N) :=
  {| s_payload := [1; 6; 7] ++ branch6; s_sum := [1; 6; 7] ++ branch6; s_txid := 6 |}.
(* the newest slot with one payload byte altered (stored checksum untouched) *)
Definition slot_new_altered : slot (list N) :=
  {| s_payload := [1; 6; 11] ++ branch5; s_sum := [1; 5; 11] ++ branch5; s_txid := 7 |}.

Definition toy_db (two_pc : bool) (img : image) : db (list N) :=
  {| two_phase := two_pc; primary := slot_new; secondary := slot_old; pages := img |}.

Definition tverify := verify (list N) bytes_eqb H_id toy_parse.
Definition tread := read (list N) toy_parse.
Definition treach := reach (list N) toy_parse.
Definition trecover := recover (list N) bytes_eqb H_id toy_parse.
