(* retain / retain_in on the logical B-tree refine SortedMap.retain_in: the store laws of ScanP.v hold
   for the tree (ScanTreeP.v, SpliceP.v, SpliceTreeP.v), so ScanP.scan_retain_ok applies. *)
From Coq Require Import List NArith Bool Sorted Lia Arith.
From RV Require Import Base.SortedMap Base.SortedMapP Btree.Tree Btree.TreeP Btree.Read Btree.ReadP
  Btree.Mutator Btree.MutatorP Btree.DeleteP Btree.Scan Btree.ScanTree Btree.ScanTreeP Btree.SpliceP
  Btree.RangeMut Btree.SpliceTreeP Btree.ScanP Btree.ScanBackP.
Import ListNotations.

Section RetainTreeP.
  Context {K V : Type}.
  Variable cmp : K -> K -> comparison.
  Hypothesis laws : OrderLaws cmp.
  Variable ksize : K -> N.
  Variable vsize : V -> N.
  Variable fixed_k fixed_v : bool.
  Variable page_size : N.
  Variable sep : K -> K -> K.
  Hypothesis Hsep : valid_sep cmp sep.

  Notation node := (@node K V).
  Notation inv := (@inv K V cmp).
  Notation leaves := (@leaves K V).
  Notation nleaves := (@nleaves K V).
  Notation t_flush := (t_flush ksize vsize fixed_k fixed_v page_size sep).
  Notation t_splice := (t_splice ksize vsize fixed_k fixed_v page_size sep).
  Notation t_seek := (t_seek cmp).
  Notation ok := (TreeInv cmp).
  Notation contents := (ScanP.contents (@bt_leaves K V)).
  Notation leaf_at := (leaf_at (@bt_leaves K V)).

  Lemma t_ok_leaves (bt : @btree K V) : ok bt ->
    Forall (fun l => l <> []) (bt_leaves bt) /\ sorted cmp (contents bt).
  Proof.
    intros Hi. unfold ScanP.contents, bt_leaves. unfold TreeInv in Hi. destruct (bt_root bt) as [t|]; [|split; constructor].
    destruct Hi as [[h Hi] _]. split; [apply (inv_leaves cmp _ _ _ _ Hi)|].
    rewrite <- abs_leaves. eapply (inv_sorted cmp laws); eauto.
  Qed.

  Lemma root_of (bt : @btree K V) : ok bt -> bt_leaves bt <> [] ->
    exists t h, bt_root bt = Some t /\ inv h None None t /\ bt_len bt = len (abs t) /\ h <= fuel_of t /\ fuel_of t = S h.
  Proof.
    intros Hi Hne. unfold TreeInv, bt_leaves in *. destruct (bt_root bt) as [t|]; [|congruence].
    destruct Hi as [[h Hi] Hl]. exists t, h. repeat split; auto; unfold fuel_of; rewrite (inv_height cmp _ _ _ _ Hi); lia.
  Qed.

  Lemma t_seek_ok (bt : @btree K V) p : ok bt -> bt_leaves bt <> [] ->
    let '(j, i) := t_seek bt p in
    j < length (bt_leaves bt) /\ i <= length (leaf_at bt j) /\
    Forall (below cmp p) (ScanP.pre (@bt_leaves K V) bt j ++ firstn i (leaf_at bt j)) /\
    Forall (above cmp p) (skipn i (leaf_at bt j) ++ ScanP.post (@bt_leaves K V) bt j).
  Proof.
    intros Hi Hne. destruct (root_of bt Hi Hne) as (t & h & Er & Hinv & _ & Hf & _).
    unfold ScanTree.t_seek, ScanP.pre, ScanP.post, Scan.leaf_at, bt_leaves. rewrite Er.
    pose proof (seek_sub_spec cmp laws (fuel_of t) t h None None p Hinv Hf) as H.
    destruct (seek_sub cmp (fuel_of t) t p) as [j i]. exact H.
  Qed.

  Lemma t_flush_ok a (bt : @btree K V) j idx : ok bt -> j < length (bt_leaves bt) -> idx <> [] ->
    valid_idx (length (leaf_at bt j)) idx ->
    ok (t_flush a bt j idx) /\
    contents (t_flush a bt j idx) = ScanP.pre (@bt_leaves K V) bt j ++ remove_indexes (leaf_at bt j) idx ++ ScanP.post (@bt_leaves K V) bt j.
  Proof.
    intros Hi Hj _ Hv. apply (t_flush_spec cmp laws ksize vsize fixed_k fixed_v page_size sep Hsep a bt j idx Hi Hj Hv).
  Qed.

  Lemma branch_height (t : node) h : inv h None None t -> (exists c0 rest, t = Branch c0 rest) -> exists h', h = S h'.
  Proof. intros Hi (c0 & rest & ->). inversion Hi; subst. eauto. Qed.

  Lemma t_more_next (bt : @btree K V) j : ok bt -> j < length (bt_leaves bt) ->
    t_more_children bt j DNext = true -> S j < length (bt_leaves bt).
  Proof.
    intros Hi Hj Hm. assert (Hne : bt_leaves bt <> []) by (destruct (bt_leaves bt); [cbn in Hj; lia|discriminate]).
    destruct (root_of bt Hi Hne) as (t & h & Er & Hinv & _ & Hf & Hfe).
    unfold t_more_children, bt_leaves in *. rewrite Er in *.
    destruct (parent_pos (fuel_of t) t j) as [[c n]|] eqn:Ep; [|discriminate].
    destruct t as [es|c0 rest]; [destruct (fuel_of (Leaf es)); cbn in Ep; discriminate|].
    destruct (branch_height _ _ Hinv ltac:(eauto)) as [h' ->].
    destruct (block cmp laws ksize vsize fixed_k fixed_v page_size sep Hsep (fuel_of (Branch c0 rest)) _ h' None None j Hinv ltac:(lia) Hj)
      as (b & m & B1 & B2 & B3 & _).
    specialize (B3 (j - b) ltac:(lia)). replace (b + (j - b)) with j in B3 by lia. rewrite Ep in B3. inversion B3; subst.
    apply Nat.ltb_lt in Hm. unfold nleaves in B2. lia.
  Qed.

  Lemma t_splice_ok (bt : @btree K V) a n es r : ok bt -> 1 <= n -> a + n <= length (bt_leaves bt) ->
    t_has_parent bt a = true -> (forall x, S x < n -> t_more_children bt (a + x) DNext = true) ->
    Subseq es (ScanP.run_leaves (@bt_leaves K V) bt a n) ->
    N.of_nat (length (ScanP.run_leaves (@bt_leaves K V) bt a n)) = (N.of_nat (length es) + r)%N ->
    ok (t_splice bt a n es r) /\
    contents (t_splice bt a n es r) = concat (firstn a (bt_leaves bt)) ++ es ++ concat (skipn (a + n) (bt_leaves bt)).
  Proof.
    intros Hi Hn Han Hp Hmore Hsub Hcnt.
    assert (Hne : bt_leaves bt <> []) by (destruct (bt_leaves bt); [cbn in Han; lia|discriminate]).
    destruct (root_of bt Hi Hne) as (t & h & Er & Hinv & Hlen & Hf & Hfe).
    unfold t_has_parent in Hp. rewrite Er in Hp. destruct t as [es0|c0 rest]; [discriminate|].
    destruct (branch_height _ _ Hinv ltac:(eauto)) as [h' ->].
    assert (Ha : a < nleaves (Branch c0 rest)) by (unfold bt_leaves in Han; rewrite Er in Han; unfold nleaves; lia).
    destruct (block cmp laws ksize vsize fixed_k fixed_v page_size sep Hsep (fuel_of (Branch c0 rest)) _ h' None None a Hinv ltac:(lia) Ha)
      as (b & m & B1 & B2 & B3 & B4).
    (* the run lies inside the block *)
    assert (Hin : forall x, x < n -> a + x < b + m).
    { induction x as [|x IHx]; intros Hx; [lia|].
      specialize (IHx ltac:(lia)). specialize (Hmore x Hx).
      unfold t_more_children in Hmore. rewrite Er in Hmore.
      specialize (B3 (a + x - b) ltac:(lia)). replace (b + (a + x - b)) with (a + x) in B3 by lia. rewrite B3 in Hmore.
      apply Nat.ltb_lt in Hmore. lia. }
    specialize (Hin (n - 1) ltac:(lia)).
    unfold ScanP.run_leaves, ScanP.contents, bt_leaves in *. rewrite Er in *.
    pose proof (inv_leaves cmp _ _ _ _ Hinv) as [_ Hall].
    assert (Hlne : nth a (leaves (Branch c0 rest)) [] <> []).
    { rewrite Forall_forall in Hall. apply Hall. apply nth_In. exact Ha. }
    unfold ScanTree.t_splice, bt_leaves. rewrite Er.
    destruct (nth a (leaves (Branch c0 rest)) []) as [|[k v] l] eqn:En; [congruence|].
    specialize (B4 (a - b) n es k Hn ltac:(lia)). replace (b + (a - b)) with a in B4 by lia.
    specialize (B4 Hsub).
    pose proof (ScanTreeP.finish_ok cmp (S h') _ _ (bt_len bt - r)%N B4) as Hfin.
    assert (Hl : (bt_len bt - r)%N = len (concat (firstn a (leaves (Branch c0 rest))) ++ es ++ concat (skipn (a + n) (leaves (Branch c0 rest))))).
    { rewrite Hlen, abs_leaves. unfold len.
      rewrite (slice_split (leaves (Branch c0 rest)) a n) at 1 by (unfold nleaves in *; lia).
      rewrite !concat_app, !app_length in *. lia. }
    destruct (Hfin Hl) as [F1 F2]. split; [exact F1|].
    cbn [bt_root]. unfold abs_tree in F2. cbn [bt_root] in F2.
    destruct (finish_deletion _) as [t'|] eqn:Efd; [rewrite <- abs_leaves; exact F2|exact F2].
  Qed.

  Theorem t_retain_refines (bt : @btree K V) lo hi p : ok bt ->
    let bt' := t_retain_in cmp ksize vsize fixed_k fixed_v page_size sep bt lo hi p in
    ok bt' /\ abs_tree bt' = SortedMap.retain_in cmp lo hi p (abs_tree bt).
  Proof.
    intros Hi. cbn zeta. unfold t_retain_in.
    pose proof (scan_retain_ok cmp laws (@bt_leaves K V) t_seek t_flush t_splice (@t_has_parent K V) (@t_more_children K V)
                  (t_underfilling ksize vsize fixed_k fixed_v page_size) (t_packs ksize vsize fixed_k fixed_v page_size)
                  ok t_ok_leaves t_seek_ok t_flush_ok t_splice_ok t_more_next
                  ltac:(intros; reflexivity) lo hi p bt (S (length (concat (bt_leaves bt)))) 4 Hi ltac:(lia)
                  ltac:(unfold ScanP.contents; lia)) as H.
    cbn zeta in H. destruct H as [H1 H2]. split; [exact H1|].
    rewrite <- !(contents_abs). exact H2.
  Qed.

  (* extract_if / extract_from_if consumed from the front: n calls of next(), then the iterator is dropped *)
  Variable entry_eqb : K * V -> K * V -> bool.
  Definition t_nexts (lo hi : bound K) (p : K -> V -> bool) :=
    ScanP.nexts cmp (@bt_leaves K V) t_seek t_flush t_splice (@t_has_parent K V) (@t_more_children K V)
      (t_underfilling ksize vsize fixed_k fixed_v page_size) (t_packs ksize vsize fixed_k fixed_v page_size)
      entry_eqb p (fun bt => S (length (concat (bt_leaves bt)))) 4.

  Theorem t_extract_forward_refines (bt : @btree K V) lo hi p n : ok bt ->
    let '(os, x) := t_nexts lo hi p n (t_extract_new bt lo hi) in
    let '(os', st) := ext_run p (repeat true n) (ext_begin cmp (abs_tree bt) lo hi) in
    os = os' /\
    ok (t_extract_close cmp ksize vsize fixed_k fixed_v page_size sep entry_eqb x) /\
    abs_tree (t_extract_close cmp ksize vsize fixed_k fixed_v page_size sep entry_eqb x) = ext_finish st.
  Proof.
    intros Hi. unfold t_nexts, t_extract_new, t_extract_close.
    pose proof (extract_forward_ok cmp laws (@bt_leaves K V) t_seek t_flush t_splice (@t_has_parent K V) (@t_more_children K V)
                  (t_underfilling ksize vsize fixed_k fixed_v page_size) (t_packs ksize vsize fixed_k fixed_v page_size)
                  ok t_ok_leaves t_seek_ok t_flush_ok t_splice_ok t_more_next
                  ltac:(intros; reflexivity) entry_eqb lo hi p (fun bt => S (length (concat (bt_leaves bt))))
                  ltac:(intros; unfold ScanP.contents; lia) 4 ltac:(lia) bt n Hi) as H.
    unfold ScanP.contents in H. rewrite <- (contents_abs bt). unfold ScanTreeP.contents.
    destruct (ScanP.nexts _ _ _ _ _ _ _ _ _ _ _ _ _ n _) as [os x].
    destruct (ext_run p (repeat true n) _) as [os' st]. destruct H as (H1 & H2 & H3).
    split; [exact H1|]. split; [exact H2|]. rewrite <- contents_abs. exact H3.
  Qed.

  (* ---- the backward direction: one more store law, then extract_if / extract_from_if consumed from the BACK *)
  Lemma t_more_prev (bt : @btree K V) j : ok bt -> j < length (bt_leaves bt) ->
    t_more_children bt j DPrev = true -> 1 <= j /\ t_more_children bt (j - 1) DNext = true.
  Proof.
    intros Hi Hj Hm. assert (Hne : bt_leaves bt <> []) by (destruct (bt_leaves bt); [cbn in Hj; lia|discriminate]).
    destruct (root_of bt Hi Hne) as (t & h & Er & Hinv & _ & Hf & Hfe).
    unfold t_more_children, bt_leaves in *. rewrite Er in *.
    destruct (parent_pos (fuel_of t) t j) as [[c n]|] eqn:Ep; [|discriminate].
    destruct t as [es|c0 rest]; [destruct (fuel_of (Leaf es)); cbn in Ep; discriminate|].
    destruct (branch_height _ _ Hinv ltac:(eauto)) as [h' ->].
    destruct (block cmp laws ksize vsize fixed_k fixed_v page_size sep Hsep (fuel_of (Branch c0 rest)) _ h' None None j Hinv ltac:(lia) Hj)
      as (b & m & B1 & B2 & B3 & _).
    pose proof (B3 (j - b) ltac:(lia)) as B3j. replace (b + (j - b)) with j in B3j by lia. rewrite Ep in B3j. inversion B3j; subst.
    apply Nat.ltb_lt in Hm. split; [lia|].
    pose proof (B3 (j - 1 - b) ltac:(lia)) as B3p. replace (b + (j - 1 - b)) with (j - 1) in B3p by lia. rewrite B3p.
    apply Nat.ltb_lt. lia.
  Qed.

  (* a consumption script over the tree: true = next(), false = next_back() *)
  Definition t_xrun (p : K -> V -> bool) :=
    ScanBackP.xrun cmp (@bt_leaves K V) t_seek t_flush t_splice (@t_has_parent K V) (@t_more_children K V)
      (t_underfilling ksize vsize fixed_k fixed_v page_size) (t_packs ksize vsize fixed_k fixed_v page_size)
      entry_eqb p (fun bt => S (length (concat (bt_leaves bt)))) 4.

  Lemma t_xrun_true lo hi p n x : t_xrun p (repeat true n) x = t_nexts lo hi p n x.
  Proof.
    revert x. induction n as [|n IH]; intros x; [reflexivity|].
    unfold t_xrun, t_nexts in *. cbn [repeat ScanBackP.xrun ScanP.nexts].
    match goal with |- (let '(o, x1) := ?E in _) = _ => destruct E as [o x1] end.
    rewrite IH. reflexivity.
  Qed.

  Theorem t_extract_backward_refines (bt : @btree K V) lo hi p n : ok bt ->
    let '(os, x) := t_xrun p (repeat false n) (t_extract_new bt lo hi) in
    let '(os', st) := ext_run p (repeat false n) (ext_begin cmp (abs_tree bt) lo hi) in
    os = os' /\
    ok (t_extract_close cmp ksize vsize fixed_k fixed_v page_size sep entry_eqb x) /\
    abs_tree (t_extract_close cmp ksize vsize fixed_k fixed_v page_size sep entry_eqb x) = ext_finish st.
  Proof.
    intros Hi. unfold t_xrun, t_extract_new, t_extract_close.
    pose proof (extract_backward_ok cmp laws (@bt_leaves K V) t_seek t_flush t_splice (@t_has_parent K V) (@t_more_children K V)
                  (t_underfilling ksize vsize fixed_k fixed_v page_size) (t_packs ksize vsize fixed_k fixed_v page_size)
                  ok t_ok_leaves t_seek_ok t_flush_ok t_splice_ok t_more_prev
                  ltac:(intros; reflexivity) entry_eqb lo hi p (fun bt => S (length (concat (bt_leaves bt))))
                  ltac:(intros; unfold ScanP.contents; lia) 4 ltac:(lia) bt n Hi) as H.
    unfold ScanP.contents in H. rewrite <- (contents_abs bt). unfold ScanTreeP.contents.
    destruct (ScanBackP.xrun _ _ _ _ _ _ _ _ _ _ _ _ _ (repeat false n) _) as [os x].
    destruct (ext_run p (repeat false n) _) as [os' st]. destruct H as (H1 & H2 & H3).
    split; [exact H1|]. split; [exact H2|]. rewrite <- contents_abs. exact H3.
  Qed.

  (* the same two theorems for a uniform script: all next() or all next_back() *)
  Theorem t_extract_onedir_refines (bt : @btree K V) lo hi p (front : bool) n : ok bt ->
    let '(os, x) := t_xrun p (repeat front n) (t_extract_new bt lo hi) in
    let '(os', st) := ext_run p (repeat front n) (ext_begin cmp (abs_tree bt) lo hi) in
    os = os' /\
    ok (t_extract_close cmp ksize vsize fixed_k fixed_v page_size sep entry_eqb x) /\
    abs_tree (t_extract_close cmp ksize vsize fixed_k fixed_v page_size sep entry_eqb x) = ext_finish st.
  Proof.
    intros Hi. destruct front.
    - rewrite (t_xrun_true lo hi). exact (t_extract_forward_refines bt lo hi p n Hi).
    - exact (t_extract_backward_refines bt lo hi p n Hi).
  Qed.
End RetainTreeP.
