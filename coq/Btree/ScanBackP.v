(* The cursor machine of Scan.v scanning BACKWARD (Direction::Previous): the mirror of the forward lemmas of
   ScanP.v, for every store that satisfies the interface laws (the laws of ScanP.v plus `more_prev`: a leaf
   that has a previous sibling under its parent is preceded by a leaf that has a following sibling there).
   A backward cursor at gap (j, i) has scanned the entries of leaf j at indexes >= i and everything behind
   leaf j; its batch is recorded in decreasing order; a coalescing run grows towards smaller leaf numbers. *)
From Coq Require Import List NArith Bool Sorted Lia Arith.
From RV Require Import Base.SortedMap Base.SortedMapP Btree.Tree Btree.Read Btree.ReadP Btree.Scan Btree.RangeMut Btree.ScanTreeP Btree.SpliceP Btree.ScanP.
Import ListNotations.

Section RemoveIndexesB.
  Context {K V : Type}.
  Implicit Types (es : list (K * V)) (R : list nat).

  (* indexes beyond the first part do not touch it *)
  Lemma remove_from_skip es1 : forall o R es2, Forall (fun x => o + length es1 <= x) R ->
    remove_indexes_from o (es1 ++ es2) R = es1 ++ remove_indexes_from (o + length es1) es2 R.
  Proof.
    induction es1 as [|e r IH]; intros o R es2 HR; cbn [app length].
    - now rewrite Nat.add_0_r.
    - cbn [remove_indexes_from]. destruct R as [|x R'].
      + now rewrite remove_from_nil.
      + assert (E : Nat.eqb x o = false) by (apply Nat.eqb_neq; inversion HR; subst; cbn in *; lia). rewrite E.
        f_equal. rewrite IH.
        * f_equal. f_equal. lia.
        * eapply Forall_impl; [|exact HR]. cbn. intros; lia.
  Qed.

  Lemma sorted_snoc_lt (l : list nat) x : StronglySorted lt (l ++ [x]) -> Forall (fun y => y < x) l.
  Proof.
    induction l as [|a l IH]; cbn; intros H; [constructor|].
    inversion H as [|? ? Hs Hf]; subst. constructor; [|now apply IH].
    rewrite Forall_forall in Hf. apply Hf. apply in_or_app. right. cbn. auto.
  Qed.

  Lemma last_opt_In {A} (l : list A) y : last_opt l = Some y -> In y l.
  Proof.
    induction l as [|a l IH]; [discriminate|]. destruct l as [|b l']; cbn in *.
    - intros H. inversion H. auto.
    - intros H. right. apply IH. exact H.
  Qed.

  (* take_removals_ascending on a batch recorded by a backward scan *)
  Lemma ascending_desc R : StronglySorted lt (rev R) -> ascending R = rev R.
  Proof.
    intros HS. unfold ascending. destruct R as [|x R']; [reflexivity|].
    destruct (last_opt (x :: R')) as [y|] eqn:El.
    2:{ apply last_opt_none in El. discriminate. }
    destruct R' as [|z R''].
    - cbn in El. inversion El; subst. rewrite Nat.ltb_irrefl. reflexivity.
    - assert (Hy : In y (z :: R'')) by (apply last_opt_In; exact El).
      cbn [rev] in HS. change (rev R'' ++ [z]) with (rev (z :: R'')) in HS.
      apply sorted_snoc_lt in HS. rewrite Forall_forall in HS. specialize (HS y ltac:(now apply -> in_rev)).
      assert (E : Nat.ltb y x = true) by (apply Nat.ltb_lt; exact HS). now rewrite E.
  Qed.

  Lemma sorted_lt_cons_rev (R : list nat) x : StronglySorted lt (rev R) -> Forall (fun y => x < y) R ->
    StronglySorted lt (rev (R ++ [x])).
  Proof.
    intros HS HF. rewrite rev_app_distr. cbn. constructor; [exact HS|].
    rewrite Forall_forall in *. intros y Hy. apply HF. now apply in_rev.
  Qed.
End RemoveIndexesB.

Section ScanBackP.
  Context {K V T : Type}.
  Variable cmp : K -> K -> comparison.
  Hypothesis laws : OrderLaws cmp.

  Variable leaves : T -> list (list (K * V)).
  Variable seek : T -> seekpos K -> nat * nat.
  Variable flush : bool -> T -> nat -> list nat -> T.
  Variable splice : T -> nat -> nat -> list (K * V) -> N -> T.
  Variable has_parent : T -> nat -> bool.
  Variable more_children : T -> nat -> direction -> bool.
  Variable underfilling : list (K * V) -> bool.
  Variable packs : list (K * V) -> bool.
  Variable ok : T -> Prop.

  Notation sorted := (@sorted K V cmp).
  Notation leaf_at := (leaf_at leaves).
  Notation cstate := (@cstate K V).
  Notation contents := (ScanP.contents leaves).
  Notation pre := (ScanP.pre leaves).
  Notation post := (ScanP.post leaves).
  Notation run_leaves := (ScanP.run_leaves leaves).

  Hypothesis ok_leaves : forall t, ok t -> Forall (fun l => l <> []) (leaves t) /\ sorted (contents t).
  Hypothesis seek_ok : forall t p, ok t -> leaves t <> [] ->
    let '(j, i) := seek t p in
    j < length (leaves t) /\ i <= length (leaf_at t j) /\
    Forall (below cmp p) (pre t j ++ firstn i (leaf_at t j)) /\ Forall (above cmp p) (skipn i (leaf_at t j) ++ post t j).
  Hypothesis flush_ok : forall a t j idx, ok t -> j < length (leaves t) -> idx <> [] ->
    valid_idx (length (leaf_at t j)) idx ->
    ok (flush a t j idx) /\ contents (flush a t j idx) = pre t j ++ remove_indexes (leaf_at t j) idx ++ post t j.
  Hypothesis splice_ok : forall t a n es r, ok t -> 1 <= n -> a + n <= length (leaves t) ->
    has_parent t a = true -> (forall x, S x < n -> more_children t (a + x) DNext = true) ->
    Subseq es (run_leaves t a n) -> N.of_nat (length (run_leaves t a n)) = (N.of_nat (length es) + r)%N ->
    ok (splice t a n es r) /\ contents (splice t a n es r) = concat (firstn a (leaves t)) ++ es ++ concat (skipn (a + n) (leaves t)).
  Hypothesis more_prev : forall t j, ok t -> j < length (leaves t) -> more_children t j DPrev = true ->
    1 <= j /\ more_children t (j - 1) DNext = true.
  Hypothesis has_parent_const : forall t j j', has_parent t j = has_parent t j'.

  Lemma viewb t j : j < length (leaves t) -> contents t = pre t j ++ leaf_at t j ++ post t j.
  Proof. apply concat_view. Qed.

  Lemma leaf_nonemptyb t j : ok t -> j < length (leaves t) -> leaf_at t j <> [].
  Proof.
    intros Hok Hj. destruct (ok_leaves t Hok) as [Hall _]. rewrite Forall_forall in Hall.
    apply Hall. unfold Scan.leaf_at. now apply nth_In.
  Qed.

  Lemma pre_Sb t j : j < length (leaves t) -> pre t (S j) = pre t j ++ leaf_at t j.
  Proof. apply concat_firstn_S. Qed.

  Lemma post_Sb t j : S j < length (leaves t) -> post t j = leaf_at t (S j) ++ post t (S j).
  Proof. intros H. unfold ScanP.post. now apply concat_skipn_S. Qed.

  Lemma pre_0 t : pre t 0 = [].
  Proof. reflexivity. Qed.

  Lemma run_leaves_1 t j : j < length (leaves t) -> run_leaves t j 1 = leaf_at t j.
  Proof. intros Hj. unfold ScanP.run_leaves. rewrite (skipn_cons_nth (leaves t) j [] Hj). cbn. now rewrite app_nil_r. Qed.

  (* a run extended by the leaf in front of it *)
  Lemma run_leaves_cons t j n : j < length (leaves t) -> run_leaves t j (S n) = leaf_at t j ++ run_leaves t (S j) n.
  Proof.
    intros Hj. unfold ScanP.run_leaves. rewrite (skipn_cons_nth (leaves t) j [] Hj). cbn [firstn concat]. reflexivity.
  Qed.

  Lemma skipn_plus {A} (l : list A) : forall a b, skipn a (skipn b l) = skipn (a + b) l.
  Proof.
    intros a b. revert l. induction b as [|b IH]; intros l; [now rewrite Nat.add_0_r|].
    destruct l as [|x l]; [now rewrite !skipn_nil|]. replace (a + S b) with (S (a + b)) by lia. cbn [skipn]. apply IH.
  Qed.

  Lemma post_run t j n : post t j = run_leaves t (S j) n ++ concat (skipn (S j + n) (leaves t)).
  Proof.
    unfold ScanP.post, ScanP.run_leaves. rewrite <- concat_app. f_equal.
    replace (S j + n) with (n + S j) by lia. rewrite <- skipn_plus. now rewrite firstn_skipn.
  Qed.

  (* ---- well-formed cursor states of a BACKWARD scan *)
  Definition run_wfb (t : T) (j : nat) (r : option (direction * run)) : Prop :=
    match r with
    | None => True
    | Some (d, r) =>
        d = DPrev /\ r_first r = S j /\ 1 <= r_count r /\ r_first r + r_count r <= length (leaves t) /\
        has_parent t (r_first r) = true /\ more_children t (r_first r) DPrev = true /\
        (forall x, S x < r_count r -> more_children t (r_first r + x) DNext = true) /\
        Subseq (r_entries r) (run_leaves t (r_first r) (r_count r)) /\
        N.of_nat (length (run_leaves t (r_first r) (r_count r))) = (N.of_nat (length (r_entries r)) + r_removed r)%N
    end.

  Definition wfb (t : T) (c : cstate) : Prop :=
    match c_pos c with
    | None => c_removed c = [] /\ c_run c = None
    | Some (j, i) =>
        j < length (leaves t) /\ i <= length (leaf_at t j) /\
        StronglySorted lt (rev (c_removed c)) /\ Forall (fun x => i <= x < length (leaf_at t j)) (c_removed c) /\
        run_wfb t j (c_run c)
    end.

  Definition run_suffix (t : T) (j : nat) (r : option (direction * run)) : list (K * V) :=
    match r with
    | None => post t j
    | Some (_, r) => r_entries r ++ concat (skipn (r_first r + r_count r) (leaves t))
    end.

  (* the scanned part as it will be once everything pending is applied, and the part not yet scanned *)
  Definition VPb (t : T) (c : cstate) : list (K * V) :=
    match c_pos c with
    | None => contents t
    | Some (j, i) => remove_indexes_from i (skipn i (leaf_at t j)) (rev (c_removed c)) ++ run_suffix t j (c_run c)
    end.
  Definition Bsb (t : T) (c : cstate) : list (K * V) :=
    match c_pos c with
    | None => []
    | Some (j, i) => pre t j ++ firstn i (leaf_at t j)
    end.

  Notation seek_to := (seek_to leaves seek).
  Notation close_current_leaf := (close_current_leaf leaves flush splice has_parent more_children underfilling packs).
  Notation advance_past_closed_leaf := (advance_past_closed_leaf leaves seek flush splice has_parent more_children underfilling packs).
  Notation ensure_has_entry := (ensure_has_entry leaves seek flush splice has_parent more_children underfilling packs).
  Notation finish_pending := (finish_pending leaves flush splice has_parent more_children underfilling packs).
  Notation splice_open := (splice_open splice).

  Lemma VPb_subseq t c j i : wfb t c -> c_pos c = Some (j, i) ->
    Subseq (VPb t c) (skipn i (leaf_at t j) ++ post t j).
  Proof.
    unfold wfb, VPb. intros Hwf E. rewrite E in *. destruct Hwf as (Hj & Hi & HS & HF & Hrun).
    apply Subseq_app; [apply remove_indexes_from_Subseq|].
    destruct (c_run c) as [[d r]|]; cbn [run_suffix]; [|apply Subseq_refl].
    destruct Hrun as (_ & Ej & _ & _ & _ & _ & _ & Hsub & _). rewrite (post_run t j (r_count r)), <- Ej.
    apply Subseq_app; [exact Hsub|apply Subseq_refl].
  Qed.

  (* at the start of a leaf: everything scanned is at least the leaf's first key, everything else is below it *)
  Lemma bounds_at_leaf_start t j (X : list (K * V)) : ok t -> j < length (leaves t) -> Subseq X (leaf_at t j ++ post t j) ->
    exists k, boundary_key (leaf_at t j) DPrev = Some k /\
      Forall (fun e => cmp k (fst e) <> Gt) X /\ Forall (fun e => cmp (fst e) k = Lt) (pre t j).
  Proof.
    intros Hok Hj Hsub. destruct (ok_leaves t Hok) as [_ Hs]. rewrite (viewb t j Hj) in Hs.
    pose proof (leaf_nonemptyb t j Hok Hj) as Hne.
    destruct (leaf_at t j) as [|x l'] eqn:El; [congruence|].
    exists (fst x). split; [reflexivity|].
    apply (sorted_app_inv cmp) in Hs as (_ & Hs2 & Hlt).
    split.
    - eapply Subseq_Forall; [exact Hsub|]. rewrite Forall_forall. intros e He.
      exact (first_min cmp laws ((x :: l') ++ post t j) x Hs2 eq_refl e He).
    - rewrite Forall_forall. intros e He. apply Hlt; [exact He|]. cbn. auto.
  Qed.

  (* reseeking in front of the boundary key in the rewritten store lands on the same gap *)
  Lemma reseek_before t k X Y : ok t -> contents t = X ++ Y ->
    Forall (fun e => cmp (fst e) k = Lt) X -> Forall (fun e => cmp k (fst e) <> Gt) Y ->
    let c' := mk_cstate (seek_to t (PBefore k)) [] false None in
    wfb t c' /\ Bsb t c' = X /\ VPb t c' = Y /\ (c_pos c' = None -> X = []).
  Proof.
    intros Hok Hc HX HY. unfold Scan.seek_to, has_root. destruct (leaves t) as [|l0 ls] eqn:EL.
    - unfold ScanP.contents in Hc. rewrite EL in Hc. cbn in Hc. symmetry in Hc. apply app_eq_nil in Hc as [-> ->].
      cbn. unfold wfb, VPb, Bsb, ScanP.contents. cbn. rewrite EL. cbn. auto.
    - pose proof (seek_ok t (PBefore k) Hok ltac:(rewrite EL; discriminate)) as Hseek.
      destruct (seek t (PBefore k)) as [j i]. destruct Hseek as (Hj & Hi & Hb & Ha).
      cbn zeta. unfold wfb, VPb, Bsb. cbn [c_pos c_removed c_run run_suffix rev].
      rewrite remove_from_nil.
      assert (Hsplit : (pre t j ++ firstn i (leaf_at t j)) ++ (skipn i (leaf_at t j) ++ post t j) = X ++ Y).
      { rewrite <- Hc, (viewb t j Hj). rewrite <- !app_assoc. f_equal. rewrite app_assoc, firstn_skipn. reflexivity. }
      destruct (split_unique (below cmp (PBefore k)) (above cmp (PBefore k))
                  ltac:(cbn; intros e H1 H2; apply (cmp_lt_gt cmp laws) in H1; congruence)
                  _ _ _ _ Hsplit Hb Ha HX HY) as [E1 E2].
      repeat split; auto; try constructor. discriminate.
  Qed.

  (* the path that rewrites the store and reseeks in front of the leaf *)
  Lemma flushed_okb t c j t' : ok t -> wfb t c -> c_pos c = Some (j, 0) ->
    ok t' -> contents t' = Bsb t c ++ VPb t c ->
    let p := match boundary_key (leaf_at t j) DPrev with Some k => seek_to t' (resume_pos DPrev k) | None => None end in
    forall det, let c' := mk_cstate p [] det None in
    wfb t' c' /\ VPb t' c' = VPb t c /\ Bsb t' c' = Bsb t c /\ (p = None -> Bsb t c = []).
  Proof.
    intros Hok Hwf Epos Hok' Hcont p det c'.
    pose proof Hwf as Hwf0. unfold wfb in Hwf0. rewrite Epos in Hwf0. destruct Hwf0 as (Hj & _ & _ & _ & _).
    pose proof (VPb_subseq t c j _ Hwf Epos) as Hsub. cbn [skipn] in Hsub.
    destruct (bounds_at_leaf_start t j (VPb t c) Hok Hj Hsub) as (k & Ek & HY & HX).
    assert (EB : Bsb t c = pre t j).
    { unfold Bsb. rewrite Epos. cbn [firstn]. now rewrite app_nil_r. }
    rewrite <- EB in HX.
    destruct (reseek_before t' k (Bsb t c) (VPb t c) Hok' Hcont HX HY) as (W1 & W2 & W3 & W4).
    unfold c', p. rewrite Ek. cbn [resume_pos].
    unfold wfb, VPb, Bsb in *. cbn [c_pos c_removed c_run] in *. auto.
  Qed.

  Lemma splice_open_okb t c j : ok t -> wfb t c -> c_pos c = Some (j, 0) -> c_removed c = [] ->
    c_run c <> None ->
    let '(t', c') := splice_open t c in
    ok t' /\ contents t' = Bsb t c ++ VPb t c /\ c_pos c' = None /\ c_removed c' = [] /\ c_run c' = None.
  Proof.
    intros Hok Hwf Epos ER Hrun. unfold Scan.splice_open. destruct (c_run c) as [[d r]|] eqn:Er; [|congruence].
    unfold wfb in Hwf. rewrite Epos, Er in Hwf. destruct Hwf as (Hj & _ & _ & _ & Hr).
    destruct Hr as (_ & Ej & Hn & Hle & Hp & _ & Hmore & Hsub & Hcnt).
    destruct (splice_ok t (r_first r) (r_count r) (r_entries r) (r_removed r) Hok Hn Hle Hp Hmore Hsub Hcnt) as [S1 S2].
    split; [exact S1|]. split; [|cbn; auto].
    rewrite S2. unfold VPb, Bsb. rewrite Epos, Er, ER. cbn [run_suffix rev firstn skipn]. rewrite remove_from_nil, app_nil_r.
    rewrite Ej. change (concat (firstn (S j) (leaves t))) with (pre t (S j)). rewrite (pre_Sb t j Hj).
    rewrite <- !app_assoc. reflexivity.
  Qed.

  Definition settled_or_cleanb (t : T) (c : cstate) : Prop :=
    match c_pos c with
    | None => False
    | Some (j, i) => 0 < i \/ (c_removed c = [] /\ c_run c = None)
    end.

  (* stepping to the previous leaf (no mutation) *)
  Lemma step_okb t c j X : ok t -> j < length (leaves t) -> c_pos c = Some (j, 0) -> c_removed c = [] ->
    (forall j', j = S j' -> run_wfb t j' (c_run c) /\ run_suffix t j' (c_run c) = X) ->
    let '(b, c') := step_adjacent leaves t c DPrev in
    (b = true -> wfb t c' /\ VPb t c' = X /\ Bsb t c' = pre t j /\ settled_or_cleanb t c') /\
    (b = false -> c' = c /\ pre t j = []).
  Proof.
    intros Hok Hj Epos ER Hrun. unfold step_adjacent. rewrite Epos.
    destruct j as [|j'].
    - split; [discriminate|]. intros _. split; reflexivity.
    - assert (Hj' : j' < length (leaves t)) by lia.
      pose proof (leaf_nonemptyb t j' Hok Hj') as Hne.
      destruct (Hrun j' eq_refl) as [Hw Hp]. split; [|discriminate]. intros _.
      unfold wfb, VPb, Bsb, settled_or_cleanb. cbn [c_pos c_removed c_run]. rewrite ER.
      rewrite skipn_all, firstn_all. cbn [rev remove_indexes_from app].
      split; [|split; [|split]].
      + repeat split; try lia; try constructor. exact Hw.
      + exact Hp.
      + symmetry. now apply pre_Sb.
      + left. destruct (leaf_at t j'); [congruence|cbn; lia].
  Qed.

  Lemma valid_of_wfb n i (R : list nat) : StronglySorted lt (rev R) -> Forall (fun x => i <= x < n) R -> valid_idx n (rev R).
  Proof.
    intros HS HF. split; [exact HS|]. rewrite Forall_forall in *. intros x Hx. apply in_rev in Hx. specialize (HF x Hx). lia.
  Qed.

  Lemma rev_neq_nil {A} (l : list A) : l <> [] -> rev l <> [].
  Proof. destruct l; [congruence|]. intros _ H. apply (f_equal (@length A)) in H. rewrite rev_length in H. discriminate. Qed.

  (* the retained entries of the leaf at the moment a backward scan leaves it *)
  Lemma retained_at_start t c j : wfb t c -> c_pos c = Some (j, 0) ->
    VPb t c = remove_indexes (leaf_at t j) (rev (c_removed c)) ++ run_suffix t j (c_run c).
  Proof. intros _ Epos. unfold VPb. rewrite Epos. reflexivity. Qed.

  Lemma advance_okb t c j : ok t -> wfb t c -> c_pos c = Some (j, 0) ->
    let '(b, t', c') := advance_past_closed_leaf t c DPrev in
    ok t' /\ wfb t' c' /\ VPb t' c' = VPb t c /\ Bsb t' c' = Bsb t c /\
    (b = false -> Bsb t c = []) /\ (b = true -> settled_or_cleanb t' c').
  Proof.
    intros Hok Hwf Epos. unfold Scan.advance_past_closed_leaf, Scan.close_current_leaf. rewrite Epos.
    pose proof Hwf as Hwf0. unfold wfb in Hwf0. rewrite Epos in Hwf0. destruct Hwf0 as (Hj & _ & HS & HF & Hr0).
    assert (EB : Bsb t c = pre t j) by (unfold Bsb; rewrite Epos; cbn [firstn]; now rewrite app_nil_r).
    destruct (c_removed c) as [|x0 R0] eqn:ER.
    - (* no pending removals in this leaf *)
      destruct (c_run c) as [[d r]|] eqn:Er.
      + pose proof (splice_open_okb t c j Hok Hwf Epos ER ltac:(rewrite Er; discriminate)) as Hsp.
        destruct (splice_open t c) as [t' c1]. destruct Hsp as (S1 & S2 & S3 & S4 & S5).
        destruct (flushed_okb t c j t' Hok Hwf Epos S1 S2 (c_detached c1)) as (F1 & F2 & F3 & F4).
        rewrite S4, S5. split; [exact S1|]. split; [exact F1|]. split; [exact F2|]. split; [exact F3|].
        destruct (boundary_key (leaf_at t j) DPrev) as [k|]; cbn [resume_pos] in *.
        * destruct (seek_to t' (PBefore k)) as [[j' i']|] eqn:Es.
          -- split; [discriminate|]. intros _. unfold settled_or_cleanb. cbn. auto.
          -- split; [intros _; now apply F4|discriminate].
        * split; [intros _; now apply F4|discriminate].
      + assert (HX : forall j', j = S j' -> run_wfb t j' (c_run c) /\ run_suffix t j' (c_run c) = VPb t c).
        { intros j' ->. rewrite Er. split; [exact I|]. unfold VPb. rewrite Epos, Er, ER. cbn [run_suffix rev skipn].
          rewrite remove_from_nil. now apply post_Sb. }
        pose proof (step_okb t c j (VPb t c) Hok Hj Epos ER HX) as Hst.
        destruct (step_adjacent leaves t c DPrev) as [b c']. destruct Hst as [H1 H2].
        split; [exact Hok|]. destruct b.
        * destruct (H1 eq_refl) as (W1 & W2 & W3 & W4). rewrite EB. repeat split; auto. discriminate.
        * destruct (H2 eq_refl) as [-> Hp]. rewrite EB. repeat split; auto. discriminate.
    - (* pending removals *)
      rewrite <- ER in *. assert (HRne : c_removed c <> []) by (rewrite ER; discriminate).
      rewrite (ascending_desc _ HS).
      assert (Hvalid : valid_idx (length (leaf_at t j)) (rev (c_removed c))) by (eapply valid_of_wfb; eauto).
      set (retained := remove_indexes (leaf_at t j) (rev (c_removed c))).
      assert (EVP : VPb t c = retained ++ run_suffix t j (c_run c)) by (now apply retained_at_start).
      destruct (negb (underfilling retained || match c_run c with Some _ => true | None => false end) || negb (has_parent t j)) eqn:Ecase.
      + (* direct flush *)
        assert (Hnorun : c_run c = None).
        { destruct (c_run c) as [[d r]|] eqn:Er; [|reflexivity]. exfalso.
          destruct Hr0 as (_ & _ & _ & _ & Hp & _). rewrite (has_parent_const t j (r_first r)), Hp in Ecase.
          rewrite orb_true_r in Ecase. cbn in Ecase. discriminate. }
        destruct (flush_ok (negb (c_detached c)) t j (rev (c_removed c)) Hok Hj (rev_neq_nil _ HRne) Hvalid) as [Fo Fc].
        assert (Hcont : contents (flush (negb (c_detached c)) t j (rev (c_removed c))) = Bsb t c ++ VPb t c).
        { rewrite Fc, EVP, EB, Hnorun. cbn [run_suffix]. fold retained. reflexivity. }
        destruct (flushed_okb t c j _ Hok Hwf Epos Fo Hcont false) as (F1 & F2 & F3 & F4).
        cbn [c_removed c_detached c_run]. split; [exact Fo|]. split; [exact F1|]. split; [exact F2|]. split; [exact F3|].
        destruct (boundary_key (leaf_at t j) DPrev) as [k|]; cbn [resume_pos] in *.
        * destruct (seek_to (flush (negb (c_detached c)) t j (rev (c_removed c))) (PBefore k)) as [[j' i']|] eqn:Es.
          -- split; [discriminate|]. intros _. unfold settled_or_cleanb. cbn. auto.
          -- split; [intros _; now apply F4|discriminate].
        * split; [intros _; now apply F4|discriminate].
      + (* the leaf joins a coalescing run *)
        apply orb_false_iff in Ecase as [_ Ehp]. apply negb_false_iff in Ehp.
        assert (Hrn : exists r', run_append (c_run c) DPrev j retained (length (rev (c_removed c))) = (DPrev, r') /\
                  r_first r' = j /\ 1 <= r_count r' /\ r_first r' + r_count r' <= length (leaves t) /\
                  has_parent t (r_first r') = true /\
                  (forall x, S x < r_count r' -> more_children t (r_first r' + x) DNext = true) /\
                  Subseq (r_entries r') (run_leaves t (r_first r') (r_count r')) /\
                  N.of_nat (length (run_leaves t (r_first r') (r_count r'))) = (N.of_nat (length (r_entries r')) + r_removed r')%N /\
                  r_entries r' ++ concat (skipn (r_first r' + r_count r') (leaves t)) = VPb t c).
        { pose proof (remove_indexes_length _ _ Hvalid) as Hlen. fold retained in Hlen.
          pose proof (remove_indexes_from_Subseq (leaf_at t j) 0 (rev (c_removed c))) as Hsubr.
          fold (remove_indexes (leaf_at t j) (rev (c_removed c))) in Hsubr. fold retained in Hsubr.
          unfold run_append. destruct (c_run c) as [[d r]|] eqn:Er.
          - destruct Hr0 as (Ed & Ej & Hn & Hle & Hp & Hmp & Hmore & Hsub & Hcnt). subst d.
            eexists. split; [reflexivity|]. cbn [r_first r_count r_entries r_removed].
            assert (Hrl : run_leaves t j (S (r_count r)) = leaf_at t j ++ run_leaves t (r_first r) (r_count r)).
            { rewrite run_leaves_cons by lia. now rewrite Ej. }
            destruct (more_prev t (r_first r) Hok ltac:(lia) Hmp) as [_ Hmn]. rewrite Ej in Hmn. cbn in Hmn. rewrite Nat.sub_0_r in Hmn.
            split; [reflexivity|]. split; [lia|]. split; [lia|]. split; [rewrite (has_parent_const t j (r_first r)); exact Hp|].
            split.
            { intros x Hx. destruct x as [|x]; [now rewrite Nat.add_0_r|].
              replace (j + S x) with (r_first r + x) by lia. apply Hmore. lia. }
            split; [rewrite Hrl; now apply Subseq_app|]. split.
            + rewrite Hrl, !app_length. lia.
            + rewrite EVP. cbn [run_suffix]. replace (j + S (r_count r)) with (r_first r + r_count r) by lia. now rewrite app_assoc.
          - eexists. split; [reflexivity|]. cbn [r_first r_count r_entries r_removed].
            pose proof (run_leaves_1 t j Hj) as Hrl.
            split; [reflexivity|]. split; [lia|]. split; [lia|]. split; [exact Ehp|]. split; [intros x Hx; lia|].
            split; [now rewrite Hrl|]. split; [rewrite Hrl; lia|]. rewrite EVP. cbn [run_suffix].
            replace (j + 1) with (S j) by lia. reflexivity. }
        destruct Hrn as (r' & Ern & Ej' & Hn' & Hle' & Hp' & Hmore' & Hsub' & Hcnt' & Hsuf').
        rewrite Ern.
        destruct (packs retained && more_children t j DPrev) eqn:Ekeep.
        * (* absorbed: the run stays open, the scan steps to the previous sibling *)
          apply andb_true_iff in Ekeep as [_ Emore].
          destruct (more_prev t j Hok Hj Emore) as [Hj1 _].
          set (c1 := mk_cstate (Some (j, 0)) [] false (Some (DPrev, r'))).
          assert (HX : forall j', j = S j' -> run_wfb t j' (c_run c1) /\ run_suffix t j' (c_run c1) = VPb t c).
          { intros j' Ejj. unfold c1. cbn [c_run run_wfb run_suffix]. split; [|exact Hsuf'].
            rewrite Ej'. repeat split; auto; try lia. now rewrite <- Ej'. now rewrite <- Ej'. now rewrite <- Ej'. }
          pose proof (step_okb t c1 j (VPb t c) Hok Hj eq_refl eq_refl HX) as Hst.
          destruct (step_adjacent leaves t c1 DPrev) as [b c']. destruct Hst as [H1 H2].
          split; [exact Hok|]. destruct b.
          -- destruct (H1 eq_refl) as (W1 & W2 & W3 & W4). rewrite EB. repeat split; auto. discriminate.
          -- destruct (H2 eq_refl) as [_ Hp]. exfalso.
             destruct j as [|j0]; [lia|]. rewrite (pre_Sb t j0 ltac:(lia)) in Hp.
             pose proof (leaf_nonemptyb t j0 Hok ltac:(lia)) as Hne.
             apply app_eq_nil in Hp as [_ Hp]. congruence.
        * (* the run ends here: splice and reseek *)
          cbn [Scan.splice_open c_run c_removed c_detached].
          destruct (splice_ok t (r_first r') (r_count r') (r_entries r') (r_removed r') Hok Hn' Hle' Hp' Hmore' Hsub' Hcnt') as [So Sc].
          assert (Hcont : contents (splice t (r_first r') (r_count r') (r_entries r') (r_removed r')) = Bsb t c ++ VPb t c).
          { rewrite Sc, EB, <- Hsuf', Ej'. reflexivity. }
          destruct (flushed_okb t c j _ Hok Hwf Epos So Hcont false) as (F1 & F2 & F3 & F4).
          split; [exact So|]. split; [exact F1|]. split; [exact F2|]. split; [exact F3|].
          destruct (boundary_key (leaf_at t j) DPrev) as [k|]; cbn [resume_pos] in *.
          -- destruct (seek_to (splice t (r_first r') (r_count r') (r_entries r') (r_removed r')) (PBefore k)) as [[j' i']|] eqn:Es.
             ++ split; [discriminate|]. intros _. unfold settled_or_cleanb. cbn. auto.
             ++ split; [intros _; now apply F4|discriminate].
          -- split; [intros _; now apply F4|discriminate].
  Qed.

  (* ---- having an entry; moving over it; recording its removal *)
  Definition entry_atb (t : T) (c : cstate) : Prop :=
    match c_pos c with Some (j, i) => 0 < i | None => False end.

  Lemma step_entryb t c j : ok t -> j < length (leaves t) -> c_pos c = Some (j, 0) ->
    fst (step_adjacent leaves t c DPrev) = true -> entry_atb t (snd (step_adjacent leaves t c DPrev)).
  Proof.
    intros Hok Hj Epos. unfold step_adjacent. rewrite Epos. destruct j as [|j']; [discriminate|].
    intros _. unfold entry_atb. cbn. pose proof (leaf_nonemptyb t j' Hok ltac:(lia)) as Hne.
    destruct (leaf_at t j'); [congruence|cbn; lia].
  Qed.

  Lemma advance_cleanb t c j : ok t -> wfb t c -> c_pos c = Some (j, 0) -> c_removed c = [] -> c_run c = None ->
    let '(b, t', c') := advance_past_closed_leaf t c DPrev in b = true -> entry_atb t' c'.
  Proof.
    intros Hok Hwf Epos ER Er. unfold Scan.advance_past_closed_leaf, Scan.close_current_leaf. rewrite Epos, ER, Er.
    pose proof Hwf as Hwf0. unfold wfb in Hwf0. rewrite Epos in Hwf0. destruct Hwf0 as (Hj & _).
    pose proof (step_entryb t c j Hok Hj Epos) as Hs.
    destruct (step_adjacent leaves t c DPrev) as [b c']. cbn [fst snd] in Hs. exact Hs.
  Qed.

  Lemma has_entry_iffb t c j i : c_pos c = Some (j, i) -> (has_entry (leaf_at t j) i DPrev = true <-> entry_atb t c).
  Proof. intros E. unfold has_entry, entry_atb. rewrite E. apply Nat.ltb_lt. Qed.

  Lemma ensure_okb fuel t c : 2 <= fuel -> ok t -> wfb t c ->
    let '(b, t', c') := ensure_has_entry fuel t c DPrev in
    ok t' /\ wfb t' c' /\ VPb t' c' = VPb t c /\ Bsb t' c' = Bsb t c /\
    (b = true -> entry_atb t' c') /\ (b = false -> Bsb t c = []).
  Proof.
    intros Hf Hok Hwf. destruct fuel as [|[|f]]; try lia. clear Hf.
    cbn [Scan.ensure_has_entry]. destruct (c_pos c) as [[j i]|] eqn:Epos.
    2:{ repeat split; auto; try discriminate. intros _. unfold Bsb. now rewrite Epos. }
    destruct (has_entry (leaf_at t j) i DPrev) eqn:Eh.
    { repeat split; auto; try discriminate. intros _. now apply (has_entry_iffb t c j i Epos). }
    assert (Ei : i = 0) by (unfold has_entry in Eh; apply Nat.ltb_ge in Eh; lia).
    subst i. pose proof (advance_okb t c j Hok Hwf Epos) as Ha.
    destruct (advance_past_closed_leaf t c DPrev) as [[b t1] c1]. destruct Ha as (A1 & A2 & A3 & A4 & A5 & A6).
    destruct b.
    2:{ repeat split; auto; discriminate. }
    specialize (A6 eq_refl). unfold settled_or_cleanb in A6.
    destruct (c_pos c1) as [[j1 i1]|] eqn:Epos1; [|contradiction].
    destruct (has_entry (leaf_at t1 j1) i1 DPrev) eqn:Eh1.
    { repeat split; auto; try discriminate. intros _. now apply (has_entry_iffb t1 c1 j1 i1 Epos1). }
    destruct A6 as [Hlt|[ER1 Er1]]; [unfold has_entry in Eh1; apply Nat.ltb_ge in Eh1; lia|].
    assert (Ei1 : i1 = 0) by (unfold has_entry in Eh1; apply Nat.ltb_ge in Eh1; lia).
    subst i1. pose proof (advance_okb t1 c1 j1 A1 A2 Epos1) as Hb. pose proof (advance_cleanb t1 c1 j1 A1 A2 Epos1 ER1 Er1) as Hc.
    destruct (advance_past_closed_leaf t1 c1 DPrev) as [[b2 t2] c2]. destruct Hb as (B1 & B2 & B3 & B4 & B5 & B6).
    destruct b2.
    2:{ repeat split; auto; try congruence; try discriminate. intros _. rewrite <- A4. now apply B5. }
    specialize (Hc eq_refl). unfold entry_atb in Hc. destruct (c_pos c2) as [[j2 i2]|] eqn:Epos2; [|contradiction].
    destruct f as [|f'].
    - cbn [Scan.ensure_has_entry]. rewrite Epos2.
      assert (Eh2 : has_entry (leaf_at t2 j2) i2 DPrev = true) by (unfold has_entry; now apply Nat.ltb_lt). rewrite Eh2.
      repeat split; auto; try congruence; try discriminate. intros _. unfold entry_atb. now rewrite Epos2.
    - cbn [Scan.ensure_has_entry]. rewrite Epos2.
      assert (Eh2 : has_entry (leaf_at t2 j2) i2 DPrev = true) by (unfold has_entry; now apply Nat.ltb_lt). rewrite Eh2.
      repeat split; auto; try congruence; try discriminate. intros _. unfold entry_atb. now rewrite Epos2.
  Qed.

  Lemma entry_existsb t c : wfb t c -> entry_atb t c -> exists j i e, c_pos c = Some (j, S i) /\ nth_error (leaf_at t j) i = Some e /\
    current_entry leaves t c DPrev = Some e.
  Proof.
    unfold wfb, entry_atb, current_entry. destruct (c_pos c) as [[j i]|]; [|contradiction]. intros (_ & Hi & _) Hlt.
    destruct i as [|i]; [lia|]. cbn [entry_index Nat.pred].
    destruct (nth_error (leaf_at t j) i) as [e|] eqn:E.
    - exists j, i, e. auto.
    - apply nth_error_None in E. lia.
  Qed.

  Lemma move_okb t c j i e : wfb t c -> c_pos c = Some (j, S i) -> nth_error (leaf_at t j) i = Some e ->
    wfb t (cursor_move c DPrev) /\ VPb t (cursor_move c DPrev) = e :: VPb t c /\ Bsb t c = Bsb t (cursor_move c DPrev) ++ [e].
  Proof.
    intros Hwf Epos En. unfold cursor_move. rewrite Epos. cbn [move_once Nat.pred].
    unfold wfb, VPb, Bsb in *. rewrite Epos in *. cbn [c_pos c_removed c_run].
    destruct Hwf as (Hj & Hi & HS & HF & Hr).
    split; [|split].
    - repeat split; auto; try lia. eapply Forall_impl; [|exact HF]. cbn. intros; lia.
    - rewrite (skipn_nth_cons _ _ _ En). cbn [remove_indexes_from].
      destruct (rev (c_removed c)) as [|x R'] eqn:ER; [now rewrite remove_from_nil|].
      assert (Hx : In x (c_removed c)) by (apply in_rev; rewrite ER; cbn; auto).
      rewrite Forall_forall in HF. specialize (HF x Hx).
      assert (E : Nat.eqb x i = false) by (apply Nat.eqb_neq; lia). rewrite E. reflexivity.
    - rewrite (firstn_S_snoc _ _ _ En). now rewrite app_assoc.
  Qed.

  Lemma remove_okb t c j i e (df : bool) : wfb t c -> c_pos c = Some (j, S i) -> nth_error (leaf_at t j) i = Some e ->
    wfb t (cursor_remove c DPrev df) /\ VPb t (cursor_remove c DPrev df) = VPb t c /\
    Bsb t c = Bsb t (cursor_remove c DPrev df) ++ [e].
  Proof.
    intros Hwf Epos En. unfold cursor_remove. rewrite Epos. cbn [move_once entry_index Nat.pred].
    unfold wfb, VPb, Bsb in *. rewrite Epos in *. cbn [c_pos c_removed c_run].
    destruct Hwf as (Hj & Hi & HS & HF & Hr).
    assert (Hlt : i < length (leaf_at t j)) by (apply nth_error_Some; congruence).
    split; [|split].
    - repeat split; auto; try lia.
      + apply sorted_lt_cons_rev; [exact HS|]. eapply Forall_impl; [|exact HF]. cbn. intros; lia.
      + apply Forall_app. split; [eapply Forall_impl; [|exact HF]; cbn; intros; lia|]. constructor; [lia|constructor].
    - f_equal. rewrite (skipn_nth_cons _ _ _ En). rewrite rev_app_distr. cbn [rev app remove_indexes_from].
      now rewrite Nat.eqb_refl.
    - rewrite (firstn_S_snoc _ _ _ En). now rewrite app_assoc.
  Qed.

  (* ---- finish_pending_removals: everything pending is applied *)
  Lemma finish_okb t c : ok t -> wfb t c ->
    let '(t', c') := finish_pending t c in ok t' /\ contents t' = Bsb t c ++ VPb t c.
  Proof.
    intros Hok Hwf. unfold Scan.finish_pending.
    destruct (c_pos c) as [[j i]|] eqn:Epos.
    2:{ unfold wfb in Hwf. rewrite Epos in Hwf. destruct Hwf as [ER Er].
        unfold Scan.splice_open. rewrite Er. split; [exact Hok|]. unfold VPb, Bsb. rewrite Epos. reflexivity. }
    pose proof Hwf as Hwf0. unfold wfb in Hwf0. rewrite Epos in Hwf0. destruct Hwf0 as (Hj & Hi & HS & HF & Hr0).
    destruct (c_removed c) as [|x0 R0] eqn:ER.
    - unfold Scan.splice_open. destruct (c_run c) as [[d r]|] eqn:Er.
      + destruct Hr0 as (_ & Ej & Hn & Hle & Hp & _ & Hmore & Hsub & Hcnt).
        destruct (splice_ok t (r_first r) (r_count r) (r_entries r) (r_removed r) Hok Hn Hle Hp Hmore Hsub Hcnt) as [S1 S2].
        split; [exact S1|]. rewrite S2. unfold VPb, Bsb. rewrite Epos, Er, ER. cbn [run_suffix rev]. rewrite remove_from_nil.
        rewrite Ej. change (concat (firstn (S j) (leaves t))) with (pre t (S j)). rewrite (pre_Sb t j Hj).
        rewrite <- (firstn_skipn i (leaf_at t j)) at 1. rewrite <- !app_assoc. reflexivity.
      + split; [exact Hok|]. unfold VPb, Bsb. rewrite Epos, Er, ER. cbn [run_suffix rev]. rewrite remove_from_nil.
        rewrite (viewb t j Hj). rewrite <- (firstn_skipn i (leaf_at t j)) at 1. rewrite <- !app_assoc. reflexivity.
    - rewrite <- ER in *. assert (HRne : c_removed c <> []) by (rewrite ER; discriminate).
      unfold Scan.close_current_leaf. rewrite Epos, ER. rewrite <- ER.
      rewrite (ascending_desc _ HS).
      assert (Hvalid : valid_idx (length (leaf_at t j)) (rev (c_removed c))) by (eapply valid_of_wfb; eauto).
      set (retained := remove_indexes (leaf_at t j) (rev (c_removed c))).
      assert (Eret : retained = firstn i (leaf_at t j) ++ remove_indexes_from i (skipn i (leaf_at t j)) (rev (c_removed c))).
      { unfold retained, remove_indexes. rewrite <- (firstn_skipn i (leaf_at t j)) at 1.
        rewrite remove_from_skip; rewrite firstn_length_le by lia; [reflexivity|].
        rewrite Forall_forall in *. intros x Hx. apply in_rev in Hx. specialize (HF x Hx). cbn. lia. }
      assert (EVB : Bsb t c ++ VPb t c = pre t j ++ retained ++ run_suffix t j (c_run c)).
      { unfold VPb, Bsb. rewrite Epos, Eret. rewrite <- !app_assoc. reflexivity. }
      pose proof (remove_indexes_length _ _ Hvalid) as Hlen. fold retained in Hlen.
      pose proof (remove_indexes_from_Subseq (leaf_at t j) 0 (rev (c_removed c))) as Hsubr.
      fold (remove_indexes (leaf_at t j) (rev (c_removed c))) in Hsubr. fold retained in Hsubr.
      destruct (c_run c) as [[d r]|] eqn:Er.
      + (* an open backward run: the leaf is prepended and the run spliced *)
        destruct Hr0 as (Ed & Ej & Hn & Hle & Hp & Hmp & Hmore & Hsub & Hcnt). subst d.
        assert (Ecase : negb (underfilling retained || true) || negb (has_parent t j) = false).
        { rewrite orb_true_r. cbn. rewrite (has_parent_const t j (r_first r)), Hp. reflexivity. }
        rewrite Ecase. cbn [run_append].
        assert (Hrl : run_leaves t j (S (r_count r)) = leaf_at t j ++ run_leaves t (r_first r) (r_count r)).
        { rewrite run_leaves_cons by lia. now rewrite Ej. }
        destruct (more_prev t (r_first r) Hok ltac:(lia) Hmp) as [_ Hmn]. rewrite Ej in Hmn. cbn in Hmn. rewrite Nat.sub_0_r in Hmn.
        destruct (splice_ok t j (S (r_count r)) (retained ++ r_entries r) (r_removed r + N.of_nat (length (rev (c_removed c)))) Hok
                    ltac:(lia) ltac:(lia) ltac:(rewrite (has_parent_const t j (r_first r)); exact Hp)
                    ltac:(intros x Hx; destruct x as [|x]; [now rewrite Nat.add_0_r|replace (j + S x) with (r_first r + x) by lia; apply Hmore; lia])
                    ltac:(rewrite Hrl; now apply Subseq_app) ltac:(rewrite Hrl, !app_length; lia)) as [S1 S2].
        assert (Hgoal : contents (splice t j (S (r_count r)) (retained ++ r_entries r) (r_removed r + N.of_nat (length (rev (c_removed c))))) = Bsb t c ++ VPb t c).
        { rewrite S2, EVB. cbn [run_suffix]. replace (j + S (r_count r)) with (r_first r + r_count r) by lia.
          rewrite <- !app_assoc. reflexivity. }
        destruct (packs retained && more_children t j DPrev); cbn [Scan.splice_open c_run c_removed c_detached r_first r_count r_entries r_removed];
          (split; [exact S1|exact Hgoal]).
      + (* no run: direct flush, or a run of one leaf spliced at once *)
        destruct (negb (underfilling retained || false) || negb (has_parent t j)) eqn:Ecase.
        * destruct (flush_ok (negb (c_detached c)) t j (rev (c_removed c)) Hok Hj (rev_neq_nil _ HRne) Hvalid) as [Fo Fc].
          cbn [Scan.splice_open c_run]. split; [exact Fo|]. rewrite Fc, EVB. reflexivity.
        * apply orb_false_iff in Ecase as [_ Ehp]. apply negb_false_iff in Ehp. cbn [run_append].
          pose proof (run_leaves_1 t j Hj) as Hrl.
          destruct (splice_ok t j 1 retained (N.of_nat (length (rev (c_removed c)))) Hok ltac:(lia) ltac:(lia) Ehp
                      ltac:(intros x Hx; lia) ltac:(now rewrite Hrl) ltac:(rewrite Hrl; lia)) as [S1 S2].
          assert (Hgoal : contents (splice t j 1 retained (N.of_nat (length (rev (c_removed c))))) = Bsb t c ++ VPb t c).
          { rewrite S2, EVB. cbn [run_suffix]. replace (j + 1) with (S j) by lia. reflexivity. }
          destruct (packs retained && more_children t j DNext); cbn [Scan.splice_open c_run c_removed c_detached r_first r_count r_entries r_removed];
            (split; [exact S1|exact Hgoal]).
  Qed.

  (* ---------------------------------------------------------------- extract_if consumed from the BACK *)
  (* BtreeExtractIf over RangeMut (RangeMut.v) when only next_back() is called: the back end is live, the front end
     stays parked at the lower bound (entry_in_range = above_lower). *)
  Section ExtractBackward.
  Variable entry_eqb : K * V -> K * V -> bool.
  Variables (lo hi : bound K) (p : K -> V -> bool).
  Notation rstate := (@RangeMut.rstate K V T).
  Notation xstate := (@RangeMut.xstate K V T).
  Notation range_peek := (RangeMut.range_peek cmp entry_eqb leaves seek flush splice has_parent more_children underfilling packs).
  Notation range_advance := (RangeMut.range_advance cmp entry_eqb leaves seek flush splice has_parent more_children underfilling packs).
  Notation range_remove := (RangeMut.range_remove cmp entry_eqb leaves seek flush splice has_parent more_children underfilling packs).
  Notation range_close := (RangeMut.range_close cmp entry_eqb leaves seek flush splice has_parent more_children underfilling packs).
  Notation extract_step := (RangeMut.extract_step cmp entry_eqb leaves seek flush splice has_parent more_children underfilling packs).
  Notation extract_next := (RangeMut.extract_next cmp entry_eqb leaves seek flush splice has_parent more_children underfilling packs).
  Notation extract_close := (RangeMut.extract_close cmp entry_eqb leaves seek flush splice has_parent more_children underfilling packs).
  Notation extract_tree := (RangeMut.extract_tree cmp entry_eqb leaves seek flush splice has_parent more_children underfilling packs).
  Notation settle' := (RangeMut.settle' cmp entry_eqb leaves seek flush splice has_parent more_children underfilling packs).

  Lemma snoc_cases {A} (l : list A) : l = [] \/ exists m e, l = m ++ [e].
  Proof. destruct l as [|a l]; [left; reflexivity|right]. destruct (exists_last (l:=a :: l)) as (m & e & ->); [discriminate|eauto]. Qed.

  (* the live back end with its window, against the specification iterator state *)
  Definition bwd_live (t : T) (c : cstate) (st : @ext_state K V) : Prop :=
    ok t /\ wfb t c /\
    (exists G, VPb t c = G ++ x_post st /\ Bsb t c ++ G = x_pre st ++ x_mid st /\ (x_mid st <> [] -> G = [])) /\
    Forall (fun e => above_lower cmp lo (fst e) = true) (x_mid st) /\
    Forall (fun e => above_lower cmp lo (fst e) = false) (x_pre st).

  Definition live_stateb (t : T) (c : cstate) (s : option direction) : rstate :=
    RangeMut.mk_rstate t (EParked lo) (ELive c) s.

  Lemma entry_in_range_lo t c s k : RangeMut.entry_in_range cmp (live_stateb t c s) DPrev k = above_lower cmp lo k.
  Proof. unfold RangeMut.entry_in_range, live_stateb. cbn. destruct lo; reflexivity. Qed.

  (* settle on a live back end *)
  Lemma settle_liveb efuel t c st : 2 <= efuel -> bwd_live t c st ->
    let '(b, r) := settle' efuel (live_stateb t c None) DPrev in
    exists t1 c1, bwd_live t1 c1 st /\
      ((b = true /\ r = live_stateb t1 c1 (Some DPrev) /\ exists m e, x_mid st = m ++ [e] /\ current_entry leaves t1 c1 DPrev = Some e /\ entry_atb t1 c1) \/
       (b = false /\ r = live_stateb t1 c1 None /\ x_mid st = [])).
  Proof.
    intros Hef (Hok & Hwf & (G & HVP & HBs & HG) & Hmid & Hpre).
    unfold RangeMut.settle', live_stateb. cbn [rg_settled RangeMut.activate RangeMut.end_of rg_front rg_tree rg_back RangeMut.set_end RangeMut.set_tree].
    pose proof (ensure_okb efuel t c Hef Hok Hwf) as He.
    destruct (ensure_has_entry efuel t c DPrev) as [[b t1] c1]. destruct He as (E1 & E2 & E3 & E4 & E5 & E6).
    assert (Hl : bwd_live t1 c1 st).
    { refine (conj E1 (conj E2 (conj _ (conj Hmid Hpre)))). exists G. rewrite E3, E4. auto. }
    destruct b.
    - destruct (entry_existsb t1 c1 E2 (E5 eq_refl)) as (j & i & e & Epos & En & Ecur). rewrite Ecur.
      fold (live_stateb t1 c1 None). rewrite entry_in_range_lo.
      (* e ends the unscanned part *)
      destruct (move_okb t1 c1 j i e E2 Epos En) as (_ & _ & M3). rewrite E4 in M3.
      destruct (snoc_cases (x_mid st)) as [Em|(m & e' & Em)].
      + assert (Hin : In e (x_pre st)).
        { rewrite Em, app_nil_r in HBs. rewrite <- HBs, M3. apply in_or_app. left. apply in_or_app. right. cbn. auto. }
        rewrite Forall_forall in Hpre. rewrite (Hpre e Hin).
        exists t1, c1. split; [exact Hl|]. right. auto.
      + assert (EG : G = []) by (apply HG; rewrite Em; destruct m; discriminate). subst G.
        rewrite app_nil_r, M3, Em, app_assoc in HBs. apply app_inj_tail in HBs as [_ ->].
        rewrite Em in Hmid. apply Forall_app in Hmid as [_ Hb]. inversion Hb as [|? ? Hb' _]; subst. rewrite Hb'.
        exists t1, c1. split; [exact Hl|]. left. split; [reflexivity|]. split; [reflexivity|].
        exists m, e'. split; [exact Em|]. split; [exact Ecur|apply E5; reflexivity].
    - exists t1, c1. split; [exact Hl|]. right. split; [reflexivity|]. split; [reflexivity|].
      specialize (E6 eq_refl). destruct (x_mid st) as [|q r]; [reflexivity|]. exfalso.
      rewrite (HG ltac:(discriminate)), app_nil_r, E6 in HBs. destruct (x_pre st); discriminate.
  Qed.

  Lemma settled_removeb efuel t c : range_remove efuel (live_stateb t c (Some DPrev)) DPrev =
    (current_entry leaves t c DPrev, live_stateb t (cursor_remove c DPrev true) None).
  Proof. reflexivity. Qed.

  Lemma settled_advanceb efuel t c : range_advance efuel (live_stateb t c (Some DPrev)) DPrev = live_stateb t (cursor_move c DPrev) None.
  Proof. reflexivity. Qed.

  Lemma finish_norunb t c : c_run (snd (finish_pending t c)) = None.
  Proof.
    assert (H : forall t0 c0, c_run (snd (splice_open t0 c0)) = None).
    { intros t0 c0. unfold Scan.splice_open. destruct (c_run c0) as [[d r]|] eqn:Er; cbn; auto. }
    unfold Scan.finish_pending.
    match goal with |- c_run (snd (let '(t1, c1) := ?X in _)) = None => destruct X as [t1 c1] end.
    apply H.
  Qed.

  (* closing (or dropping) the iterator with a live back end applies everything pending *)
  Lemma close_live_treeb t c s :
    rg_tree (x_range (extract_close (RangeMut.mk_xstate (live_stateb t c s) false))) = fst (finish_pending t c).
  Proof.
    unfold RangeMut.extract_close. cbn [x_closed x_range]. unfold RangeMut.range_close, live_stateb.
    unfold RangeMut.flush_end at 2. cbn [RangeMut.end_of rg_front rg_back rg_tree].
    unfold RangeMut.flush_end. cbn [RangeMut.end_of rg_front rg_back rg_tree].
    pose proof (finish_norunb t c) as Hn. destruct (finish_pending t c) as [t' c']. cbn [snd fst] in *.
    cbn [RangeMut.set_end RangeMut.set_tree rg_tree rg_front rg_back rg_settled].
    unfold RangeMut.park. cbn [RangeMut.set_settled RangeMut.end_of rg_front rg_tree rg_back rg_settled].
    unfold Scan.splice_open. rewrite Hn.
    cbn [RangeMut.set_end RangeMut.set_tree rg_tree rg_front rg_back rg_settled].
    reflexivity.
  Qed.

  Lemma close_liveb t c s st : bwd_live t c st ->
    let x := extract_close (RangeMut.mk_xstate (live_stateb t c s) false) in
    x_closed x = true /\ ok (rg_tree (x_range x)) /\ contents (rg_tree (x_range x)) = ext_finish st.
  Proof.
    intros (Hok & Hwf & (G & HVP & HBs & _) & _ & _). cbn zeta. rewrite close_live_treeb.
    split; [reflexivity|]. pose proof (finish_okb t c Hok Hwf) as Hf. destruct (finish_pending t c) as [t' c'].
    destruct Hf as [F1 F2]. cbn [fst]. split; [exact F1|]. rewrite F2, HVP, app_assoc, HBs. unfold ext_finish. now rewrite <- app_assoc.
  Qed.

  Lemma Bsb_length t c : wfb t c -> length (Bsb t c) <= length (contents t).
  Proof.
    unfold wfb, Bsb. destruct (c_pos c) as [[j i]|]; [|cbn; lia]. intros (Hj & Hi & _).
    rewrite (viewb t j Hj), !app_length, firstn_length. lia.
  Qed.

  Lemma step_bwd efuel : 2 <= efuel -> forall fuel t c st, bwd_live t c st -> length (x_mid st) < fuel ->
    let '(o, x') := extract_step fuel efuel p (live_stateb t c None) DPrev in
    let '(o', st') := ext_next_back p st in
    o = o' /\
    match o with
    | Some _ => exists t' c', x' = RangeMut.mk_xstate (live_stateb t' c' None) false /\ bwd_live t' c' st'
    | None => x_closed x' = true /\ ok (rg_tree (x_range x')) /\ contents (rg_tree (x_range x')) = ext_finish st' /\ x_mid st' = []
    end.
  Proof.
    intros Hef. induction fuel as [|f IH]; intros t c st Hl Hlen; [lia|].
    cbn [RangeMut.extract_step]. unfold RangeMut.range_peek.
    pose proof (settle_liveb efuel t c st Hef Hl) as Hs.
    destruct (settle' efuel (live_stateb t c None) DPrev) as [b r].
    destruct Hs as (t1 & c1 & Hl1 & [(-> & -> & m & e & Em & Ecur & Hent)|(-> & -> & Em)]).
    - (* an entry of the window *)
      cbn [RangeMut.live_cursor RangeMut.end_of live_stateb rg_back rg_tree]. rewrite Ecur. destruct e as [k v].
      destruct Hl1 as (Hok1 & Hwf1 & (G & HVP1 & HBs1 & HG1) & Hmid1 & Hpre1).
      assert (EG : G = []) by (apply HG1; rewrite Em; destruct m; discriminate). subst G.
      cbn [app] in HVP1. rewrite app_nil_r in HBs1.
      destruct (entry_existsb t1 c1 Hwf1 Hent) as (j & i & e' & Epos & En & Ecur'). rewrite Ecur in Ecur'. inversion Ecur'; subst e'.
      unfold ext_next_back. rewrite Em, rev_app_distr. cbn [rev app take_while drop_while fst snd].
      destruct (p k v) eqn:Ep; cbn [negb].
      + (* yielded *)
        fold (live_stateb t1 c1 (Some DPrev)). rewrite settled_removeb, Ecur. split; [reflexivity|].
        exists t1, (cursor_remove c1 DPrev true). split; [reflexivity|].
        destruct (remove_okb t1 c1 j i (k, v) true Hwf1 Epos En) as (R1 & R2 & R3).
        unfold bwd_live. cbn [x_pre x_mid x_post rev app]. rewrite rev_involutive.
        refine (conj Hok1 (conj R1 (conj _ (conj _ Hpre1)))).
        * exists []. cbn [app]. rewrite app_nil_r. split; [now rewrite R2|]. split; [|auto].
          rewrite HBs1, Em, app_assoc in R3. now apply app_inj_tail in R3 as [R3 _].
        * rewrite Em in Hmid1. now apply Forall_app in Hmid1 as [Hm _].
      + (* rejected: step over it *)
        fold (live_stateb t1 c1 (Some DPrev)). rewrite settled_advanceb.
        destruct (move_okb t1 c1 j i (k, v) Hwf1 Epos En) as (M1 & M2 & M3).
        set (st2 := mk_ext (x_pre st) m ((k, v) :: x_post st)).
        assert (Hl2 : bwd_live t1 (cursor_move c1 DPrev) st2).
        { unfold bwd_live, st2. cbn [x_pre x_mid x_post].
          refine (conj Hok1 (conj M1 (conj _ (conj _ Hpre1)))).
          - exists []. cbn [app]. rewrite app_nil_r. split; [now rewrite M2, HVP1|]. split; [|auto].
            rewrite HBs1, Em, app_assoc in M3. now apply app_inj_tail in M3 as [M3 _].
          - rewrite Em in Hmid1. now apply Forall_app in Hmid1 as [Hm _]. }
        specialize (IH t1 (cursor_move c1 DPrev) st2 Hl2 ltac:(unfold st2; cbn [x_mid]; rewrite Em, app_length in Hlen; cbn in Hlen; lia)).
        destruct (extract_step f efuel p (live_stateb t1 (cursor_move c1 DPrev) None) DPrev) as [o x'].
        unfold ext_next_back, st2 in IH. cbn [x_pre x_mid x_post] in IH.
        destruct (drop_while (fun e : K * V => negb (p (fst e) (snd e))) (rev m)) as [|e2 r2] eqn:Ed;
          cbn [rev]; rewrite <- app_assoc; cbn [app]; exact IH.
    - (* the window is exhausted: the iterator closes itself *)
      unfold ext_next_back. rewrite Em. cbn [rev take_while drop_while app].
      split; [reflexivity|].
      destruct (close_liveb t1 c1 None st Hl1) as (C1 & C2 & C3). split; [exact C1|]. split; [exact C2|]. split; [|reflexivity].
      rewrite C3. unfold ext_finish. cbn [x_pre x_mid x_post]. now rewrite Em.
  Qed.

  (* the first next_back() activates the back end at the upper bound *)
  Definition c_startb (t : T) : cstate := mk_cstate (seek_to t (pos_of_upper hi)) [] false None.

  Lemma init_stepb fuel efuel t :
    extract_step (S fuel) efuel p (RangeMut.range_new t lo hi) DPrev = extract_step (S fuel) efuel p (live_stateb t (c_startb t) None) DPrev.
  Proof. reflexivity. Qed.

  Lemma pos_upper_below (e : K * V) : below cmp (pos_of_upper hi) e -> below_upper cmp hi (fst e) = true.
  Proof. destruct hi as [|k|k]; cbn; [reflexivity| |]; intros H; [now apply (kle_iff cmp)|now apply (klt_iff cmp)]. Qed.

  Lemma pos_upper_above (e : K * V) : above cmp (pos_of_upper hi) e -> below_upper cmp hi (fst e) = false.
  Proof.
    destruct hi as [|k|k]; cbn; [contradiction| |]; intros H; [now apply (kle_false_iff cmp laws)|now apply (klt_false_iff cmp laws)].
  Qed.

  Lemma tw_split {A} (f : A -> bool) X Y : Forall (fun e => f e = true) X -> Forall (fun e => f e = false) Y ->
    take_while f (X ++ Y) = X /\ drop_while f (X ++ Y) = Y.
  Proof.
    induction 1 as [|x l Hx _ IH]; cbn; intros HY.
    - destruct HY as [|y Y' Hy _]; cbn; [auto|]. rewrite Hy. auto.
    - rewrite Hx. destruct (IH HY) as [-> ->]. auto.
  Qed.

  Lemma tw_through {A} (f : A -> bool) X Y : Forall (fun e => f e = true) X ->
    take_while f (X ++ Y) = X ++ take_while f Y /\ drop_while f (X ++ Y) = drop_while f Y.
  Proof. induction 1 as [|x l Hx _ [IH1 IH2]]; cbn; [auto|]. rewrite Hx, IH1, IH2. auto. Qed.

  (* where the upper bound cuts the contents, against the window of the specification (which is cut at the lower bound first) *)
  Lemma begin_back_split (X Y : list (K * V)) :
    Forall (fun e => below_upper cmp hi (fst e) = true) X -> Forall (fun e => below_upper cmp hi (fst e) = false) Y ->
    let st := ext_begin cmp (X ++ Y) lo hi in
    exists G, Y = G ++ x_post st /\ X ++ G = x_pre st ++ x_mid st /\ (x_mid st <> [] -> G = []).
  Proof.
    intros HX HY. cbn zeta. unfold ext_begin. cbn [x_pre x_mid x_post].
    set (nb := fun e : K * V => negb (above_lower cmp lo (fst e))). set (bu := fun e : K * V => below_upper cmp hi (fst e)).
    destruct (drop_while nb X) as [|x2 X2] eqn:Ed.
    - (* every entry below the upper bound is below the lower bound: the window is empty *)
      assert (HXn : Forall (fun e => nb e = true) X).
      { rewrite <- (take_drop_while nb X), Ed, app_nil_r. apply take_while_Forall. }
      destruct (tw_through nb X Y HXn) as [T1 T2]. rewrite T1, T2.
      assert (HY2 : Forall (fun e => bu e = false) (drop_while nb Y)).
      { rewrite <- (take_drop_while nb Y) in HY. apply Forall_app in HY. tauto. }
      assert (T3 : take_while bu (drop_while nb Y) = [] /\ drop_while bu (drop_while nb Y) = drop_while nb Y).
      { destruct (drop_while nb Y) as [|q r]; [auto|]. inversion HY2 as [|? ? Hq _]; subst. cbn. rewrite Hq. auto. }
      destruct T3 as [T3 T4]. rewrite T3, T4.
      exists (take_while nb Y). split; [symmetry; apply take_drop_while|]. split; [now rewrite app_nil_r|congruence].
    - (* the window is the tail of X *)
      assert (Hx2 : nb x2 = false) by (eapply drop_while_head; eauto).
      pose proof (take_while_Forall nb X) as HX1. pose proof (take_drop_while nb X) as EX. rewrite Ed in EX.
      destruct (take_while_app_stop nb (take_while nb X) x2 (X2 ++ Y) HX1 Hx2) as [T1 T2].
      assert (EXY : X ++ Y = take_while nb X ++ x2 :: X2 ++ Y) by (rewrite <- EX at 1; now rewrite <- app_assoc).
      rewrite EXY, T1, T2.
      assert (HX2 : Forall (fun e => bu e = true) (x2 :: X2)).
      { rewrite <- EX in HX. apply Forall_app in HX. tauto. }
      destruct (tw_split bu (x2 :: X2) Y HX2 HY) as [T3 T4]. change (x2 :: X2 ++ Y) with ((x2 :: X2) ++ Y). rewrite T3, T4.
      exists []. split; [reflexivity|]. split; [now rewrite app_nil_r|auto].
  Qed.

  Lemma init_liveb t : ok t -> bwd_live t (c_startb t) (ext_begin cmp (contents t) lo hi).
  Proof.
    intros Hok. destruct (ok_leaves t Hok) as [_ Hs].
    assert (Hmid : Forall (fun e => above_lower cmp lo (fst e) = true) (x_mid (ext_begin cmp (contents t) lo hi))).
    { rewrite (ext_begin_mid cmp laws _ lo hi Hs). unfold range. rewrite Forall_forall. intros e He.
      apply filter_In in He as [_ He]. unfold in_range in He. now apply andb_true_iff in He as [He _]. }
    assert (Hpre : Forall (fun e => above_lower cmp lo (fst e) = false) (x_pre (ext_begin cmp (contents t) lo hi))).
    { unfold ext_begin. cbn [x_pre]. eapply Forall_impl; [|apply take_while_Forall]. cbn. intros e He. now apply negb_true_iff in He. }
    refine (conj Hok (conj _ (conj _ (conj Hmid Hpre)))); unfold c_startb, Scan.seek_to, has_root.
    - destruct (leaves t) as [|l0 ls] eqn:EL; [unfold wfb; cbn; auto|].
      pose proof (seek_ok t (pos_of_upper hi) Hok ltac:(rewrite EL; discriminate)) as Hseek.
      destruct (seek t (pos_of_upper hi)) as [j i]. destruct Hseek as (Hj & Hi & _ & _).
      unfold wfb. cbn. repeat split; auto; constructor.
    - destruct (leaves t) as [|l0 ls] eqn:EL.
      + assert (Ec : contents t = []) by (unfold ScanP.contents; now rewrite EL).
        unfold VPb, Bsb. cbn [c_pos]. rewrite Ec. cbn. exists []. repeat split; auto.
      + pose proof (seek_ok t (pos_of_upper hi) Hok ltac:(rewrite EL; discriminate)) as Hseek.
        destruct (seek t (pos_of_upper hi)) as [j i]. destruct Hseek as (Hj & Hi & Hb & Ha).
        unfold VPb, Bsb. cbn [c_pos c_removed c_run run_suffix rev]. rewrite remove_from_nil.
        set (X := pre t j ++ firstn i (leaf_at t j)) in *. set (Y := skipn i (leaf_at t j) ++ post t j) in *.
        assert (Hc : contents t = X ++ Y).
        { unfold X, Y. rewrite (viewb t j Hj). rewrite <- !app_assoc. f_equal. rewrite app_assoc, firstn_skipn. reflexivity. }
        rewrite Hc. apply begin_back_split.
        * eapply Forall_impl; [|exact Hb]. intros e He. now apply pos_upper_below.
        * eapply Forall_impl; [|exact Ha]. intros e He. now apply pos_upper_above.
  Qed.

  (* a consumption script (true = next(), false = next_back()), then the iterator is dropped *)
  Variable fuelf : T -> nat.
  Hypothesis fuelf_ok : forall t, length (contents t) < fuelf t.
  Variable efuel : nat.
  Hypothesis efuel_ok : 2 <= efuel.

  Fixpoint xrun (script : list bool) (x : xstate) : list (option (K * V)) * xstate :=
    match script with
    | [] => ([], x)
    | front :: r =>
        let '(o, x1) := extract_next (fuelf (rg_tree (x_range x))) efuel p x (if front then DNext else DPrev) in
        let '(os, x2) := xrun r x1 in (o :: os, x2)
    end.

  Definition relb (x : xstate) (st : @ext_state K V) : Prop :=
    (x_closed x = true /\ ok (rg_tree (x_range x)) /\ contents (rg_tree (x_range x)) = ext_finish st /\ x_mid st = []) \/
    (exists t c, x = RangeMut.mk_xstate (live_stateb t c None) false /\ bwd_live t c st) \/
    (exists t, x = RangeMut.extract_new t lo hi /\ ok t /\ st = ext_begin cmp (contents t) lo hi).

  Lemma mid_lengthb t c st : bwd_live t c st -> length (x_mid st) < fuelf t.
  Proof.
    intros (_ & Hwf & (G & _ & HBs & HG) & _). pose proof (Bsb_length t c Hwf) as H.
    assert (length (x_mid st) <= length (Bsb t c)).
    { destruct (x_mid st) as [|q r] eqn:Em; [cbn; lia|].
      rewrite (HG ltac:(discriminate)), app_nil_r in HBs. rewrite HBs, app_length. lia. }
    pose proof (fuelf_ok t). lia.
  Qed.

  Lemma next_relb x st : relb x st ->
    let '(o, x') := extract_next (fuelf (rg_tree (x_range x))) efuel p x DPrev in
    let '(o', st') := ext_next_back p st in o = o' /\ relb x' st'.
  Proof.
    intros [(Hc & Hok & Hcont & Hmid)|[(t & c & -> & Hl)|(t & -> & Hok & ->)]].
    - unfold RangeMut.extract_next. rewrite Hc. unfold ext_next_back. rewrite Hmid. cbn [rev take_while drop_while app].
      split; [reflexivity|]. left. cbn [x_mid]. repeat split; auto.
      rewrite Hcont. unfold ext_finish. cbn [x_pre x_mid x_post]. now rewrite Hmid.
    - unfold RangeMut.extract_next. cbn [x_closed x_range rg_tree live_stateb].
      pose proof (step_bwd efuel efuel_ok (fuelf t) t c st Hl (mid_lengthb t c st Hl)) as H.
      destruct (extract_step (fuelf t) efuel p (live_stateb t c None) DPrev) as [o x'].
      destruct (ext_next_back p st) as [o' st']. destruct H as [E H]. split; [exact E|].
      destruct o as [e|].
      + right. left. exact H.
      + left. exact H.
    - unfold RangeMut.extract_next, RangeMut.extract_new. cbn [x_closed x_range rg_tree RangeMut.range_new].
      pose proof (init_liveb t Hok) as Hl.
      pose proof (step_bwd efuel efuel_ok (fuelf t) t (c_startb t) _ Hl (mid_lengthb t _ _ Hl)) as H.
      destruct (fuelf t) as [|f] eqn:Ef; [pose proof (fuelf_ok t); lia|].
      change (RangeMut.mk_rstate t (EParked lo) (EParked hi) None) with (@RangeMut.range_new K V T t lo hi). rewrite init_stepb.
      destruct (extract_step (S f) efuel p (live_stateb t (c_startb t) None) DPrev) as [o x'].
      destruct (ext_next_back p (ext_begin cmp (contents t) lo hi)) as [o' st']. destruct H as [E H]. split; [exact E|].
      destruct o as [e|].
      + right. left. exact H.
      + left. exact H.
  Qed.

  Lemma tree_relb x st : relb x st -> ok (extract_tree x) /\ contents (extract_tree x) = ext_finish st.
  Proof.
    intros [(Hc & Hok & Hcont & _)|[(t & c & -> & Hl)|(t & -> & Hok & ->)]].
    - unfold RangeMut.extract_tree, RangeMut.extract_close. rewrite Hc. auto.
    - unfold RangeMut.extract_tree. destruct (close_liveb t c None st Hl) as (_ & C2 & C3). auto.
    - unfold RangeMut.extract_tree, RangeMut.extract_close, RangeMut.extract_new. cbn [x_closed x_range].
      unfold RangeMut.range_close, RangeMut.flush_end, RangeMut.range_new. cbn [RangeMut.end_of rg_front rg_back rg_tree].
      split; [exact Hok|]. symmetry. apply ext_begin_finish.
  Qed.

  Theorem extract_backward_ok t n : ok t ->
    let '(os, x) := xrun (repeat false n) (RangeMut.extract_new t lo hi) in
    let '(os', st) := ext_run p (repeat false n) (ext_begin cmp (contents t) lo hi) in
    os = os' /\ ok (extract_tree x) /\ contents (extract_tree x) = ext_finish st.
  Proof.
    intros Hok.
    assert (H : forall m x st, relb x st ->
              let '(os, x') := xrun (repeat false m) x in let '(os', st') := ext_run p (repeat false m) st in os = os' /\ relb x' st').
    { clear t Hok n. induction m as [|m IH]; intros x st Hr.
      - cbn. split; [reflexivity|exact Hr].
      - cbn [xrun repeat ext_run]. pose proof (next_relb x st Hr) as Hn.
        destruct (extract_next (fuelf (rg_tree (x_range x))) efuel p x DPrev) as [o x1].
        destruct (ext_next_back p st) as [o' st1]. destruct Hn as [E Hr1]. subst o'.
        specialize (IH x1 st1 Hr1). destruct (xrun (repeat false m) x1) as [os x2]. destruct (ext_run p (repeat false m) st1) as [os' st2].
        destruct IH as [E2 Hr2]. subst os'. split; [reflexivity|exact Hr2]. }
    specialize (H n (RangeMut.extract_new t lo hi) (ext_begin cmp (contents t) lo hi)
                  (or_intror (or_intror (ex_intro _ t (conj eq_refl (conj Hok eq_refl)))))).
    destruct (xrun (repeat false n) (RangeMut.extract_new t lo hi)) as [os x]. destruct (ext_run p (repeat false n) _) as [os' st].
    destruct H as [E Hr]. split; [exact E|]. now apply tree_relb.
  Qed.
  End ExtractBackward.
End ScanBackP.
