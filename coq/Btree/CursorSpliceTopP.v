(* Proofs about CursorSplice.v, continued: root growth, splice_insert_run on a whole tree, the specification
   equation (the spliced tree holds SortedMap.insert of every entry of the run), the position open_insert_run
   settles on, flush_at_gap. *)
From Coq Require Import List NArith Bool Arith Lia Sorted.
From RV Require Import Base.SortedMap Base.SortedMapP Btree.Tree Btree.TreeP Btree.Read Btree.ReadP Btree.Mutator
                       Btree.DeleteP Btree.Scan Btree.ScanTree Btree.ScanTreeP Btree.SpliceP Btree.CursorSplice
                       Btree.CursorSpliceP.
Import ListNotations.

(* the specification of a flushed run: every buffered entry inserted into the sorted map *)
Definition insert_all {K V : Type} (cmp : K -> K -> comparison) (m : list (K * V)) (run : list (K * V)) : list (K * V) :=
  fold_left (fun m e => SortedMap.insert cmp m (fst e) (snd e)) run m.

Section OpenPosP.
  Context {E : Type}.
  Variable ls : list (list E).
  Hypothesis Hne : Forall (fun l => l <> []) ls.

  Definition valid_pos (p : nat * nat) : Prop := fst p < length ls /\ snd p <= length (nth (fst p) ls []).

  Lemma concat_firstn_S j : j < length ls ->
    length (concat (firstn (S j) ls)) = length (concat (firstn j ls)) + length (nth j ls []).
  Proof.
    intros H. rewrite (firstn_snoc_nth ls j []) by exact H. rewrite concat_app, app_length. cbn. now rewrite app_nil_r.
  Qed.

  Lemma leaf_nonempty j : j < length ls -> 0 < length (nth j ls []).
  Proof.
    intros H. rewrite Forall_forall in Hne. specialize (Hne (nth j ls []) (nth_In _ _ H)).
    destruct (nth j ls []); [congruence|cbn; lia].
  Qed.

  (* open_insert_run's two peeks keep the gap, and settle it in the EARLIER leaf at its end whenever it coincides
     with a leaf boundary: the resulting index is 0 only at the very start of the tree *)
  Theorem open_pos_spec p : valid_pos p ->
    valid_pos (open_pos ls p) /\ gap_index ls (open_pos ls p) = gap_index ls p /\
    (snd (open_pos ls p) = 0 -> fst (open_pos ls p) = 0).
  Proof.
    destruct p as [j pos]. unfold valid_pos, open_pos, gap_index. cbn [fst snd]. intros [Hj Hpos].
    unfold settle_next.
    destruct (Nat.ltb pos (length (nth j ls []))) eqn:E1.
    - (* an entry follows in this leaf *)
      unfold settle_prev. destruct (Nat.ltb 0 pos) eqn:E2.
      + cbn [fst snd]. apply Nat.ltb_lt in E2. repeat split; auto; lia.
      + apply Nat.ltb_ge in E2. assert (pos = 0) by lia. subst pos. destruct j as [|j'].
        * cbn [fst snd]. repeat split; auto.
        * cbn [fst snd]. pose proof (leaf_nonempty j' ltac:(lia)). rewrite (concat_firstn_S j') by lia.
          repeat split; try lia.
    - apply Nat.ltb_ge in E1. assert (pos = length (nth j ls [])) by lia. subst pos.
      pose proof (leaf_nonempty j Hj) as Hl.
      destruct (Nat.ltb (S j) (length ls)) eqn:E3.
      + (* end of a leaf that has a successor: forward to its start, then back *)
        apply Nat.ltb_lt in E3. unfold settle_prev. cbn [Nat.ltb Nat.leb fst snd].
        repeat split; try lia.
      + unfold settle_prev. assert (E4 : Nat.ltb 0 (length (nth j ls [])) = true) by (apply Nat.ltb_lt; lia).
        rewrite E4. cbn [fst snd]. repeat split; try lia.
  Qed.

  (* the two boundary cases spelled out *)
  Theorem open_pos_boundary_from_later j : S j < length ls -> open_pos ls (S j, 0) = (j, length (nth j ls [])).
  Proof.
    intros H. unfold open_pos, settle_next. pose proof (leaf_nonempty (S j) H) as Hl.
    assert (E0 : Nat.ltb 0 (length (nth (S j) ls [])) = true) by (apply Nat.ltb_lt; exact Hl). rewrite E0. reflexivity.
  Qed.

  Theorem open_pos_boundary_from_earlier j : S j < length ls ->
    open_pos ls (j, length (nth j ls [])) = (j, length (nth j ls [])).
  Proof.
    intros H. unfold open_pos, settle_next. rewrite Nat.ltb_irrefl.
    assert (E0 : Nat.ltb (S j) (length ls) = true) by (apply Nat.ltb_lt; exact H). rewrite E0. reflexivity.
  Qed.

  Lemma gap_pos_from_spec : forall (l : list (list E)) j g, l <> [] -> g <= length (concat l) ->
    let p := gap_pos_from l j g in
    j <= fst p /\ fst p < j + length l /\ snd p <= length (nth (fst p - j) l []) /\
    length (concat (firstn (fst p - j) l)) + snd p = g.
  Proof.
    induction l as [|x r IH]; intros j g Hl Hg; [congruence|]. cbn zeta.
    destruct r as [|y r'].
    - cbn in *. rewrite app_nil_r in Hg. rewrite Nat.sub_diag. cbn. repeat split; lia.
    - change (gap_pos_from (x :: y :: r') j g) with (if Nat.leb g (length x) then (j, g) else gap_pos_from (y :: r') (S j) (g - length x)).
      destruct (Nat.leb g (length x)) eqn:E0.
      + apply Nat.leb_le in E0. cbn [fst snd]. rewrite Nat.sub_diag. cbn. repeat split; lia.
      + apply Nat.leb_gt in E0. change (concat (x :: y :: r')) with (x ++ concat (y :: r')) in Hg. rewrite app_length in Hg.
        specialize (IH (S j) (g - length x) ltac:(discriminate) ltac:(lia)). cbn zeta in IH.
        destruct IH as (I1 & I2 & I3 & I4).
        set (p := gap_pos_from (y :: r') (S j) (g - length x)) in *.
        replace (fst p - j) with (S (fst p - S j)) by lia. cbn [nth firstn concat length] in *.
        rewrite app_length. repeat split; lia.
  Qed.

  Lemma gap_pos_spec g : ls <> [] -> g <= length (concat ls) ->
    valid_pos (gap_pos ls g) /\ gap_index ls (gap_pos ls g) = g.
  Proof.
    intros H1 H2. destruct (gap_pos_from_spec ls 0 g H1 H2) as (I1 & I2 & I3 & I4). cbn zeta in *.
    unfold gap_pos, valid_pos, gap_index. rewrite Nat.sub_0_r in *. repeat split; lia.
  Qed.

  Lemma gap_split p : valid_pos p ->
    concat ls = (concat (firstn (fst p) ls) ++ firstn (snd p) (nth (fst p) ls [])) ++
                (skipn (snd p) (nth (fst p) ls []) ++ concat (skipn (S (fst p)) ls)) /\
    length (concat (firstn (fst p) ls) ++ firstn (snd p) (nth (fst p) ls [])) = gap_index ls p.
  Proof.
    destruct p as [j pos]. unfold valid_pos, gap_index. cbn [fst snd]. intros [Hj Hpos]. split.
    - rewrite <- (firstn_skipn j ls) at 1. rewrite (skipn_cons_nth ls j []) by exact Hj.
      rewrite concat_app. cbn [concat]. rewrite <- (firstn_skipn pos (nth j ls [])) at 1. now rewrite <- !app_assoc.
    - rewrite app_length, firstn_length. lia.
  Qed.
End OpenPosP.

Section TopP.
  Context {K V : Type}.
  Variable cmp : K -> K -> comparison.
  Hypothesis laws : OrderLaws cmp.
  Variable ksize : K -> N.
  Variable vsize : V -> N.
  Variable fixed_k fixed_v : bool.
  Variable page_size : N.
  Variable sep : K -> K -> K.
  Hypothesis Hsep : valid_sep cmp sep.

  Notation node := (@node K V).
  Notation inv := (@inv K V cmp).
  Notation abs := (@abs K V).
  Notation sorted := (@sorted K V cmp).
  Notation wk_chain := (@wk_chain K V cmp).
  Notation wk_abs := (@wk_abs K V).
  Notation wk := (list (node * option K)).
  Notation grow := (@grow K node ksize fixed_k page_size (@Branch K V)).
  Notation splice_insert_run := (@splice_insert_run K V cmp ksize vsize fixed_k fixed_v page_size sep).
  Notation flush_at_gap := (@flush_at_gap K V cmp ksize vsize fixed_k fixed_v page_size sep).

  (* while nodes.len() > 1: every round at least halves the level, one node remains: root growth *)
  Lemma grow_ok dflt : forall fuel (nodes : wk) h lo B, wk_chain h lo B nodes -> length nodes <= S fuel ->
    exists h' root k, grow dflt fuel nodes = [(root, k)] /\ inv h' lo B root /\ abs root = wk_abs nodes.
  Proof.
    induction fuel as [|f IH]; intros nodes h lo B Hc Hl.
    - destruct nodes as [|[c k] [|y r]]; [contradiction| |cbn in Hl; lia].
      exists h, c, k. cbn. split; [reflexivity|]. split; [exact Hc|]. unfold SpliceP.wk_abs. cbn. now rewrite app_nil_r.
    - destruct nodes as [|[c k] [|y r]]; [contradiction| |].
      + exists h, c, k. cbn. split; [reflexivity|]. split; [exact Hc|]. unfold SpliceP.wk_abs. cbn. now rewrite app_nil_r.
      + destruct (build_branch_nodes_ok cmp ksize fixed_k page_size dflt h lo B ((c, k) :: y :: r) ltac:(cbn; lia) Hc)
          as (O1 & O2 & _ & _ & O5).
        destruct (IH _ (S h) lo B O1 ltac:(cbn [length] in *; lia)) as (h' & root & k' & G1 & G2 & G3).
        exists h', root, k'. split; [exact G1|]. split; [exact G2|]. rewrite G3. exact O2.
  Qed.

  Definition gap_pre (ls : list (list (K * V))) (j pos : nat) : list (K * V) :=
    concat (firstn j ls) ++ firstn pos (nth j ls []).
  Definition gap_post (ls : list (list (K * V))) (j pos : nat) : list (K * V) :=
    skipn pos (nth j ls []) ++ concat (skipn (S j) ls).

  Lemma nlen_len (l : list (K * V)) : nlen l = len l.
  Proof. reflexivity. Qed.

  (* splice_insert_run at leaf j, index pos (index 0 only in the first leaf, which open_insert_run guarantees) *)
  Theorem splice_insert_run_ok (bt : @btree K V) j pos run :
    TreeInv cmp bt -> run <> [] ->
    (bt_root bt <> None -> j < length (bt_leaves bt) /\ pos <= length (nth j (bt_leaves bt) []) /\ (pos = 0 -> j = 0)) ->
    sorted (gap_pre (bt_leaves bt) j pos ++ run ++ gap_post (bt_leaves bt) j pos) ->
    TreeInv cmp (splice_insert_run bt j pos run) /\
    abs_tree (splice_insert_run bt j pos run) = gap_pre (bt_leaves bt) j pos ++ run ++ gap_post (bt_leaves bt) j pos.
  Proof.
    intros Hinv Hrun Hpos Hs. unfold CursorSplice.splice_insert_run, splice_insert_run_gen.
    destruct run as [|[k0 v0] run']; [congruence|]. set (run := (k0, v0) :: run') in *.
    unfold TreeInv, bt_leaves, abs_tree in *. destruct (bt_root bt) as [t|] eqn:Er.
    - destruct Hinv as [[h Hi] Hlen]. destruct (Hpos ltac:(discriminate)) as (Hj & Hp & Hp0).
      pose proof (inv_height cmp _ _ _ _ Hi) as Hh.
      destruct (splice_sub_ok cmp laws ksize vsize fixed_k fixed_v page_size sep Hsep (fuel_of t) t h None None (fun _ => False)
                  j pos run k0 Hi ltac:(unfold fuel_of; lia) Hj Hp Hp0 Hrun Hs
                  ltac:(rewrite Forall_forall; intros; exact I) ltac:(intros k F; destruct F)) as (Hn & Ha).
      set (nodes := splice_sub cmp ksize vsize fixed_k fixed_v page_size sep true (fuel_of t) t j pos run k0) in *.
      assert (Hc : exists B, wk_chain h None B nodes).
      { unfold nodes_ok in Hn. destruct (last_key_of nodes); [exists (Some k); tauto|exists None; exact Hn]. }
      destruct Hc as [B Hc].
      destruct (grow_ok k0 (length nodes) nodes h None B Hc ltac:(lia)) as (h' & root & k' & G1 & G2 & G3).
      rewrite G1. cbn [bt_root bt_len]. split.
      + split; [exists h'; eapply inv_weaken_none; eauto|]. rewrite G3, Ha. rewrite Hlen.
        rewrite (view_total t j Hj). unfold gap_pre, gap_post, ScanTreeP.pre_l, ScanTreeP.leaf_l, ScanTreeP.post_l, len, nlen.
        rewrite <- (firstn_skipn pos (nth j (leaves t) [])) at 1. rewrite !app_length. lia.
      + rewrite G3, Ha. reflexivity.
    - assert (E1 : gap_pre [] j pos = []) by (unfold gap_pre; destruct j, pos; reflexivity).
      assert (E2 : gap_post [] j pos = []) by (unfold gap_post; destruct j, pos; reflexivity).
      rewrite E1, E2 in *. cbn [app] in *. rewrite app_nil_r in *.
      destruct (build_replacement_chain cmp laws ksize vsize fixed_k fixed_v page_size sep Hsep None run k0 Hrun Hs
                  ltac:(rewrite Forall_forall; intros; exact I)) as (R1 & R2 & R3). cbn zeta in *.
      change (leaf_nodes ksize vsize fixed_k fixed_v page_size sep run k0) with (wk_of (build_replacement_leaves ksize vsize fixed_k fixed_v page_size sep run k0)).
      set (nodes := wk_of (build_replacement_leaves ksize vsize fixed_k fixed_v page_size sep run k0)) in *.
      destruct (grow_ok k0 (length nodes) nodes 0 None _ R3 ltac:(lia)) as (h' & root & k' & G1 & G2 & G3).
      rewrite G1. cbn [bt_root bt_len]. split.
      + split; [exists h'; eapply inv_weaken_none; eauto|]. rewrite G3, R1, Hinv. unfold len, nlen. lia.
      + rewrite G3, R1. reflexivity.
  Qed.

  (* the specification equation: the run, sorted strictly between the gap's neighbours, lands where
     SortedMap.insert puts every entry *)
  Lemma insert_one_gap (pre post : list (K * V)) e : sorted (pre ++ e :: post) ->
    SortedMap.insert cmp (pre ++ post) (fst e) (snd e) = pre ++ e :: post.
  Proof.
    intros Hs. apply (sorted_app_inv cmp) in Hs. destruct Hs as (_ & H2 & H3).
    rewrite (insert_app_right cmp laws); [|intros x Hx; apply H3; [exact Hx|left; reflexivity]].
    f_equal. destruct e as [k v]. cbn [fst snd]. destruct post as [|[k2 v2] post']; [reflexivity|].
    apply (sorted_cons_inv cmp) in H2. destruct H2 as [_ Hk]. cbn.
    assert (E : cmp k k2 = Lt). { unfold keys_lt in Hk. inversion Hk; subst. assumption. }
    now rewrite E.
  Qed.

  Lemma sorted_remove_mid : forall (r a b : list (K * V)), sorted (a ++ r ++ b) -> sorted (a ++ b).
  Proof.
    induction r as [|x r IH]; intros a b H; [exact H|]. apply IH. cbn [app] in H.
    exact (sorted_remove_middle cmp a x (r ++ b) H).
  Qed.

  Lemma insert_all_gap : forall run (pre post : list (K * V)), sorted (pre ++ run ++ post) ->
    insert_all cmp (pre ++ post) run = pre ++ run ++ post.
  Proof.
    induction run as [|e r IH]; intros pre post Hs; [reflexivity|].
    unfold insert_all. cbn [fold_left]. fold (insert_all cmp (SortedMap.insert cmp (pre ++ post) (fst e) (snd e)) r).
    rewrite insert_one_gap.
    - change (pre ++ e :: post) with (pre ++ [e] ++ post). rewrite app_assoc. rewrite IH.
      + now rewrite <- !app_assoc.
      + rewrite <- !app_assoc. exact Hs.
    - change (pre ++ (e :: r) ++ post) with (pre ++ [e] ++ r ++ post) in Hs. rewrite app_assoc in Hs.
      apply sorted_remove_mid in Hs. rewrite <- app_assoc in Hs. exact Hs.
  Qed.

  Lemma app_eq_len {A} (a b c d : list A) : a ++ b = c ++ d -> length a = length c -> a = c /\ b = d.
  Proof.
    revert c. induction a as [|x a IH]; intros c H L; destruct c as [|y c]; try discriminate.
    - auto.
    - cbn in *. inversion H; subst. destruct (IH c H2 ltac:(lia)). subst. auto.
  Qed.

  (* open_insert_run + flush_insert_run + splice_insert_run for the gap after `pre`: for EVERY well-formed tree, every
     gap, every run that is strictly increasing and strictly between the gap's neighbours *)
  Theorem flush_at_gap_refines (bt : @btree K V) (pre post run : list (K * V)) :
    TreeInv cmp bt -> abs_tree bt = pre ++ post -> run <> [] -> sorted (pre ++ run ++ post) ->
    TreeInv cmp (flush_at_gap bt (length pre) run) /\
    abs_tree (flush_at_gap bt (length pre) run) = insert_all cmp (abs_tree bt) run /\
    abs_tree (flush_at_gap bt (length pre) run) = pre ++ run ++ post.
  Proof.
    intros Hinv Habs Hrun Hs. rewrite Habs. rewrite (insert_all_gap run pre post Hs).
    assert (Hgoal : TreeInv cmp (flush_at_gap bt (length pre) run) /\
                    abs_tree (flush_at_gap bt (length pre) run) = pre ++ run ++ post); [|tauto].
    unfold CursorSplice.flush_at_gap.
    pose proof (contents_abs bt) as Hcon. unfold contents in Hcon.
    set (ls := bt_leaves bt) in *.
    destruct (open_pos ls (gap_pos ls (length pre))) as [j pos] eqn:Eop.
    destruct (bt_root bt) as [t|] eqn:Er.
    - assert (Hne : Forall (fun l => l <> []) ls /\ ls <> []).
      { unfold ls, bt_leaves. rewrite Er. unfold TreeInv in Hinv. rewrite Er in Hinv. destruct Hinv as [[h Hi] _].
        destruct (inv_leaves cmp _ _ _ _ Hi). auto. }
      destruct Hne as [Hne Hnn].
      assert (Hg : length pre <= length (concat ls)) by (rewrite Hcon, Habs, app_length; lia).
      destruct (gap_pos_spec ls (length pre) Hnn Hg) as [V1 V2].
      destruct (open_pos_spec ls Hne _ V1) as (W1 & W2 & W3). rewrite Eop in *. cbn [fst snd] in *.
      destruct (gap_split ls (j, pos) W1) as [S1 S2]. cbn [fst snd] in *.
      rewrite W2, V2 in S2. rewrite Hcon, Habs in S1.
      destruct (app_eq_len _ _ _ _ S1 (eq_sym S2)) as [Epre Epost].
      destruct W1 as [W1a W1b]. cbn [fst snd] in *.
      pose proof (splice_insert_run_ok bt j pos run Hinv Hrun) as Hok. fold ls in Hok.
      unfold gap_pre, gap_post in Hok. rewrite <- Epre, <- Epost in Hok.
      apply Hok; [intros _; auto|exact Hs].
    - assert (Els : ls = []) by (unfold ls, bt_leaves; rewrite Er; reflexivity).
      assert (abs_tree bt = []) by (unfold abs_tree; rewrite Er; reflexivity).
      rewrite H in Habs. symmetry in Habs. apply app_eq_nil in Habs. destruct Habs; subst pre post.
      pose proof (splice_insert_run_ok bt j pos run Hinv Hrun ltac:(intros X; congruence)) as Hok. fold ls in Hok.
      rewrite Els in Hok. unfold gap_pre, gap_post in Hok.
      assert (E1 : concat (firstn j (@nil (list (K * V)))) ++ firstn pos (nth j [] []) = []) by (destruct j, pos; reflexivity).
      assert (E2 : skipn pos (nth j (@nil (list (K * V))) []) ++ concat (skipn (S j) []) = []) by (destruct j, pos; reflexivity).
      rewrite E1, E2 in Hok. apply Hok. exact Hs.
  Qed.
End TopP.
