(* Gap cursor of redb (btree_cursor.rs: CursorMut / BtreeCursorMut, feature experimental_cursor) at the
   LIST level -- definitions only.

   What is modelled: the gap logic.  The table content is split at the gap into `s_before`
   (reversed) and `s_after`; pending inserts are buffered in an InsertRun with its direction,
   `opening_next_key`, `previous_key` and entries; `rejects`, `ensure_insert_run` (a run in the other
   direction is flushed first), `open_insert_run` (captures both neighbour keys), peek_next / peek_prev
   (which look into the buffer without splicing), next / prev / remove_next / remove_prev
   (flush first, then act; the reseek after a flush lands after the last ascending insert resp.
   before the most recent descending insert), close (flush).

   What is abstracted: WHERE the buffered entries go in the tree (splice_insert_run,
   build_replacement_leaves, rebuild_branch_level) -- at the list level a flush puts them at the gap;
   the size-triggered flush (INSERT_FLUSH_BYTES, which also counts bytes copied from the current leaf)
   is the oracle `flush_now`, an arbitrary function parameter, so everything proved holds whenever
   the implementation decides to flush. *)
From Coq Require Import List NArith Bool.
From RV Require Import Base.SortedMap.
Import ListNotations.

Section Cursor.
  Context {K V : Type}.
  Variable cmp : K -> K -> comparison.
  Variable flush_now : list (K * V) -> bool.

  Inductive run_dir : Type := Ascending | Descending.

  Definition dir_eqb (a b : run_dir) : bool :=
    match a, b with Ascending, Ascending | Descending, Descending => true | _, _ => false end.

  Record insert_run : Type := mk_run {
    r_dir : run_dir;
    r_opening_next : option K;      (* opening_next_key *)
    r_previous : option K;          (* previous_key *)
    r_buf : list (K * V)            (* the pending inserts, ascending *)
  }.

  Record mstate : Type := mk_mstate {
    s_before : list (K * V);        (* tree content before the gap, nearest first *)
    s_after : list (K * V);         (* tree content after the gap *)
    s_run : option insert_run
  }.

  Definition key_of (e : option (K * V)) : option K := option_map fst e.

  (* flush_insert_run: the buffer lands at the gap; an ascending run leaves the gap after its
     inserts (resume After(previous_key)), a descending run before them (resume Before(front)) *)
  Definition flush (st : mstate) : mstate :=
    match s_run st with
    | None => st
    | Some r =>
        match r_dir r with
        | Ascending => mk_mstate (rev (r_buf r) ++ s_before st) (s_after st) None
        | Descending => mk_mstate (s_before st) (r_buf r ++ s_after st) None
        end
    end.

  Definition open_run (d : run_dir) (st : mstate) : insert_run :=
    mk_run d (key_of (hd_error (s_after st))) (key_of (hd_error (s_before st))) [].

  Definition ensure_run (d : run_dir) (st : mstate) : mstate * insert_run :=
    match s_run st with
    | Some r =>
        if dir_eqb (r_dir r) d then (st, r)
        else let st' := flush st in (st', open_run d st')
    | None => (st, open_run d st)
    end.

  (* InsertRun::next_key *)
  Definition run_next_key (r : insert_run) : option K :=
    match r_dir r, r_buf r with
    | Descending, e :: _ => Some (fst e)
    | _, _ => r_opening_next r
    end.

  (* InsertRun::rejects *)
  Definition rejects (r : insert_run) (k : K) : bool :=
    match r_previous r with
    | Some p => match cmp k p with Gt => false | _ => true end      (* is_le *)
    | None => false
    end
    ||
    match run_next_key r with
    | Some n => match cmp k n with Lt => false | _ => true end      (* is_ge *)
    | None => false
    end.

  Definition m_insert_before (st : mstate) (k : K) (v : V) : bool * mstate :=
    let '(st1, r) := ensure_run Ascending st in
    if rejects r k then
      (false, mk_mstate (s_before st1) (s_after st1) (match r_buf r with [] => None | _ => Some r end))
    else
      let r' := mk_run Ascending (r_opening_next r) (Some k) (r_buf r ++ [(k, v)]) in
      let st2 := mk_mstate (s_before st1) (s_after st1) (Some r') in
      (true, if flush_now (r_buf r') then flush st2 else st2).

  Definition m_insert_after (st : mstate) (k : K) (v : V) : bool * mstate :=
    let '(st1, r) := ensure_run Descending st in
    if rejects r k then
      (false, mk_mstate (s_before st1) (s_after st1) (match r_buf r with [] => None | _ => Some r end))
    else
      let r' := mk_run Descending (r_opening_next r) (r_previous r) ((k, v) :: r_buf r) in
      let st2 := mk_mstate (s_before st1) (s_after st1) (Some r') in
      (true, if flush_now (r_buf r') then flush st2 else st2).

  Definition m_peek_next (st : mstate) : option (K * V) :=
    match s_run st with
    | Some r =>
        match r_dir r, r_buf r with
        | Descending, e :: _ => Some e                 (* buffered_next *)
        | _, _ => hd_error (s_after st)                (* re-read at opening_next_key *)
        end
    | None => hd_error (s_after st)
    end.

  Definition m_peek_prev (st : mstate) : option (K * V) :=
    match s_run st with
    | Some r =>
        match r_dir r with
        | Ascending => match last_opt (r_buf r) with Some e => Some e | None => hd_error (s_before st) end
        | Descending => hd_error (s_before st)
        end
    | None => hd_error (s_before st)
    end.

  Definition m_next (st : mstate) : option (K * V) * mstate :=
    let st' := flush st in
    match s_after st' with
    | [] => (None, st')
    | e :: r => (Some e, mk_mstate (e :: s_before st') r None)
    end.

  Definition m_prev (st : mstate) : option (K * V) * mstate :=
    let st' := flush st in
    match s_before st' with
    | [] => (None, st')
    | e :: r => (Some e, mk_mstate r (e :: s_after st') None)
    end.

  Definition m_remove_next (st : mstate) : option (K * V) * mstate :=
    let st' := flush st in
    match s_after st' with
    | [] => (None, st')
    | e :: r => (Some e, mk_mstate (s_before st') r None)
    end.

  Definition m_remove_prev (st : mstate) : option (K * V) * mstate :=
    let st' := flush st in
    match s_before st' with
    | [] => (None, st')
    | e :: r => (Some e, mk_mstate r (s_after st') None)
    end.

  Definition m_step (st : mstate) (o : @cursor_op K V) : @cursor_out K V * mstate :=
    match o with
    | CPeekNext => (CEntry (m_peek_next st), st)
    | CPeekPrev => (CEntry (m_peek_prev st), st)
    | CNext => let '(e, st') := m_next st in (CEntry e, st')
    | CPrev => let '(e, st') := m_prev st in (CEntry e, st')
    | CInsertBefore k v => let '(b, st') := m_insert_before st k v in (CAccepted b, st')
    | CInsertAfter k v => let '(b, st') := m_insert_after st k v in (CAccepted b, st')
    | CRemoveNext => let '(e, st') := m_remove_next st in (CEntry e, st')
    | CRemovePrev => let '(e, st') := m_remove_prev st in (CEntry e, st')
    end.

  Fixpoint m_script (ops : list (@cursor_op K V)) (st : mstate) : list (@cursor_out K V) * mstate :=
    match ops with
    | [] => ([], st)
    | o :: r =>
        let '(x, st') := m_step st o in
        let '(xs, st'') := m_script r st' in
        (x :: xs, st'')
    end.

  (* the cursor right after lower_bound_mut / upper_bound_mut: no run *)
  Definition m_of_cursor (c : @cursor K V) : mstate := mk_mstate (c_before c) (c_after c) None.

  (* close(): flush; the table is what is before the gap followed by what is after *)
  Definition m_close (st : mstate) : list (K * V) :=
    let st' := flush st in rev (s_before st') ++ s_after st'.

  (* abstraction to the specification cursor: pending inserts are already in the map *)
  Definition m_abs (st : mstate) : @cursor K V :=
    let st' := flush st in mk_cursor (s_before st') (s_after st').

  (* the bookkeeping invariant of an open run *)
  Definition run_ok (st : mstate) : Prop :=
    match s_run st with
    | None => True
    | Some r =>
        r_opening_next r = key_of (hd_error (s_after st)) /\
        match r_dir r with
        | Ascending => r_previous r = key_of (match last_opt (r_buf r) with Some e => Some e | None => hd_error (s_before st) end)
        | Descending => r_previous r = key_of (hd_error (s_before st))
        end
    end.

End Cursor.
