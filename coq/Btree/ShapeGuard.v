(* Shape-level model of get_mut / AccessGuardMut::insert / insert_reserve / the entry API
   (btree.rs BtreeMut::get_mut, get_mut_helper; btree_base.rs AccessGuardMut::insert; table.rs Entry)
   -- definitions only; the decorated twins of Guard.v. *)
From Coq Require Import List NArith Bool Arith.
From RV Require Import Base.SortedMap Btree.Tree Btree.Read Btree.Mutator Btree.Guard Btree.Shape.
Import ListNotations.

Section ShapeGuard.
  Context {K V : Type}.
  Variable cmp : K -> K -> comparison.
  Variable ksize : K -> N.
  Variable vsize : V -> N.
  Variable fixed_k fixed_v : bool.
  Variable page_size : N.
  Variable sep : K -> K -> K.

  Notation snode := (@snode K V).
  Notation mk_leaf := (@mk_leaf K V ksize vsize fixed_k fixed_v page_size).
  Notation s_insert := (s_insert cmp ksize vsize fixed_k fixed_v page_size sep).
  Notation s_delete := (s_delete cmp ksize vsize fixed_k fixed_v page_size sep).
  Local Open Scope N_scope.

  (* BtreeMut::get_mut / get_mut_helper: every committed page on the path the key routes along is
     copied to a new page of the same allocated length (uncommitted pages stay) -- whether or not the
     key is found in the leaf *)
  Fixpoint s_touch (fuel : nat) (t : snode) (k : K) : snode :=
    match t with
    | SLeaf _ a es => SLeaf true a es
    | SBranch d c0 rest =>
        match fuel with
        | O => t
        | S f =>
            let i := s_child_for_key cmp rest k in
            let c' := s_touch f (s_nth_child c0 rest i) k in
            let '(a, b) := s_set_child i c' [] c0 rest in SBranch true a b
        end
    end.

  Definition s_get_mut (st : @sbtree K V) (k : K) : @sbtree K V :=
    match sb_root st with
    | None => st
    | Some t => mk_sbtree (Some (s_touch (S (sheight t)) t k)) (sb_len st)
    end.

  (* LeafMutator::sufficient_replace_inplace_space *)
  Definition replace_fits (alloc : N) (es : list (K * V)) (ov v : V) : bool :=
    let total := leaf_required fixed_k fixed_v (nlen es) (leaf_bytes ksize vsize es) in
    (total - vsize ov + vsize v <=? u32_max) && (vsize v <=? vsize ov + (alloc - total)).

  (* AccessGuardMut::insert on the (uncommitted) leaf the guard holds; the parent pointer is patched in place.
     `patch` = true is the write through an AccessGuardMutInPlace (insert_reserve): the bytes of a value of
     the same length are written into the page, no page changes identity *)
  Fixpoint s_set_sub (patch : bool) (fuel : nat) (t : snode) (k : K) (v : V) : snode * option V :=
    match t with
    | SLeaf d a es =>
        let '(pos, found) := position cmp es k in
        match nth_error es pos with
        | Some (_, ov) =>
            if found then
              let es' := firstn pos es ++ (k, v) :: skipn (S pos) es in
              (if patch then SLeaf d a es'
               else if replace_fits a es ov v then SLeaf true a es' else mk_leaf es', Some ov)
            else (t, None)
        | None => (t, None)
        end
    | SBranch d c0 rest =>
        match fuel with
        | O => (t, None)
        | S f =>
            let i := s_child_for_key cmp rest k in
            let '(c', old) := s_set_sub patch f (s_nth_child c0 rest i) k v in
            match old with
            | None => (t, None)
            | Some _ => let '(a, b) := s_set_child i c' [] c0 rest in (SBranch (if patch then d else true) a b, old)
            end
        end
    end.

  (* guard.insert(v) on the guard get_mut(k) returned (the path is uncommitted by then) *)
  Definition s_guard_set (st : @sbtree K V) (k : K) (v : V) : @sbtree K V * option V :=
    match sb_root st with
    | None => (st, None)
    | Some t =>
        let '(t', old) := s_set_sub false (S (sheight t)) t k v in
        (mk_sbtree (Some t') (sb_len st), old)
    end.

  Definition s_get_mut_writes (st : @sbtree K V) (k : K) (vs : list V) : @sbtree K V * option V :=
    let st1 := s_get_mut st k in
    match tget cmp (erase_tree st) k with
    | None => (st1, None)
    | Some old => (fold_left (fun b v => fst (s_guard_set b k v)) vs st1, Some old)
    end.

  Variable blank : V -> V.

  (* insert_reserve: MutateHelper::insert of the zero-filled value, then the bytes are written into the
     (uncommitted) page the returned AccessGuardMutInPlace holds *)
  Definition s_reserve (st : @sbtree K V) (k : K) (v : V) : @sbtree K V :=
    let st1 := fst (s_insert st k (blank v)) in
    match sb_root st1 with
    | None => st1
    | Some t => mk_sbtree (Some (fst (s_set_sub true (S (sheight t)) t k v))) (sb_len st1)
    end.

  Definition s_apply_gop (st : @sbtree K V) (o : @gop K V) : @SortedMap.out K V * @sbtree K V :=
    let get := tget cmp (erase_tree st) in
    match o with
    | GReserve k v => (OUnit, s_reserve st k v)
    | GGetMut k vs => let '(st', old) := s_get_mut_writes st k vs in (OVal old, st')
    | GEntryOrInsert k v =>
        match get k with
        | Some old => (OVal (Some old), s_get_mut st k)
        | None => (OVal None, s_get_mut (fst (s_insert st k v)) k)
        end
    | GEntryModify k v2 vdef =>
        match get k with
        | Some old =>
            (* and_modify: get_mut + guard write; or_insert on the occupied entry: get_mut again *)
            (OVal (Some old), s_get_mut (fst (s_guard_set (s_get_mut st k) k v2)) k)
        | None => (OVal None, s_get_mut (fst (s_insert st k vdef)) k)
        end
    | GEntryInsert k v =>
        match get k with
        | Some _ => let '(st', old) := s_insert st k v in (OVal old, st')
        | None => let '(st', old) := s_insert st k v in (OVal old, s_get_mut st' k)
        end
    | GEntryRemove k =>
        match get k with
        | Some _ => let '(st', old) := s_delete st k in (OVal old, st')
        | None => (OVal None, st)
        end
    | GEntryRemoveEntry k =>
        match get k with
        | Some _ => let '(st', old) := s_delete st k in (OEntry (option_map (fun v => (k, v)) old), st')
        | None => (OEntry None, st)
        end
    | GEntryGet k => (OVal (get k), st)
    end.

  (* path marker of a guard write (measurement only): 0 key absent, 1 replaced in place, 2 leaf rebuilt on a
     new page of one page, 3 leaf rebuilt on a larger page although it holds several entries *)
  Fixpoint s_set_tag (fuel : nat) (t : snode) (k : K) (v : V) : N :=
    match t with
    | SLeaf d a es =>
        let '(pos, found) := position cmp es k in
        match nth_error es pos with
        | Some (_, ov) =>
            if found then
              let es' := firstn pos es ++ (k, v) :: skipn (S pos) es in
              if replace_fits a es ov v then 1
              else if (page_size <? leaf_required fixed_k fixed_v (nlen es') (leaf_bytes ksize vsize es')) && (1 <? nlen es') then 3 else 2
            else 0
        | None => 0
        end
    | SBranch d c0 rest =>
        match fuel with
        | O => 0
        | S f => s_set_tag f (s_nth_child c0 rest (s_child_for_key cmp rest k)) k v
        end
    end.
  Definition s_guard_tag (st : @sbtree K V) (k : K) (v : V) : N :=
    match sb_root st with None => 0 | Some t => s_set_tag (S (sheight t)) t k v end.
End ShapeGuard.
