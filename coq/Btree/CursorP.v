(* cursor_refines: the modelled gap logic (insert runs in both directions, rejects, peeks into the
   buffer, flush before moves and removals, close) returns exactly what the specification cursor
   (zipper over the list) returns, for every script and every behaviour of the flush oracle. *)
From Coq Require Import List NArith Bool Lia.
From RV Require Import Base.SortedMap Base.SortedMapP Btree.Cursor.
Import ListNotations.

Section CursorP.
  Context {K V : Type}.
  Variable cmp : K -> K -> comparison.
  Hypothesis laws : OrderLaws cmp.
  Variable flush_now : list (K * V) -> bool.

  Notation mstate := (@mstate K V).
  Notation m_abs := (@m_abs K V).
  Notation flush := (@flush K V).
  Notation run_ok := (@run_ok K V).
  Notation m_step := (m_step cmp flush_now).
  Notation m_script := (m_script cmp flush_now).
  Implicit Types (st : mstate) (r : @insert_run K V) (k : K) (v : V).

  Lemma hd_rev_app (l b : list (K * V)) :
    hd_error (rev l ++ b) = match last_opt l with Some e => Some e | None => hd_error b end.
  Proof.
    destruct l as [|x l]; [reflexivity|].
    destruct (@removelast_last_opt _ (x :: l)) as [y [Hy Hd]]; [discriminate|].
    rewrite Hy, Hd, rev_app_distr. reflexivity.
  Qed.

  Lemma flush_idem st : flush (flush st) = flush st.
  Proof. unfold Cursor.flush. destruct (s_run st) as [r|] eqn:E; [destruct (r_dir r); reflexivity|now rewrite E]. Qed.

  Lemma m_abs_flush st : m_abs (flush st) = m_abs st.
  Proof. unfold Cursor.m_abs. now rewrite flush_idem. Qed.

  Lemma run_ok_flush st : run_ok (flush st).
  Proof. unfold Cursor.flush, Cursor.run_ok. destruct (s_run st) as [r|] eqn:E; [destruct (r_dir r); exact I|now rewrite E]. Qed.

  Lemma m_abs_norun b a : m_abs (mk_mstate b a None) = mk_cursor b a.
  Proof. reflexivity. Qed.

  Lemma flush_norun st : s_run st = None -> flush st = st.
  Proof. unfold Cursor.flush. now intros ->. Qed.

  (* the state with an empty run of either direction abstracts to the same cursor *)
  Lemma m_abs_empty_run b a d n p : m_abs (mk_mstate b a (Some (mk_run d n p []))) = mk_cursor b a.
  Proof. destruct d; reflexivity. Qed.

  (* the neighbours the run tracks are the neighbours of the specification gap *)
  Lemma run_neighbours st r : s_run st = Some r -> run_ok st ->
    key_of (peek_prev (m_abs st)) = r_previous r /\ key_of (peek_next (m_abs st)) = run_next_key r.
  Proof.
    intros Hr Hok. unfold Cursor.run_ok in Hok. rewrite Hr in Hok. destruct Hok as [Hn Hp].
    unfold Cursor.m_abs, Cursor.flush, peek_prev, peek_next, run_next_key. rewrite Hr.
    destruct (r_dir r); cbn [c_before c_after s_before s_after].
    - rewrite hd_rev_app. split; [now rewrite Hp|now rewrite Hn].
    - split; [now rewrite Hp|]. destruct (r_buf r) as [|e l]; cbn; [now rewrite Hn|reflexivity].
  Qed.

  Lemma rejects_gap st r k : s_run st = Some r -> run_ok st ->
    rejects cmp r k = negb (gap_accepts cmp (m_abs st) k).
  Proof.
    intros Hr Hok. destruct (run_neighbours st r Hr Hok) as [Hp Hn].
    unfold rejects, gap_accepts. rewrite <- Hp, <- Hn.
    destruct (peek_prev (m_abs st)) as [[p vp]|]; destruct (peek_next (m_abs st)) as [[n vn]|]; cbn;
      unfold klt; rewrite ?(cmp_antisym _ laws k p); try destruct (cmp k p); try destruct (cmp k n); reflexivity.
  Qed.

  Lemma ensure_run_ok d st : run_ok st ->
    let '(st1, r) := ensure_run d st in
    let st1' := mk_mstate (s_before st1) (s_after st1) (Some r) in
    m_abs st1' = m_abs st /\ run_ok st1' /\ r_dir r = d.
  Proof.
    intros Hok. unfold ensure_run. destruct (s_run st) as [r|] eqn:Hr.
    - destruct (dir_eqb (r_dir r) d) eqn:Ed.
      + assert (Hst : mk_mstate (s_before st) (s_after st) (Some r) = st) by (destruct st; cbn in *; now subst).
        rewrite Hst. split; [reflexivity|]. split; [exact Hok|]. destruct (r_dir r), d; cbn in Ed; congruence.
      + unfold open_run. rewrite m_abs_empty_run. split; [|split; [|reflexivity]].
        * unfold Cursor.m_abs. reflexivity.
        * unfold Cursor.run_ok. cbn. split; [reflexivity|]. destruct d; reflexivity.
    - unfold open_run. rewrite m_abs_empty_run. split; [|split; [|reflexivity]].
      + unfold Cursor.m_abs. now rewrite (flush_norun st Hr).
      + unfold Cursor.run_ok. cbn. split; [reflexivity|]. destruct d; reflexivity.
  Qed.

  Lemma step_refines st o : run_ok st ->
    let '(x, st') := m_step st o in
    cursor_step cmp (m_abs st) o = (x, m_abs st') /\ run_ok st'.
  Proof.
    intros Hok. destruct o as [| | | |k v|k v| |]; cbn [Cursor.m_step cursor_step].
    - (* peek_next *)
      split; [|exact Hok]. f_equal. f_equal. unfold m_peek_next, peek_next, Cursor.m_abs, Cursor.flush.
      destruct (s_run st) as [r|]; [|reflexivity]. destruct (r_dir r); cbn; [reflexivity|].
      destruct (r_buf r); reflexivity.
    - (* peek_prev *)
      split; [|exact Hok]. f_equal. f_equal. unfold m_peek_prev, peek_prev, Cursor.m_abs, Cursor.flush.
      destruct (s_run st) as [r|]; [|reflexivity]. destruct (r_dir r); cbn; [|reflexivity].
      now rewrite hd_rev_app.
    - (* next *)
      unfold m_next, move_next. change (c_after (m_abs st)) with (s_after (flush st)).
      destruct (s_after (flush st)) as [|e l] eqn:Ea.
      + rewrite m_abs_flush. split; [reflexivity|apply run_ok_flush].
      + split; [reflexivity|exact I].
    - (* prev *)
      unfold m_prev, move_prev. change (c_before (m_abs st)) with (s_before (flush st)).
      destruct (s_before (flush st)) as [|e l] eqn:Ea.
      + rewrite m_abs_flush. split; [reflexivity|apply run_ok_flush].
      + split; [reflexivity|exact I].
    - (* insert_before *)
      unfold m_insert_before. pose proof (ensure_run_ok Ascending st Hok) as He.
      destruct (ensure_run Ascending st) as [st1 r]. cbv zeta in He. destruct He as (Habs & Hok1 & Hd).
      set (st1' := mk_mstate (s_before st1) (s_after st1) (Some r)) in *.
      rewrite (rejects_gap st1' r k eq_refl Hok1), Habs.
      unfold insert_before. destruct (gap_accepts cmp (m_abs st) k) eqn:Eg; cbn [negb].
      + (* accepted *)
        set (r' := mk_run Ascending (r_opening_next r) (Some k) (r_buf r ++ [(k, v)])).
        set (st2 := mk_mstate (s_before st1) (s_after st1) (Some r')).
        assert (Habs2 : m_abs st2 = mk_cursor ((k, v) :: c_before (m_abs st)) (c_after (m_abs st))).
        { rewrite <- Habs. unfold Cursor.m_abs, Cursor.flush, st2, st1', r'. cbn. rewrite Hd. cbn.
          rewrite rev_app_distr. reflexivity. }
        assert (Hok2 : run_ok st2).
        { unfold Cursor.run_ok, st2, r'. cbn. unfold Cursor.run_ok in Hok1. cbn in Hok1. destruct Hok1 as [Hn _].
          split; [exact Hn|]. now rewrite last_opt_app. }
        destruct (flush_now (r_buf r')).
        * rewrite m_abs_flush, Habs2. split; [reflexivity|apply run_ok_flush].
        * rewrite Habs2. split; [reflexivity|exact Hok2].
      + (* rejected *)
        split.
        * f_equal. rewrite <- Habs. unfold st1'. destruct r as [d n p buf]. cbn in *. subst d.
          destruct buf; reflexivity.
        * destruct (r_buf r); [exact I|exact Hok1].
    - (* insert_after *)
      unfold m_insert_after. pose proof (ensure_run_ok Descending st Hok) as He.
      destruct (ensure_run Descending st) as [st1 r]. cbv zeta in He. destruct He as (Habs & Hok1 & Hd).
      set (st1' := mk_mstate (s_before st1) (s_after st1) (Some r)) in *.
      rewrite (rejects_gap st1' r k eq_refl Hok1), Habs.
      unfold insert_after. destruct (gap_accepts cmp (m_abs st) k) eqn:Eg; cbn [negb].
      + set (r' := mk_run Descending (r_opening_next r) (r_previous r) ((k, v) :: r_buf r)).
        set (st2 := mk_mstate (s_before st1) (s_after st1) (Some r')).
        assert (Habs2 : m_abs st2 = mk_cursor (c_before (m_abs st)) ((k, v) :: c_after (m_abs st))).
        { rewrite <- Habs. unfold Cursor.m_abs, Cursor.flush, st2, st1', r'. cbn. rewrite Hd. reflexivity. }
        assert (Hok2 : run_ok st2).
        { unfold Cursor.run_ok, st2, r'. cbn. unfold Cursor.run_ok in Hok1. cbn in Hok1. rewrite Hd in Hok1. exact Hok1. }
        destruct (flush_now (r_buf r')).
        * rewrite m_abs_flush, Habs2. split; [reflexivity|apply run_ok_flush].
        * rewrite Habs2. split; [reflexivity|exact Hok2].
      + split.
        * f_equal. rewrite <- Habs. unfold st1'. destruct r as [d n p buf]. cbn in *. subst d.
          destruct buf; reflexivity.
        * destruct (r_buf r); [exact I|exact Hok1].
    - (* remove_next *)
      unfold m_remove_next, remove_next. change (c_after (m_abs st)) with (s_after (flush st)).
      destruct (s_after (flush st)) as [|e l] eqn:Ea.
      + rewrite m_abs_flush. split; [reflexivity|apply run_ok_flush].
      + split; [reflexivity|exact I].
    - (* remove_prev *)
      unfold m_remove_prev, remove_prev. change (c_before (m_abs st)) with (s_before (flush st)).
      destruct (s_before (flush st)) as [|e l] eqn:Ea.
      + rewrite m_abs_flush. split; [reflexivity|apply run_ok_flush].
      + split; [reflexivity|exact I].
  Qed.

  Theorem cursor_refines_lemma ops : forall st, run_ok st ->
    let '(xs, st') := m_script ops st in
    cursor_script cmp ops (m_abs st) = (xs, m_abs st') /\ run_ok st'.
  Proof.
    induction ops as [|o r IH]; intros st Hok; cbn [Cursor.m_script cursor_script].
    - split; [reflexivity|exact Hok].
    - pose proof (step_refines st o Hok) as H1. destruct (m_step st o) as [x st1]. destruct H1 as [E1 Hok1].
      rewrite E1. specialize (IH st1 Hok1). destruct (m_script r st1) as [xs st2]. destruct IH as [E2 Hok2].
      rewrite E2. split; [reflexivity|exact Hok2].
  Qed.

  (* from lower_bound_mut / upper_bound_mut to close(): outputs and final table agree with the spec *)
  Theorem cursor_session_refines (c : @cursor K V) ops :
    let '(xs, st') := m_script ops (m_of_cursor c) in
    let '(ys, c') := cursor_script cmp ops c in
    xs = ys /\ m_close st' = cursor_map c'.
  Proof.
    pose proof (cursor_refines_lemma ops (m_of_cursor c) I) as H.
    destruct (m_script ops (m_of_cursor c)) as [xs st']. destruct H as [E _].
    assert (Hc : m_abs (m_of_cursor c) = c) by (destruct c; reflexivity). rewrite Hc in E. rewrite E.
    split; reflexivity.
  Qed.

End CursorP.
