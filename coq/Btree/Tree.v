(* Logical B-tree of redb (btree_base.rs / btree_mutator.rs) -- definitions only.

   node ::= Leaf entries | Branch c0 [(sep_1, c_1); ...; (sep_n, c_n)]
   (the code stores children and keys in two vectors: children = c0 :: map snd rest,
    keys = map fst rest; we pair each key with the child to its right).
   Keys K and values V are abstract; `cmp` is the key order (Key::compare on encodings, tied to the
   value order by C15).  Page numbers, checksums and dirty bits are not part of the logical tree. *)
From Coq Require Import List NArith Bool Sorted.
From RV Require Import Base.SortedMap.
Import ListNotations.

Section Tree.
  Context {K V : Type}.
  Variable cmp : K -> K -> comparison.

  Inductive node : Type :=
  | Leaf (es : list (K * V))
  | Branch (c0 : node) (rest : list (K * node)).

  Definition children (c0 : node) (rest : list (K * node)) : list node := c0 :: List.map snd rest.
  Definition seps (rest : list (K * node)) : list K := List.map fst rest.

  (* abstraction: the in-order entry list *)
  Fixpoint abs (t : node) : list (K * V) :=
    match t with
    | Leaf es => es
    | Branch c0 rest => abs c0 ++ flat_map (fun p => abs (snd p)) rest
    end.

  (* height along the leftmost path (all paths are equal under the invariant) *)
  Fixpoint height (t : node) : nat :=
    match t with
    | Leaf _ => O
    | Branch c0 _ => S (height c0)
    end.

  Fixpoint num_nodes (t : node) : nat :=
    match t with
    | Leaf _ => 1
    | Branch c0 rest => S (num_nodes c0 + list_sum (List.map (fun p => num_nodes (snd p)) rest))
    end.

  (* ---------------------------------------------------------------- invariant *)
  (* lo is exclusive, hi inclusive: every key k below a separator s satisfies k <= s, and every key
     to its right s < k  (BranchAccessor::child_for_key sends `query <= key_i` left). *)
  Definition lo_ok (lo : option K) (k : K) : Prop :=
    match lo with None => True | Some l => cmp l k = Lt end.
  Definition hi_ok (hi : option K) (k : K) : Prop :=
    match hi with None => True | Some h => cmp k h <> Gt end.
  Definition in_bounds (lo hi : option K) (e : K * V) : Prop := lo_ok lo (fst e) /\ hi_ok hi (fst e).

  Inductive inv : nat -> option K -> option K -> node -> Prop :=
  | inv_leaf lo hi es :
      es <> [] -> sorted cmp es -> Forall (in_bounds lo hi) es -> inv O lo hi (Leaf es)
  | inv_branch h lo hi c0 rest :
      rest <> [] -> chain h lo hi c0 rest -> inv (S h) lo hi (Branch c0 rest)
  with chain : nat -> option K -> option K -> node -> list (K * node) -> Prop :=
  | chain_last h lo hi c : inv h lo hi c -> chain h lo hi c []
  | chain_cons h lo hi c s c' rest :
      inv h lo (Some s) c -> chain h (Some s) hi c' rest -> chain h lo hi c ((s, c') :: rest).

  (* keys strictly increasing in every leaf and across leaves; for every branch
     max(child_i) <= sep_i < min(child_{i+1}); all leaves at the same depth; every branch has >= 2
     children; no empty leaf. *)
  Definition BTreeInv (t : node) : Prop := exists h, inv h None None t.

  (* the table-level object: BtreeHeader {root, length} *)
  Record btree : Type := mk_btree { bt_root : option node; bt_len : N }.

  Definition abs_tree (bt : btree) : list (K * V) :=
    match bt_root bt with None => [] | Some t => abs t end.

  Definition TreeInv (bt : btree) : Prop :=
    match bt_root bt with
    | None => bt_len bt = 0%N
    | Some t => BTreeInv t /\ bt_len bt = len (abs t)
    end.

  Definition empty_tree : btree := mk_btree None 0%N.

  (* ---------------------------------------------------------------- executable checker *)
  Definition lo_okb (lo : option K) (k : K) : bool :=
    match lo with None => true | Some l => klt cmp l k end.
  Definition hi_okb (hi : option K) (k : K) : bool :=
    match hi with None => true | Some h => kle cmp k h end.

  Definition first_sep (rest : list (K * node)) (hi : option K) : option K :=
    match rest with [] => hi | (s, _) :: _ => Some s end.

  (* the children to the right of the first one: each must check within (sep, next sep or hi] at height h *)
  Definition check_rest (chk : option K -> option K -> node -> option nat) (h : nat) (hi : option K)
      : list (K * node) -> bool :=
    fix go (rest : list (K * node)) : bool :=
      match rest with
      | [] => true
      | (s, c) :: rest' =>
          match chk (Some s) (first_sep rest' hi) c with
          | Some h' => Nat.eqb h h' && go rest'
          | None => false
          end
      end.

  (* returns the height when the subtree is well formed within (lo, hi] *)
  Fixpoint checkb (lo hi : option K) (t : node) : option nat :=
    match t with
    | Leaf es =>
        match es with
        | [] => None
        | _ => if sortedb cmp es && forallb (fun e => lo_okb lo (fst e) && hi_okb hi (fst e)) es
               then Some O else None
        end
    | Branch c0 rest =>
        match rest with
        | [] => None
        | _ =>
            match checkb lo (first_sep rest hi) c0 with
            | None => None
            | Some h => if check_rest checkb h hi rest then Some (S h) else None
            end
        end
    end.

  Definition wf_checkb (t : node) : bool :=
    match checkb None None t with Some _ => true | None => false end.

  Definition tree_checkb (bt : btree) : bool :=
    match bt_root bt with
    | None => N.eqb (bt_len bt) 0
    | Some t => wf_checkb t && N.eqb (bt_len bt) (len (abs t))
    end.

End Tree.

Arguments Leaf {K V} es.
Arguments Branch {K V} c0 rest.
Arguments mk_btree {K V}.
Arguments empty_tree {K V}.
