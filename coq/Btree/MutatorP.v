(* Refinement proofs for the modelled mutator: insert preserves the invariant, refines
   SortedMap.insert on the abstraction, and returns the old value -- for every key, value, page size,
   size functions, and every behaviour of the in-place oracle. *)
From Coq Require Import List NArith Bool Sorted Lia Arith.
From RV Require Import Base.SortedMap Base.SortedMapP Btree.Tree Btree.TreeP Btree.Read Btree.ReadP Btree.Mutator.
Import ListNotations.

Section MutatorP.
  Context {K V : Type}.
  Variable cmp : K -> K -> comparison.
  Hypothesis laws : OrderLaws cmp.
  Variable ksize : K -> N.
  Variable vsize : V -> N.
  Variable fixed_k fixed_v : bool.
  Variable page_size : N.
  Variable sep : K -> K -> K.
  Variable inplace : list (K * V) -> K -> V -> bool.
  Hypothesis Hsep : valid_sep cmp sep.

  Notation node := (@node K V).
  Notation inv := (@inv K V cmp).
  Notation chain := (@chain K V cmp).
  Notation abs := (@abs K V).
  Notation abs_rest := (@abs_rest K V).
  Notation sorted := (@sorted K V cmp).
  Notation get := (@get K V cmp).
  Notation sinsert := (@SortedMap.insert K V cmp).
  Notation leaf_insert := (leaf_insert cmp ksize vsize fixed_k fixed_v page_size sep inplace).
  Notation insert_sub := (insert_sub cmp ksize vsize fixed_k fixed_v page_size sep inplace).
  Notation insert := (insert cmp ksize vsize fixed_k fixed_v page_size sep inplace).
  Notation split_leaf := (split_leaf ksize vsize sep).
  Notation division := (division ksize vsize).
  Implicit Types (t c : node) (rest : list (K * node)) (h : nat) (e : K * V) (k s : K) (v : V) (lo hi : option K).

  (* ------------------------------------------------------------ where a key sits in a sorted leaf *)
  Lemma position_split es k pos found : sorted es -> position cmp es k = (pos, found) ->
    Forall (fun e => cmp (fst e) k = Lt) (firstn pos es) /\
    (found = true -> exists ov R, skipn pos es = (k, ov) :: R /\ Forall (fun e => cmp k (fst e) = Lt) R) /\
    (found = false -> Forall (fun e => cmp k (fst e) = Lt) (skipn pos es)).
  Proof.
    intros Hs Hp. rewrite (position_lin cmp laws es k Hs) in Hp. inversion Hp; subst pos found; clear Hp.
    induction es as [|[k' v'] es IH].
    - cbn. repeat split; auto. discriminate.
    - apply sorted_cons_inv in Hs as [Hs Hlt]. cbn [List.map fst]. rewrite lin_index_cons.
      destruct (cmp k k') eqn:E.
      + cbn [firstn skipn]. unfold found_at. cbn. unfold keq. rewrite E.
        apply (cmp_eq_iff cmp laws) in E. subst k'.
        split; [constructor|]. split; [|discriminate]. intros _. exists v', es. split; [reflexivity|exact Hlt].
      + cbn [firstn skipn]. unfold found_at. cbn. unfold keq. rewrite E.
        split; [constructor|]. split; [discriminate|]. intros _. constructor; [exact E|].
        eapply Forall_impl; [|exact Hlt]. cbn. intros e He. eapply (cmp_trans _ laws); eauto.
      + destruct (IH Hs) as (H1 & H2 & H3). cbn [firstn skipn].
        assert (Hf : found_at cmp k (k' :: List.map fst es) (S (lin_index cmp k (List.map fst es))) =
                     found_at cmp k (List.map fst es) (lin_index cmp k (List.map fst es))) by reflexivity.
        rewrite Hf. split; [|split; auto].
        constructor; [|exact H1]. cbn. now apply (cmp_gt_lt cmp laws).
  Qed.

  Lemma insert_at es k v pos found : sorted es -> position cmp es k = (pos, found) ->
    firstn pos es ++ (k, v) :: skipn (if found then S pos else pos) es = sinsert es k v /\
    (if found then option_map snd (nth_error es pos) else None) = get es k.
  Proof.
    intros Hs Hp. destruct (position_split es k pos found Hs Hp) as (H1 & H2 & H3).
    rewrite <- (firstn_skipn pos es) at 3 5.
    rewrite (insert_app_right cmp laws) by (rewrite Forall_forall in H1; exact H1).
    rewrite get_app, (keys_gt_get_none cmp laws k _ H1).
    destruct found.
    - destruct (H2 eq_refl) as (ov & R & HR & HRlt).
      assert (Hsk : skipn (S pos) es = R).
      { change (S pos) with (1 + pos). rewrite <- skipn_skipn'. now rewrite HR. }
      rewrite Hsk, HR. cbn. rewrite (cmp_refl _ laws). split; [reflexivity|].
      assert (Hn : nth_error es pos = Some (k, ov)).
      { rewrite <- (firstn_skipn pos es) at 1. rewrite HR.
        rewrite nth_error_app2; rewrite firstn_length_le.
        - now rewrite Nat.sub_diag.
        - assert (length (skipn pos es) > 0) by (rewrite HR; cbn; lia). rewrite skipn_length in H. lia.
        - lia.
        - assert (length (skipn pos es) > 0) by (rewrite HR; cbn; lia). rewrite skipn_length in H. lia. }
      now rewrite Hn.
    - specialize (H3 eq_refl). split.
      + f_equal. destruct (skipn pos es) as [|[k1 v1] R]; [reflexivity|]. cbn.
        inversion H3; subst. cbn in H4. now rewrite H4.
      + symmetry. now apply keys_lt_get_none.
  Qed.

  (* ------------------------------------------------------------ leaves *)
  Lemma in_bounds_insert lo hi es k v : Forall (in_bounds cmp lo hi) es -> lo_ok cmp lo k -> hi_ok cmp hi k ->
    Forall (in_bounds cmp lo hi) (sinsert es k v).
  Proof. intros. apply insert_Forall; auto. split; auto. Qed.

  Lemma insert_nonempty es k v : sinsert es k v <> [].
  Proof. destruct es as [|[k' v'] es]; cbn; [discriminate|]. destruct (cmp k k'); discriminate. Qed.

  Lemma sorted_last_max (es : list (K * V)) x : sorted es -> last_opt es = Some x ->
    Forall (fun e => cmp (fst e) (fst x) <> Gt) es.
  Proof.
    intros Hs Hl. rewrite Forall_forall. intros e He. eapply (last_max cmp laws); eauto.
  Qed.

  Lemma sorted_head_min (es : list (K * V)) x : sorted es -> hd_error es = Some x ->
    Forall (fun e => cmp (fst x) (fst e) <> Gt) es.
  Proof.
    intros Hs Hl. rewrite Forall_forall. intros e He. eapply (first_min cmp laws); eauto.
  Qed.

  (* splitting a sorted, bounded list at any interior point yields two valid leaves around sep *)
  Lemma split_at_inv lo hi (es : list (K * V)) d dflt : sorted es -> Forall (in_bounds cmp lo hi) es ->
    (0 < d < length es)%nat ->
    let a := firstn d es in let b := skipn d es in
    let s := match last_opt a, hd_error b with Some x, Some y => sep (fst x) (fst y) | _, _ => dflt end in
    inv 0 lo (Some s) (Leaf a) /\ inv 0 (Some s) hi (Leaf b).
  Proof.
    intros Hs Hb Hd a b s.
    assert (Hab : es = a ++ b) by (symmetry; apply firstn_skipn).
    assert (Hla : length a = d) by (apply firstn_length_le; lia).
    assert (Hlb : length b = (length es - d)%nat) by apply skipn_length.
    assert (Hane : a <> []) by (destruct a; cbn in *; [lia|discriminate]).
    assert (Hbne : b <> []) by (destruct b; cbn in *; [lia|discriminate]).
    rewrite Hab in Hs, Hb. apply sorted_app_inv in Hs as (Hsa & Hsb & Hab_lt).
    apply Forall_app in Hb as [Hba Hbb].
    destruct (removelast_last_opt a Hane) as [x [Hx Hxa]].
    destruct b as [|y b'] eqn:Eb; [congruence|].
    unfold s. rewrite Hx. cbn [hd_error].
    assert (Hxy : cmp (fst x) (fst y) = Lt).
    { apply Hab_lt; [rewrite Hxa; apply in_or_app; right; cbn; auto|cbn; auto]. }
    destruct (Hsep _ _ Hxy) as [Hs1 Hs2].
    split.
    - constructor; auto.
      pose proof (sorted_last_max a x Hsa Hx) as Hmax.
      rewrite Forall_forall in *. intros e He. destruct (Hba e He) as [Hl _]. split; [exact Hl|].
      cbn. eapply cmp_le_trans; eauto.
    - apply inv_leaf; auto.
      pose proof (sorted_head_min (y :: b') y Hsb eq_refl) as Hmin.
      rewrite Forall_forall in *. intros e He. destruct (Hbb e He) as [_ Hh]. split; [|exact Hh].
      cbn. eapply cmp_lt_le_trans; eauto.
  Qed.

  Lemma split_point_cons2 e1 e2 es acc half :
    split_point ksize vsize (e1 :: e2 :: es) acc half =
    if N.leb half (acc + pair_bytes ksize vsize e1) then 1 else S (split_point ksize vsize (e2 :: es) (acc + pair_bytes ksize vsize e1) half).
  Proof. reflexivity. Qed.

  Lemma split_point_bounds es : forall acc half, (2 <= length es)%nat ->
    (1 <= split_point ksize vsize es acc half <= length es - 1)%nat.
  Proof.
    induction es as [|e1 es IH]; intros acc half Hl; [cbn in Hl; lia|].
    destruct es as [|e2 es]; [cbn in Hl; lia|].
    rewrite split_point_cons2. destruct (N.leb half (acc + pair_bytes ksize vsize e1)); [cbn [length]; lia|].
    destruct es as [|e3 es].
    - cbn. lia.
    - specialize (IH (acc + pair_bytes ksize vsize e1)%N half). cbn [length] in *. lia.
  Qed.

  Lemma division_bounds es : (2 <= length es)%nat -> (0 < division es < length es)%nat.
  Proof.
    intros Hl. unfold division.
    pose proof (split_point_bounds es 0%N (leaf_bytes ksize vsize es / 2)%N Hl) as Hd.
    set (d := split_point ksize vsize es 0 (leaf_bytes ksize vsize es / 2)) in *.
    unfold nlen. lia.
  Qed.

  Lemma leaf_split_required_len n bytes : leaf_split_required fixed_k fixed_v page_size n bytes = true -> (1 < n)%N.
  Proof. unfold leaf_split_required. intros H. apply andb_true_iff in H as [_ H]. now apply N.ltb_lt in H. Qed.

  Definition ins_ok h lo hi t k v (r : node * option (K * node) * option V) : Prop :=
    let '(t', sib, old) := r in
    old = get (abs t) k /\
    match sib with
    | None => inv h lo hi t' /\ abs t' = sinsert (abs t) k v
    | Some (s, c2) => inv h lo (Some s) t' /\ inv h (Some s) hi c2 /\ abs t' ++ abs c2 = sinsert (abs t) k v
    end.

  Lemma leaf_insert_ok rightmost lo hi es k v : inv 0 lo hi (Leaf es) -> lo_ok cmp lo k -> hi_ok cmp hi k ->
    ins_ok 0 lo hi (Leaf es) k v (leaf_insert rightmost es k v).
  Proof.
    intros Hi Hlo Hhi. inversion Hi as [lo0 hi0 es0 Hne Hs Hb|]; subst.
    unfold Mutator.leaf_insert. destruct (position cmp es k) as [pos found] eqn:Hp.
    destruct (insert_at es k v pos found Hs Hp) as [Hins Hold].
    destruct (position_split es k pos found Hs Hp) as (P1 & P2 & P3).
    set (es' := firstn pos es ++ (k, v) :: skipn (if found then S pos else pos) es) in *.
    assert (Hplain : ins_ok 0 lo hi (Leaf es) k v (Leaf es', None, if found then option_map snd (nth_error es pos) else None)).
    { cbn. split; [exact Hold|]. rewrite Hins. split; [|reflexivity].
      constructor; [apply insert_nonempty|now apply (sorted_insert cmp laws)|now apply in_bounds_insert]. }
    destruct (negb found && single_large ksize vsize fixed_k fixed_v page_size es) eqn:Esl.
    - (* single large value: sibling leaf *)
      apply andb_true_iff in Esl as [Ef Esl]. apply negb_true_iff in Ef. subst found.
      specialize (P3 eq_refl).
      destruct es as [|[k0 v0] [|e2 es2]]; try discriminate. clear Esl.
      cbn [abs] in *.
      destruct pos as [|pos].
      + cbn [Nat.eqb hd_error fst]. cbn in P3. inversion P3 as [|? ? Hk _]; subst. cbn in Hk.
        destruct (Hsep _ _ Hk) as [S1 S2].
        cbn. rewrite Hk. split; [reflexivity|].
        inversion Hb as [|? ? [B1 B2] _]; subst. cbn in B1, B2.
        split; [|split; [|reflexivity]].
        * constructor; [discriminate|repeat constructor|]. constructor; [|constructor]. split; cbn; auto.
        * constructor; [discriminate|repeat constructor|]. constructor; [|constructor]. split; cbn; auto.
      + cbn [Nat.eqb last_opt fst].
        assert (Hk : cmp k0 k = Lt).
        { cbn in P1. inversion P1; subst; auto. }
        destruct (Hsep _ _ Hk) as [S1 S2].
        cbn. apply (cmp_lt_gt cmp laws) in Hk as Hk'. rewrite Hk'.
        split; [reflexivity|].
        inversion Hb as [|? ? [B1 B2] _]; subst. cbn in B1, B2.
        split; [|split; [|reflexivity]].
        * constructor; [discriminate|repeat constructor|]. constructor; [|constructor]. split; cbn; auto.
        * constructor; [discriminate|repeat constructor|]. constructor; [|constructor]. split; cbn; auto.
    - clear Esl.
      destruct (inplace es k v); [exact Hplain|].
      destruct (found && _); [exact Hplain|].
      match goal with |- context [if ?c then _ else _] => destruct c eqn:Erm end.
      + (* rightmost append: the full leaf stays, the new pair starts a new leaf *)
        apply andb_true_iff in Erm as [Erm Esr]. apply andb_true_iff in Erm as [_ Epos].
        apply Nat.eqb_eq in Epos. subst pos.
        rewrite firstn_all in P1.
        destruct (removelast_last_opt es Hne) as [x [Hx Hxe]]. rewrite Hx.
        assert (Hxk : cmp (fst x) k = Lt).
        { rewrite Forall_forall in P1. apply P1. rewrite Hxe. apply in_or_app. right; cbn; auto. }
        destruct (Hsep _ _ Hxk) as [S1 S2].
        assert (Hfound : found = false).
        { destruct found; [|reflexivity]. destruct (P2 eq_refl) as (ov & R & HR & _).
          rewrite skipn_all in HR. discriminate. }
        subst found. cbn. split; [symmetry; now apply (keys_gt_get_none cmp laws)|].
        split; [|split].
        * constructor; auto. pose proof (sorted_last_max es x Hs Hx) as Hmax.
          rewrite Forall_forall in *. intros e He. destruct (Hb e He) as [Hl _]. split; [exact Hl|].
          cbn. eapply cmp_le_trans; eauto.
        * constructor; [discriminate|repeat constructor|]. constructor; [|constructor]. split; cbn; auto.
        * rewrite <- (app_nil_r es) at 2. rewrite (insert_app_right cmp laws); [reflexivity|].
          rewrite Forall_forall in P1. exact P1.
      + clear Erm. destruct (negb _) eqn:Esp; [exact Hplain|].
        apply negb_false_iff in Esp. apply leaf_split_required_len in Esp.
        unfold Mutator.split_leaf.
        assert (Hl2 : (2 <= length es')%nat) by (unfold nlen in Esp; lia).
        pose proof (division_bounds es' Hl2) as Hd.
        assert (Hs' : sorted es') by (rewrite Hins; now apply (sorted_insert cmp laws)).
        assert (Hb' : Forall (in_bounds cmp lo hi) es') by (rewrite Hins; now apply in_bounds_insert).
        destruct (split_at_inv lo hi es' (division es') k Hs' Hb' Hd) as [I1 I2].
        cbn. split; [exact Hold|]. split; [exact I1|]. split; [exact I2|].
        rewrite firstn_skipn. exact Hins.
  Qed.

  (* ------------------------------------------------------------ branches *)
  Lemma insert_sandwich (L X R : list (K * V)) k v :
    Forall (fun e => cmp (fst e) k = Lt) L -> Forall (fun e => cmp k (fst e) = Lt) R ->
    sinsert (L ++ X ++ R) k v = L ++ sinsert X k v ++ R.
  Proof.
    intros HL HR. rewrite (insert_app_right cmp laws) by (rewrite Forall_forall in HL; exact HL).
    f_equal. apply insert_app_left. rewrite Forall_forall in HR. exact HR.
  Qed.

  (* the routed child, its bounds, the context around it, and how to put a result back *)
  Lemma route_zipper h lo hi c0 rest k : chain h lo hi c0 rest ->
    let i := lin_index cmp k (seps rest) in
    exists lo' hi' L R,
      inv h lo' hi' (nth_child c0 rest i) /\
      (lo_ok cmp lo k -> lo_ok cmp lo' k) /\ (hi_ok cmp hi k -> hi_ok cmp hi' k) /\
      abs c0 ++ abs_rest rest = L ++ abs (nth_child c0 rest i) ++ R /\
      Forall (fun e => cmp (fst e) k = Lt) L /\ Forall (fun e => cmp k (fst e) = Lt) R /\
      (forall c', inv h lo' hi' c' ->
         let '(a, b) := set_child i c' [] c0 rest in
         chain h lo hi a b /\ length b = length rest /\ abs a ++ abs_rest b = L ++ abs c' ++ R) /\
      (forall c' s c2, inv h lo' (Some s) c' -> inv h (Some s) hi' c2 ->
         let '(a, b) := set_child i c' [(s, c2)] c0 rest in
         chain h lo hi a b /\ length b = S (length rest) /\ abs a ++ abs_rest b = L ++ (abs c' ++ abs c2) ++ R).
  Proof.
    induction 1 as [h lo hi c Hi|h lo hi c s1 c1 rest Hi Hc IH]; cbn zeta.
    - exists lo, hi, [], []. unfold nth_child. cbn [children List.map snd nth seps lin_index].
      change (lin_index cmp k []) with 0. cbn [nth].
      split; [exact Hi|]. split; [auto|]. split; [auto|].
      split; [unfold TreeP.abs_rest; cbn; now rewrite !app_nil_r|]. split; [constructor|]. split; [constructor|]. split.
      + intros c' Hc'. cbn. split; [now constructor|]. split; [reflexivity|]. unfold TreeP.abs_rest; cbn. now rewrite !app_nil_r.
      + intros c' s c2 H1 H2. cbn. split; [constructor; auto; now constructor|]. split; [reflexivity|].
        unfold TreeP.abs_rest. cbn. now rewrite !app_nil_r.
    - cbn [seps List.map fst]. rewrite lin_index_cons. destruct (cmp k s1) eqn:E.
      + (* k = s1: goes left *)
        exists lo, (Some s1), [], (abs c1 ++ abs_rest rest).
        assert (HR : Forall (fun e => cmp k (fst e) = Lt) (abs c1 ++ abs_rest rest)).
        { eapply Forall_impl; [|eapply chain_bounds; eauto]. intros e [Ha _]. cbn in Ha.
          apply (cmp_eq_iff cmp laws) in E. now subst. }
        unfold nth_child. cbn [children List.map snd nth]. rewrite abs_rest_cons. cbn [app].
        split; [exact Hi|]. split; [auto|]. split; [intros _; cbn; rewrite E; discriminate|].
        split; [reflexivity|]. split; [constructor|]. split; [exact HR|]. split.
        * intros c' Hc'. cbn. split; [constructor; auto|]. split; [reflexivity|]. reflexivity.
        * intros c' s c2 H1 H2. cbn. split; [constructor; auto; constructor; auto|]. split; [reflexivity|].
          unfold TreeP.abs_rest; cbn; rewrite <- ?app_assoc; reflexivity.
      + exists lo, (Some s1), [], (abs c1 ++ abs_rest rest).
        assert (HR : Forall (fun e => cmp k (fst e) = Lt) (abs c1 ++ abs_rest rest)).
        { eapply Forall_impl; [|eapply chain_bounds; eauto]. intros e [Ha _]. cbn in Ha.
          eapply (cmp_trans _ laws); eauto. }
        unfold nth_child. cbn [children List.map snd nth]. rewrite abs_rest_cons. cbn [app].
        split; [exact Hi|]. split; [auto|]. split; [intros _; cbn; rewrite E; discriminate|].
        split; [reflexivity|]. split; [constructor|]. split; [exact HR|]. split.
        * intros c' Hc'. cbn. split; [constructor; auto|]. split; [reflexivity|]. reflexivity.
        * intros c' s c2 H1 H2. cbn. split; [constructor; auto; constructor; auto|]. split; [reflexivity|].
          unfold TreeP.abs_rest; cbn; rewrite <- ?app_assoc; reflexivity.
      + (* k > s1: continue to the right *)
        destruct IH as (lo' & hi' & L & R & I1 & I2 & I3 & I4 & I5 & I6 & I7 & I8).
        assert (Hle : lin_index cmp k (seps rest) <= length rest)
          by (unfold seps; rewrite <- (map_length fst rest); apply lin_index_le).
        rewrite nth_child_cons by exact Hle.
        exists lo', hi', (abs c ++ L), R.
        split; [exact I1|]. split; [intros _; apply I2; cbn; now apply (cmp_gt_lt cmp laws)|].
        split; [exact I3|]. split; [rewrite abs_rest_cons, I4; now rewrite <- app_assoc|].
        split.
        { apply Forall_app. split; [|exact I5].
          eapply Forall_impl; [|eapply inv_bounds; eauto]. intros e [_ Hb]. cbn in Hb.
          apply (cmp_gt_lt cmp laws) in E. eapply cmp_le_lt_trans; eauto. }
        split; [exact I6|]. split.
        * intros c' Hc'. specialize (I7 c' Hc'). cbn [set_child]. change (List.map fst rest) with (seps rest).
          destruct (set_child (lin_index cmp k (seps rest)) c' [] c1 rest) as [a b].
          destruct I7 as (J1 & J2 & J3). cbv beta iota. split; [constructor; auto|]. split; [cbn; lia|].
          rewrite abs_rest_cons, J3. repeat rewrite <- app_assoc. reflexivity.
        * intros c' s c2 H1 H2. specialize (I8 c' s c2 H1 H2). cbn [set_child]. change (List.map fst rest) with (seps rest).
          destruct (set_child (lin_index cmp k (seps rest)) c' [(s, c2)] c1 rest) as [a b].
          destruct I8 as (J1 & J2 & J3). cbv beta iota. split; [constructor; auto|]. split; [cbn; lia|].
          rewrite abs_rest_cons, J3. repeat rewrite <- app_assoc. reflexivity.
  Qed.

  Lemma chain_split_at h : forall d lo hi a b sk cr, chain h lo hi a b -> nth_error b d = Some (sk, cr) ->
    chain h lo (Some sk) a (firstn d b) /\ chain h (Some sk) hi cr (skipn (S d) b) /\
    abs a ++ abs_rest b = (abs a ++ abs_rest (firstn d b)) ++ (abs cr ++ abs_rest (skipn (S d) b)).
  Proof.
    induction d as [|d IH]; intros lo hi a b sk cr Hc Hn.
    - destruct b as [|[s c] b]; [discriminate|]. cbn in Hn. inversion Hn; subst.
      inversion Hc; subst. cbn [firstn skipn]. split; [now constructor|]. split; [assumption|].
      rewrite abs_rest_cons. unfold TreeP.abs_rest at 2. cbn. now rewrite app_nil_r.
    - destruct b as [|[s c] b]; [discriminate|]. cbn in Hn.
      inversion Hc as [|? ? ? ? ? ? ? Hia Hcb]; subst.
      destruct (IH _ _ _ _ _ _ Hcb Hn) as (J1 & J2 & J3). cbn [firstn skipn].
      split; [constructor; auto|]. split; [exact J2|].
      rewrite !abs_rest_cons. rewrite J3. repeat rewrite <- app_assoc. reflexivity.
  Qed.

  Lemma split_branch_ok h lo hi a b : chain h lo hi a b -> branch_should_split ksize fixed_k page_size b = true ->
    match split_branch a b with
    | (x, Some (s, y)) => inv (S h) lo (Some s) x /\ inv (S h) (Some s) hi y /\ abs x ++ abs y = abs a ++ abs_rest b
    | (x, None) => False
    end.
  Proof.
    intros Hc Hsp. unfold branch_should_split in Hsp. apply andb_true_iff in Hsp as [_ Hn].
    apply N.leb_le in Hn. unfold nlen in Hn.
    assert (Hl : 3 <= length b) by lia. clear Hn.
    unfold split_branch.
    assert (Hd : 1 <= Nat.div2 (length b) /\ S (Nat.div2 (length b)) < length b).
    { pose proof (Nat.div2_odd (length b)) as E. destruct (Nat.odd (length b)); cbn [Nat.b2n] in E; lia. }
    set (d := Nat.div2 (length b)) in *.
    destruct (nth_error b d) as [[sk cr]|] eqn:En.
    2:{ apply nth_error_None in En. lia. }
    destruct (chain_split_at h d lo hi a b sk cr Hc En) as (J1 & J2 & J3).
    split; [|split].
    - constructor; auto. intros Hnil. apply (f_equal (@length _)) in Hnil. rewrite firstn_length_le in Hnil by lia. cbn in Hnil. lia.
    - constructor; auto. intros Hnil. apply (f_equal (@length _)) in Hnil. rewrite skipn_length in Hnil. cbn in Hnil. lia.
    - rewrite !abs_branch. now rewrite J3.
  Qed.

  Lemma insert_sub_ok fuel : forall rightmost t h lo hi k v, inv h lo hi t -> h <= fuel ->
    lo_ok cmp lo k -> hi_ok cmp hi k -> ins_ok h lo hi t k v (insert_sub fuel rightmost t k v).
  Proof.
    induction fuel as [|f IH]; intros rightmost t h lo hi k v Hi Hf Hlo Hhi.
    - assert (h = 0) by lia. subst. destruct (inv_0_leaf cmp _ _ _ Hi) as [es ->]. now apply leaf_insert_ok.
    - inversion Hi as [lo0 hi0 es Hne Hs Hb|h' lo0 hi0 c0 rest Hne Hc]; subst.
      + now apply leaf_insert_ok.
      + cbn [Mutator.insert_sub]. rewrite (child_for_key_lin cmp laws _ _ _ _ _ k Hc).
        destruct (route_zipper _ _ _ _ _ k Hc) as (lo' & hi' & L & R & I1 & I2 & I3 & I4 & I5 & I6 & I7 & I8).
        set (i := lin_index cmp k (seps rest)) in *.
        assert (Hf' : h' <= f) by lia.
        pose proof (IH (rightmost && Nat.eqb i (length rest)) _ h' lo' hi' k v I1 Hf' (I2 Hlo) (I3 Hhi)) as Hsub.
        destruct (insert_sub f (rightmost && Nat.eqb i (length rest)) (nth_child c0 rest i) k v) as [[c' sib] old].
        cbn in Hsub. destruct Hsub as [Hold Hsub].
        assert (Holdt : old = get (abs (Branch c0 rest)) k).
        { rewrite abs_branch, I4, (get_sandwich cmp laws L _ R k I5 I6). exact Hold. }
        destruct sib as [[s c2]|].
        * destruct Hsub as (H1 & H2 & H3).
          specialize (I8 c' s c2 H1 H2).
          destruct (set_child i c' [(s, c2)] c0 rest) as [a b]. destruct I8 as (J1 & J2 & J3).
          assert (Habs : abs a ++ abs_rest b = sinsert (abs (Branch c0 rest)) k v).
          { rewrite J3, H3, abs_branch, I4. symmetry. now apply insert_sandwich. }
          destruct (branch_should_split ksize fixed_k page_size b) eqn:Esp.
          -- pose proof (split_branch_ok _ _ _ _ _ J1 Esp) as Hsb.
             destruct (split_branch a b) as [x [[sk y]|]]; [|tauto].
             destruct Hsb as (K1 & K2 & K3). unfold ins_ok. split; [exact Holdt|]. split; [exact K1|]. split; [exact K2|].
             rewrite K3. exact Habs.
          -- unfold ins_ok. split; [exact Holdt|]. split; [|rewrite (abs_branch a b); exact Habs].
             constructor; auto. destruct b; [cbn in J2; lia|discriminate].
        * destruct Hsub as (H1 & H3).
          specialize (I7 c' H1).
          destruct (set_child i c' [] c0 rest) as [a b]. destruct I7 as (J1 & J2 & J3).
          unfold ins_ok. split; [exact Holdt|]. split.
          -- constructor; auto. destruct b; [destruct rest; [congruence|cbn in J2; lia]|discriminate].
          -- rewrite (abs_branch a b), J3, H3, (abs_branch c0 rest), I4. symmetry. now apply insert_sandwich.
  Qed.

  (* ------------------------------------------------------------ table level *)
  Theorem insert_refines_lemma (bt : @btree K V) k v : TreeInv cmp bt ->
    let '(bt', old) := insert bt k v in
    TreeInv cmp bt' /\ abs_tree bt' = sinsert (abs_tree bt) k v /\ old = get (abs_tree bt) k.
  Proof.
    unfold TreeInv, Mutator.insert, abs_tree. destruct (bt_root bt) as [t|] eqn:Er.
    - intros [[h Hi] Hlen].
      pose proof (insert_sub_ok (fuel_of t) true t h None None k v Hi) as Hok.
      assert (Hf : h <= fuel_of t) by (unfold fuel_of; rewrite (inv_height cmp _ _ _ _ Hi); lia).
      specialize (Hok Hf I I).
      destruct (insert_sub (fuel_of t) true t k v) as [[t' sib] old]. cbn in Hok. destruct Hok as [Hold Hok].
      pose proof (inv_sorted cmp laws _ _ _ _ Hi) as Hsorted.
      assert (Hlen' : forall m, m = sinsert (abs t) k v ->
                (match old with Some _ => bt_len bt | None => (bt_len bt + 1)%N end) = len m).
      { intros m ->. rewrite (len_insert cmp laws _ k v Hsorted), <- Hold, Hlen. destruct old; reflexivity. }
      destruct sib as [[s c2]|]; cbn.
      + destruct Hok as (H1 & H2 & H3). split; [|split; auto].
        * split.
          -- exists (S h). constructor; [discriminate|]. constructor; auto. now constructor.
          -- apply Hlen'. cbn. unfold TreeP.abs_rest. cbn. now rewrite app_nil_r.
        * unfold TreeP.abs_rest. cbn. now rewrite app_nil_r.
      + destruct Hok as (H1 & H3). split; [|split; auto].
        split; [exists h; exact H1|]. now apply Hlen'.
    - intros Hlen. cbn. split; [|split; reflexivity].
      split; [|reflexivity]. exists 0. constructor; [discriminate|repeat constructor|].
      constructor; [|constructor]. split; cbn; auto.
  Qed.

End MutatorP.
