(* packing_inv: build_replacement_leaves loses, duplicates and reorders nothing; every leaf is
   non-empty; every greedily planned leaf fits a page or holds a single pair; the separators route
   (everything in a leaf <= its separator < everything in the next leaf; the last separator is the
   greatest key). For every buffer, page size and size functions. *)
From Coq Require Import List NArith Bool Sorted Lia Arith.
From RV Require Import Base.SortedMap Base.SortedMapP Btree.Tree Btree.Mutator Btree.MutatorP Btree.Packing.
Import ListNotations.

Section PackingP.
  Context {K V : Type}.
  Variable cmp : K -> K -> comparison.
  Hypothesis laws : OrderLaws cmp.
  Variable ksize : K -> N.
  Variable vsize : V -> N.
  Variable fixed_k fixed_v : bool.
  Variable page_size : N.
  Variable sep : K -> K -> K.
  Hypothesis Hsep : valid_sep cmp sep.

  Notation greedy := (greedy ksize vsize fixed_k fixed_v page_size).
  Notation plan := (plan ksize vsize fixed_k fixed_v page_size).
  Notation rebalance := (rebalance ksize vsize fixed_k fixed_v page_size).
  Notation with_seps := (with_seps sep).
  Notation replacement_leaves := (replacement_leaves ksize vsize fixed_k fixed_v page_size sep).
  Notation fits c := (leaf_split_required fixed_k fixed_v page_size (nlen c) (leaf_bytes ksize vsize c) = false).
  Implicit Types (es cur c : list (K * V)) (chunks : list (list (K * V))).

  Lemma leaf_bytes_snoc cur e : leaf_bytes ksize vsize (cur ++ [e]) = (leaf_bytes ksize vsize cur + pair_bytes ksize vsize e)%N.
  Proof.
    unfold leaf_bytes. induction cur as [|x cur IH]; cbn [app fold_right]; [lia|]. rewrite IH. lia.
  Qed.

  Lemma nlen_snoc cur e : nlen (cur ++ [e]) = (nlen cur + 1)%N.
  Proof. unfold nlen. rewrite app_length. cbn. lia. Qed.

  Lemma greedy_concat es : forall cur b, concat (greedy cur b es) = cur ++ es.
  Proof.
    induction es as [|e r IH]; intros cur b; cbn.
    - destruct cur; cbn; now rewrite ?app_nil_r.
    - destruct (leaf_split_required _ _ _ _ _); cbn; rewrite IH; [reflexivity|now rewrite <- app_assoc].
  Qed.

  Lemma greedy_nonempty es : forall cur b, Forall (fun c => c <> []) (greedy cur b es).
  Proof.
    induction es as [|e r IH]; intros cur b; cbn.
    - destruct cur; [constructor|]. constructor; [discriminate|constructor].
    - destruct (leaf_split_required _ _ _ _ _) eqn:E; [|apply IH].
      constructor; [|apply IH]. apply leaf_split_required_len in E. unfold nlen in E. destruct cur; [cbn in E; lia|discriminate].
  Qed.

  Lemma fits_single e : fits [e].
  Proof. unfold leaf_split_required. cbn. apply andb_false_r. Qed.

  Lemma greedy_fits es : forall cur b, b = leaf_bytes ksize vsize cur -> (cur = [] \/ fits cur) ->
    Forall (fun c => fits c) (greedy cur b es).
  Proof.
    induction es as [|e r IH]; intros cur b Hb Hc; cbn.
    - destruct cur; [constructor|]. destruct Hc as [Hc|Hc]; [discriminate|]. constructor; [exact Hc|constructor].
    - destruct (leaf_split_required fixed_k fixed_v page_size (nlen cur + 1) _) eqn:E.
      + constructor.
        * destruct Hc as [->|Hc]; [|exact Hc]. unfold leaf_split_required in E. cbn in E. now rewrite andb_false_r in E.
        * apply IH; [cbn; lia|right; apply fits_single].
      + apply IH; [rewrite leaf_bytes_snoc; lia|]. right. rewrite nlen_snoc, leaf_bytes_snoc, <- Hb. exact E.
  Qed.

  Lemma split_last2_cons3 (x y z : list (K * V)) r :
    split_last2 (x :: y :: z :: r) =
    match split_last2 (y :: z :: r) with Some (p, a, b) => Some (x :: p, a, b) | None => None end.
  Proof. reflexivity. Qed.

  Lemma split_last2_spec chunks p a b : split_last2 chunks = Some (p, a, b) -> chunks = p ++ [a; b].
  Proof.
    revert p a b. induction chunks as [|x r IH]; intros p a b H; [discriminate|].
    destruct r as [|y r']; [discriminate|]. destruct r' as [|z r''].
    - cbn in H. inversion H; subst. reflexivity.
    - rewrite split_last2_cons3 in H. destruct (split_last2 (y :: z :: r'')) as [[[p' a'] b']|] eqn:E; [|discriminate].
      inversion H; subst. rewrite (IH _ _ _ eq_refl). reflexivity.
  Qed.

  Lemma rebalance_ok chunks : Forall (fun c => c <> []) chunks ->
    concat (rebalance chunks) = concat chunks /\ Forall (fun c => c <> []) (rebalance chunks).
  Proof.
    intros Hne. unfold Packing.rebalance. destruct (split_last2 chunks) as [[[p a] b]|] eqn:E; [|auto].
    destruct (leaf_below_merge _ _ _ _ _); [|auto].
    apply split_last2_spec in E. subst chunks.
    apply Forall_app in Hne as [Hp Hab]. inversion Hab as [|? ? Ha Hb']; subst. inversion Hb' as [|? ? Hb _]; subst.
    assert (Hl : 2 <= length (a ++ b)) by (rewrite app_length; destruct a; [congruence|]; destruct b; [congruence|]; cbn; lia).
    pose proof (division_bounds ksize vsize (a ++ b) Hl) as Hd.
    split.
    - rewrite !concat_app. cbn. rewrite !app_nil_r. now rewrite firstn_skipn.
    - apply Forall_app. split; [exact Hp|]. constructor; [|constructor; [|constructor]].
      + intros H. apply (f_equal (@length _)) in H. rewrite firstn_length_le in H by lia. cbn in H. lia.
      + intros H. apply (f_equal (@length _)) in H. rewrite skipn_length in H. cbn in H. lia.
  Qed.

  (* separators route between consecutive leaves; the last one is the greatest key *)
  Fixpoint seps_chain (out : list (list (K * V) * K)) : Prop :=
    match out with
    | [] => True
    | [(c, s)] => match last_opt c with Some e => fst e = s | None => False end
    | (c, s) :: (((c', _) :: _) as r) =>
        Forall (fun e => cmp (fst e) s <> Gt) c /\ Forall (fun e => cmp s (fst e) = Lt) c' /\ seps_chain r
    end.

  Lemma with_seps_fst chunks dflt : List.map fst (with_seps chunks dflt) = chunks.
  Proof.
    induction chunks as [|c r IH]; [reflexivity|]. destruct r as [|c' r']; [reflexivity|].
    cbn [Packing.with_seps List.map fst]. f_equal. exact IH.
  Qed.

  Lemma with_seps_cons2 c c' r dflt :
    with_seps (c :: c' :: r) dflt =
    (c, match last_opt c, hd_error c' with Some x, Some y => sep (fst x) (fst y) | _, _ => dflt end) :: with_seps (c' :: r) dflt.
  Proof. reflexivity. Qed.

  Lemma with_seps_chain chunks dflt : sorted cmp (concat chunks) -> Forall (fun c => c <> []) chunks ->
    seps_chain (with_seps chunks dflt).
  Proof.
    induction chunks as [|c r IH]; intros Hs Hne; [exact I|].
    inversion Hne as [|? ? Hc Hr]; subst. destruct r as [|c' r'].
    - cbn. destruct (removelast_last_opt c Hc) as [x [Hx _]]. now rewrite Hx.
    - rewrite with_seps_cons2. inversion Hr as [|? ? Hc' _]; subst.
      cbn [concat] in Hs. apply sorted_app_inv in Hs as (Hsc & Hsr & Hlt).
      specialize (IH Hsr Hr).
      destruct (removelast_last_opt c Hc) as [x [Hx Hxc]]. rewrite Hx.
      destruct c' as [|y c'']; [congruence|]. cbn [hd_error].
      assert (Hxy : cmp (fst x) (fst y) = Lt).
      { apply Hlt; [rewrite Hxc; apply in_or_app; right; cbn; auto|cbn; auto]. }
      destruct (Hsep _ _ Hxy) as [S1 S2].
      pose proof (with_seps_fst ((y :: c'') :: r') dflt) as Hf.
      destruct (with_seps ((y :: c'') :: r') dflt) as [|[c2 s2] r2] eqn:Ew; [discriminate|].
      cbn in Hf. inversion Hf; subst c2. cbn [seps_chain]. split; [|split].
      + pose proof (last_max cmp laws c x Hsc Hx) as Hmax. rewrite Forall_forall. intros e He.
        eapply (cmp_le_trans cmp laws); eauto.
      + cbn [concat] in Hsr. apply sorted_app_inv in Hsr as (Hsy & _ & _).
        pose proof (first_min cmp laws (y :: c'') y Hsy eq_refl) as Hmin. rewrite Forall_forall. intros e He.
        eapply (cmp_lt_le_trans cmp laws); eauto.
      + exact IH.
  Qed.

  Theorem packing_inv_lemma es dflt : sorted cmp es ->
    let out := replacement_leaves es dflt in
    concat (List.map fst out) = es /\
    Forall (fun p => fst p <> []) out /\
    seps_chain out /\
    Forall (fun c => fits c) (plan es).
  Proof.
    intros Hs. unfold Packing.replacement_leaves. cbv zeta. rewrite with_seps_fst.
    pose proof (greedy_nonempty es [] 0%N) as Hne.
    destruct (rebalance_ok (plan es) Hne) as [Hc Hne'].
    assert (Hcat : concat (rebalance (plan es)) = es) by (rewrite Hc; unfold Packing.plan; now rewrite greedy_concat).
    split; [exact Hcat|]. split; [|split].
    - rewrite <- (with_seps_fst (rebalance (plan es)) dflt) in Hne'. rewrite Forall_map in Hne'. exact Hne'.
    - apply with_seps_chain; [now rewrite Hcat|exact Hne'].
    - apply greedy_fits; [reflexivity|now left].
  Qed.

End PackingP.
