(* cursor_refines_tree: a whole cursor session on the TREE (open at lower_bound / upper_bound, any script of
   peeks, moves, inserts in both directions and removals, any flush decisions, close) returns exactly the outputs
   of the specification cursor of Base/SortedMap.v and leaves a well-formed tree holding the specification's map.
   The induction over the script threads the session invariant
     Inv tree  /\  run_ok  /\  abs tree = rev s_before ++ s_after  /\  sorted (rev s_before ++ r_buf ++ s_after)
   through every step; ingredients: CursorP.step_refines (gap logic, every flush decision),
   CursorSpliceTopP.flush_at_gap_refines (every splice), DeleteP.delete_refines_lemma (every removal).
   The first section is generic in the STORE (leaves / splice / delete_key with their three laws), the second
   instantiates it with the logical tree. *)
From Coq Require Import List NArith Bool Arith Lia.
From RV Require Import Base.SortedMap Base.SortedMapP Btree.Tree Btree.TreeP Btree.Read Btree.Mutator Btree.DeleteP
                       Btree.Scan Btree.ScanTree Btree.ScanTreeP Btree.Cursor Btree.CursorP Btree.CursorSplice
                       Btree.CursorSpliceP Btree.CursorSpliceTopP Btree.CursorSession.
Import ListNotations.

Section StoreP.
  Context {K V Tree : Type}.
  Variable cmp : K -> K -> comparison.
  Hypothesis laws : OrderLaws cmp.
  Variable leaves_of : Tree -> list (list (K * V)).
  Variable splice : Tree -> nat -> nat -> list (K * V) -> Tree.
  Variable delete_key : Tree -> K -> Tree.

  (* what the session needs of the store *)
  Variable Inv : Tree -> Prop.
  Variable absT : Tree -> list (K * V).
  Hypothesis H_leaves : forall t, concat (leaves_of t) = absT t.
  Hypothesis H_sorted : forall t, Inv t -> sorted cmp (absT t).
  Hypothesis H_splice : forall t pre post run, Inv t -> absT t = pre ++ post -> run <> [] ->
    sorted cmp (pre ++ run ++ post) ->
    let '(j, pos) := open_pos (leaves_of t) (gap_pos (leaves_of t) (length pre)) in
    Inv (splice t j pos run) /\ absT (splice t j pos run) = pre ++ run ++ post.
  Hypothesis H_splice_nil : forall t j pos, splice t j pos [] = t.
  Hypothesis H_delete : forall t k, Inv t ->
    Inv (delete_key t k) /\ absT (delete_key t k) = SortedMap.remove cmp (absT t) k.

  Notation cstate := (@cstate K V Tree).
  Notation mstate := (@mstate K V).
  Notation c_flush := (@c_flush K V Tree leaves_of splice).
  Notation g_step := (@g_step K V Tree cmp leaves_of splice delete_key).
  Notation g_script := (@g_script K V Tree cmp leaves_of splice delete_key).
  Notation g_session := (@g_session K V Tree cmp leaves_of splice delete_key).
  Notation sorted := (@sorted K V cmp).

  (* the session invariant *)
  Definition sess_inv (st : cstate) : Prop :=
    Inv (cs_tree st) /\ run_ok (cs_m st) /\
    absT (cs_tree st) = rev (s_before (cs_m st)) ++ s_after (cs_m st) /\
    sorted (cursor_map (m_abs (cs_m st))).

  Lemma cs_m_c_flush st : cs_m (c_flush st) = flush (cs_m st).
  Proof.
    unfold CursorSplice.c_flush. destruct (s_run (cs_m st)) as [r|] eqn:E.
    - destruct (run_pos leaves_of st). reflexivity.
    - cbn. now rewrite flush_norun.
  Qed.

  Lemma flush_run_none (m : mstate) : s_run (flush m) = None.
  Proof. unfold flush. destruct (s_run m) as [r|] eqn:E; [destruct (r_dir r); reflexivity|exact E]. Qed.

  Lemma m_abs_map_flush (m : mstate) :
    cursor_map (m_abs m) = rev (s_before (flush m)) ++ s_after (flush m).
  Proof. reflexivity. Qed.

  (* what is sorted: the tree content with the pending inserts at the gap *)
  Lemma m_abs_map_run (m : mstate) r : s_run m = Some r ->
    cursor_map (m_abs m) = rev (s_before m) ++ r_buf r ++ s_after m.
  Proof.
    intros E. unfold m_abs, flush, cursor_map. rewrite E. destruct (r_dir r); cbn [c_before c_after s_before s_after].
    - now rewrite rev_app_distr, rev_involutive, <- app_assoc.
    - reflexivity.
  Qed.

  (* flush_insert_run: every flush, forced or decided *)
  Lemma c_flush_inv st : sess_inv st -> sess_inv (c_flush st).
  Proof.
    intros (HI & Hok & Habs & Hs). unfold sess_inv. rewrite cs_m_c_flush.
    split; [|split; [apply run_ok_flush|split; [|now rewrite m_abs_flush]]].
    - unfold CursorSplice.c_flush. destruct (s_run (cs_m st)) as [r|] eqn:E; [|exact HI].
      destruct (run_pos leaves_of st) as [j pos] eqn:Ep. cbn [cs_tree].
      destruct (r_buf r) as [|e buf] eqn:Eb; [now rewrite H_splice_nil|].
      pose proof (H_splice (cs_tree st) (rev (s_before (cs_m st))) (s_after (cs_m st)) (r_buf r) HI Habs
                    ltac:(rewrite Eb; discriminate) ltac:(rewrite <- (m_abs_map_run _ _ E); exact Hs)) as H.
      unfold run_pos in Ep. rewrite rev_length, Ep in H. rewrite Eb in H. tauto.
    - unfold CursorSplice.c_flush. destruct (s_run (cs_m st)) as [r|] eqn:E.
      + destruct (run_pos leaves_of st) as [j pos] eqn:Ep. cbn [cs_tree].
        rewrite <- m_abs_map_flush, (m_abs_map_run _ _ E).
        destruct (r_buf r) as [|e buf] eqn:Eb; [now rewrite H_splice_nil|].
        pose proof (H_splice (cs_tree st) (rev (s_before (cs_m st))) (s_after (cs_m st)) (r_buf r) HI Habs
                      ltac:(rewrite Eb; discriminate) ltac:(rewrite <- (m_abs_map_run _ _ E); exact Hs)) as H.
        unfold run_pos in Ep. rewrite rev_length, Ep in H. rewrite Eb in H. tauto.
      + now rewrite (flush_norun _ E).
  Qed.

  (* the gap logic on a flushed state is the gap logic on the state (moves and removals flush first) *)
  Lemma m_step_after_flush fn (m : mstate) o :
    match o with CNext | CPrev | CRemoveNext | CRemovePrev => True | _ => False end ->
    m_step cmp fn (flush m) o = m_step cmp fn m o.
  Proof.
    destruct o; try contradiction; intros _; cbn [m_step]; unfold m_next, m_prev, m_remove_next, m_remove_prev;
      now rewrite flush_idem.
  Qed.

  (* an insert that does not have to flush a run of the other direction leaves the tree part of the state alone *)
  Lemma insert_keeps_sides d (m : mstate) k v : other_dir_open d m = false ->
    let '(b, m2) := match d with
                    | Ascending => m_insert_before cmp (fun _ => false) m k v
                    | Descending => m_insert_after cmp (fun _ => false) m k v
                    end in
    s_before m2 = s_before m /\ s_after m2 = s_after m.
  Proof.
    unfold other_dir_open, m_insert_before, m_insert_after, ensure_run.
    destruct d; destruct (s_run m) as [r|]; try destruct (r_dir r); cbn [dir_eqb negb]; try discriminate; intros _;
      match goal with |- context [rejects ?c ?r ?k] => destruct (rejects c r k) end; cbn; auto.
  Qed.

  Definition ins_op (d : run_dir) (k : K) (v : V) : @cursor_op K V :=
    match d with Ascending => CInsertBefore k v | Descending => CInsertAfter k v end.

  (* insert_before / insert_after: forced flush of a run of the other direction, the gap logic, the decided flush *)
  Lemma insert_inv fl d st k v : sess_inv st ->
    let '(b, st') := g_insert cmp leaves_of splice fl d st k v in
    cursor_step cmp (m_abs (cs_m st)) (ins_op d k v) = (CAccepted b, m_abs (cs_m st')) /\ sess_inv st'.
  Proof.
    intros Hinv. unfold g_insert.
    set (st1 := if other_dir_open d (cs_m st) then c_flush st else st).
    assert (H1 : sess_inv st1) by (unfold st1; destruct other_dir_open; [apply c_flush_inv|]; exact Hinv).
    assert (Ha : m_abs (cs_m st1) = m_abs (cs_m st))
      by (unfold st1; destruct other_dir_open; [rewrite cs_m_c_flush; apply m_abs_flush|reflexivity]).
    assert (Ho : other_dir_open d (cs_m st1) = false).
    { unfold st1. destruct (other_dir_open d (cs_m st)) eqn:E; [|exact E].
      unfold other_dir_open. now rewrite cs_m_c_flush, flush_run_none. }
    pose proof (step_refines cmp laws (fun _ => false) (cs_m st1) (ins_op d k v) (proj1 (proj2 H1))) as HS.
    pose proof (insert_keeps_sides d (cs_m st1) k v Ho) as HK.
    rewrite Ha in HS.
    assert (Hsrt : forall x c', cursor_step cmp (m_abs (cs_m st)) (ins_op d k v) = (x, c') -> sorted (cursor_map c')).
    { intros x c' E. destruct Hinv as (_ & _ & _ & Hs). pose proof (cursor_step_sorted cmp laws _ (ins_op d k v) Hs) as H.
      now rewrite E in H. }
    destruct H1 as (I1 & I2 & I3 & I4).
    destruct d; cbn [ins_op m_step] in HS, Hsrt |- *;
      match goal with
      | |- context [m_insert_before ?a ?f ?m ?x ?y] => destruct (m_insert_before a f m x y) as [b m2]
      | |- context [m_insert_after ?a ?f ?m ?x ?y] => destruct (m_insert_after a f m x y) as [b m2]
      end;
      cbv beta iota in HS, HK; destruct HS as [S1 S2]; destruct HK as [K1 K2];
      (assert (H2 : sess_inv (mk_cstate (cs_tree st1) m2));
       [unfold sess_inv; cbn [cs_tree cs_m]; rewrite K1, K2; repeat split; auto; eapply Hsrt; eauto|]);
      (destruct (b && fl (mk_cstate (cs_tree st1) m2));
       [split; [rewrite cs_m_c_flush, m_abs_flush; exact S1|apply c_flush_inv; exact H2]|split; [exact S1|exact H2]]).
  Qed.

  Lemma step_inv fl st o : sess_inv st ->
    let '(x, st') := g_step fl st o in
    cursor_step cmp (m_abs (cs_m st)) o = (x, m_abs (cs_m st')) /\ sess_inv st'.
  Proof.
    intros Hinv.
    (* the tree part of the invariant per operation; the gap part comes from step_refines *)
    assert (Hsorted : forall x c', cursor_step cmp (m_abs (cs_m st)) o = (x, c') -> sorted (cursor_map c')).
    { intros x c' E. destruct Hinv as (_ & _ & _ & Hs). pose proof (cursor_step_sorted cmp laws _ o Hs) as H.
      now rewrite E in H. }
    pose proof (c_flush_inv st Hinv) as Hf. pose proof (cs_m_c_flush st) as Em.
    destruct o as [| | | |k v|k v| |]; cbn [CursorSession.g_step].
    - (* peek_next *)
      pose proof (step_refines cmp laws (fun _ => false) (cs_m st) CPeekNext ltac:(apply Hinv)) as H.
      cbn [m_step] in H. split; [apply H|exact Hinv].
    - pose proof (step_refines cmp laws (fun _ => false) (cs_m st) CPeekPrev ltac:(apply Hinv)) as H.
      cbn [m_step] in H. split; [apply H|exact Hinv].
    - (* next *)
      unfold c_move. pose proof (step_refines cmp laws (fun _ => false) (cs_m st) CNext ltac:(apply Hinv)) as H.
      rewrite <- (m_step_after_flush _ _ CNext I), <- Em in H. cbn [m_step] in H.
      destruct Hf as (F1 & F2 & F3 & F4). revert H. unfold m_next. rewrite Em, flush_idem, <- Em.
      destruct (s_after (cs_m (c_flush st))) as [|e a] eqn:Ea; intros [H1 H2].
      + split; [exact H1|]. repeat split; cbn [cs_tree cs_m]; rewrite ?Ea; auto.
      + split; [exact H1|]. repeat split; cbn [cs_tree cs_m s_before s_after]; auto.
        * rewrite F3. cbn. now rewrite <- app_assoc.
        * eapply Hsorted; eauto.
    - (* prev *)
      unfold c_move. pose proof (step_refines cmp laws (fun _ => false) (cs_m st) CPrev ltac:(apply Hinv)) as H.
      rewrite <- (m_step_after_flush _ _ CPrev I), <- Em in H. cbn [m_step] in H.
      destruct Hf as (F1 & F2 & F3 & F4). revert H. unfold m_prev. rewrite Em, flush_idem, <- Em.
      destruct (s_before (cs_m (c_flush st))) as [|e a] eqn:Ea; intros [H1 H2].
      + split; [exact H1|]. repeat split; cbn [cs_tree cs_m]; rewrite ?Ea; auto.
      + split; [exact H1|]. repeat split; cbn [cs_tree cs_m s_before s_after]; auto.
        * rewrite F3. cbn. now rewrite <- app_assoc.
        * eapply Hsorted; eauto.
    - (* insert_before *)
      pose proof (insert_inv fl Ascending st k v Hinv) as H. destruct (g_insert cmp leaves_of splice fl Ascending st k v) as [b st']. exact H.
    - pose proof (insert_inv fl Descending st k v Hinv) as H. destruct (g_insert cmp leaves_of splice fl Descending st k v) as [b st']. exact H.
    - (* remove_next *)
      unfold c_remove. pose proof (step_refines cmp laws (fun _ => false) (cs_m st) CRemoveNext ltac:(apply Hinv)) as H.
      rewrite <- (m_step_after_flush _ _ CRemoveNext I), <- Em in H. cbn [m_step] in H.
      destruct Hf as (F1 & F2 & F3 & F4). revert H. unfold m_remove_next. rewrite Em, flush_idem, <- Em.
      assert (Hs1 : sorted (rev (s_before (cs_m (c_flush st))) ++ s_after (cs_m (c_flush st)))).
      { rewrite Em. rewrite <- m_abs_map_flush. apply Hinv. }
      destruct (s_after (cs_m (c_flush st))) as [|e a] eqn:Ea; intros [H1 H2].
      + split; [exact H1|]. repeat split; cbn [cs_tree cs_m]; rewrite ?Ea; auto.
      + split; [exact H1|]. destruct (H_delete (cs_tree (c_flush st)) (fst e) F1) as [D1 D2].
        repeat split; cbn [cs_tree cs_m s_before s_after]; auto.
        * rewrite D2, F3. now apply remove_middle_sorted.
        * eapply Hsorted; eauto.
    - (* remove_prev *)
      unfold c_remove. pose proof (step_refines cmp laws (fun _ => false) (cs_m st) CRemovePrev ltac:(apply Hinv)) as H.
      rewrite <- (m_step_after_flush _ _ CRemovePrev I), <- Em in H. cbn [m_step] in H.
      destruct Hf as (F1 & F2 & F3 & F4). revert H. unfold m_remove_prev. rewrite Em, flush_idem, <- Em.
      assert (Hs1 : sorted (rev (s_before (cs_m (c_flush st))) ++ s_after (cs_m (c_flush st)))).
      { rewrite Em. rewrite <- m_abs_map_flush. apply Hinv. }
      destruct (s_before (cs_m (c_flush st))) as [|e a] eqn:Ea; intros [H1 H2].
      + split; [exact H1|]. repeat split; cbn [cs_tree cs_m]; rewrite ?Ea; auto.
      + split; [exact H1|]. destruct (H_delete (cs_tree (c_flush st)) (fst e) F1) as [D1 D2].
        repeat split; cbn [cs_tree cs_m s_before s_after]; auto.
        * rewrite D2, F3. cbn [rev] in *. rewrite <- app_assoc in *. cbn [app] in *. now apply remove_middle_sorted.
        * eapply Hsorted; eauto.
  Qed.

  (* the induction over the script *)
  Lemma script_inv fls ops : forall st, sess_inv st ->
    let '(xs, st') := g_script fls ops st in
    cursor_script cmp ops (m_abs (cs_m st)) = (xs, m_abs (cs_m st')) /\ sess_inv st'.
  Proof.
    induction ops as [|o r IH]; intros st Hinv; cbn [CursorSession.g_script cursor_script].
    - split; [reflexivity|exact Hinv].
    - pose proof (step_inv (fls (length r)) st o Hinv) as H1. destruct (g_step (fls (length r)) st o) as [x st1].
      destruct H1 as [E1 Hinv1]. rewrite E1. specialize (IH st1 Hinv1). destruct (g_script fls r st1) as [xs st2].
      destruct IH as [E2 Hinv2]. rewrite E2. split; [reflexivity|exact Hinv2].
  Qed.

  Lemma open_inv t lower b : Inv t ->
    sess_inv (c_open cmp leaves_of t lower b) /\
    m_abs (cs_m (c_open cmp leaves_of t lower b)) = (if lower then seek_lower cmp (absT t) b else seek_upper cmp (absT t) b).
  Proof.
    intros HI. unfold c_open. rewrite H_leaves. cbn [cs_m cs_tree].
    set (c := if lower then seek_lower cmp (absT t) b else seek_upper cmp (absT t) b).
    assert (Hc : cursor_map c = absT t)
      by (unfold c; destruct lower; [apply cursor_map_seek_lower|apply cursor_map_seek_upper]).
    assert (Ha : m_abs (m_of_cursor c) = c) by (destruct c; reflexivity).
    split; [|exact Ha]. unfold sess_inv. cbn [cs_m cs_tree]. rewrite Ha. repeat split.
    - exact HI.
    - symmetry. exact Hc.
    - rewrite Hc. now apply H_sorted.
  Qed.

  (* open ... script ... close(): outputs, invariant and contents *)
  Theorem session_refines fls t lower b ops : Inv t ->
    let '(outs, t') := g_session fls t lower b ops in
    let '(ys, c') := cursor_script cmp ops (if lower then seek_lower cmp (absT t) b else seek_upper cmp (absT t) b) in
    outs = ys /\ Inv t' /\ absT t' = cursor_map c'.
  Proof.
    intros HI. unfold CursorSession.g_session. destruct (open_inv t lower b HI) as [H0 E0].
    pose proof (script_inv fls ops _ H0) as H. destruct (g_script fls ops (c_open cmp leaves_of t lower b)) as [outs st].
    destruct H as [E1 H1]. rewrite E0 in E1. rewrite E1.
    destruct (c_flush_inv st H1) as (F1 & _ & F3 & _). split; [reflexivity|]. split; [exact F1|].
    rewrite F3, cs_m_c_flush. reflexivity.
  Qed.
End StoreP.

(* the machine of CursorSplice.v (INSERT_FLUSH_BYTES threshold on total_bytes()) is the oracle machine at
   `threshold_oracle` *)
Section Instance.
  Context {K V Tree : Type}.
  Variable cmp : K -> K -> comparison.
  Variable ksize : K -> N.
  Variable vsize : V -> N.
  Variable flush_bytes : N.
  Variable leaves_of : Tree -> list (list (K * V)).
  Variable splice : Tree -> nat -> nat -> list (K * V) -> Tree.
  Variable delete_key : Tree -> K -> Tree.

  Lemma c_step_is_g_step n st o :
    c_step cmp ksize vsize flush_bytes leaves_of splice delete_key st o =
    g_step cmp leaves_of splice delete_key (threshold_oracle leaves_of ksize vsize flush_bytes n) st o.
  Proof. reflexivity. Qed.

  Lemma c_script_is_g_script ops : forall st,
    c_script cmp ksize vsize flush_bytes leaves_of splice delete_key ops st =
    g_script cmp leaves_of splice delete_key (threshold_oracle leaves_of ksize vsize flush_bytes) ops st.
  Proof.
    induction ops as [|o r IH]; intros st; [reflexivity|]. cbn [c_script CursorSession.g_script].
    rewrite <- (c_step_is_g_step (length r)). destruct (c_step cmp ksize vsize flush_bytes leaves_of splice delete_key st o) as [x st'].
    now rewrite IH.
  Qed.

  Lemma c_session_is_g_session t lower b ops :
    c_session cmp ksize vsize flush_bytes leaves_of splice delete_key t lower b ops =
    g_session cmp leaves_of splice delete_key (threshold_oracle leaves_of ksize vsize flush_bytes) t lower b ops.
  Proof. unfold c_session, CursorSession.g_session. now rewrite c_script_is_g_script. Qed.
End Instance.

(* ---------------------------------------------------------------- the logical tree as the store *)
Section TreeSessionP.
  Context {K V : Type}.
  Variable cmp : K -> K -> comparison.
  Hypothesis laws : OrderLaws cmp.
  Variable ksize : K -> N.
  Variable vsize : V -> N.
  Variable fixed_k fixed_v : bool.
  Variable page_size : N.
  Variable sep : K -> K -> K.
  Hypothesis Hsep : valid_sep cmp sep.

  Notation splice_insert_run := (@splice_insert_run K V cmp ksize vsize fixed_k fixed_v page_size sep).
  Notation t_delete_key := (@t_delete_key K V cmp ksize vsize fixed_k fixed_v page_size sep).

  Lemma TreeInv_sorted (bt : @btree K V) : TreeInv cmp bt -> sorted cmp (abs_tree bt).
  Proof.
    unfold TreeInv, abs_tree. destruct (bt_root bt) as [t|]; [|intros _; apply sorted_nil].
    intros [H _]. now apply (BTreeInv_sorted cmp laws).
  Qed.

  Lemma tree_splice_law (bt : @btree K V) pre post run : TreeInv cmp bt -> abs_tree bt = pre ++ post -> run <> [] ->
    sorted cmp (pre ++ run ++ post) ->
    let '(j, pos) := open_pos (bt_leaves bt) (gap_pos (bt_leaves bt) (length pre)) in
    TreeInv cmp (splice_insert_run bt j pos run) /\ abs_tree (splice_insert_run bt j pos run) = pre ++ run ++ post.
  Proof.
    intros H1 H2 H3 H4.
    pose proof (flush_at_gap_refines cmp laws ksize vsize fixed_k fixed_v page_size sep Hsep bt pre post run H1 H2 H3 H4) as H.
    unfold flush_at_gap in H. destruct (open_pos (bt_leaves bt) (gap_pos (bt_leaves bt) (length pre))) as [j pos]. tauto.
  Qed.

  Lemma tree_delete_law (bt : @btree K V) k : TreeInv cmp bt ->
    TreeInv cmp (t_delete_key bt k) /\ abs_tree (t_delete_key bt k) = SortedMap.remove cmp (abs_tree bt) k.
  Proof.
    intros H. unfold CursorSplice.t_delete_key.
    pose proof (delete_refines_lemma cmp laws ksize vsize fixed_k fixed_v page_size sep Hsep bt k H) as D.
    destruct (delete cmp ksize vsize fixed_k fixed_v page_size sep bt k) as [bt' old]. cbn [fst]. tauto.
  Qed.

  (* for EVERY sequence of flush decisions *)
  Theorem tree_session_refines_oracle fls (bt : @btree K V) lower b ops : TreeInv cmp bt ->
    let '(outs, bt') := tg_session cmp ksize vsize fixed_k fixed_v page_size sep fls bt lower b ops in
    let '(ys, c') := cursor_script cmp ops (if lower then seek_lower cmp (abs_tree bt) b else seek_upper cmp (abs_tree bt) b) in
    outs = ys /\ TreeInv cmp bt' /\ abs_tree bt' = cursor_map c'.
  Proof.
    exact (session_refines cmp laws (@bt_leaves K V) splice_insert_run t_delete_key (TreeInv cmp) (@abs_tree K V)
             (fun bt => contents_abs bt) TreeInv_sorted tree_splice_law (fun t j pos => eq_refl) tree_delete_law
             fls bt lower b ops).
  Qed.

  (* the model of btree_cursor.rs: decisions by the INSERT_FLUSH_BYTES threshold, for every threshold *)
  Theorem tree_session_refines flush_bytes (bt : @btree K V) lower b ops : TreeInv cmp bt ->
    let '(outs, bt') := t_session cmp ksize vsize fixed_k fixed_v page_size sep flush_bytes bt lower b ops in
    let '(ys, c') := cursor_script cmp ops (if lower then seek_lower cmp (abs_tree bt) b else seek_upper cmp (abs_tree bt) b) in
    outs = ys /\ TreeInv cmp bt' /\ abs_tree bt' = cursor_map c'.
  Proof.
    unfold t_session. rewrite c_session_is_g_session.
    exact (tree_session_refines_oracle (threshold_oracle (@bt_leaves K V) ksize vsize flush_bytes) bt lower b ops).
  Qed.
End TreeSessionP.
