(* Value replacement through guards, insert_reserve and the entry API refine the sorted-map
   specification (for every page size, size functions, valid separator, in-place oracle). *)
From Coq Require Import List NArith Bool Arith Lia.
From RV Require Import Base.SortedMap Base.SortedMapP Btree.Tree Btree.TreeP Btree.Read Btree.ReadP
  Btree.Mutator Btree.MutatorP Btree.DeleteP Btree.Guard.
Import ListNotations.

Section GuardP.
  Context {K V : Type}.
  Variable cmp : K -> K -> comparison.
  Hypothesis laws : OrderLaws cmp.
  Variable ksize : K -> N.
  Variable vsize : V -> N.
  Variable fixed_k fixed_v : bool.
  Variable page_size : N.
  Variable sep : K -> K -> K.
  Hypothesis Hsep : valid_sep cmp sep.

  Notation node := (@node K V).
  Notation sget := (@SortedMap.get K V cmp).
  Notation sinsert := (@SortedMap.insert K V cmp).
  Definition ctrue : list (K * V) -> K -> V -> bool := fun _ _ _ => true.
  Notation insert_sub_t := (Mutator.insert_sub cmp ksize vsize fixed_k fixed_v page_size sep ctrue).
  Notation insert_t := (Mutator.insert cmp ksize vsize fixed_k fixed_v page_size sep ctrue).

  (* the guard shows what get returns *)
  Lemma set_sub_old fuel : forall (t : node) k v, snd (set_sub cmp fuel t k v) = get_sub cmp fuel t k.
  Proof.
    induction fuel as [|f IH]; intros t k v; destruct t as [es|c0 rest]; cbn [set_sub get_sub].
    - unfold leaf_get. destruct (position cmp es k) as [pos found].
      destruct (nth_error es pos) as [[k0 ov]|]; destruct found; reflexivity.
    - reflexivity.
    - unfold leaf_get. destruct (position cmp es k) as [pos found].
      destruct (nth_error es pos) as [[k0 ov]|]; destruct found; reflexivity.
    - specialize (IH (nth_child c0 rest (child_for_key cmp rest k)) k v).
      destruct (set_sub cmp f (nth_child c0 rest (child_for_key cmp rest k)) k v) as [c' old].
      cbn [snd] in IH. rewrite <- IH. destruct old; [|reflexivity].
      destruct (set_child _ c' [] c0 rest). reflexivity.
  Qed.

  (* when the key is there, the guard write is the insert that takes the in-place path *)
  Lemma set_sub_as_insert fuel : forall rm (t : node) k v,
    let '(t', old) := set_sub cmp fuel t k v in
    match old with
    | Some _ => insert_sub_t fuel rm t k v = (t', None, old)
    | None => t' = t
    end.
  Proof.
    induction fuel as [|f IH]; intros rm t k v; destruct t as [es|c0 rest]; cbn [set_sub Mutator.insert_sub].
    - unfold leaf_insert. destruct (position cmp es k) as [pos found].
      destruct (nth_error es pos) as [[k0 ov]|]; [|reflexivity]. destruct found; reflexivity.
    - reflexivity.
    - unfold leaf_insert. destruct (position cmp es k) as [pos found].
      destruct (nth_error es pos) as [[k0 ov]|]; [|reflexivity]. destruct found; reflexivity.
    - specialize (IH (rm && Nat.eqb (child_for_key cmp rest k) (length rest))
                     (nth_child c0 rest (child_for_key cmp rest k)) k v).
      destruct (set_sub cmp f (nth_child c0 rest (child_for_key cmp rest k)) k v) as [c' old].
      destruct old as [ov|]; [|reflexivity].
      rewrite IH. destruct (set_child (child_for_key cmp rest k) c' [] c0 rest) as [a b]. reflexivity.
  Qed.

  Theorem guard_set_refines_lemma (bt : @btree K V) k v : TreeInv cmp bt ->
    let '(bt', old) := guard_set cmp bt k v in
    TreeInv cmp bt' /\
    abs_tree bt' = match sget (abs_tree bt) k with Some _ => sinsert (abs_tree bt) k v | None => abs_tree bt end /\
    old = sget (abs_tree bt) k.
  Proof.
    intros Hi. pose proof (tget_correct cmp laws bt k Hi) as Hget.
    unfold guard_set, tget in *. destruct (bt_root bt) as [t|] eqn:Er.
    - pose proof (set_sub_old (fuel_of t) t k v) as Hold.
      pose proof (set_sub_as_insert (fuel_of t) true t k v) as Hins.
      pose proof (insert_refines_lemma cmp laws ksize vsize fixed_k fixed_v page_size sep ctrue Hsep bt k v Hi) as Href.
      unfold Mutator.insert in Href. rewrite Er in Href.
      destruct (set_sub cmp (fuel_of t) t k v) as [t' old]. cbn [snd] in Hold.
      rewrite Hget in Hold. destruct old as [ov|].
      + rewrite Hins in Href. destruct Href as (H1 & H2 & H3). rewrite <- Hold. split; [exact H1|split; [exact H2|reflexivity]].
      + subst t'. rewrite <- Hold.
        assert (E : mk_btree (Some t) (bt_len bt) = bt) by (destruct bt; cbn in *; now subst).
        rewrite E. split; [exact Hi|split; reflexivity].
    - split; [exact Hi|]. unfold abs_tree. rewrite Er. cbn. split; reflexivity.
  Qed.

  Lemma insert_insert (m : @SortedMap.map K V) k b v : sinsert (sinsert m k b) k v = sinsert m k v.
  Proof.
    induction m as [|[k' v'] r IH]; cbn.
    - now rewrite (cmp_refl _ laws).
    - destruct (cmp k k') eqn:E; cbn.
      + now rewrite (cmp_refl _ laws).
      + now rewrite (cmp_refl _ laws).
      + rewrite E. now rewrite IH.
  Qed.

  Lemma writes_refines vs : forall (bt : @btree K V) k, TreeInv cmp bt -> sget (abs_tree bt) k <> None ->
    let bt' := fold_left (fun b v => fst (guard_set cmp b k v)) vs bt in
    TreeInv cmp bt' /\ abs_tree bt' = fold_left (fun m' v => sinsert m' k v) vs (abs_tree bt).
  Proof.
    induction vs as [|v r IH]; intros bt k Hi Hk; cbn [fold_left].
    - split; [exact Hi|reflexivity].
    - pose proof (guard_set_refines_lemma bt k v Hi) as H. destruct (guard_set cmp bt k v) as [bt1 old]. cbn [fst].
      destruct H as (H1 & H2 & H3).
      destruct (sget (abs_tree bt) k) eqn:Eg; [|congruence].
      assert (Hk1 : sget (abs_tree bt1) k <> None) by (rewrite H2, (get_insert_same cmp laws); discriminate).
      destruct (IH bt1 k H1 Hk1) as [I1 I2]. split; [exact I1|]. now rewrite I2, H2.
  Qed.

  Section Ops.
  Variable inplace : list (K * V) -> K -> V -> bool.
  Variable blank : V -> V.
  Notation insert := (Mutator.insert cmp ksize vsize fixed_k fixed_v page_size sep inplace).
  Notation delete := (Mutator.delete cmp ksize vsize fixed_k fixed_v page_size sep).
  Notation apply_gop := (apply_gop cmp ksize vsize fixed_k fixed_v page_size sep inplace blank).

  Theorem apply_gop_refines (bt : @btree K V) o : TreeInv cmp bt ->
    let '(x, bt') := apply_gop bt o in
    TreeInv cmp bt' /\ (x, abs_tree bt') = spec_gop cmp (abs_tree bt) o.
  Proof.
    intros Hi. pose proof (fun q => tget_correct cmp laws bt q Hi) as Hget.
    destruct o as [k v|k vs|k v|k v2 vdef|k v|k|k|k]; cbn [Guard.apply_gop spec_gop].
    - (* insert_reserve *)
      unfold reserve.
      pose proof (insert_refines_lemma cmp laws ksize vsize fixed_k fixed_v page_size sep inplace Hsep bt k (blank v) Hi) as H.
      destruct (insert bt k (blank v)) as [bt1 old1]. destruct H as (H1 & H2 & _). cbn [fst].
      pose proof (guard_set_refines_lemma bt1 k v H1) as G. destruct (guard_set cmp bt1 k v) as [bt2 old2].
      destruct G as (G1 & G2 & _). cbn [fst]. split; [exact G1|].
      rewrite G2, H2, (get_insert_same cmp laws), insert_insert. reflexivity.
    - (* get_mut + writes *)
      unfold get_mut_writes. rewrite Hget. destruct (sget (abs_tree bt) k) as [old|] eqn:Eg.
      + assert (Hk : sget (abs_tree bt) k <> None) by congruence.
        destruct (writes_refines vs bt k Hi Hk) as [W1 W2]. split; [exact W1|]. now rewrite W2.
      + split; [exact Hi|reflexivity].
    - (* entry().or_insert *)
      rewrite Hget. destruct (sget (abs_tree bt) k) as [old|] eqn:Eg.
      + split; [exact Hi|reflexivity].
      + pose proof (insert_refines_lemma cmp laws ksize vsize fixed_k fixed_v page_size sep inplace Hsep bt k v Hi) as H.
        destruct (insert bt k v) as [bt1 old1]. destruct H as (H1 & H2 & _). cbn [fst]. split; [exact H1|]. now rewrite H2.
    - (* entry().and_modify().or_insert *)
      rewrite Hget. destruct (sget (abs_tree bt) k) as [old|] eqn:Eg.
      + pose proof (guard_set_refines_lemma bt k v2 Hi) as G. destruct (guard_set cmp bt k v2) as [bt1 old1].
        destruct G as (G1 & G2 & _). cbn [fst]. split; [exact G1|]. rewrite G2, Eg. reflexivity.
      + pose proof (insert_refines_lemma cmp laws ksize vsize fixed_k fixed_v page_size sep inplace Hsep bt k vdef Hi) as H.
        destruct (insert bt k vdef) as [bt1 old1]. destruct H as (H1 & H2 & _). cbn [fst]. split; [exact H1|]. now rewrite H2.
    - (* Occupied/Vacant insert *)
      pose proof (insert_refines_lemma cmp laws ksize vsize fixed_k fixed_v page_size sep inplace Hsep bt k v Hi) as H.
      destruct (insert bt k v) as [bt1 old1]. destruct H as (H1 & H2 & H3). split; [exact H1|]. now rewrite H2, H3.
    - (* Occupied remove *)
      rewrite Hget. destruct (sget (abs_tree bt) k) as [old|] eqn:Eg.
      + pose proof (delete_refines_lemma cmp laws ksize vsize fixed_k fixed_v page_size sep Hsep bt k Hi) as H.
        destruct (delete bt k) as [bt1 old1]. destruct H as (H1 & H2 & H3). split; [exact H1|]. now rewrite H2, H3, Eg.
      + split; [exact Hi|]. now rewrite (remove_absent cmp _ _ Eg).
    - (* Occupied remove_entry *)
      rewrite Hget. destruct (sget (abs_tree bt) k) as [old|] eqn:Eg.
      + pose proof (delete_refines_lemma cmp laws ksize vsize fixed_k fixed_v page_size sep Hsep bt k Hi) as H.
        destruct (delete bt k) as [bt1 old1]. destruct H as (H1 & H2 & H3). split; [exact H1|]. now rewrite H2, H3, Eg.
      + split; [exact Hi|]. now rewrite (remove_absent cmp _ _ Eg).
    - (* Occupied get *)
      rewrite Hget. split; [exact Hi|reflexivity].
  Qed.
  End Ops.
End GuardP.
