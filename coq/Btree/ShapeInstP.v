(* the separator functions the shape model is run with satisfy valid_sep (the premise of the
   refinement theorems), for every input *)
From Coq Require Import List NArith Bool.
From RV Require Import Base.Bytes Base.SortedMap Base.SortedMapP Btree.Tree Btree.Read Btree.Mutator Btree.Inst Btree.InstP Btree.ShapeInst.
Import ListNotations.

Lemma guarded_valid f : valid_sep key_cmp (guarded f).
Proof.
  intros l r Hlt. unfold guarded.
  destruct (kle key_cmp l (f l r) && klt key_cmp (f l r) r) eqn:E.
  - apply andb_prop in E as [E1 E2]. unfold kle in E1. unfold klt in E2. split.
    + destruct (key_cmp l (f l r)); [discriminate|discriminate|discriminate E1].
    + destruct (key_cmp (f l r) r); [discriminate E2|reflexivity|discriminate E2].
  - split; [|exact Hlt]. rewrite (cmp_refl _ key_cmp_laws). discriminate.
Qed.

Lemma key_sep_bytes_valid : valid_sep key_cmp key_sep_bytes.
Proof. apply guarded_valid. Qed.
Lemma key_sep_str_valid : valid_sep key_cmp key_sep_str.
Proof. apply guarded_valid. Qed.
Lemma key_sep_left_valid : valid_sep key_cmp key_sep_left.
Proof.
  intros l r Hlt. unfold key_sep_left. split; [|exact Hlt]. rewrite (cmp_refl _ key_cmp_laws). discriminate.
Qed.
