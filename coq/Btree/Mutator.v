(* The B-tree mutator of redb (btree_mutator.rs: MutateHelper::insert / insert_helper) on the logical
   tree -- definitions only.

   Shape decisions are size driven exactly as in btree_base.rs:
     RawLeafBuilder::required_bytes, leaf_fits_one_page, leaf_split_required,
     leaf_below_merge_threshold, is_single_large_value, LeafBuilder::build_split (first prefix reaching
     half the bytes, clamped to u16::MAX pairs per half), RawBranchBuilder::required_bytes,
     BranchBuilder::should_split / build_split (keys.len()/2, only with >= 3 keys).

   What is abstracted (the logical result is the same on every path, only WHICH shape is chosen differs):
     * page numbers, checksums, dirty bits and the allocated page length (page_size << order) are not
       part of the logical tree.  The in-place fast paths (LeafMutator::insert/replace on an uncommitted
       page with room) are taken when the oracle `inplace` says so; `inplace` is an arbitrary function
       parameter, so everything proved holds for every dirty/clean/page-order situation;
     * the branch "skip", "in-place child swap" and "CoW patch" paths all produce the branch with child
       i replaced, which is what `set_child` does;
     * the separator function `sep` (branch_separator::<K>) is a parameter constrained by `valid_sep`
       (C15's separator_valid for the built-in types; `left` for fixed-width keys). *)
From Coq Require Import List NArith Bool Arith.
From RV Require Import Base.SortedMap Btree.Tree Btree.Read.
Import ListNotations.

Section Mutator.
  Context {K V : Type}.
  Variable cmp : K -> K -> comparison.
  Variable ksize : K -> N.
  Variable vsize : V -> N.
  Variable fixed_k fixed_v : bool.      (* K::fixed_width().is_some(), V::fixed_width().is_some() *)
  Variable page_size : N.
  Variable sep : K -> K -> K.
  Variable inplace : list (K * V) -> K -> V -> bool.
  Notation node := (@node K V).

  Definition valid_sep : Prop :=
    forall l r, cmp l r = Lt -> cmp l (sep l r) <> Gt /\ cmp (sep l r) r = Lt.

  Local Open Scope N_scope.

  (* ---------------------------------------------------------------- sizes *)
  Definition pair_bytes (e : K * V) : N := ksize (fst e) + vsize (snd e).
  Definition leaf_bytes (es : list (K * V)) : N := fold_right (fun e a => pair_bytes e + a) 0 es.
  Definition nlen {A} (l : list A) : N := N.of_nat (length l).

  Definition leaf_required (n bytes : N) : N :=
    4 + (if fixed_k then 0 else 4 * n) + (if fixed_v then 0 else 4 * n) + bytes.
  Definition leaf_fits (n bytes : N) : bool := (leaf_required n bytes <=? page_size) && (n <=? 65535).
  Definition leaf_split_required (n bytes : N) : bool := negb (leaf_fits n bytes) && (1 <? n).
  Definition leaf_below_merge (n bytes : N) : bool := leaf_required n bytes <? page_size / 3.
  Definition single_large (es : list (K * V)) : bool :=
    match es with
    | [e] => page_size <=? leaf_required 1 (pair_bytes e)
    | _ => false
    end.

  Definition branch_required (nkeys keybytes : N) : N :=
    8 + 24 * (nkeys + 1) + (if fixed_k then 0 else 4 * nkeys) + keybytes.
  Definition sep_bytes (rest : list (K * node)) : N := fold_right (fun p a => ksize (fst p) + a) 0 rest.
  Definition branch_should_split (rest : list (K * node)) : bool :=
    ((page_size <? branch_required (nlen rest) (sep_bytes rest)) || (65535 <? nlen rest)) && (3 <=? nlen rest).

  (* LeafBuilder::build_split: number of pairs in the first half *)
  Fixpoint split_point (es : list (K * V)) (acc half : N) : nat :=
    match es with
    | [] => O
    | [_] => O
    | e :: r => let acc' := acc + pair_bytes e in
                if half <=? acc' then 1%nat else S (split_point r acc' half)
    end.

  Definition division (es : list (K * V)) : nat :=
    let d := split_point es 0 (leaf_bytes es / 2) in
    let n := nlen es in
    N.to_nat (N.max (n - 65535) (N.min (N.of_nat d) 65535)).

  Definition split_leaf (es : list (K * V)) (dflt : K) : node * option (K * node) :=
    let d := division es in
    let a := firstn d es in
    let b := skipn d es in
    let s := match last_opt a, hd_error b with
             | Some x, Some y => sep (fst x) (fst y)
             | _, _ => dflt
             end in
    (Leaf a, Some (s, Leaf b)).

  (* ---------------------------------------------------------------- insert *)
  Definition ins_result : Type := (node * option (K * node) * option V)%type.

  Definition leaf_insert (rightmost : bool) (es : list (K * V)) (k : K) (v : V) : ins_result :=
    let '(pos, found) := position cmp es k in
    let old := if found then option_map snd (nth_error es pos) else None in
    let n := length es in
    if negb found && single_large es then
      (* a single large value is never rebuilt: the new pair gets its own leaf next to it *)
      let nl := Leaf [(k, v)] in
      if Nat.eqb pos 0 then
        (nl, Some (match hd_error es with Some e => sep k (fst e) | None => k end, Leaf es), None)
      else
        (Leaf es, Some (match last_opt es with Some e => sep (fst e) k | None => k end, nl), None)
    else
      let es' := firstn pos es ++ (k, v) :: skipn (if found then S pos else pos) es in
      if inplace es k v then (Leaf es', None, old)
      else if found && match old with Some ov => vsize ov =? vsize v | None => false end then (Leaf es', None, old)
      else if rightmost && Nat.eqb pos n
              && leaf_split_required (nlen es + 1) (leaf_bytes es + ksize k + vsize v) then
        (Leaf es, Some (match last_opt es with Some e => sep (fst e) k | None => k end, Leaf [(k, v)]), None)
      else if negb (leaf_split_required (nlen es') (leaf_bytes es')) then (Leaf es', None, old)
      else let '(a, b) := split_leaf es' k in (a, b, old).

  (* replace child i by c' followed by the (0 or 1) new siblings `sib` *)
  Fixpoint set_child (i : nat) (c' : node) (sib : list (K * node)) (c0 : node) (rest : list (K * node))
    : node * list (K * node) :=
    match i, rest with
    | O, _ => (c', sib ++ rest)
    | S j, (s, c1) :: rest' => let '(a, b) := set_child j c' sib c1 rest' in (c0, (s, a) :: b)
    | S _, [] => (c0, [])
    end.

  Definition split_branch (a : node) (b : list (K * node)) : node * option (K * node) :=
    let d := Nat.div2 (length b) in
    match nth_error b d with
    | Some (sk, cr) => (Branch a (firstn d b), Some (sk, Branch cr (skipn (S d) b)))
    | None => (Branch a b, None)
    end.

  Fixpoint insert_sub (fuel : nat) (rightmost : bool) (t : node) (k : K) (v : V) : ins_result :=
    match t with
    | Leaf es => leaf_insert rightmost es k v
    | Branch c0 rest =>
        match fuel with
        | O => (t, None, None)
        | S f =>
            let i := child_for_key cmp rest k in
            let '(c', sib, old) :=
              insert_sub f (rightmost && Nat.eqb i (length rest)) (nth_child c0 rest i) k v in
            match sib with
            | None => let '(a, b) := set_child i c' [] c0 rest in (Branch a b, None, old)
            | Some (s, c2) =>
                let '(a, b) := set_child i c' [(s, c2)] c0 rest in
                if branch_should_split b then let '(x, y) := split_branch a b in (x, y, old)
                else (Branch a b, None, old)
            end
        end
    end.

  Definition insert (bt : @btree K V) (k : K) (v : V) : @btree K V * option V :=
    match bt_root bt with
    | None => (mk_btree (Some (Leaf [(k, v)])) 1, None)
    | Some t =>
        let '(t', sib, old) := insert_sub (fuel_of t) true t k v in
        let root' := match sib with None => t' | Some (s, c2) => Branch t' [(s, c2)] end in
        (mk_btree (Some root') (match old with Some _ => bt_len bt | None => bt_len bt + 1 end), old)
    end.

  (* ---------------------------------------------------------------- delete *)
  (* MutateHelper::delete_key / delete_helper / apply_child_deletion_result / finish_deletion.
     DeletionResult on the logical tree; PartialLeaf carries the retained entries (the code carries the
     page and the deleted index), PartialBranch the unbuilt branch. *)
  Inductive del_result : Type :=
  | DSubtree (t : node)
  | DDeletedSubtree
  | DPartialLeaf (es : list (K * V))
  | DPartialBranch (c0 : node) (rest : list (K * node))
  | DDeletedBranch (c : node).

  (* plan_leaf_delete + the three dispositions; in-place removal on a dirty page and the rebuild give
     the same logical leaf *)
  Definition leaf_delete_at (es : list (K * V)) (pos : nat) : del_result :=
    let retained := firstn pos es ++ skipn (S pos) es in
    match retained with
    | [] => DDeletedSubtree
    | _ => if leaf_below_merge (nlen retained) (leaf_bytes retained) then DPartialLeaf retained
           else DSubtree (Leaf retained)
    end.

  Definition leaf_delete (es : list (K * V)) (k : K) : del_result * option V :=
    let '(pos, found) := position cmp es k in
    if found then (leaf_delete_at es pos, option_map snd (nth_error es pos))
    else (DSubtree (Leaf es), None).

  (* finalize_branch_builder *)
  Definition finalize_branch (c0 : node) (rest : list (K * node)) : del_result :=
    match rest with
    | [] => DDeletedBranch c0
    | _ => if branch_required (nlen rest) (sep_bytes rest) <? page_size / 3 then DPartialBranch c0 rest
           else DSubtree (Branch c0 rest)
    end.

  (* drop child i together with the key after it (the key before it for the last child) *)
  Fixpoint remove_child (i : nat) (c0 : node) (rest : list (K * node)) : node * list (K * node) :=
    match i, rest with
    | O, (_, c1) :: rest' => (c1, rest')
    | O, [] => (c0, [])
    | S i', (s1, c1) :: rest' =>
        match i', rest' with
        | O, [] => (c0, [])
        | _, _ => let '(a, b) := remove_child i' c1 rest' in (c0, (s1, a) :: b)
        end
    | S _, [] => (c0, [])
    end.

  (* replace the adjacent children j, j+1 and the key between them by nc followed by ns *)
  Fixpoint merge_pair (j : nat) (nc : node) (ns : list (K * node)) (c0 : node) (rest : list (K * node))
    : node * list (K * node) :=
    match j, rest with
    | O, _ :: rest' => (nc, ns ++ rest')
    | S j', (s1, c1) :: rest' => let '(a, b) := merge_pair j' nc ns c1 rest' in (c0, (s1, a) :: b)
    | _, [] => (c0, [])
    end.

  Definition sep_at (rest : list (K * node)) (j : nat) (dflt : K) : K :=
    match nth_error rest j with Some (s, _) => s | None => dflt end.

  (* a leaf built from merged entries, split again when it does not fit *)
  Definition build_leaf_maybe_split (es : list (K * V)) (dflt : K) : node * list (K * node) :=
    if leaf_split_required (nlen es) (leaf_bytes es) then
      match split_leaf es dflt with
      | (a, Some (s, b)) => (a, [(s, b)])
      | (a, None) => (a, [])
      end
    else (Leaf es, []).

  Definition build_branch_maybe_split (c0 : node) (rest : list (K * node)) : node * list (K * node) :=
    if branch_should_split rest then
      match split_branch c0 rest with
      | (a, Some (s, b)) => (a, [(s, b)])
      | (a, None) => (a, [])
      end
    else (Branch c0 rest, []).

  Definition leaf_entries (t : node) : list (K * V) := match t with Leaf es => es | Branch _ _ => [] end.

  (* apply_child_deletion_result *)
  Definition apply_child_deletion (c0 : node) (rest : list (K * node)) (i : nat) (r : del_result) (dflt : K)
    : del_result :=
    let m := match i with O => 1%nat | S i' => i' end in          (* merge_with *)
    let j := Nat.min i m in                                        (* left one of the pair *)
    match r with
    | DSubtree c' => let '(a, b) := set_child i c' [] c0 rest in DSubtree (Branch a b)
    | DDeletedSubtree => let '(a, b) := remove_child i c0 rest in finalize_branch a b
    | DPartialLeaf retained =>
        let sib := leaf_entries (nth_child c0 rest m) in
        if single_large sib then
          (* never merge with a single large value: the partial leaf is built on its own *)
          let '(a, b) := set_child i (Leaf retained) [] c0 rest in finalize_branch a b
        else
          let merged := if Nat.ltb i m then retained ++ sib else sib ++ retained in
          let '(nc, ns) := build_leaf_maybe_split merged dflt in
          let '(a, b) := merge_pair j nc ns c0 rest in finalize_branch a b
    | DDeletedBranch g =>
        let sk := sep_at rest j dflt in                             (* accessor.key(min(child_index, merge_with)) *)
        match nth_child c0 rest m with
        | Branch b0 brest =>
            let '(x0, xrest) := if Nat.ltb i m then (g, (sk, b0) :: brest) else (b0, brest ++ [(sk, g)]) in
            let '(nc, ns) := build_branch_maybe_split x0 xrest in
            let '(a, b) := merge_pair j nc ns c0 rest in finalize_branch a b
        | Leaf _ => DSubtree (Branch c0 rest)                        (* unreachable on a well-formed tree *)
        end
    | DPartialBranch p0 prest =>
        let sk := sep_at rest j dflt in
        match nth_child c0 rest m with
        | Branch b0 brest =>
            let '(x0, xrest) := if Nat.ltb i m then (p0, prest ++ (sk, b0) :: brest) else (b0, brest ++ (sk, p0) :: prest) in
            let '(nc, ns) := build_branch_maybe_split x0 xrest in
            let '(a, b) := merge_pair j nc ns c0 rest in finalize_branch a b
        | Leaf _ => DSubtree (Branch c0 rest)
        end
    end.

  Fixpoint delete_sub (fuel : nat) (t : node) (k : K) : del_result * option V :=
    match t with
    | Leaf es => leaf_delete es k
    | Branch c0 rest =>
        match fuel with
        | O => (DSubtree t, None)
        | S f =>
            let i := child_for_key cmp rest k in
            let '(r, found) := delete_sub f (nth_child c0 rest i) k in
            match found with
            | None => (DSubtree t, None)                            (* tree not modified *)
            | Some _ => (apply_child_deletion c0 rest i r k, found)
            end
        end
    end.

  (* finish_deletion *)
  Definition finish_deletion (r : del_result) : option node :=
    match r with
    | DSubtree t => Some t
    | DDeletedSubtree => None
    | DPartialLeaf es => Some (Leaf es)
    | DPartialBranch c0 rest => Some (Branch c0 rest)
    | DDeletedBranch c => Some c
    end.

  Definition delete (bt : @btree K V) (k : K) : @btree K V * option V :=
    match bt_root bt with
    | None => (bt, None)
    | Some t =>
        let '(r, found) := delete_sub (fuel_of t) t k in
        match found with
        | None => (bt, None)
        | Some _ => (mk_btree (finish_deletion r) (bt_len bt - 1), found)
        end
    end.

  (* pop_first / pop_last: the code removes position 0 of the leftmost leaf (resp. the last position of
     the rightmost leaf) through the mutable cursor (pop_leaf_entry = delete_leaf_at_position +
     apply_child_deletion_result along the path + finish_deletion); the model routes by the key found
     by first/last, which on a well-formed tree reaches the same leaf and position. *)
  Definition pop_first_tree (bt : @btree K V) : @btree K V * option (K * V) :=
    match tfirst bt with
    | None => (bt, None)
    | Some e => (fst (delete bt (fst e)), Some e)
    end.

  Definition pop_last_tree (bt : @btree K V) : @btree K V * option (K * V) :=
    match tlast bt with
    | None => (bt, None)
    | Some e => (fst (delete bt (fst e)), Some e)
    end.

  (* ---------------------------------------------------------------- programs over the modelled operations *)
  (* covered: every read query, insert, remove, pop_first, pop_last *)
  Inductive tree_op : Type :=
  | TQuery (q : @SortedMap.query K)
  | TInsert (k : K) (v : V)
  | TRemove (k : K)
  | TPopFirst
  | TPopLast.

  Definition spec_op (o : tree_op) : @SortedMap.op K V :=
    match o with
    | TQuery q => OpQuery q
    | TInsert k v => OpInsert k v
    | TRemove k => OpRemove k
    | TPopFirst => OpPopFirst
    | TPopLast => OpPopLast
    end.

  Definition apply_tree_op (bt : @btree K V) (o : tree_op) : @SortedMap.out K V * @btree K V :=
    match o with
    | TQuery q => (Read.query cmp bt q, bt)
    | TInsert k v => let '(bt', old) := insert bt k v in (OVal old, bt')
    | TRemove k => let '(bt', old) := delete bt k in (OVal old, bt')
    | TPopFirst => let '(bt', e) := pop_first_tree bt in (OEntry e, bt')
    | TPopLast => let '(bt', e) := pop_last_tree bt in (OEntry e, bt')
    end.

  Fixpoint run_tree (ops : list tree_op) (bt : @btree K V) : list (@SortedMap.out K V) * @btree K V :=
    match ops with
    | [] => ([], bt)
    | o :: r =>
        let '(x, bt') := apply_tree_op bt o in
        let '(xs, bt'') := run_tree r bt' in
        (x :: xs, bt'')
    end.

End Mutator.
