(* Erasure of the shape-level guard operations = Guard.v (see ShapeP.v for the idea). *)
From Coq Require Import List NArith Bool Arith Lia.
From RV Require Import Base.SortedMap Btree.Tree Btree.Read Btree.Mutator Btree.Guard Btree.Shape Btree.ShapeP Btree.ShapeGuard.
Import ListNotations.

Section ShapeGuardP.
  Context {K V : Type}.
  Variable cmp : K -> K -> comparison.
  Variable ksize : K -> N.
  Variable vsize : V -> N.
  Variable fixed_k fixed_v : bool.
  Variable page_size : N.
  Variable sep : K -> K -> K.
  Variable blank : V -> V.

  Notation snode := (@snode K V).
  Notation node := (@node K V).
  Notation erase := (@erase K V).
  Notation erase_rest := (@erase_rest K V).
  Notation s_set_sub := (s_set_sub cmp ksize vsize fixed_k fixed_v page_size).
  Notation s_guard_set := (s_guard_set cmp ksize vsize fixed_k fixed_v page_size).
  Notation s_insert := (s_insert cmp ksize vsize fixed_k fixed_v page_size sep).
  Notation s_delete := (s_delete cmp ksize vsize fixed_k fixed_v page_size sep).
  Notation s_oracle := (s_oracle cmp ksize vsize fixed_k fixed_v page_size).
  Notation s_apply_gop := (s_apply_gop cmp ksize vsize fixed_k fixed_v page_size sep blank).

  (* ---- the binary search stays inside its interval, so a routed child index is a child *)
  Lemma bsearch_range fuel : forall (ks : list K) q lo hi, lo <= hi ->
    lo <= fst (bsearch cmp fuel ks q lo hi) <= hi.
  Proof.
    induction fuel as [|f IH]; intros ks q lo hi Hle; cbn [bsearch]; [cbn; lia|].
    destruct (Nat.ltb lo hi) eqn:E; [|cbn; lia].
    apply Nat.ltb_lt in E.
    assert (Hm : lo <= Nat.div2 (lo + hi) < hi).
    { pose proof (Nat.div2_odd (lo + hi)) as H2. destruct (Nat.odd (lo + hi)); cbn [Nat.b2n] in H2; lia. }
    destruct (nth_error ks (Nat.div2 (lo + hi))) as [key|]; [|cbn; lia].
    destruct (cmp q key).
    - cbn; lia.
    - specialize (IH ks q lo (Nat.div2 (lo + hi))). lia.
    - specialize (IH ks q (S (Nat.div2 (lo + hi))) hi). lia.
  Qed.

  Lemma child_for_key_le (rest : list (K * node)) q : child_for_key cmp rest q <= length rest.
  Proof. unfold child_for_key. pose proof (bsearch_range (S (length rest)) (seps rest) q 0 (length rest)). lia. Qed.

  Lemma set_child_same i : forall (c0 : node) rest, i <= length rest ->
    set_child i (nth_child c0 rest i) [] c0 rest = (c0, rest).
  Proof.
    induction i as [|j IH]; intros c0 rest Hle.
    - destruct rest; reflexivity.
    - destruct rest as [|[s c1] rest']; [cbn in Hle; lia|].
      cbn [set_child].
      assert (E : nth_child c0 ((s, c1) :: rest') (S j) = nth_child c1 rest' j).
      { unfold nth_child, children. change (List.map snd ((s, c1) :: rest')) with (c1 :: List.map snd rest').
        change (nth (S j) (c0 :: c1 :: List.map snd rest') c0) with (nth j (c1 :: List.map snd rest') c0).
        apply nth_indep. cbn [length]. rewrite map_length. cbn in Hle. lia. }
      rewrite E, IH by (cbn in Hle; lia). reflexivity.
  Qed.

  (* ---- get_mut: copy on write of the path changes no logical content *)
  Lemma erase_touch fuel : forall t k, erase (s_touch cmp fuel t k) = erase t.
  Proof.
    induction fuel as [|f IH]; intros t k; destruct t as [d a es|d c0 rest]; cbn [s_touch]; try reflexivity.
    pose proof (erase_set_child (s_child_for_key cmp rest k)
                  (s_touch cmp f (s_nth_child c0 rest (s_child_for_key cmp rest k)) k) [] c0 rest) as E.
    destruct (s_set_child (s_child_for_key cmp rest k) _ [] c0 rest) as [a b].
    rewrite !erase_branch. cbn [Shape.erase_rest List.map] in E.
    rewrite IH, <- erase_nth_child, <- (erase_child_for_key cmp) in E.
    rewrite set_child_same in E by apply child_for_key_le.
    inversion E. reflexivity.
  Qed.

  Lemma erase_get_mut (st : @sbtree K V) k : erase_tree (s_get_mut cmp st k) = erase_tree st.
  Proof.
    unfold s_get_mut, erase_tree. destruct (sb_root st) as [t|] eqn:Er; cbn [sb_root sb_len option_map].
    - now rewrite erase_touch.
    - now rewrite Er.
  Qed.

  (* ---- guard writes *)
  Lemma erase_set_sub patch fuel : forall t k v,
    set_sub cmp fuel (erase t) k v = let '(t', old) := s_set_sub patch fuel t k v in (erase t', old).
  Proof.
    induction fuel as [|f IH]; intros t k v; destruct t as [d a es|d c0 rest]; cbn [ShapeGuard.s_set_sub Shape.erase set_sub].
    - destruct (position cmp es k) as [pos found]. destruct (nth_error es pos) as [[k0 ov]|]; [|reflexivity].
      destruct found; [|reflexivity]. destruct patch; [reflexivity|].
      destruct (replace_fits ksize vsize fixed_k fixed_v a es ov v); reflexivity.
    - reflexivity.
    - destruct (position cmp es k) as [pos found]. destruct (nth_error es pos) as [[k0 ov]|]; [|reflexivity].
      destruct found; [|reflexivity]. destruct patch; [reflexivity|].
      destruct (replace_fits ksize vsize fixed_k fixed_v a es ov v); reflexivity.
    - fold (erase_rest rest). rewrite erase_child_for_key, erase_nth_child, IH.
      destruct (s_set_sub patch f (s_nth_child c0 rest (s_child_for_key cmp rest k)) k v) as [c' old].
      destruct old as [ov|]; [|reflexivity].
      change (@nil (K * node)) with (erase_rest []). rewrite erase_set_child.
      destruct (s_set_child (s_child_for_key cmp rest k) c' [] c0 rest) as [a b]. reflexivity.
  Qed.

  Theorem erase_guard_set (st : @sbtree K V) k v :
    let '(st', old) := s_guard_set st k v in
    guard_set cmp (erase_tree st) k v = (erase_tree st', old).
  Proof.
    unfold ShapeGuard.s_guard_set, guard_set, erase_tree. destruct (sb_root st) as [t|] eqn:Er; cbn [option_map bt_root bt_len].
    - unfold fuel_of. rewrite erase_height, (erase_set_sub false).
      destruct (s_set_sub false (S (sheight t)) t k v) as [t' old]. reflexivity.
    - cbn [sb_root]. now rewrite Er.
  Qed.

  Lemma erase_writes vs : forall (st : @sbtree K V) k,
    fold_left (fun b v => fst (guard_set cmp b k v)) vs (erase_tree st) =
    erase_tree (fold_left (fun b v => fst (s_guard_set b k v)) vs st).
  Proof.
    induction vs as [|v r IH]; intros st k; cbn [fold_left]; [reflexivity|].
    pose proof (erase_guard_set st k v) as E. destruct (s_guard_set st k v) as [st1 old].
    rewrite E. cbn [fst]. apply IH.
  Qed.

  (* the in-place oracle of the (at most one) insert an operation performs *)
  Definition gop_oracle (st : @sbtree K V) (o : @gop K V) : list (K * V) -> K -> V -> bool :=
    match o with
    | GReserve k v => s_oracle st k (blank v)
    | GEntryOrInsert k v | GEntryInsert k v => s_oracle st k v
    | GEntryModify k _ vdef => s_oracle st k vdef
    | _ => fun _ _ _ => false
    end.

  Theorem erase_apply_gop (st : @sbtree K V) o :
    let '(x, st') := s_apply_gop st o in
    apply_gop cmp ksize vsize fixed_k fixed_v page_size sep (gop_oracle st o) blank (erase_tree st) o = (x, erase_tree st').
  Proof.
    destruct o as [k v|k vs|k v|k v2 vdef|k v|k|k|k]; cbn [ShapeGuard.s_apply_gop apply_gop gop_oracle].
    - (* insert_reserve *)
      unfold reserve, s_reserve.
      pose proof (erase_insert cmp ksize vsize fixed_k fixed_v page_size sep st k (blank v)) as E.
      destruct (s_insert st k (blank v)) as [st1 old1]. rewrite E. cbn [fst].
      unfold guard_set, erase_tree. destruct (sb_root st1) as [t|] eqn:Er; cbn [option_map bt_root bt_len sb_root sb_len].
      + unfold fuel_of. rewrite erase_height, (erase_set_sub true).
        destruct (ShapeGuard.s_set_sub cmp ksize vsize fixed_k fixed_v page_size true (S (sheight t)) t k v) as [t' old]. reflexivity.
      + now rewrite Er.
    - (* get_mut + writes *)
      unfold get_mut_writes, s_get_mut_writes.
      destruct (tget cmp (erase_tree st) k) as [old|].
      + rewrite <- (erase_get_mut st k) at 1. now rewrite erase_writes.
      + now rewrite erase_get_mut.
    - destruct (tget cmp (erase_tree st) k) as [old|].
      + now rewrite erase_get_mut.
      + pose proof (erase_insert cmp ksize vsize fixed_k fixed_v page_size sep st k v) as E.
        destruct (s_insert st k v) as [st1 old1]. rewrite E. cbn [fst]. now rewrite erase_get_mut.
    - destruct (tget cmp (erase_tree st) k) as [old|].
      + rewrite erase_get_mut.
        pose proof (erase_guard_set (s_get_mut cmp st k) k v2) as E.
        destruct (s_guard_set (s_get_mut cmp st k) k v2) as [st1 old1].
        rewrite erase_get_mut in E. rewrite E. reflexivity.
      + pose proof (erase_insert cmp ksize vsize fixed_k fixed_v page_size sep st k vdef) as E.
        destruct (s_insert st k vdef) as [st1 old1]. rewrite E. cbn [fst]. now rewrite erase_get_mut.
    - pose proof (erase_insert cmp ksize vsize fixed_k fixed_v page_size sep st k v) as E.
      destruct (tget cmp (erase_tree st) k) as [old|]; destruct (s_insert st k v) as [st1 old1]; rewrite E;
        [reflexivity|now rewrite erase_get_mut].
    - destruct (tget cmp (erase_tree st) k) as [old|]; [|reflexivity].
      pose proof (erase_delete cmp ksize vsize fixed_k fixed_v page_size sep st k) as E.
      destruct (s_delete st k) as [st1 old1]. now rewrite E.
    - destruct (tget cmp (erase_tree st) k) as [old|]; [|reflexivity].
      pose proof (erase_delete cmp ksize vsize fixed_k fixed_v page_size sep st k) as E.
      destruct (s_delete st k) as [st1 old1]. now rewrite E.
    - reflexivity.
  Qed.
End ShapeGuardP.
