(* extract_if / extract_from_if on the logical B-tree consumed from BOTH ends in any order: the store laws of
   ScanMixP.v hold for the tree (RetainTreeP.v + SeekStrictP.t_seek_before_strict), so ScanMixP.extract_mixed_ok applies.
   Then: programs over ALL writers with arbitrary extract scripts. *)
From Coq Require Import List NArith Bool Sorted Lia Arith.
From RV Require Import Base.SortedMap Base.SortedMapP Btree.Tree Btree.TreeP Btree.Read Btree.ReadP
  Btree.Mutator Btree.MutatorP Btree.DeleteP Btree.ProgramP Btree.Guard Btree.GuardP Btree.Scan Btree.ScanTree Btree.ScanTreeP Btree.SpliceP
  Btree.RangeMut Btree.SpliceTreeP Btree.ScanP Btree.ScanBackP Btree.RetainTreeP Btree.SeekStrictP Btree.ScanMixP Btree.ProgramX Btree.ProgramXE.
Import ListNotations.

Section MixTreeP.
  Context {K V : Type}.
  Variable cmp : K -> K -> comparison.
  Hypothesis laws : OrderLaws cmp.
  Variable ksize : K -> N.
  Variable vsize : V -> N.
  Variable fixed_k fixed_v : bool.
  Variable page_size : N.
  Variable sep : K -> K -> K.
  Hypothesis Hsep : valid_sep cmp sep.
  Variable entry_eqb : K * V -> K * V -> bool.
  Hypothesis entry_eqb_sound : forall x y, entry_eqb x y = true -> x = y.

  Notation ok := (TreeInv cmp).

  (* any script of next() (true) / next_back() (false) calls, then the iterator is dropped or closed *)
  Theorem t_extract_mixed_refines (bt : @btree K V) lo hi p (script : list bool) : ok bt ->
    let '(os, x) := t_xrun cmp ksize vsize fixed_k fixed_v page_size sep entry_eqb p script (t_extract_new bt lo hi) in
    let '(os', st) := ext_run p script (ext_begin cmp (abs_tree bt) lo hi) in
    os = os' /\
    ok (t_extract_close cmp ksize vsize fixed_k fixed_v page_size sep entry_eqb x) /\
    abs_tree (t_extract_close cmp ksize vsize fixed_k fixed_v page_size sep entry_eqb x) = ext_finish st.
  Proof.
    intros Hi. unfold t_xrun, t_extract_new, t_extract_close.
    pose proof (extract_mixed_ok cmp laws entry_eqb entry_eqb_sound (@bt_leaves K V) (t_seek cmp)
                  (t_flush ksize vsize fixed_k fixed_v page_size sep) (t_splice ksize vsize fixed_k fixed_v page_size sep)
                  (@t_has_parent K V) (@t_more_children K V)
                  (t_underfilling ksize vsize fixed_k fixed_v page_size) (t_packs ksize vsize fixed_k fixed_v page_size)
                  ok (t_ok_leaves cmp laws) (t_seek_ok cmp laws)
                  (t_flush_ok cmp laws ksize vsize fixed_k fixed_v page_size sep Hsep)
                  (t_splice_ok cmp laws ksize vsize fixed_k fixed_v page_size sep Hsep)
                  (t_more_next cmp laws ksize vsize fixed_k fixed_v page_size sep Hsep)
                  (t_more_prev cmp laws ksize vsize fixed_k fixed_v page_size sep Hsep)
                  ltac:(intros; reflexivity) (t_seek_before_strict cmp laws)
                  lo hi p (fun bt => S (length (concat (bt_leaves bt))))
                  ltac:(intros; unfold ScanP.contents; lia) 4 ltac:(lia) bt script Hi) as H.
    unfold ScanP.contents in H. rewrite <- (contents_abs bt). unfold ScanTreeP.contents.
    destruct (ScanBackP.xrun _ _ _ _ _ _ _ _ _ _ _ _ _ script _) as [os x].
    destruct (ext_run p script _) as [os' st]. destruct H as (H1 & H2 & H3).
    split; [exact H1|]. split; [exact H2|]. rewrite <- contents_abs. exact H3.
  Qed.

  (* ---- programs over all writers, extract with ARBITRARY scripts *)
  Variable inplace : list (K * V) -> K -> V -> bool.
  Variable blank : V -> V.

  Inductive xopm : Type :=
  | XM (o : @xop K V)
  | XExtract (lo hi : bound K) (p : K -> V -> bool) (script : list bool).

  Definition apply_xopm (bt : @btree K V) (o : xopm) : @SortedMap.out K V * @btree K V :=
    match o with
    | XM o' => apply_xop cmp ksize vsize fixed_k fixed_v page_size sep inplace blank bt o'
    | XExtract lo hi p script =>
        let '(os, x) := t_xrun cmp ksize vsize fixed_k fixed_v page_size sep entry_eqb p script (t_extract_new bt lo hi) in
        (OList (yielded os), t_extract_close cmp ksize vsize fixed_k fixed_v page_size sep entry_eqb x)
    end.

  Definition spec_xopm (m : @SortedMap.map K V) (o : xopm) : @SortedMap.out K V * @SortedMap.map K V :=
    match o with
    | XM o' => spec_xop cmp m o'
    | XExtract lo hi p script => apply_op cmp m (OpExtract lo hi p script)
    end.

  Fixpoint run_xm (ops : list xopm) (bt : @btree K V) : list (@SortedMap.out K V) * @btree K V :=
    match ops with
    | [] => ([], bt)
    | o :: r => let '(x, bt') := apply_xopm bt o in let '(xs, bt'') := run_xm r bt' in (x :: xs, bt'')
    end.

  Fixpoint spec_run_xm (ops : list xopm) (m : @SortedMap.map K V) : list (@SortedMap.out K V) * @SortedMap.map K V :=
    match ops with
    | [] => ([], m)
    | o :: r => let '(x, m') := spec_xopm m o in let '(xs, m'') := spec_run_xm r m' in (x :: xs, m'')
    end.

  Lemma apply_xopm_refines (bt : @btree K V) o : TreeInv cmp bt ->
    let '(x, bt') := apply_xopm bt o in
    TreeInv cmp bt' /\ (x, abs_tree bt') = spec_xopm (abs_tree bt) o.
  Proof.
    intros Hi. destruct o as [o'|lo hi p script]; cbn [apply_xopm spec_xopm apply_op].
    - apply (apply_xop_refines cmp laws ksize vsize fixed_k fixed_v page_size sep inplace blank Hsep bt o' Hi).
    - pose proof (t_extract_mixed_refines bt lo hi p script Hi) as H.
      destruct (t_xrun _ _ _ _ _ _ _ _ _ script _) as [os x].
      unfold extract_script. destruct (ext_run p script _) as [os' st]. destruct H as (H1 & H2 & H3).
      split; [exact H2|]. rewrite H3, H1. reflexivity.
  Qed.

  Theorem program_xm_refines_lemma ops : forall (bt : @btree K V), TreeInv cmp bt ->
    let '(xs, bt') := run_xm ops bt in
    TreeInv cmp bt' /\ (xs, abs_tree bt') = spec_run_xm ops (abs_tree bt).
  Proof.
    induction ops as [|o r IH]; intros bt Hi; cbn [run_xm spec_run_xm].
    - split; [exact Hi|reflexivity].
    - pose proof (apply_xopm_refines bt o Hi) as H1.
      destruct (apply_xopm bt o) as [x bt1]. destruct H1 as [Hi1 E1]. rewrite <- E1.
      specialize (IH bt1 Hi1). destruct (run_xm r bt1) as [xs bt2]. destruct IH as [Hi2 E2].
      rewrite <- E2. split; [exact Hi2|reflexivity].
  Qed.
End MixTreeP.
