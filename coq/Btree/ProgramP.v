(* Programs over the modelled operations (reads, insert, remove, pop_first, pop_last) refine the
   SortedMap specification; configuration independence as a corollary. *)
From Coq Require Import List NArith Bool Lia.
From RV Require Import Base.SortedMap Base.SortedMapP Btree.Tree Btree.TreeP Btree.Read Btree.ReadP
  Btree.Mutator Btree.MutatorP Btree.DeleteP.
Import ListNotations.

Section ProgramP.
  Context {K V : Type}.
  Variable cmp : K -> K -> comparison.
  Hypothesis laws : OrderLaws cmp.
  Variable ksize : K -> N.
  Variable vsize : V -> N.
  Variable fixed_k fixed_v : bool.
  Variable page_size : N.
  Variable sep : K -> K -> K.
  Variable inplace : list (K * V) -> K -> V -> bool.
  Hypothesis Hsep : valid_sep cmp sep.

  Notation delete := (delete cmp ksize vsize fixed_k fixed_v page_size sep).
  Notation pop_first_tree := (pop_first_tree cmp ksize vsize fixed_k fixed_v page_size sep).
  Notation pop_last_tree := (pop_last_tree cmp ksize vsize fixed_k fixed_v page_size sep).
  Notation apply_tree_op := (apply_tree_op cmp ksize vsize fixed_k fixed_v page_size sep inplace).
  Notation run_tree := (run_tree cmp ksize vsize fixed_k fixed_v page_size sep inplace).

  Lemma TreeInv_sorted (bt : @btree K V) : TreeInv cmp bt -> sorted cmp (abs_tree bt).
  Proof.
    unfold TreeInv, abs_tree. destruct (bt_root bt); [|constructor]. intros [H _]. now apply (BTreeInv_sorted cmp laws).
  Qed.

  Lemma pop_first_refines_lemma (bt : @btree K V) : TreeInv cmp bt ->
    let '(bt', e) := pop_first_tree bt in
    TreeInv cmp bt' /\ (e, abs_tree bt') = pop_first (abs_tree bt).
  Proof.
    intros Hi. unfold Mutator.pop_first_tree. rewrite (tfirst_correct cmp laws bt Hi).
    rewrite (pop_first_spec cmp laws). destruct (first (abs_tree bt)) as [e|] eqn:Ef.
    - pose proof (delete_refines_lemma cmp laws ksize vsize fixed_k fixed_v page_size sep Hsep bt (fst e) Hi) as H.
      destruct (delete bt (fst e)) as [bt' old]. destruct H as (H1 & H2 & _). cbn. split; [exact H1|now rewrite H2].
    - split; [exact Hi|reflexivity].
  Qed.

  Lemma pop_last_refines_lemma (bt : @btree K V) : TreeInv cmp bt ->
    let '(bt', e) := pop_last_tree bt in
    TreeInv cmp bt' /\ (e, abs_tree bt') = pop_last (abs_tree bt).
  Proof.
    intros Hi. unfold Mutator.pop_last_tree. rewrite (tlast_correct cmp laws bt Hi).
    rewrite (pop_last_spec cmp laws _ (TreeInv_sorted bt Hi)). destruct (last (abs_tree bt)) as [e|] eqn:Ef.
    - pose proof (delete_refines_lemma cmp laws ksize vsize fixed_k fixed_v page_size sep Hsep bt (fst e) Hi) as H.
      destruct (delete bt (fst e)) as [bt' old]. destruct H as (H1 & H2 & _). cbn. split; [exact H1|now rewrite H2].
    - split; [exact Hi|reflexivity].
  Qed.

  Lemma apply_tree_op_refines (bt : @btree K V) o : TreeInv cmp bt ->
    let '(x, bt') := apply_tree_op bt o in
    TreeInv cmp bt' /\ (x, abs_tree bt') = apply_op cmp (abs_tree bt) (spec_op o).
  Proof.
    intros Hi. destruct o as [q|k v|k| |]; cbn [Mutator.apply_tree_op spec_op apply_op].
    - split; [exact Hi|]. now rewrite (read_correct_lemma cmp laws bt Hi q).
    - pose proof (insert_refines_lemma cmp laws ksize vsize fixed_k fixed_v page_size sep inplace Hsep bt k v Hi) as H.
      destruct (Mutator.insert cmp ksize vsize fixed_k fixed_v page_size sep inplace bt k v) as [bt' old].
      destruct H as (H1 & H2 & H3). split; [exact H1|]. now rewrite H2, H3.
    - pose proof (delete_refines_lemma cmp laws ksize vsize fixed_k fixed_v page_size sep Hsep bt k Hi) as H.
      destruct (delete bt k) as [bt' old]. destruct H as (H1 & H2 & H3). split; [exact H1|]. now rewrite H2, H3.
    - pose proof (pop_first_refines_lemma bt Hi) as H. destruct (pop_first_tree bt) as [bt' e].
      destruct H as [H1 H2]. split; [exact H1|]. destruct (pop_first (abs_tree bt)) as [e' m']. now inversion H2.
    - pose proof (pop_last_refines_lemma bt Hi) as H. destruct (pop_last_tree bt) as [bt' e].
      destruct H as [H1 H2]. split; [exact H1|]. destruct (pop_last (abs_tree bt)) as [e' m']. now inversion H2.
  Qed.

  Theorem program_refines_partial_lemma ops : forall (bt : @btree K V), TreeInv cmp bt ->
    let '(xs, bt') := run_tree ops bt in
    TreeInv cmp bt' /\ (xs, abs_tree bt') = run cmp (List.map spec_op ops) (abs_tree bt).
  Proof.
    induction ops as [|o r IH]; intros bt Hi; cbn [Mutator.run_tree List.map run].
    - split; [exact Hi|reflexivity].
    - pose proof (apply_tree_op_refines bt o Hi) as H1.
      destruct (apply_tree_op bt o) as [x bt1]. destruct H1 as [Hi1 E1]. rewrite <- E1.
      specialize (IH bt1 Hi1). destruct (run_tree r bt1) as [xs bt2]. destruct IH as [Hi2 E2].
      rewrite <- E2. split; [exact Hi2|reflexivity].
  Qed.

End ProgramP.

(* outputs and final contents do not depend on the configuration (page size, size functions,
   fixed-width flags, separator function, in-place oracle) *)
Section ConfigIndependence.
  Context {K V : Type}.
  Variable cmp : K -> K -> comparison.
  Hypothesis laws : OrderLaws cmp.

  Lemma config_independent_lemma ksize vsize fk fv ps sep inplace ksize' vsize' fk' fv' ps' sep' inplace' :
    valid_sep cmp sep -> valid_sep cmp sep' ->
    forall (ops : list (@tree_op K V)) (bt bt2 : @btree K V), TreeInv cmp bt -> TreeInv cmp bt2 ->
    abs_tree bt = abs_tree bt2 ->
    let '(xs, r) := run_tree cmp ksize vsize fk fv ps sep inplace ops bt in
    let '(xs', r') := run_tree cmp ksize' vsize' fk' fv' ps' sep' inplace' ops bt2 in
    xs = xs' /\ abs_tree r = abs_tree r'.
  Proof.
    intros Hs Hs' ops bt bt2 Hi Hi2 Habs.
    pose proof (program_refines_partial_lemma cmp laws ksize vsize fk fv ps sep inplace Hs ops bt Hi) as H1.
    pose proof (program_refines_partial_lemma cmp laws ksize' vsize' fk' fv' ps' sep' inplace' Hs' ops bt2 Hi2) as H2.
    destruct (run_tree cmp ksize vsize fk fv ps sep inplace ops bt) as [xs r].
    destruct (run_tree cmp ksize' vsize' fk' fv' ps' sep' inplace' ops bt2) as [xs' r'].
    destruct H1 as [_ E1]. destruct H2 as [_ E2]. rewrite Habs in E1. rewrite <- E2 in E1.
    inversion E1. auto.
  Qed.
End ConfigIndependence.
