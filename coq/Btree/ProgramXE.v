(* Programs over ALL writers of the statement: the operations of ProgramX.v (reads, insert, remove, pops, guard
   operations, retain, retain_in) plus extract_if / extract_from_if consumed from ONE end (n x next() or
   n x next_back(), then drop/close).  NOT covered: extract scripts that mix next() and next_back(). *)
From Coq Require Import List NArith Bool.
From RV Require Import Base.SortedMap Base.SortedMapP Btree.Tree Btree.TreeP Btree.Read Btree.ReadP
  Btree.Mutator Btree.MutatorP Btree.DeleteP Btree.ProgramP Btree.Guard Btree.GuardP
  Btree.Scan Btree.RangeMut Btree.ScanTree Btree.RetainTreeP Btree.ProgramX.
Import ListNotations.

Section ProgramXE.
  Context {K V : Type}.
  Variable cmp : K -> K -> comparison.
  Hypothesis laws : OrderLaws cmp.
  Variable ksize : K -> N.
  Variable vsize : V -> N.
  Variable fixed_k fixed_v : bool.
  Variable page_size : N.
  Variable sep : K -> K -> K.
  Variable inplace : list (K * V) -> K -> V -> bool.
  Variable blank : V -> V.
  Variable entry_eqb : K * V -> K * V -> bool.
  Hypothesis Hsep : valid_sep cmp sep.

  Inductive xope : Type :=
  | XE (o : @xop K V)
  | XExtractOne (lo hi : bound K) (p : K -> V -> bool) (front : bool) (n : nat).

  Definition yielded (os : list (option (K * V))) : list (K * V) :=
    flat_map (fun o => match o with Some e => [e] | None => [] end) os.

  Definition apply_xope (bt : @btree K V) (o : xope) : @SortedMap.out K V * @btree K V :=
    match o with
    | XE o' => apply_xop cmp ksize vsize fixed_k fixed_v page_size sep inplace blank bt o'
    | XExtractOne lo hi p front n =>
        let '(os, x) := t_xrun cmp ksize vsize fixed_k fixed_v page_size sep entry_eqb p (repeat front n) (t_extract_new bt lo hi) in
        (OList (yielded os), t_extract_close cmp ksize vsize fixed_k fixed_v page_size sep entry_eqb x)
    end.

  Definition spec_xope (m : @SortedMap.map K V) (o : xope) : @SortedMap.out K V * @SortedMap.map K V :=
    match o with
    | XE o' => spec_xop cmp m o'
    | XExtractOne lo hi p front n => apply_op cmp m (OpExtract lo hi p (repeat front n))
    end.

  Fixpoint run_xe (ops : list xope) (bt : @btree K V) : list (@SortedMap.out K V) * @btree K V :=
    match ops with
    | [] => ([], bt)
    | o :: r => let '(x, bt') := apply_xope bt o in let '(xs, bt'') := run_xe r bt' in (x :: xs, bt'')
    end.

  Fixpoint spec_run_xe (ops : list xope) (m : @SortedMap.map K V) : list (@SortedMap.out K V) * @SortedMap.map K V :=
    match ops with
    | [] => ([], m)
    | o :: r => let '(x, m') := spec_xope m o in let '(xs, m'') := spec_run_xe r m' in (x :: xs, m'')
    end.

  Lemma apply_xope_refines (bt : @btree K V) o : TreeInv cmp bt ->
    let '(x, bt') := apply_xope bt o in
    TreeInv cmp bt' /\ (x, abs_tree bt') = spec_xope (abs_tree bt) o.
  Proof.
    intros Hi. destruct o as [o'|lo hi p front n]; cbn [apply_xope spec_xope apply_op].
    - apply (apply_xop_refines cmp laws ksize vsize fixed_k fixed_v page_size sep inplace blank Hsep bt o' Hi).
    - pose proof (t_extract_onedir_refines cmp laws ksize vsize fixed_k fixed_v page_size sep Hsep entry_eqb bt lo hi p front n Hi) as H.
      destruct (t_xrun _ _ _ _ _ _ _ _ _ (repeat front n) _) as [os x].
      unfold extract_script. destruct (ext_run p (repeat front n) _) as [os' st]. destruct H as (H1 & H2 & H3).
      split; [exact H2|]. rewrite H3, H1. reflexivity.
  Qed.

  Theorem program_xe_refines_lemma ops : forall (bt : @btree K V), TreeInv cmp bt ->
    let '(xs, bt') := run_xe ops bt in
    TreeInv cmp bt' /\ (xs, abs_tree bt') = spec_run_xe ops (abs_tree bt).
  Proof.
    induction ops as [|o r IH]; intros bt Hi; cbn [run_xe spec_run_xe].
    - split; [exact Hi|reflexivity].
    - pose proof (apply_xope_refines bt o Hi) as H1.
      destruct (apply_xope bt o) as [x bt1]. destruct H1 as [Hi1 E1]. rewrite <- E1.
      specialize (IH bt1 Hi1). destruct (run_xe r bt1) as [xs bt2]. destruct IH as [Hi2 E2].
      rewrite <- E2. split; [exact Hi2|reflexivity].
  Qed.
End ProgramXE.
