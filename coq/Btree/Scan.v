(* The mutable gap cursor of redb (btree_cursor.rs: CursorMut) as a machine over an abstract store
   -- definitions only.

   The cursor logic of retain_in_bounds (btree.rs) and of the two ends of RangeMut / extract_if is
   mirrored here: per-leaf batches of pending removals (`removed_indexes`), what happens when the scan
   leaves a leaf (`close_current_leaf`: direct flush through delete_leaf_entries, or absorption into a
   coalescing run `LeafRunRewrite` that is spliced by replace_leaf_children), the reseek past the
   rewritten leaf (`resume_after_rewrite`: Position::After(last key) going forward, Before(first key)
   going backward), `finish_pending_removals`.

   The STORE is abstract: a type T with
     leaves      the leaves of the tree in key order (the cursor addresses a leaf by its number; the
                 path stack / move_to_adjacent_leaf machinery is the in-order successor, as in Read.v)
     seek        descend_to_position (child_for_key routing, lower_bound_entry in the leaf)
     flush       MutateHelper::delete_leaf_entries: remove a batch of indexes from one leaf and
                 rebalance (apply_child_deletion_result along the path, finish_deletion)
     splice      MutateHelper::replace_leaf_children: replace a run of sibling leaves by leaves packed
                 from the buffered entries (neighbour absorption, build_replacement_leaves) and rebalance
     has_parent / more_children   the two facts about the path the run policy consults
   and two size predicates of the retained entries of a leaf (`underfilling` = plan_leaf_delete's
   Merge-or-Delete disposition, `packs` = underfilling or leaf_fits_one_page).
   Scan instances: the logical B-tree (ScanTree.v, the object of the refinement theorems) and the
   decorated shape model (ShapeScan.v, compared with the real tree). *)
From Coq Require Import List NArith Bool Arith.
From RV Require Import Base.SortedMap.
Import ListNotations.

(* Position of btree_cursor.rs *)
Inductive seekpos (K : Type) : Type :=
| PStart
| PEnd
| PBefore (k : K)
| PAfter (k : K).
Arguments PStart {K}.
Arguments PEnd {K}.
Arguments PBefore {K} k.
Arguments PAfter {K} k.

Inductive direction : Type := DNext | DPrev.

Definition dir_opposite (d : direction) : direction := match d with DNext => DPrev | DPrev => DNext end.
Definition dir_is_next (d : direction) : bool := match d with DNext => true | DPrev => false end.

Section Scan.
  Context {K V T : Type}.
  Variable cmp : K -> K -> comparison.

  (* ---- the store *)
  Variable leaves : T -> list (list (K * V)).
  Variable seek : T -> seekpos K -> nat * nat.
  Variable flush : bool -> T -> nat -> list nat -> T.                 (* allow_in_place, leaf, ascending indexes *)
  Variable splice : T -> nat -> nat -> list (K * V) -> N -> T.        (* first leaf, leaf count, entries, removed pairs *)
  Variable has_parent : T -> nat -> bool.
  Variable more_children : T -> nat -> direction -> bool.
  Variable underfilling : list (K * V) -> bool.
  Variable packs : list (K * V) -> bool.

  Definition leaf_at (t : T) (j : nat) : list (K * V) := nth j (leaves t) [].
  Definition has_root (t : T) : bool := match leaves t with [] => false | _ => true end.

  (* Position::from_lower_bound / from_upper_bound *)
  Definition pos_of_lower (b : bound K) : seekpos K :=
    match b with Included k => PBefore k | Excluded k => PAfter k | Unbounded => PStart end.
  Definition pos_of_upper (b : bound K) : seekpos K :=
    match b with Included k => PAfter k | Excluded k => PBefore k | Unbounded => PEnd end.

  (* LeafRunRewrite: first leaf, number of leaves, buffered (retained) entries, removed pairs *)
  Record run : Type := mk_run { r_first : nat; r_count : nat; r_entries : list (K * V); r_removed : N }.

  (* CursorState: position = (leaf number, gap index), the pending batch in recording order,
     detached_guards, the open run with its direction *)
  Record cstate : Type := mk_cstate {
    c_pos : option (nat * nat);
    c_removed : list nat;
    c_detached : bool;
    c_run : option (direction * run)
  }.
  Definition c_init : cstate := mk_cstate None [] false None.

  (* retained entries of a leaf after removing the (ascending) indexes *)
  Fixpoint remove_indexes_from (i : nat) (es : list (K * V)) (idx : list nat) : list (K * V) :=
    match es with
    | [] => []
    | e :: r =>
        match idx with
        | x :: idx' => if Nat.eqb x i then remove_indexes_from (S i) r idx' else e :: remove_indexes_from (S i) r idx
        | [] => es
        end
    end.
  Definition remove_indexes (es : list (K * V)) (idx : list nat) : list (K * V) := remove_indexes_from 0 es idx.

  (* take_removals_ascending: a batch recorded by a backward scan is in decreasing order *)
  Definition ascending (removed : list nat) : list nat :=
    match removed, last_opt removed with
    | x :: _, Some y => if Nat.ltb y x then rev removed else removed
    | _, _ => removed
    end.

  (* CursorMut::seek_to *)
  Definition seek_to (t : T) (p : seekpos K) : option (nat * nat) :=
    if has_root t then Some (seek t p) else None.

  (* scan_boundary_key: the leaf's key furthest in the scan direction *)
  Definition boundary_key (es : list (K * V)) (d : direction) : option K :=
    match d with DNext => option_map fst (last_opt es) | DPrev => option_map fst (hd_error es) end.

  Definition resume_pos (d : direction) (k : K) : seekpos K :=
    match d with DNext => PAfter k | DPrev => PBefore k end.

  Definition has_entry (es : list (K * V)) (i : nat) (d : direction) : bool :=
    match d with DNext => Nat.ltb i (length es) | DPrev => Nat.ltb 0 i end.
  Definition entry_index (i : nat) (d : direction) : nat := match d with DNext => i | DPrev => Nat.pred i end.
  Definition move_once (i : nat) (d : direction) : nat := match d with DNext => S i | DPrev => Nat.pred i end.

  (* append_leaf_to_run *)
  Definition run_append (r : option (direction * run)) (d : direction) (j : nat) (retained : list (K * V)) (nremoved : nat)
    : direction * run :=
    match r with
    | None => (d, mk_run j 1 retained (N.of_nat nremoved))
    | Some (d0, r0) =>
        match d with
        | DNext => (d0, mk_run (r_first r0) (S (r_count r0)) (r_entries r0 ++ retained) (r_removed r0 + N.of_nat nremoved))
        | DPrev => (d0, mk_run j (S (r_count r0)) (retained ++ r_entries r0) (r_removed r0 + N.of_nat nremoved))
        end
    end.

  (* splice_open_run: replace_leaf_children; the position is consumed *)
  Definition splice_open (t : T) (c : cstate) : T * cstate :=
    match c_run c with
    | None => (t, c)
    | Some (_, r) =>
        (splice t (r_first r) (r_count r) (r_entries r) (r_removed r), mk_cstate None (c_removed c) (c_detached c) None)
    end.

  Inductive close_outcome : Type :=
  | CUnchanged
  | CFlushed (resume : option K)
  | CAbsorbed.

  (* close_current_leaf *)
  Definition close_current_leaf (t : T) (c : cstate) (d : direction) : close_outcome * T * cstate :=
    match c_pos c with
    | None => (CUnchanged, t, c)
    | Some (j, i) =>
        let es := leaf_at t j in
        let resume := boundary_key es d in
        match c_removed c with
        | [] =>
            match c_run c with
            | None => (CUnchanged, t, c)
            | Some _ => let '(t', c') := splice_open t c in (CFlushed resume, t', c')
            end
        | _ =>
            let idx := ascending (c_removed c) in
            let retained := remove_indexes es idx in
            let und := underfilling retained in
            let run_open := match c_run c with Some _ => true | None => false end in
            if negb (und || run_open) || negb (has_parent t j) then
              (* flush_removed_entries *)
              (CFlushed resume, flush (negb (c_detached c)) t j idx, mk_cstate None [] false None)
            else
              let keeps_open := packs retained && more_children t j d in
              let c1 := mk_cstate (c_pos c) [] false (Some (run_append (c_run c) d j retained (length idx))) in
              if keeps_open then (CAbsorbed, t, c1)
              else let '(t', c') := splice_open t c1 in (CFlushed resume, t', c')
        end
    end.

  (* step_to_adjacent_leaf *)
  Definition step_adjacent (t : T) (c : cstate) (d : direction) : bool * cstate :=
    match c_pos c with
    | None => (false, c)
    | Some (j, i) =>
        match d with
        | DNext =>
            if Nat.ltb (S j) (length (leaves t))
            then (true, mk_cstate (Some (S j, O)) (c_removed c) (c_detached c) (c_run c)) else (false, c)
        | DPrev =>
            match j with
            | O => (false, c)
            | S j' => (true, mk_cstate (Some (j', length (leaf_at t j'))) (c_removed c) (c_detached c) (c_run c))
            end
        end
    end.

  (* advance_past_closed_leaf *)
  Definition advance_past_closed_leaf (t : T) (c : cstate) (d : direction) : bool * T * cstate :=
    let '(o, t', c') := close_current_leaf t c d in
    match o with
    | CUnchanged => let '(b, c'') := step_adjacent t' c' d in (b, t', c'')
    | CFlushed resume =>
        let p := match resume with Some k => seek_to t' (resume_pos d k) | None => None end in
        ((match p with Some _ => true | None => false end), t', mk_cstate p (c_removed c') (c_detached c') (c_run c'))
    | CAbsorbed => let '(b, c'') := step_adjacent t' c' d in (b, t', c'')
    end.

  (* ensure_has_entry: the `loop` of the code, with fuel *)
  Fixpoint ensure_has_entry (fuel : nat) (t : T) (c : cstate) (d : direction) : bool * T * cstate :=
    match c_pos c with
    | None => (false, t, c)
    | Some (j, i) =>
        if has_entry (leaf_at t j) i d then (true, t, c)
        else
          match fuel with
          | O => (false, t, c)
          | S f =>
              let '(b, t', c') := advance_past_closed_leaf t c d in
              if b then ensure_has_entry f t' c' d else (false, t', c')
          end
    end.

  Definition current_entry (t : T) (c : cstate) (d : direction) : option (K * V) :=
    match c_pos c with
    | None => None
    | Some (j, i) => nth_error (leaf_at t j) (entry_index i d)
    end.

  (* move_next / the position part of record_removal *)
  Definition cursor_move (c : cstate) (d : direction) : cstate :=
    match c_pos c with
    | None => c
    | Some (j, i) => mk_cstate (Some (j, move_once i d)) (c_removed c) (c_detached c) (c_run c)
    end.

  (* record_removal (discard) / record_removal_deferred (detached guards) *)
  Definition cursor_remove (c : cstate) (d : direction) (deferred : bool) : cstate :=
    match c_pos c with
    | None => c
    | Some (j, i) =>
        mk_cstate (Some (j, move_once i d)) (c_removed c ++ [entry_index i d]) (c_detached c || deferred) (c_run c)
    end.

  (* finish_pending_removals *)
  Definition finish_pending (t : T) (c : cstate) : T * cstate :=
    let d := match c_run c with Some (d0, _) => d0 | None => DNext end in
    let '(t1, c1) :=
      match c_pos c, c_removed c with
      | Some _, _ :: _ => let '(_, t', c') := close_current_leaf t c d in (t', c')
      | _, _ => (t, c)
      end in
    splice_open t1 c1.

  (* ---------------------------------------------------------------- retain_in_bounds (btree.rs) *)
  Definition before_upper (hi : bound K) (k : K) : bool :=
    match hi with
    | Included b => kle cmp k b
    | Excluded b => klt cmp k b
    | Unbounded => true
    end.

  Fixpoint retain_scan (fuel : nat) (efuel : nat) (t : T) (c : cstate) (hi : bound K) (p : K -> V -> bool) : T * cstate :=
    match fuel with
    | O => finish_pending t c
    | S f =>
        let '(b, t1, c1) := ensure_has_entry efuel t c DNext in
        if b then
          match current_entry t1 c1 DNext with
          | Some (k, v) =>
              if before_upper hi k then
                if p k v then retain_scan f efuel t1 (cursor_move c1 DNext) hi p
                else retain_scan f efuel t1 (cursor_remove c1 DNext false) hi p
              else finish_pending t1 c1
          | None => finish_pending t1 c1
          end
        else finish_pending t1 c1
    end.

  Definition scan_retain_in (fuel efuel : nat) (t : T) (lo hi : bound K) (p : K -> V -> bool) : T :=
    if negb (has_root t) || bounds_empty cmp lo hi then t
    else fst (retain_scan fuel efuel t (mk_cstate (seek_to t (pos_of_lower lo)) [] false None) hi p).

End Scan.

Arguments mk_run {K V}.
Arguments mk_cstate {K V}.
Arguments c_init {K V}.
