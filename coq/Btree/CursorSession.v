(* The cursor session machine of CursorSplice.v with the size-triggered flush decision turned into an ORACLE --
   definitions only.  CursorSplice.c_insert flushes an accepted insert when
   `INSERT_FLUSH_BYTES <= total_bytes()`; here the decision is an arbitrary function of the step number (counted
   from the end of the script) and of the whole machine state (tree + gap state + pending run), so that what is
   proved in CursorSessionP.v holds for EVERY way of batching the inserts; the machine of CursorSplice.v is the
   instance `threshold_oracle` (CursorSessionP.c_script_is_g_script).  The flushes forced by a direction switch, a
   move, a removal and close()/drop are those of CursorSplice.v (c_flush, c_move, c_remove are reused literally). *)
From Coq Require Import List NArith Bool Arith.
From RV Require Import Base.SortedMap Btree.Cursor Btree.CursorSplice.
Import ListNotations.

Section GMachine.
  Context {K V Tree : Type}.
  Variable cmp : K -> K -> comparison.
  Variable leaves_of : Tree -> list (list (K * V)).
  Variable splice : Tree -> nat -> nat -> list (K * V) -> Tree.
  Variable delete_key : Tree -> K -> Tree.

  Notation cstate := (@cstate K V Tree).
  Notation c_flush := (@c_flush K V Tree leaves_of splice).

  (* c_insert with the decision `fl` in place of `flush_bytes <=? run_bytes st2` *)
  Definition g_insert (fl : cstate -> bool) (d : run_dir) (st : cstate) (k : K) (v : V) : bool * cstate :=
    let st1 := if other_dir_open d (cs_m st) then c_flush st else st in
    let '(b, m2) := match d with
                    | Ascending => m_insert_before cmp (fun _ => false) (cs_m st1) k v
                    | Descending => m_insert_after cmp (fun _ => false) (cs_m st1) k v
                    end in
    let st2 := mk_cstate (cs_tree st1) m2 in
    (b, if b && fl st2 then c_flush st2 else st2).

  Definition g_step (fl : cstate -> bool) (st : cstate) (o : @cursor_op K V) : @cursor_out K V * cstate :=
    match o with
    | CPeekNext => (CEntry (m_peek_next (cs_m st)), st)
    | CPeekPrev => (CEntry (m_peek_prev (cs_m st)), st)
    | CNext => let '(e, st') := c_move leaves_of splice true st in (CEntry e, st')
    | CPrev => let '(e, st') := c_move leaves_of splice false st in (CEntry e, st')
    | CInsertBefore k v => let '(b, st') := g_insert fl Ascending st k v in (CAccepted b, st')
    | CInsertAfter k v => let '(b, st') := g_insert fl Descending st k v in (CAccepted b, st')
    | CRemoveNext => let '(e, st') := c_remove leaves_of splice delete_key true st in (CEntry e, st')
    | CRemovePrev => let '(e, st') := c_remove leaves_of splice delete_key false st in (CEntry e, st')
    end.

  (* the decision of a step may depend on the number of operations that remain (distinct for every step of a
     script, so any sequence of decisions is some `fls`) and on the state *)
  Fixpoint g_script (fls : nat -> cstate -> bool) (ops : list (@cursor_op K V)) (st : cstate)
    : list (@cursor_out K V) * cstate :=
    match ops with
    | [] => ([], st)
    | o :: r =>
        let '(x, st') := g_step (fls (length r)) st o in
        let '(xs, st'') := g_script fls r st' in
        (x :: xs, st'')
    end.

  Definition g_session (fls : nat -> cstate -> bool) (t : Tree) (lower : bool) (b : bound K)
             (ops : list (@cursor_op K V)) : list (@cursor_out K V) * Tree :=
    let '(outs, st) := g_script fls ops (c_open cmp leaves_of t lower b) in
    (outs, cs_tree (c_flush st)).

  (* the decision of btree_cursor.rs: total_bytes() >= INSERT_FLUSH_BYTES *)
  Definition threshold_oracle (ksize : K -> N) (vsize : V -> N) (flush_bytes : N) : nat -> cstate -> bool :=
    fun _ st => (flush_bytes <=? run_bytes ksize vsize leaves_of st)%N.
End GMachine.

(* the oracle machine on the logical tree *)
Section GTree.
  Context {K V : Type}.
  Variable cmp : K -> K -> comparison.
  Variable ksize : K -> N.
  Variable vsize : V -> N.
  Variable fixed_k fixed_v : bool.
  Variable page_size : N.
  Variable sep : K -> K -> K.

  Definition tg_session (fls : nat -> @cstate K V (@Tree.btree K V) -> bool) (bt : @Tree.btree K V) (lower : bool) (b : bound K)
             (ops : list (@cursor_op K V)) : list (@cursor_out K V) * @Tree.btree K V :=
    g_session cmp (@ScanTree.bt_leaves K V) (splice_insert_run cmp ksize vsize fixed_k fixed_v page_size sep)
              (t_delete_key cmp ksize vsize fixed_k fixed_v page_size sep) fls bt lower b ops.
End GTree.
