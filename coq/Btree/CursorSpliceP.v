(* Proofs about CursorSplice.v: the tree-level splice of an insert run keeps the B-tree invariant and its
   contents are the old contents with the run at the gap; the position open_insert_run settles on. *)
From Coq Require Import List NArith Bool Arith Lia Sorted.
From RV Require Import Base.SortedMap Base.SortedMapP Btree.Tree Btree.TreeP Btree.Read Btree.ReadP Btree.Mutator
                       Btree.DeleteP Btree.Scan Btree.ScanTree Btree.ScanTreeP Btree.SpliceP Btree.CursorSplice.
Import ListNotations.

(* ------------------------------------------------------------------ the packing plan of build_branch_nodes *)
Section PlanP.
  Context {K T : Type}.
  Variable ksize : K -> N.
  Variable fixed_k : bool.
  Variable page_size : N.
  Variable dflt : K.
  Notation spliced := (T * option K)%type.
  Notation bb_plan := (@bb_plan K T ksize fixed_k page_size dflt).

  Lemma bb_plan_concat guard : forall (cs cur : list spliced) kb, concat (bb_plan guard cur kb cs) = rev cur ++ cs.
  Proof.
    induction cs as [|c r IH]; intros cur kb; cbn [CursorSplice.bb_plan].
    - cbn. now rewrite app_nil_r.
    - match goal with |- context [if ?b then _ else _] => destruct b end.
      + cbn [concat]. rewrite IH. reflexivity.
      + rewrite IH. cbn [rev]. now rewrite <- app_assoc.
  Qed.

  Lemma bb_plan_nonnil guard : forall (cs cur : list spliced) kb, bb_plan guard cur kb cs <> [].
  Proof.
    induction cs as [|c r IH]; intros cur kb; cbn [CursorSplice.bb_plan]; [discriminate|].
    match goal with |- context [if ?b then _ else _] => destruct b end; [discriminate|apply IH].
  Qed.

  (* every chunk but the last has >= 2 children, the last one is not empty *)
  Fixpoint init_ge2 {A} (plan : list (list A)) : Prop :=
    match plan with
    | [] => True
    | x :: r => (r = [] -> x <> []) /\ (r <> [] -> 2 <= length x) /\ init_ge2 r
    end.

  Lemma nlen_ge2 {A} (l : list A) : (2 <=? nlen l)%N = true -> 2 <= length l.
  Proof. unfold nlen. intros H. apply N.leb_le in H. lia. Qed.

  Lemma bb_plan_good : forall (cs cur : list spliced) kb, cur <> [] -> init_ge2 (bb_plan true cur kb cs).
  Proof.
    induction cs as [|c r IH]; intros cur kb Hc; cbn [CursorSplice.bb_plan].
    - cbn. split; [intros _ E; apply Hc; destruct cur; [reflexivity|]; cbn in E; now destruct (rev cur)|]. split; [congruence|exact I].
    - match goal with |- context [if ?b then _ else _] => destruct b eqn:Eb end.
      + cbn [init_ge2]. split; [intros E; exfalso; eapply bb_plan_nonnil; eauto|]. split.
        * intros _. apply andb_prop in Eb. destruct Eb as [_ Eb]. cbn in Eb. rewrite rev_length. now apply nlen_ge2.
        * apply IH. discriminate.
      + apply IH. discriminate.
  Qed.

  Lemma split_last2_spec {A} : forall (l : list A),
    match split_last2 l with
    | Some (p, a, b) => l = p ++ [a; b]
    | None => length l <= 1
    end.
  Proof.
    induction l as [|x r IH]; [cbn; lia|].
    destruct r as [|y r']; [cbn; lia|].
    destruct r' as [|z r'']; [reflexivity|].
    change (split_last2 (x :: y :: z :: r'')) with
      (match split_last2 (y :: z :: r'') with Some (p, a, b) => Some (x :: p, a, b) | None => None end).
    destruct (split_last2 (y :: z :: r'')) as [[[p a] b]|].
    - rewrite IH. reflexivity.
    - cbn in IH. lia.
  Qed.

  Lemma init_ge2_snoc2 {A} : forall (p : list (list A)) a b, init_ge2 (p ++ [a; b]) ->
    Forall (fun ch => 2 <= length ch) p /\ 2 <= length a /\ b <> [].
  Proof.
    induction p as [|x p IH]; intros a b H.
    - cbn in H. destruct H as (_ & H1 & (H2 & _ & _)). split; [constructor|]. split; [apply H1; discriminate|apply H2; reflexivity].
    - cbn [app init_ge2] in H. destruct H as (_ & H1 & H2). destruct (IH _ _ H2) as (I1 & I2 & I3).
      split; [constructor; [apply H1; destruct p; discriminate|exact I1]|]. auto.
  Qed.

  Lemma concat_snoc2 {A} (p : list (list A)) a b : concat (p ++ [a; b]) = concat p ++ a ++ b.
  Proof. rewrite concat_app. cbn. now rewrite app_nil_r. Qed.

  Lemma bb_fixup_ok (plan : list (list spliced)) : plan <> [] -> init_ge2 plan -> 2 <= length (concat plan) ->
    Forall (fun ch => 2 <= length ch) (bb_fixup plan) /\ concat (bb_fixup plan) = concat plan /\ bb_fixup plan <> [].
  Proof.
    intros Hne Hg Hlen. unfold bb_fixup. pose proof (split_last2_spec plan) as Hs.
    destruct (split_last2 plan) as [[[p a] b]|].
    - subst plan. destruct (init_ge2_snoc2 _ _ _ Hg) as (Hp & Ha & Hb).
      assert (Hsame : Forall (fun ch => 2 <= length ch) (p ++ [a; b]) \/ exists x, b = [x]).
      { destruct b as [|x [|y b']]; [congruence|right; eauto|left].
        apply Forall_app. split; [exact Hp|]. constructor; [exact Ha|]. constructor; [cbn; lia|constructor]. }
      destruct b as [|x [|y b']]; [congruence| |].
      + destruct (65535 <? nlen a)%N eqn:E.
        * destruct (removelast_last_opt a ltac:(destruct a; [cbn in Ha; lia|discriminate])) as (z & Hz & Ea).
          rewrite Hz. split; [|split].
          -- apply Forall_app. split; [exact Hp|]. constructor; [|constructor; [cbn; lia|constructor]].
             apply N.ltb_lt in E. unfold nlen in E.
             assert (3 <= length a) by lia. rewrite Ea in H. rewrite app_length in H. cbn in H. lia.
          -- rewrite !concat_snoc2. cbn. rewrite Ea at 2. now rewrite <- !app_assoc.
          -- destruct p; discriminate.
        * split; [|split].
          -- apply Forall_app. split; [exact Hp|]. constructor; [|constructor]. rewrite app_length. cbn. lia.
          -- rewrite concat_app, concat_snoc2. cbn. now rewrite app_nil_r.
          -- destruct p; discriminate.
      + destruct Hsame as [H|[x0 H]]; [|discriminate]. split; [exact H|]. split; [reflexivity|destruct p; discriminate].
    - destruct plan as [|x [|y r]]; [congruence| |cbn in Hs; lia].
      cbn in *. rewrite app_nil_r in Hlen. split; [constructor; [exact Hlen|constructor]|]. split; [reflexivity|discriminate].
  Qed.
End PlanP.

(* ------------------------------------------------------------------ build_branch_nodes on the logical tree *)
Section BranchNodesP.
  Context {K V : Type}.
  Variable cmp : K -> K -> comparison.
  Hypothesis laws : OrderLaws cmp.
  Variable ksize : K -> N.
  Variable fixed_k : bool.
  Variable page_size : N.
  Variable dflt : K.

  Notation node := (@node K V).
  Notation inv := (@inv K V cmp).
  Notation chain := (@chain K V cmp).
  Notation abs := (@abs K V).
  Notation wk_chain := (@wk_chain K V cmp).
  Notation wk_abs := (@wk_abs K V).
  Notation last_key_of := (@last_key_of K V).
  Notation wk := (list (node * option K)).
  Notation build_chunk := (@build_chunk K node (@Branch K V) dflt).
  Notation build_branch_nodes := (@build_branch_nodes K node ksize fixed_k page_size (@Branch K V) dflt).
  Notation ge2 := (fun ch : wk => 2 <= length ch).

  Lemma pair_up_eq : forall (r : wk) x, CursorSplice.pair_up dflt x r = ScanTree.pair_up (snd x) r dflt.
  Proof.
    induction r as [|[c k] r IH]; intros x; [reflexivity|].
    cbn [CursorSplice.pair_up ScanTree.pair_up fst]. rewrite IH. reflexivity.
  Qed.

  Lemma last_key_of_cons (x : node * option K) (l : wk) : l <> [] -> last_key_of (x :: l) = last_key_of l.
  Proof. destruct l; [congruence|reflexivity]. Qed.

  Lemma last_child_key : forall (r : wk) x, snd (last_child r x) = last_key_of (x :: r).
  Proof.
    induction r as [|y r IH]; intros x.
    - destruct x as [c k]. reflexivity.
    - cbn [last_child]. rewrite IH. symmetry. apply last_key_of_cons. discriminate.
  Qed.

  Lemma chunk_ok h lo hi (ch : wk) : 2 <= length ch -> wk_chain h lo hi ch ->
    exists nd, build_chunk ch = [(nd, last_key_of ch)] /\ inv (S h) lo hi nd /\ abs nd = wk_abs ch.
  Proof.
    intros Hl Hc. destruct ch as [|[c k] r]; [cbn in Hl; lia|]. destruct r as [|y r]; [cbn in Hl; lia|].
    exists (Branch c (CursorSplice.pair_up dflt (c, k) (y :: r))).
    unfold CursorSplice.build_chunk. cbn [fst]. rewrite last_child_key. split; [reflexivity|].
    rewrite pair_up_eq. cbn [snd].
    destruct (wk_pair_up cmp h (y :: r) lo hi c k dflt Hc) as [H1 H2].
    split.
    - constructor; [|exact H1]. destruct y. cbn. discriminate.
    - rewrite abs_branch. exact H2.
  Qed.

  Lemma concat_ge2_nonnil (plan : list wk) : plan <> [] -> Forall ge2 plan -> concat plan <> [].
  Proof.
    intros Hne Hf. destruct plan as [|ch r]; [congruence|]. inversion Hf as [|? ? H1 _]; subst.
    cbn. destruct ch; [cbn in H1; lia|discriminate].
  Qed.

  Lemma chunks_ok h : forall (plan : list wk) lo hi, plan <> [] -> Forall ge2 plan -> wk_chain h lo hi (concat plan) ->
    let out := flat_map build_chunk plan in
    wk_chain (S h) lo hi out /\ wk_abs out = wk_abs (concat plan) /\ last_key_of out = last_key_of (concat plan) /\
    length out = length plan.
  Proof.
    induction plan as [|ch rest IH]; intros lo hi Hne Hf Hc; [congruence|]. cbn zeta.
    inversion Hf as [|? ? Hch Hrest]; subst. cbn [flat_map concat] in *.
    destruct rest as [|ch2 rest'].
    - cbn [flat_map concat] in *. rewrite !app_nil_r in *.
      destruct (chunk_ok h lo hi ch Hch Hc) as (nd & E & I & A). rewrite E. cbn [wk_chain app].
      split; [exact I|]. split; [unfold SpliceP.wk_abs at 1; cbn; rewrite app_nil_r; exact A|]. split; reflexivity.
    - assert (N2 : concat (ch2 :: rest') <> []) by (apply concat_ge2_nonnil; [discriminate|exact Hrest]).
      assert (N1 : ch <> []) by (destruct ch; [cbn in Hch; lia|discriminate]).
      apply (wk_app cmp h ch (concat (ch2 :: rest')) lo hi N1 N2) in Hc. destruct Hc as (s & Es & C1 & C2).
      destruct (chunk_ok h lo (Some s) ch Hch C1) as (nd & E & I & A).
      destruct (IH (Some s) hi ltac:(discriminate) Hrest C2) as (J1 & J2 & J3 & J4).
      rewrite E, Es. cbn [app].
      set (outr := flat_map build_chunk (ch2 :: rest')) in *.
      assert (No : outr <> []) by (destruct outr; [cbn in J4; discriminate|discriminate]).
      split; [|split; [|split]].
      + destruct outr as [|o outr']; [congruence|]. cbn [wk_chain]. split; assumption.
      + unfold SpliceP.wk_abs in *. cbn [flat_map fst]. rewrite J2, A. rewrite flat_map_app. reflexivity.
      + rewrite last_key_of_cons by exact No. rewrite J3.
        clear -N2. generalize (concat (ch2 :: rest')) N2. intros l Nl. induction ch as [|x ch IHc]; [reflexivity|].
        cbn [app]. rewrite last_key_of_cons; [exact IHc|]. destruct ch; [exact Nl|discriminate].
      + change (S (length outr) = S (length (ch2 :: rest'))). rewrite J4. reflexivity.
  Qed.

  Lemma ge2_total (plan : list wk) : Forall ge2 plan -> 2 * length plan <= length (concat plan).
  Proof. induction 1 as [|ch r H _ IH]; [cbn; lia|]. cbn [concat length]. rewrite app_length. lia. Qed.

  Lemma build_branch_nodes_ok h lo hi (l : wk) : 2 <= length l -> wk_chain h lo hi l ->
    let out := build_branch_nodes l in
    wk_chain (S h) lo hi out /\ wk_abs out = wk_abs l /\ last_key_of out = last_key_of l /\
    1 <= length out /\ 2 * length out <= length l.
  Proof.
    intros Hl Hc. cbn zeta. unfold CursorSplice.build_branch_nodes, build_branch_nodes_gen.
    destruct l as [|c r]; [cbn in Hl; lia|].
    set (plan := CursorSplice.bb_plan ksize fixed_k page_size dflt true [c] 0 r).
    assert (Ec : concat plan = c :: r) by (unfold plan; rewrite bb_plan_concat; reflexivity).
    assert (Hg : init_ge2 plan) by (unfold plan; apply bb_plan_good; discriminate).
    assert (Hn : plan <> []) by (unfold plan; apply bb_plan_nonnil).
    destruct (bb_fixup_ok plan Hn Hg ltac:(rewrite Ec; exact Hl)) as (F1 & F2 & F3).
    rewrite <- Ec, <- F2 in Hc.
    destruct (chunks_ok h _ lo hi F3 F1 Hc) as (J1 & J2 & J3 & J4). cbn zeta in *.
    pose proof (eq_trans F2 Ec) as F4.
    pose proof (eq_trans J2 (f_equal (@SpliceP.wk_abs K V) F4)) as J2'.
    pose proof (eq_trans J3 (f_equal (@SpliceP.last_key_of K V) F4)) as J3'.
    split; [exact J1|]. split; [exact J2'|]. split; [exact J3'|].
    assert (G : 2 * length (bb_fixup plan) <= length (c :: r)).
    { pose proof (ge2_total _ F1) as G0. exact (eq_ind _ (fun l => 2 * length (bb_fixup plan) <= length l) G0 _ F4). }
    change (1 <= length (flat_map build_chunk (bb_fixup plan)) /\ 2 * length (flat_map build_chunk (bb_fixup plan)) <= length (c :: r)).
    rewrite J4. split; [|exact G].
    destruct (bb_fixup plan) as [|x0 r0]; [congruence|]. cbn [length]. lia.
  Qed.
End BranchNodesP.

(* ------------------------------------------------------------------ one ancestor: splice_level *)
Section LevelP.
  Context {K V : Type}.
  Variable cmp : K -> K -> comparison.
  Hypothesis laws : OrderLaws cmp.
  Variable ksize : K -> N.
  Variable fixed_k : bool.
  Variable page_size : N.
  Variable dflt : K.

  Notation node := (@node K V).
  Notation inv := (@inv K V cmp).
  Notation chain := (@chain K V cmp).
  Notation abs := (@abs K V).
  Notation wk_chain := (@wk_chain K V cmp).
  Notation wk_abs := (@wk_abs K V).
  Notation last_key_of := (@last_key_of K V).
  Notation wk := (list (node * option K)).
  Notation with_keys := (@CursorSplice.with_keys K node).
  Notation build_branch_nodes := (@build_branch_nodes K node ksize fixed_k page_size (@Branch K V) dflt).
  Notation splice_level := (@splice_level K node cmp ksize fixed_k page_size (@Branch K V) dflt).

  Lemma inv_chain_relo :
    (forall h lo hi t, inv h lo hi t -> forall lo', Forall (fun e => lo_ok cmp lo' (fst e)) (abs t) -> inv h lo' hi t) /\
    (forall h lo hi c rest, chain h lo hi c rest -> forall lo',
        Forall (fun e => lo_ok cmp lo' (fst e)) (abs c ++ abs_rest rest) -> chain h lo' hi c rest).
  Proof.
    apply inv_chain_ind.
    - intros lo hi es Hne Hs Hb lo' Hl. constructor; auto.
      cbn in Hl. rewrite Forall_forall in *. intros e He. destruct (Hb e He) as [_ B]. split; auto.
    - intros h lo hi c0 rest Hne Hc IH lo' Hl. constructor; [exact Hne|]. apply IH. exact Hl.
    - intros h lo hi c Hi IH lo' Hl. constructor. apply IH. unfold TreeP.abs_rest in Hl. cbn in Hl. now rewrite app_nil_r in Hl.
    - intros h lo hi c s c' rest Hi IH1 Hc IH2 lo' Hl. constructor; [|exact Hc]. apply IH1.
      apply Forall_app in Hl. tauto.
  Qed.

  Lemma wk_relo h : forall (l : wk) lo hi lo', wk_chain h lo hi l ->
    Forall (fun e => lo_ok cmp lo' (fst e)) (wk_abs l) -> wk_chain h lo' hi l.
  Proof.
    intros l lo hi lo' H Hf. destruct l as [|[c k] l]; [exact H|]. cbn [SpliceP.wk_chain] in *.
    unfold SpliceP.wk_abs in Hf. cbn [flat_map fst] in Hf. apply Forall_app in Hf. destruct Hf as [Hf _].
    destruct l as [|p l'].
    - eapply (proj1 inv_chain_relo); eauto.
    - destruct k as [s|]; [|contradiction]. destruct H as [H1 H2]. split; [|exact H2]. eapply (proj1 inv_chain_relo); eauto.
  Qed.

  Lemma wk_cons_intro h lo hi c s (l : wk) : l <> [] -> inv h lo (Some s) c -> wk_chain h (Some s) hi l ->
    wk_chain h lo hi ((c, Some s) :: l).
  Proof. intros Hl H1 H2. destruct l; [congruence|]. cbn [SpliceP.wk_chain]. split; assumption. Qed.

  Lemma wk_cons_elim h lo hi c k (l : wk) : l <> [] -> wk_chain h lo hi ((c, k) :: l) ->
    exists s, k = Some s /\ inv h lo (Some s) c /\ wk_chain h (Some s) hi l.
  Proof.
    intros Hl H. destruct l; [congruence|]. cbn [SpliceP.wk_chain] in H. destruct k as [s|]; [|contradiction].
    exists s. tauto.
  Qed.

  Definition right_lt (right : K -> Prop) (b : K) : Prop := forall k, right k -> cmp b k = Lt.

  (* the nodes a level hands upward: a chain whose last bound, when present, is below everything to the right *)
  Definition nodes_ok h lo hi (right : K -> Prop) (nodes : wk) : Prop :=
    match last_key_of nodes with
    | Some b => wk_chain h lo (Some b) nodes /\ right_lt right b
    | None => wk_chain h lo hi nodes
    end.

  Definition lo_of (lo : option K) (P : wk) : option K := match last_key_of P with Some s => Some s | None => lo end.
  Definition hi_of (hi : option K) (stored : option K) : option K := match stored with Some s => Some s | None => hi end.
  Definition right_of (right : K -> Prop) (S : wk) : K -> Prop :=
    fun k => right k \/ exists e, In e (wk_abs S) /\ fst e = k.

  Lemma wk_chain_nonnil h lo hi (l : wk) : wk_chain h lo hi l -> l <> [].
  Proof. destruct l; [contradiction|discriminate]. Qed.

  Lemma last_key_of_app (a b : wk) : b <> [] -> last_key_of (a ++ b) = last_key_of b.
  Proof.
    intros Hb. induction a as [|x a IH]; [reflexivity|]. cbn [app].
    rewrite (last_key_of_cons (K:=K) (V:=V)); [exact IH|]. destruct a; [exact Hb|discriminate].
  Qed.

  (* the context of slot ci: what is to the left and to the right of the replaced child *)
  Lemma ctx_split h lo hi (P S : wk) c stored : wk_chain h lo hi (P ++ (c, stored) :: S) ->
    (P = [] \/ exists sP, last_key_of P = Some sP /\ wk_chain h lo (Some sP) P) /\
    ((S = [] /\ inv h (lo_of lo P) hi c) \/
     (exists s, stored = Some s /\ inv h (lo_of lo P) (Some s) c /\ wk_chain h (Some s) hi S)).
  Proof.
    intros H.
    assert (Hmid : forall lo0, wk_chain h lo0 hi ((c, stored) :: S) ->
              (S = [] /\ inv h lo0 hi c) \/ (exists s, stored = Some s /\ inv h lo0 (Some s) c /\ wk_chain h (Some s) hi S)).
    { intros lo0 H0. cbn [SpliceP.wk_chain] in H0. destruct S as [|p S'].
      - left. auto.
      - right. destruct stored as [s|]; [|contradiction]. exists s. tauto. }
    destruct P as [|p P'].
    - split; [left; reflexivity|]. unfold lo_of. cbn. apply Hmid. exact H.
    - apply (wk_app cmp h (p :: P') ((c, stored) :: S) lo hi ltac:(discriminate) ltac:(discriminate)) in H.
      destruct H as (s & Es & C1 & C2). split; [right; eauto|]. unfold lo_of. rewrite Es. apply Hmid. exact C2.
  Qed.

  Lemma ctx_fill_left h lo (P : wk) : (P = [] \/ exists sP, last_key_of P = Some sP /\ wk_chain h lo (Some sP) P) ->
    forall (M : wk) B, wk_chain h (lo_of lo P) B M -> wk_chain h lo B (P ++ M).
  Proof.
    intros [E|(sP & Es & C)] M B HM.
    - subst P. exact HM.
    - unfold lo_of in HM. rewrite Es in HM.
      apply (wk_app cmp h P M lo B (wk_chain_nonnil _ _ _ _ C) (wk_chain_nonnil _ _ _ _ HM)). eauto.
  Qed.

  Lemma wk_abs_in_bounds h lo hi (l : wk) : wk_chain h lo hi l -> Forall (in_bounds cmp lo hi) (wk_abs l).
  Proof. intros H. exact (proj2 (wk_facts cmp laws h l lo hi H)). Qed.

  (* a raised bound b below everything to the right becomes the lower bound of what follows *)
  Lemma right_relo h s hi (S : wk) right b : wk_chain h (Some s) hi S -> right_lt (right_of right S) b ->
    wk_chain h (Some b) hi S.
  Proof.
    intros H Hr. eapply wk_relo; [exact H|]. rewrite Forall_forall. intros e He. cbn. apply Hr. right. eauto.
  Qed.

  Lemma fix_last_spec : forall (nodes : wk) stored, nodes <> [] ->
    wk_abs (fix_last nodes stored) = wk_abs nodes /\
    last_key_of (fix_last nodes stored) = (match last_key_of nodes with Some b => Some b | None => stored end) /\
    (forall h lo hi, wk_chain h lo hi nodes -> wk_chain h lo hi (fix_last nodes stored)) /\
    length (fix_last nodes stored) = length nodes.
  Proof.
    induction nodes as [|[n k] r IH]; intros stored Hne; [congruence|].
    destruct r as [|y r'].
    - destruct k as [b|]; cbn; repeat split; auto.
    - specialize (IH stored ltac:(discriminate)). destruct IH as (I1 & I2 & I3 & I4).
      assert (E : fix_last ((n, k) :: y :: r') stored = (n, k) :: fix_last (y :: r') stored) by (destruct k; reflexivity).
      assert (Nf : fix_last (y :: r') stored <> []).
      { clear -I4. destruct (fix_last (y :: r') stored) as [|z zs]; [cbn in I4; discriminate|discriminate]. }
      rewrite E. split; [|split; [|split]].
      + unfold SpliceP.wk_abs in *. cbn [flat_map]. now rewrite I1.
      + rewrite (last_key_of_cons (K:=K) (V:=V) (n, k) (y :: r')) by discriminate.
        rewrite (last_key_of_cons (K:=K) (V:=V) (n, k) (fix_last (y :: r') stored)); [exact I2|exact Nf].
      + intros h lo hi H. apply wk_cons_elim in H; [|discriminate]. destruct H as (s & Ek & H1 & H2). subst k.
        apply wk_cons_intro; [exact Nf|exact H1|]. apply I3. exact H2.
      + cbn [length]. now rewrite I4.
  Qed.
End LevelP.

Section LevelMainP.
  Context {K V : Type}.
  Variable cmp : K -> K -> comparison.
  Hypothesis laws : OrderLaws cmp.
  Variable ksize : K -> N.
  Variable fixed_k : bool.
  Variable page_size : N.
  Variable dflt : K.

  Notation node := (@node K V).
  Notation inv := (@inv K V cmp).
  Notation abs := (@abs K V).
  Notation wk_chain := (@wk_chain K V cmp).
  Notation wk_abs := (@wk_abs K V).
  Notation last_key_of := (@last_key_of K V).
  Notation wk := (list (node * option K)).
  Notation with_keys := (@CursorSplice.with_keys K node).
  Notation build_branch_nodes := (@build_branch_nodes K node ksize fixed_k page_size (@Branch K V) dflt).
  Notation rebuild_branch_level := (@rebuild_branch_level K node ksize fixed_k page_size (@Branch K V) dflt).
  Notation replace_branch_child := (@replace_branch_child K node (@Branch K V) dflt).
  Notation splice_level_gen := (@splice_level_gen K node cmp ksize fixed_k page_size (@Branch K V) dflt).
  Notation nodes_ok := (@nodes_ok K V cmp).
  Notation right_of := (@right_of K V).
  Notation right_lt := (@right_lt K cmp).

  Lemma with_keys_length : forall (cs : list node) ks, length (with_keys cs ks) = length cs.
  Proof. induction cs as [|c r IH]; intros ks; [reflexivity|]. destruct ks; cbn; now rewrite IH. Qed.

  Lemma with_keys_nth : forall (cs : list node) ks ci d, ci < length cs ->
    nth ci (with_keys cs ks) (d, None) = (nth ci cs d, nth_error ks ci).
  Proof.
    induction cs as [|c r IH]; intros ks ci d H; [cbn in H; lia|].
    destruct ci as [|ci'].
    - destruct ks; reflexivity.
    - cbn in H. destruct ks as [|k ks']; cbn [CursorSplice.with_keys nth nth_error].
      + rewrite IH by lia. destruct ci'; reflexivity.
      + apply IH. lia.
  Qed.

  Lemma with_keys_last_none : forall (cs : list node) ks, cs <> [] -> length ks < length cs ->
    last_key_of (with_keys cs ks) = None.
  Proof.
    induction cs as [|c r IH]; intros ks Hne Hl; [congruence|].
    destruct r as [|c2 r'].
    - destruct ks; [reflexivity|cbn in Hl; lia].
    - destruct ks as [|k ks'].
      + cbn [CursorSplice.with_keys]. rewrite (last_key_of_cons (K:=K) (V:=V)) by discriminate.
        apply (IH [] ltac:(discriminate)). cbn. lia.
      + cbn [CursorSplice.with_keys]. rewrite (last_key_of_cons (K:=K) (V:=V)) by (destruct ks'; discriminate).
        apply (IH ks' ltac:(discriminate)). cbn in *. lia.
  Qed.

  Lemma with_keys_replace : forall (cs : list node) ks ci n, ci < length cs ->
    with_keys (firstn ci cs ++ n :: skipn (S ci) cs) ks =
    firstn ci (with_keys cs ks) ++ (n, nth_error ks ci) :: skipn (S ci) (with_keys cs ks).
  Proof.
    induction cs as [|c r IH]; intros ks ci n H; [cbn in H; lia|].
    destruct ci as [|ci'].
    - destruct ks; reflexivity.
    - cbn in H. destruct ks as [|k ks']; cbn [firstn skipn app CursorSplice.with_keys nth_error].
      + rewrite IH by lia. destruct ci'; reflexivity.
      + rewrite IH by lia. reflexivity.
  Qed.

  Section Level.
    Variables (h : nat) (lo hi : option K) (right : K -> Prop) (cs : list node) (ks : list K) (ci : nat) (nodes : wk).
    Hypothesis Hlen : length cs = S (length ks).
    Hypothesis Hcs : 2 <= length cs.
    Hypothesis Hci : ci < length cs.
    Let all := with_keys cs ks.
    Let P := firstn ci all.
    Let Sx := skipn (S ci) all.
    Let stored := nth_error ks ci.
    Hypothesis Hall : wk_chain h lo hi all.
    Hypothesis Hnodes : nodes_ok h (lo_of lo P) (hi_of hi stored) (right_of right Sx) nodes.

    Let c := nth ci cs (Leaf []).

    Lemma all_split : all = P ++ (c, stored) :: Sx.
    Proof.
      unfold P, Sx. rewrite <- (firstn_skipn ci all) at 1. f_equal.
      rewrite (skipn_cons_nth all ci (Leaf [], None)) by (unfold all; rewrite with_keys_length; exact Hci).
      unfold all. rewrite with_keys_nth by exact Hci. reflexivity.
    Qed.

    Lemma stored_iff : stored = None <-> Sx = [].
    Proof.
      unfold stored, Sx. split; intros H.
      - apply nth_error_None in H. apply skipn_all2. unfold all. rewrite with_keys_length. lia.
      - apply nth_error_None. apply (f_equal (@length _)) in H. rewrite skipn_length in H. unfold all in H.
        rewrite with_keys_length in H. cbn in H. lia.
    Qed.

    Lemma nodes_nonnil : nodes <> [].
    Proof.
      unfold CursorSpliceP.nodes_ok in Hnodes. destruct (last_key_of nodes).
      - destruct Hnodes as [H _]. eapply wk_chain_nonnil; eauto.
      - eapply wk_chain_nonnil; eauto.
    Qed.

    Lemma Sx_last : Sx <> [] -> last_key_of Sx = None.
    Proof.
      intros H. pose proof (with_keys_last_none cs ks ltac:(destruct cs; [cbn in Hcs; lia|discriminate]) ltac:(lia)) as E.
      fold all in E. rewrite all_split in E. rewrite last_key_of_app in E by discriminate.
      rewrite (last_key_of_cons (K:=K) (V:=V)) in E by exact H. exact E.
    Qed.

    (* the children of the rebuilt level, for a middle part M that stands for `nodes` *)
    Lemma level_children (M : wk) : M <> [] -> wk_abs M = wk_abs nodes ->
      (forall B, (match last_key_of nodes with Some b => B = Some b | None => B = hi_of hi stored end) ->
                 wk_chain h (lo_of lo P) B M) ->
      last_key_of M = (match last_key_of nodes with Some b => Some b | None => stored end) ->
      exists B, wk_chain h lo B (P ++ M ++ Sx) /\
                match last_key_of (P ++ M ++ Sx) with
                | Some b => B = Some b /\ right_lt right b
                | None => B = hi
                end.
    Proof.
      intros HM Habs Hch Hlk.
      pose proof Hall as Hsp. rewrite all_split in Hsp. apply (ctx_split cmp ksize dflt) in Hsp. destruct Hsp as [HP Hmid].
      unfold CursorSpliceP.nodes_ok in Hnodes.
      destruct Hmid as [[ES Hc]|(s & Est & Hc & HS)].
      - (* the slot is the parent's last child *)
        assert (Est : stored = None) by (apply stored_iff; exact ES).
        rewrite ES, app_nil_r. rewrite last_key_of_app by exact HM. rewrite Hlk.
        destruct (last_key_of nodes) as [b|] eqn:Eb.
        + destruct Hnodes as [_ Hr]. exists (Some b). split; [apply (ctx_fill_left cmp); [exact HP|apply Hch; reflexivity]|].
          split; [reflexivity|]. intros k Hk. apply Hr. left. exact Hk.
        + rewrite Est. exists hi. split; [|reflexivity]. apply (ctx_fill_left cmp); [exact HP|]. apply Hch. rewrite Est. reflexivity.
      - (* a stored separator and siblings to the right *)
        pose proof (wk_chain_nonnil cmp _ _ _ _ HS) as NS.
        rewrite last_key_of_app by (destruct M; [congruence|discriminate]).
        rewrite last_key_of_app by exact NS. rewrite (Sx_last NS).
        exists hi. split; [|reflexivity]. apply (ctx_fill_left cmp); [exact HP|].
        destruct (last_key_of nodes) as [b|] eqn:Eb.
        + destruct Hnodes as [_ Hr]. apply (wk_app cmp h M Sx _ hi HM NS). exists b. split; [exact Hlk|].
          split; [apply Hch; reflexivity|]. eapply (right_relo cmp ksize dflt); eauto.
        + apply (wk_app cmp h M Sx _ hi HM NS). exists s. split; [rewrite Hlk; exact Est|].
          split; [apply Hch; rewrite Est; reflexivity|exact HS].
    Qed.

    Lemma finish_level (out : wk) (L : wk) B : wk_chain (S h) lo B out -> wk_abs out = wk_abs L ->
      last_key_of out = last_key_of L ->
      match last_key_of L with Some b => B = Some b /\ right_lt right b | None => B = hi end ->
      nodes_ok (S h) lo hi right out.
    Proof.
      intros H1 _ H3 H4. unfold CursorSpliceP.nodes_ok. rewrite H3. destruct (last_key_of L) as [b|].
      - destruct H4 as [E Hr]. subst B. auto.
      - subst B. exact H1.
    Qed.

    Lemma rebuild_ok :
      let out := rebuild_branch_level cs ks ci nodes in
      nodes_ok (S h) lo hi right out /\ wk_abs out = wk_abs P ++ wk_abs nodes ++ wk_abs Sx.
    Proof.
      cbn zeta. unfold CursorSplice.rebuild_branch_level. fold all. fold P. fold Sx. fold stored.
      destruct (fix_last_spec (K:=K) (V:=V) cmp ksize dflt nodes stored nodes_nonnil) as (F1 & F2 & F3 & F4).
      set (M := fix_last nodes stored) in *.
      assert (NM : M <> []) by (pose proof nodes_nonnil; destruct M; [destruct nodes; [congruence|discriminate]|discriminate]).
      destruct (level_children M NM F1) as (B & HB & HL).
      { intros B0 HB0. apply F3. unfold CursorSpliceP.nodes_ok in Hnodes. destruct (last_key_of nodes).
        - subst B0. exact (proj1 Hnodes).
        - subst B0. exact Hnodes. }
      { exact F2. }
      assert (L2 : 2 <= length (P ++ M ++ Sx)).
      { rewrite !app_length. unfold P, Sx. rewrite firstn_length, skipn_length. unfold all. rewrite with_keys_length.
        assert (1 <= length M) by (destruct M; [congruence|cbn; lia]). lia. }
      destruct (build_branch_nodes_ok cmp ksize fixed_k page_size dflt h lo B _ L2 HB) as (O1 & O2 & O3 & _).
      split.
      - eapply finish_level; eauto.
      - rewrite O2. rewrite !(wk_abs_app (K:=K) (V:=V)). rewrite F1. reflexivity.
    Qed.

    Lemma hi_le_weaken b s t lo0 : cmp b s <> Gt -> inv h lo0 (Some b) t -> inv h lo0 (Some s) t.
    Proof.
      intros Hle Hi. eapply (proj1 (inv_chain_weaken cmp)); [exact Hi|auto|].
      intros k Hk. cbn in *. eapply cmp_le_trans; eauto.
    Qed.

    Lemma swap_ok carry n bound : nodes = [(n, bound)] -> routes cmp stored bound = true ->
      (carry = true \/ stored <> None \/ bound = None) ->
      let out := [(replace_branch_child cs ks ci n,
                   match stored with None => if carry then bound else None | Some _ => None end)] in
      nodes_ok (S h) lo hi right out /\ wk_abs out = wk_abs P ++ wk_abs nodes ++ wk_abs Sx.
    Proof.
      intros En Hr Hcarry. cbn zeta.
      (* the node a pointer swap produces is the chunk P ++ (n, stored) :: Sx built as one page *)
      set (L := P ++ (n, stored) :: Sx).
      assert (EL : replace_branch_child cs ks ci n = match L with x :: r => Branch (fst x) (CursorSplice.pair_up dflt x r) | [] => n end).
      { unfold CursorSplice.replace_branch_child. rewrite with_keys_replace by exact Hci. reflexivity. }
      assert (LL : 2 <= length L).
      { unfold L. rewrite app_length. cbn [length]. unfold P, Sx. rewrite firstn_length, skipn_length. unfold all.
        rewrite with_keys_length. lia. }
      assert (Hchunk : forall B, wk_chain h lo B L -> exists nd, replace_branch_child cs ks ci n = nd /\ inv (S h) lo B nd /\ abs nd = wk_abs L).
      { intros B HB. destruct (chunk_ok cmp dflt h lo B L LL HB) as (nd & E1 & E2 & E3). exists nd. split; [|auto].
        rewrite EL. destruct L as [|x r]; [cbn in LL; lia|]. unfold CursorSplice.build_chunk in E1. now inversion E1. }
      assert (Habs : wk_abs L = wk_abs P ++ wk_abs nodes ++ wk_abs Sx).
      { unfold L. rewrite (wk_abs_app (K:=K) (V:=V)). subst nodes. unfold SpliceP.wk_abs. cbn [flat_map fst]. now rewrite app_nil_r. }
      pose proof Hall as Hsp. rewrite all_split in Hsp. apply (ctx_split cmp ksize dflt) in Hsp. destruct Hsp as [HP Hmid].
      unfold CursorSpliceP.nodes_ok in Hnodes. rewrite En in Hnodes. cbn [SpliceP.last_key_of last_opt SpliceP.wk_chain] in Hnodes.
      destruct Hmid as [[ES Hc]|(s & Est & Hc & HS)].
      - assert (Est : stored = None) by (apply stored_iff; exact ES). rewrite Est in *.
        destruct bound as [b|].
        + destruct Hnodes as [Hn Hrt]. destruct Hcarry as [Hca|[Hca|Hca]]; [|congruence|discriminate]. subst carry.
          destruct (Hchunk (Some b)) as (nd & E1 & E2 & E3).
          { unfold L. rewrite ES. apply (ctx_fill_left cmp); [exact HP|]. exact Hn. }
          rewrite E1. split.
          * unfold CursorSpliceP.nodes_ok. cbn. split; [exact E2|]. intros k Hk. apply Hrt. left. exact Hk.
          * unfold SpliceP.wk_abs at 1. cbn. rewrite app_nil_r, E3. exact Habs.
        + destruct (Hchunk hi) as (nd & E1 & E2 & E3).
          { unfold L. rewrite ES. apply (ctx_fill_left cmp); [exact HP|]. exact Hnodes. }
          rewrite E1. split.
          * unfold CursorSpliceP.nodes_ok. destruct carry; cbn; exact E2.
          * unfold SpliceP.wk_abs at 1. cbn. rewrite app_nil_r, E3. exact Habs.
      - rewrite Est in *. pose proof (wk_chain_nonnil cmp _ _ _ _ HS) as NS.
        assert (Hn : inv h (lo_of lo P) (Some s) n).
        { destruct bound as [b|].
          - destruct Hnodes as [Hn _]. cbn in Hr. eapply hi_le_weaken; [|exact Hn]. destruct (cmp b s); congruence.
          - exact Hnodes. }
        destruct (Hchunk hi) as (nd & E1 & E2 & E3).
        { unfold L. rewrite Est. apply (ctx_fill_left cmp); [exact HP|]. apply (wk_cons_intro cmp); assumption. }
        rewrite E1. split.
        * unfold CursorSpliceP.nodes_ok. cbn. exact E2.
        * unfold SpliceP.wk_abs at 1. cbn. rewrite app_nil_r, E3. exact Habs.
    Qed.

    Lemma splice_level_ok :
      let out := splice_level_gen true cs ks ci nodes in
      nodes_ok (S h) lo hi right out /\ wk_abs out = wk_abs P ++ wk_abs nodes ++ wk_abs Sx.
    Proof.
      cbn zeta. pose proof rebuild_ok as R. cbn zeta in R.
      assert (Hcase : (exists n bound, nodes = [(n, bound)]) \/
                      splice_level_gen true cs ks ci nodes = rebuild_branch_level cs ks ci nodes).
      { destruct nodes as [|[n b] [|y r]]; [right; reflexivity|left; eauto|right; reflexivity]. }
      destruct Hcase as [(n & bound & En)|E]; [|rewrite E; exact R].
      destruct (routes cmp stored bound) eqn:Hr.
      - pose proof (swap_ok true n bound En Hr (or_introl eq_refl)) as W. cbn zeta in W.
        replace (splice_level_gen true cs ks ci nodes) with
          [(replace_branch_child cs ks ci n, match stored with None => bound | Some _ => None end)]; [exact W|].
        rewrite En. unfold CursorSplice.splice_level_gen. fold stored. rewrite Hr. reflexivity.
      - replace (splice_level_gen true cs ks ci nodes) with (rebuild_branch_level cs ks ci nodes); [exact R|].
        rewrite En. unfold CursorSplice.splice_level_gen. fold stored. rewrite Hr. reflexivity.
    Qed.
  End Level.
End LevelMainP.

(* ------------------------------------------------------------------ the whole path: splice_sub, grow, splice_insert_run *)
Section SpliceSubP.
  Context {K V : Type}.
  Variable cmp : K -> K -> comparison.
  Hypothesis laws : OrderLaws cmp.
  Variable ksize : K -> N.
  Variable vsize : V -> N.
  Variable fixed_k fixed_v : bool.
  Variable page_size : N.
  Variable sep : K -> K -> K.
  Hypothesis Hsep : valid_sep cmp sep.

  Notation node := (@node K V).
  Notation inv := (@inv K V cmp).
  Notation chain := (@chain K V cmp).
  Notation abs := (@abs K V).
  Notation sorted := (@sorted K V cmp).
  Notation wk_chain := (@wk_chain K V cmp).
  Notation wk_abs := (@wk_abs K V).
  Notation last_key_of := (@last_key_of K V).
  Notation wk := (list (node * option K)).
  Notation leaves := (@leaves K V).
  Notation nleaves := (@nleaves K V).
  Notation pre_l := (@pre_l K V).
  Notation post_l := (@post_l K V).
  Notation leaf_l := (@leaf_l K V).
  Notation nodes_ok := (@nodes_ok K V cmp).
  Notation splice_sub := (@splice_sub K V cmp ksize vsize fixed_k fixed_v page_size sep true).

  Lemma with_keys_eq : forall (cs : list node) ks, CursorSplice.with_keys cs ks = ScanTree.with_keys cs ks.
  Proof. induction cs as [|c r IH]; intros ks; [reflexivity|]. destruct ks; cbn; now rewrite IH. Qed.

  Lemma wk_abs_firstn_all c0 rest ci :
    wk_abs (firstn ci (CursorSplice.with_keys (children c0 rest) (seps rest))) = pre_abs c0 rest ci.
  Proof. unfold pre_abs. rewrite with_keys_eq, wk_abs_map, <- firstn_map, with_keys_fst. reflexivity. Qed.

  Lemma wk_abs_skipn_all c0 rest ci :
    wk_abs (skipn (S ci) (CursorSplice.with_keys (children c0 rest) (seps rest))) = post_abs c0 rest ci.
  Proof. unfold post_abs. rewrite with_keys_eq, wk_abs_map, <- skipn_map, with_keys_fst. reflexivity. Qed.

  Lemma sorted_mid (a b c : list (K * V)) : sorted (a ++ b ++ c) ->
    sorted b /\ (forall x y, In x b -> In y c -> cmp (fst x) (fst y) = Lt) /\
    (forall x y, In x a -> In y b -> cmp (fst x) (fst y) = Lt).
  Proof.
    intros H. apply (sorted_app_inv cmp) in H. destruct H as (_ & H2 & H3).
    apply (sorted_app_inv cmp) in H2. destruct H2 as (Hb & _ & H4). split; [exact Hb|]. split; [exact H4|].
    intros x y Hx Hy. apply H3; [exact Hx|]. apply in_or_app. left. exact Hy.
  Qed.

  Lemma leaf_case lo hi (right : K -> Prop) es pos run dflt :
    inv 0 lo hi (Leaf es) -> run <> [] ->
    sorted (firstn pos es ++ run ++ skipn pos es) -> Forall (fun e => lo_ok cmp lo (fst e)) run ->
    (forall k, right k -> Forall (fun e => cmp (fst e) k = Lt) (firstn pos es ++ run ++ skipn pos es)) ->
    let nodes := leaf_nodes ksize vsize fixed_k fixed_v page_size sep (flush_entries es pos run) dflt in
    nodes_ok 0 lo hi right nodes /\ wk_abs nodes = firstn pos es ++ run ++ skipn pos es.
  Proof.
    intros Hi Hrun Hs Hlo Hr. cbn zeta. unfold leaf_nodes, flush_entries.
    set (E := firstn pos es ++ run ++ skipn pos es) in *.
    assert (NE : E <> []).
    { unfold E. destruct run; [congruence|]. destruct (firstn pos es); discriminate. }
    assert (HloE : Forall (fun e => lo_ok cmp lo (fst e)) E).
    { inversion Hi as [? ? ? _ _ Hb|]; subst.
      assert (Hes : Forall (fun e => lo_ok cmp lo (fst e)) es).
      { eapply Forall_impl; [|exact Hb]. intros e [H1 _]. exact H1. }
      rewrite <- (firstn_skipn pos es) in Hes. apply Forall_app in Hes. destruct Hes as [H1 H2].
      unfold E. repeat (apply Forall_app; split); assumption. }
    destruct (build_replacement_chain cmp laws ksize vsize fixed_k fixed_v page_size sep Hsep lo E dflt NE Hs HloE) as (R1 & R2 & R3).
    cbn zeta in *. change (List.map (fun p => (fst p, Some (snd p))) ?l) with (wk_of l).
    split; [|exact R1]. unfold CursorSpliceP.nodes_ok. rewrite R2. split; [exact R3|].
    intros k Hk. destruct (last_key_in E dflt NE) as (v & Hin).
    specialize (Hr k Hk). rewrite Forall_forall in Hr. exact (Hr _ Hin).
  Qed.

  Lemma locate_zero (cs : list node) c r : cs = c :: r -> 0 < nleaves c -> locate cs 0 = (0, 0).
  Proof. intros E H. subst cs. cbn [locate]. apply Nat.ltb_lt in H. now rewrite H. Qed.

  Lemma splice_sub_ok : forall fuel t h lo hi (right : K -> Prop) j pos run dflt,
    inv h lo hi t -> h <= fuel -> j < nleaves t -> pos <= length (leaf_l t j) -> (pos = 0 -> j = 0) -> run <> [] ->
    let pre := pre_l t j ++ firstn pos (leaf_l t j) in
    let post := skipn pos (leaf_l t j) ++ post_l t j in
    sorted (pre ++ run ++ post) -> Forall (fun e => lo_ok cmp lo (fst e)) run ->
    (forall k, right k -> Forall (fun e => cmp (fst e) k = Lt) (pre ++ run ++ post)) ->
    nodes_ok h lo hi right (splice_sub fuel t j pos run dflt) /\
    wk_abs (splice_sub fuel t j pos run dflt) = pre ++ run ++ post.
  Proof.
    induction fuel as [|f IH]; intros t h lo hi right j pos run dflt Hi Hf Hj Hpos Hp0 Hrun pre post Hs Hlo Hr;
      inversion Hi as [lo0 hi0 es Hne Hse Hb|h' lo0 hi0 c0 rest Hne Hch]; subst; try lia.
    1,2: (assert (j = 0) by (cbn in Hj; lia); subst j;
          unfold pre, post, ScanTreeP.pre_l, ScanTreeP.post_l, ScanTreeP.leaf_l in *;
          cbn [ScanTree.leaves firstn skipn nth concat app] in *; rewrite ?app_nil_r in *;
          destruct f; cbn [CursorSplice.splice_sub]; apply leaf_case; assumption) || idtac.
    all: try (assert (j = 0) by (cbn in Hj; lia); subst j;
          unfold pre, post, ScanTreeP.pre_l, ScanTreeP.post_l, ScanTreeP.leaf_l in *;
          cbn [ScanTree.leaves firstn skipn nth concat app] in *; rewrite ?app_nil_r in *;
          cbn [CursorSplice.splice_sub]; apply leaf_case; assumption).
    (* a branch with fuel *)
    cbn [CursorSplice.splice_sub].
    pose proof (view_branch c0 rest j Hj) as Hv.
    destruct (locate (children c0 rest) j) as [ci j'] eqn:Eloc.
    destruct Hv as (Hci & Hj' & Vl & Vpre & Vpost).
    set (child := nth_child c0 rest ci) in *.
    set (cs := children c0 rest). set (ks := seps rest).
    set (all := CursorSplice.with_keys cs ks).
    assert (Hlen : length cs = S (length ks)) by (unfold cs, ks, seps; rewrite children_length, map_length; reflexivity).
    assert (Hcs2 : 2 <= length cs) by (rewrite Hlen; unfold ks, seps; rewrite map_length; destruct rest; [congruence|cbn; lia]).
    assert (Hcil : ci < length cs) by (rewrite Hlen; unfold ks, seps; rewrite map_length; lia).
    assert (Hall : wk_chain h' lo hi all).
    { unfold all. rewrite with_keys_eq. apply (chain_wk cmp). exact Hch. }
    set (P := firstn ci all). set (Sx := skipn (S ci) all). set (stored := nth_error ks ci).
    assert (Ec : nth ci cs (Leaf []) = child) by (apply nth_children_nth_child; exact Hci).
    pose proof (all_split cs ks ci Hcil) as Hsplit. fold all P Sx stored in Hsplit. rewrite Ec in Hsplit.
    pose proof Hall as Hctx. rewrite Hsplit in Hctx. apply (ctx_split cmp ksize dflt) in Hctx. destruct Hctx as [HP Hmid].
    assert (Hchild : inv h' (lo_of lo P) (hi_of hi stored) child).
    { destruct Hmid as [[ES Hc]|(s & Est & Hc & _)].
      - assert (Est : stored = None) by (apply (stored_iff cs ks ci Hlen Hcs2 Hcil); exact ES). rewrite Est. exact Hc.
      - rewrite Est. exact Hc. }
    (* the contents around the gap, seen from the child *)
    set (prec := pre_l child j' ++ firstn pos (leaf_l child j')).
    set (postc := skipn pos (leaf_l child j') ++ post_l child j').
    assert (EP : wk_abs P = pre_abs c0 rest ci) by apply wk_abs_firstn_all.
    assert (ES : wk_abs Sx = post_abs c0 rest ci) by apply wk_abs_skipn_all.
    assert (Etot : pre ++ run ++ post = wk_abs P ++ (prec ++ run ++ postc) ++ wk_abs Sx).
    { unfold pre, post, prec, postc. rewrite Vl, Vpre, Vpost, EP, ES. now rewrite <- !app_assoc. }
    rewrite Etot in Hs, Hr |- *.
    destruct (sorted_mid _ _ _ Hs) as (Hsc & Hlt_right & Hlt_left).
    assert (Hp0c : pos = 0 -> j' = 0).
    { intros E0. specialize (Hp0 E0). subst j. destruct cs as [|x r] eqn:Ecs; [cbn in Hcs2; lia|].
      assert (Hx : 0 < nleaves x).
      { unfold cs, children in Ecs. inversion Ecs; subst x.
        assert (Hc0 : inv h' (lo_at lo rest 0) (hi_at hi rest 0) c0) by (apply (chain_child_inv cmp _ _ _ _ _ Hch 0); lia).
        destruct (inv_leaves cmp _ _ _ _ Hc0) as [Hl _]. unfold ScanTree.nleaves. destruct (leaves c0); [congruence|cbn; lia]. }
      unfold cs in Ecs. rewrite Ecs in Eloc. rewrite (locate_zero _ x r eq_refl Hx) in Eloc. now inversion Eloc. }
    assert (Hposc : pos <= length (leaf_l child j')) by (rewrite <- Vl; exact Hpos).
    assert (Hloc : Forall (fun e => lo_ok cmp (lo_of lo P) (fst e)) run).
    { destruct HP as [EPn|(sP & EsP & CP)].
      - unfold lo_of. rewrite EPn. cbn. exact Hlo.
      - unfold lo_of. rewrite EsP.
        (* something of the child precedes the gap: its first entry is above sP and below the run *)
        destruct prec as [|e0 pr] eqn:Eprec.
        + exfalso. unfold prec in Eprec. apply app_eq_nil in Eprec. destruct Eprec as [_ E2].
          assert (pos = 0).
          { destruct pos; [reflexivity|]. destruct (inv_leaves cmp _ _ _ _ Hchild) as [_ Hall_ne].
            assert (Hnz : leaf_l child j' <> []).
            { rewrite Forall_forall in Hall_ne. apply Hall_ne. unfold ScanTreeP.leaf_l. apply nth_In. exact Hj'. }
            destruct (leaf_l child j'); [congruence|discriminate]. }
          specialize (Hp0 H). subst j pos. 
          assert (ci = 0).
          { destruct cs as [|x r] eqn:Ecs; [cbn in Hcs2; lia|].
            assert (Hx : 0 < nleaves x).
            { unfold cs, children in Ecs. inversion Ecs; subst x.
              assert (Hc0 : inv h' (lo_at lo rest 0) (hi_at hi rest 0) c0) by (apply (chain_child_inv cmp _ _ _ _ _ Hch 0); lia).
              destruct (inv_leaves cmp _ _ _ _ Hc0) as [Hl _]. unfold ScanTree.nleaves. destruct (leaves c0); [congruence|cbn; lia]. }
            unfold cs in Ecs. rewrite Ecs in Eloc. rewrite (locate_zero _ x r eq_refl Hx) in Eloc. now inversion Eloc. }
          subst ci. unfold P in EsP. cbn in EsP. discriminate.
        + assert (Hin0 : In e0 (abs child)).
          { rewrite (view_total child j' Hj'). fold (pre_l child j') (leaf_l child j') (post_l child j').
            assert (Hin : In e0 (pre_l child j' ++ firstn pos (leaf_l child j'))) by (fold prec; rewrite Eprec; left; reflexivity).
            apply in_app_or in Hin. destruct Hin as [Hin|Hin]; apply in_or_app; [left; exact Hin|right].
            apply in_or_app. left. rewrite <- (firstn_skipn pos (leaf_l child j')). apply in_or_app. left. exact Hin. }
          pose proof (inv_bounds cmp laws _ _ _ _ Hchild) as Hbc. rewrite Forall_forall in Hbc.
          destruct (Hbc e0 Hin0) as [Hb0 _]. unfold lo_of in Hb0. rewrite EsP in Hb0. cbn in Hb0.
          apply (sorted_app_inv cmp) in Hsc. destruct Hsc as (_ & _ & Hpr).
          rewrite Forall_forall. intros e He. cbn. eapply cmp_trans; [exact laws|exact Hb0|].
          apply Hpr; [left; reflexivity|]. apply in_or_app. left. exact He. }
    assert (Hrc : forall k, right_of right Sx k -> Forall (fun e => cmp (fst e) k = Lt) (prec ++ run ++ postc)).
    { intros k [Hk|(e & He & Ek)].
      - specialize (Hr k Hk). apply Forall_app in Hr. destruct Hr as [_ Hr]. apply Forall_app in Hr. tauto.
      - subst k. rewrite Forall_forall. intros x Hx. apply Hlt_right; assumption. }
    destruct (IH child h' (lo_of lo P) (hi_of hi stored) (right_of right Sx) j' pos run dflt Hchild ltac:(lia) Hj' Hposc Hp0c Hrun Hsc Hloc Hrc)
      as (Hn & Ha).
    fold prec postc in Ha.
    destruct (splice_level_ok cmp laws ksize fixed_k page_size dflt h' lo hi right cs ks ci _ Hlen Hcs2 Hcil Hall Hn) as (L1 & L2).
    fold all P Sx in L2. split; [exact L1|]. rewrite L2, Ha. reflexivity.
  Qed.
End SpliceSubP.
