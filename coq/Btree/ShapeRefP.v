(* The shape model refines the sorted-map specification: ShapeP (erasure = Mutator.v) composed with the
   refinement theorems about Mutator.v.  These are statements about the very trees the check compares
   with the real B-tree after every operation. *)
From Coq Require Import List NArith Bool.
From RV Require Import Base.SortedMap Base.SortedMapP Btree.Tree Btree.TreeP Btree.Read Btree.ReadP
  Btree.Mutator Btree.MutatorP Btree.DeleteP Btree.ProgramP Btree.Shape Btree.ShapeP.
Import ListNotations.

Section ShapeRefP.
  Context {K V : Type}.
  Variable cmp : K -> K -> comparison.
  Hypothesis laws : OrderLaws cmp.
  Variable ksize : K -> N.
  Variable vsize : V -> N.
  Variable fixed_k fixed_v : bool.
  Variable page_size : N.
  Variable sep : K -> K -> K.
  Hypothesis Hsep : valid_sep cmp sep.

  Notation s_insert := (s_insert cmp ksize vsize fixed_k fixed_v page_size sep).
  Notation s_delete := (s_delete cmp ksize vsize fixed_k fixed_v page_size sep).
  Notation s_pop_first := (s_pop_first cmp ksize vsize fixed_k fixed_v page_size sep).
  Notation s_pop_last := (s_pop_last cmp ksize vsize fixed_k fixed_v page_size sep).

  Definition SInv (st : @sbtree K V) : Prop := TreeInv cmp (erase_tree st).
  Definition sabs (st : @sbtree K V) : list (K * V) := abs_tree (erase_tree st).

  Theorem shape_insert_refines_lemma (st : @sbtree K V) k v : SInv st ->
    let '(st', old) := s_insert st k v in
    SInv st' /\ sabs st' = SortedMap.insert cmp (sabs st) k v /\ old = SortedMap.get cmp (sabs st) k.
  Proof.
    intros Hi. pose proof (erase_insert cmp ksize vsize fixed_k fixed_v page_size sep st k v) as E.
    destruct (s_insert st k v) as [st' old].
    pose proof (insert_refines_lemma cmp laws ksize vsize fixed_k fixed_v page_size sep
                  (s_oracle cmp ksize vsize fixed_k fixed_v page_size st k v) Hsep (erase_tree st) k v Hi) as H.
    rewrite E in H. exact H.
  Qed.

  Theorem shape_delete_refines_lemma (st : @sbtree K V) k : SInv st ->
    let '(st', old) := s_delete st k in
    SInv st' /\ sabs st' = SortedMap.remove cmp (sabs st) k /\ old = SortedMap.get cmp (sabs st) k.
  Proof.
    intros Hi. pose proof (erase_delete cmp ksize vsize fixed_k fixed_v page_size sep st k) as E.
    destruct (s_delete st k) as [st' old].
    pose proof (delete_refines_lemma cmp laws ksize vsize fixed_k fixed_v page_size sep Hsep (erase_tree st) k Hi) as H.
    rewrite E in H. exact H.
  Qed.

  Theorem shape_pop_first_refines_lemma (st : @sbtree K V) : SInv st ->
    let '(st', e) := s_pop_first st in
    SInv st' /\ (e, sabs st') = pop_first (sabs st).
  Proof.
    intros Hi. pose proof (erase_pop_first cmp ksize vsize fixed_k fixed_v page_size sep st) as E.
    destruct (s_pop_first st) as [st' e].
    pose proof (pop_first_refines_lemma cmp laws ksize vsize fixed_k fixed_v page_size sep Hsep (erase_tree st) Hi) as H.
    rewrite E in H. exact H.
  Qed.

  Theorem shape_pop_last_refines_lemma (st : @sbtree K V) : SInv st ->
    let '(st', e) := s_pop_last st in
    SInv st' /\ (e, sabs st') = pop_last (sabs st).
  Proof.
    intros Hi. pose proof (erase_pop_last cmp ksize vsize fixed_k fixed_v page_size sep st) as E.
    destruct (s_pop_last st) as [st' e].
    pose proof (pop_last_refines_lemma cmp laws ksize vsize fixed_k fixed_v page_size sep Hsep (erase_tree st) Hi) as H.
    rewrite E in H. exact H.
  Qed.

  Theorem shape_commit_refines_lemma (st : @sbtree K V) : SInv st -> SInv (s_commit st) /\ sabs (s_commit st) = sabs st.
  Proof. unfold SInv, sabs. now rewrite erase_commit. Qed.

End ShapeRefP.
