(* Concrete parameters of the shape model for the oracle's key type (Inst.key): the separator
   functions of the table's key type, taken from the C15 model (Types/KeyTypes.v, Types/Utf8.v:
   <&[u8]>::separator, <&str>::separator; branch_separator returns `left` for fixed-width keys).
   `guarded f` returns f's separator when it is a valid one and `left` otherwise, so that
   `valid_sep` holds for every input (C15 proves that the guard never fires on encodings of the
   type; if it did, the shape comparison with the real tree would show it).  Definitions only. *)
From Coq Require Import List NArith Bool.
From RV Require Import Base.Bytes Base.SortedMap Btree.Inst Types.Utf8 Types.KeyTypes.
Import ListNotations.

Definition guarded (f : key -> key -> key) (l r : key) : key :=
  let s := f l r in
  if kle key_cmp l s && klt key_cmp s r then s else l.

Definition raw_sep_bytes (l r : key) : key :=
  match l, r with KBytes a, KBytes b => KBytes (bytes_sep a b) | _, _ => l end.
Definition raw_sep_str (l r : key) : key :=
  match l, r with KBytes a, KBytes b => KBytes (str_sep a b) | _, _ => l end.

Definition key_sep_left (l r : key) : key := l.
Definition key_sep_bytes : key -> key -> key := guarded raw_sep_bytes.
Definition key_sep_str : key -> key -> key := guarded raw_sep_str.

(* unique names for the extraction (ocaml/c04_driver.ml): the logical mutator of Mutator.v at the
   oracle's types, run next to the shape model to compare erasures at run time *)
From RV Require Import Btree.Tree Btree.Read Btree.Mutator.
Definition m_insert := @Mutator.insert key bytes key_cmp key_size val_size.
Definition m_delete := @Mutator.delete key bytes key_cmp key_size val_size.
Definition m_tree_checkb := @tree_checkb key bytes key_cmp.

From RV Require Import Btree.Guard.
(* the value insert_reserve stores before the caller writes: value_length zero bytes (<&[u8]>::initialize is a no-op) *)
Definition blank_bytes (v : bytes) : bytes := List.map (fun _ => 0%N) v.
Definition m_apply_gop := @Guard.apply_gop key bytes key_cmp key_size val_size.

(* equality of entries (snapshot_matches of RangeMut compares leaf pages) *)
Definition bytes_eqb (a b : bytes) : bool := match lex_cmp a b with Eq => true | _ => false end.
Definition entry_eqb (x y : key * bytes) : bool :=
  match key_cmp (fst x) (fst y) with Eq => bytes_eqb (snd x) (snd y) | _ => false end.

(* the logical-tree retain / extract (ScanTree.v) at the oracle's types, run next to the shape model *)
From RV Require Import Btree.Scan Btree.RangeMut Btree.ScanTree.
Definition m_retain_in := @ScanTree.t_retain_in key bytes key_cmp key_size val_size.
Definition m_extract_new := @ScanTree.t_extract_new key bytes.
Definition m_extract_next := @ScanTree.t_extract_next key bytes key_cmp key_size val_size.
Definition m_extract_close := @ScanTree.t_extract_close key bytes key_cmp key_size val_size.
