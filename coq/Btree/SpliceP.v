(* MutateHelper::replace_leaf_children / build_replacement_leaves on the logical tree: the run of sibling
   leaves is replaced by leaves packed from (any subsequence of) their entries; invariant and abstraction. *)
From Coq Require Import List NArith Bool Sorted Lia Arith.
From RV Require Import Base.SortedMap Base.SortedMapP Btree.Tree Btree.TreeP Btree.Read Btree.ReadP
  Btree.Mutator Btree.MutatorP Btree.DeleteP Btree.Scan Btree.ScanTree Btree.ScanTreeP.
Import ListNotations.

(* subsequences *)
Inductive Subseq {A : Type} : list A -> list A -> Prop :=
| sub_nil : Subseq [] []
| sub_skip x l1 l2 : Subseq l1 l2 -> Subseq l1 (x :: l2)
| sub_keep x l1 l2 : Subseq l1 l2 -> Subseq (x :: l1) (x :: l2).

Section SubseqP.
  Context {A : Type}.
  Lemma Subseq_refl (l : list A) : Subseq l l.
  Proof. induction l; [constructor|apply sub_keep; assumption]. Qed.
  Lemma Subseq_nil (l : list A) : Subseq [] l.
  Proof. induction l; [constructor|apply sub_skip; assumption]. Qed.
  Lemma Subseq_app (a b c d : list A) : Subseq a b -> Subseq c d -> Subseq (a ++ c) (b ++ d).
  Proof. induction 1; cbn; intros; [assumption|apply sub_skip; auto|apply sub_keep; auto]. Qed.
  Lemma Subseq_Forall (P : A -> Prop) (a b : list A) : Subseq a b -> Forall P b -> Forall P a.
  Proof. induction 1 as [|x l1 l2 Hs IH|x l1 l2 Hs IH]; intros HF; auto; inversion HF; subst; auto. Qed.
  Lemma Subseq_sorted (R : A -> A -> Prop) (a b : list A) : Subseq a b -> StronglySorted R b -> StronglySorted R a.
  Proof.
    induction 1 as [|x l1 l2 Hs IH|x l1 l2 Hs IH]; intros HS; auto; inversion HS; subst; auto.
    constructor; auto. eapply Subseq_Forall; eauto.
  Qed.
  Lemma Subseq_length (a b : list A) : Subseq a b -> length a <= length b.
  Proof. induction 1; cbn; lia. Qed.
  Lemma Subseq_trans (a b c : list A) : Subseq a b -> Subseq b c -> Subseq a c.
  Proof.
    intros H1 H2. revert a H1. induction H2; intros a H1.
    - exact H1.
    - apply sub_skip. auto.
    - inversion H1; subst; [apply sub_skip|apply sub_keep]; auto.
  Qed.
End SubseqP.

Section SpliceP.
  Context {K V : Type}.
  Variable cmp : K -> K -> comparison.
  Hypothesis laws : OrderLaws cmp.
  Variable ksize : K -> N.
  Variable vsize : V -> N.
  Variable fixed_k fixed_v : bool.
  Variable page_size : N.
  Variable sep : K -> K -> K.
  Hypothesis Hsep : valid_sep cmp sep.

  Notation node := (@node K V).
  Notation inv := (@inv K V cmp).
  Notation chain := (@chain K V cmp).
  Notation abs := (@abs K V).
  Notation abs_rest := (@abs_rest K V).
  Notation sorted := (@sorted K V cmp).
  Notation del_ok := (@del_ok K V cmp).
  Implicit Types (t c : node) (rest : list (K * node)) (h : nat) (lo hi : option K).

  Lemma remove_indexes_from_Subseq (es : list (K * V)) : forall i idx, Subseq (remove_indexes_from i es idx) es.
  Proof.
    induction es as [|e r IH]; intros i idx; cbn; [constructor|].
    destruct idx as [|x idx']; [apply Subseq_refl|].
    destruct (Nat.eqb x i); [apply sub_skip|apply sub_keep]; apply IH.
  Qed.

  (* ---- a branch as the list of its children, each with the separator stored behind it *)
  Definition wk := list (node * option K).
  Definition wk_abs (l : wk) : list (K * V) := flat_map (fun x => abs (fst x)) l.

  Fixpoint wk_chain h lo hi (l : wk) : Prop :=
    match l with
    | [] => False
    | (c, k) :: l' =>
        match l' with
        | [] => inv h lo hi c
        | _ => match k with Some s => inv h lo (Some s) c /\ wk_chain h (Some s) hi l' | None => False end
        end
    end.

  Lemma chain_wk h lo hi c0 rest : chain h lo hi c0 rest ->
    wk_chain h lo hi (with_keys (children c0 rest) (seps rest)).
  Proof.
    induction 1 as [h lo hi c Hi|h lo hi c s c' rest Hi Hc IH].
    - cbn. exact Hi.
    - rewrite children_cons. cbn [seps List.map fst with_keys wk_chain].
      destruct (with_keys (children c' rest) (List.map fst rest)) eqn:E.
      + unfold children in E. cbn in E. destruct (List.map fst rest); discriminate.
      + split; [exact Hi|]. unfold seps in IH. rewrite E in IH. exact IH.
  Qed.

  Lemma wk_pair_up h : forall (r : wk) lo hi c k dflt, wk_chain h lo hi ((c, k) :: r) ->
    chain h lo hi c (pair_up k r dflt) /\ abs c ++ abs_rest (pair_up k r dflt) = wk_abs ((c, k) :: r).
  Proof.
    induction r as [|[c2 k2] r IH]; intros lo hi c k dflt H.
    - cbn in *. split; [constructor; exact H|]. unfold TreeP.abs_rest. reflexivity.
    - cbn [wk_chain] in H. destruct k as [s|]; [|contradiction]. destruct H as [H1 H2].
      cbn [pair_up]. destruct (IH _ _ _ _ dflt H2) as [I1 I2]. split.
      + constructor; assumption.
      + rewrite abs_rest_cons, I2. reflexivity.
  Qed.

  Definition last_key_of (l : wk) : option K := match last_opt l with Some (_, k) => k | None => None end.

  Lemma wk_app h : forall (l1 l2 : wk) lo hi, l1 <> [] -> l2 <> [] ->
    (wk_chain h lo hi (l1 ++ l2) <->
     exists s, last_key_of l1 = Some s /\ wk_chain h lo (Some s) l1 /\ wk_chain h (Some s) hi l2).
  Proof.
    induction l1 as [|[c k] l1 IH]; intros l2 lo hi N1 N2; [congruence|].
    destruct l1 as [|p l1'].
    - cbn [app wk_chain last_key_of last_opt]. destruct l2 as [|q l2']; [congruence|]. split.
      + destruct k as [s|]; [|contradiction]. intros [H1 H2]. exists s. auto.
      + intros (s & E & H1 & H2). rewrite E. auto.
    - assert (E : last_key_of ((c, k) :: p :: l1') = last_key_of (p :: l1')) by reflexivity. rewrite E.
      specialize (IH l2).
      change (((c, k) :: p :: l1') ++ l2) with ((c, k) :: p :: (l1' ++ l2)).
      change ((p :: l1') ++ l2) with (p :: (l1' ++ l2)) in IH.
      cbn [wk_chain]. cbn [wk_chain] in IH.
      destruct k as [s0|].
      2:{ split; [contradiction|]. intros (s & _ & H & _). exact H. }
      specialize (IH (Some s0) hi ltac:(discriminate) N2). split.
      + intros [H1 H2]. apply IH in H2. destruct H2 as (s & E1 & H3 & H4). exists s. auto.
      + intros (s & E1 & [H1 H3] & H4). split; [exact H1|]. apply IH. exists s. auto.
  Qed.

  Lemma wk_weaken h : forall (l : wk) lo hi lo' hi', wk_chain h lo hi l ->
    (forall k, lo_ok cmp lo k -> lo_ok cmp lo' k) -> (forall k, hi_ok cmp hi k -> hi_ok cmp hi' k) ->
    wk_chain h lo' hi' l.
  Proof.
    induction l as [|[c k] l IH]; intros lo hi lo' hi' H Hl Hh; [exact H|].
    cbn [wk_chain] in *. destruct l as [|p l'].
    - eapply inv_weaken; eauto.
    - destruct k as [s|]; [|contradiction]. destruct H as [H1 H2]. split.
      + eapply inv_weaken; eauto.
      + eapply IH; eauto.
  Qed.

  Lemma wk_facts h : forall (l : wk) lo hi, wk_chain h lo hi l ->
    wk_abs l <> [] /\ Forall (in_bounds cmp lo hi) (wk_abs l).
  Proof.
    induction l as [|[c k] l IH]; intros lo hi H; [contradiction|].
    cbn [wk_chain] in H. unfold wk_abs in *. cbn [flat_map fst]. destruct l as [|p l'].
    - cbn. rewrite app_nil_r. split; [eapply inv_nonempty; eauto|eapply (inv_bounds cmp laws); eauto].
    - destruct k as [s|]; [|contradiction]. destruct H as [H1 H2].
      destruct (IH _ _ H2) as [N2 B2].
      pose proof (inv_nonempty cmp laws _ _ _ _ H1) as N1. pose proof (inv_bounds cmp laws _ _ _ _ H1) as B1.
      assert (Hhs : hi_ok cmp hi s).
      { destruct (flat_map (fun x => abs (fst x)) (p :: l')) as [|e' r']; [congruence|].
        inversion B2 as [|? ? [E1 E2] _]; subst. cbn in E1. eapply hi_ok_weaken; eauto. rewrite E1. discriminate. }
      assert (Hls : lo_ok cmp lo s).
      { destruct (abs c) as [|e r]; [congruence|]. inversion B1 as [|? ? [E1 E2] _]; subst. cbn in E2.
        eapply lo_ok_weaken; eauto. }
      split; [destruct (abs c); [congruence|discriminate]|].
      apply Forall_app. split.
      + eapply Forall_impl; [|exact B1]. intros e [E1 E2]. split; [exact E1|]. eapply hi_step; eauto.
      + eapply Forall_impl; [|exact B2]. intros e [E1 E2]. split; [|exact E2]. eapply lo_step; eauto.
  Qed.

  Lemma wk_lo_le h lo s (l : wk) : wk_chain h lo (Some s) l -> lo_ok cmp lo s.
  Proof.
    intros H. destruct (wk_facts _ _ _ _ H) as [N B]. destruct (wk_abs l) as [|e r]; [congruence|].
    inversion B as [|? ? [E1 E2] _]; subst. cbn in E2. eapply lo_ok_weaken; eauto.
  Qed.

  Lemma wk_le_hi h s hi (l : wk) : wk_chain h (Some s) hi l -> hi_ok cmp hi s.
  Proof.
    intros H. destruct (wk_facts _ _ _ _ H) as [N B]. destruct (wk_abs l) as [|e r]; [congruence|].
    inversion B as [|? ? [E1 E2] _]; subst. cbn in E1. eapply hi_ok_weaken; eauto. rewrite E1. discriminate.
  Qed.

  Lemma wk_abs_app (l1 l2 : wk) : wk_abs (l1 ++ l2) = wk_abs l1 ++ wk_abs l2.
  Proof. unfold wk_abs. apply flat_map_app. Qed.


  (* ---- build_replacement_leaves *)
  Notation greedy := (greedy ksize vsize fixed_k fixed_v page_size).
  Notation plan_leaves := (plan_leaves sep).
  Notation build_replacement_leaves := (build_replacement_leaves ksize vsize fixed_k fixed_v page_size sep).

  Lemma nlen_cons {A} (x : A) l : nlen (x :: l) = (nlen l + 1)%N.
  Proof. unfold nlen. cbn [length]. lia. Qed.

  Lemma greedy_spec : forall es cur n bytes, n = nlen cur ->
    concat (greedy es cur n bytes) = rev cur ++ es /\ Forall (fun ch : list (K * V) => ch <> []) (greedy es cur n bytes).
  Proof.
    induction es as [|e r IH]; intros cur n bytes Hn; cbn [ScanTree.greedy].
    - destruct cur as [|x cur']; cbn [concat].
      + split; [reflexivity|constructor].
      + rewrite !app_nil_r. split; [reflexivity|]. constructor; [|constructor].
        cbn [rev]. destruct (rev cur'); discriminate.
    - destruct (leaf_split_required fixed_k fixed_v page_size (n + 1) (bytes + pair_bytes ksize vsize e)) eqn:Esp.
      + apply (leaf_split_required_len fixed_k fixed_v page_size) in Esp.
        destruct (IH [e] 1%N (pair_bytes ksize vsize e) ltac:(reflexivity)) as [I1 I2].
        cbn [concat]. rewrite I1. cbn [rev app]. split; [reflexivity|].
        constructor; [|exact I2].
        destruct cur as [|x cur']; [unfold nlen in Hn; cbn in Hn; lia|]. cbn [rev]. destruct (rev cur'); discriminate.
      + destruct (IH (e :: cur) (n + 1)%N (bytes + pair_bytes ksize vsize e)%N) as [I1 I2].
        { rewrite nlen_cons. now rewrite Hn. }
        split; [|exact I2]. rewrite I1. cbn [rev]. rewrite <- app_assoc. reflexivity.
  Qed.

  Definition wk_of (l : list (node * K)) : wk := List.map (fun p => (fst p, Some (snd p))) l.

  Lemma last_key_last (c : list (K * V)) dflt : c <> [] -> exists x, last_opt c = Some x /\ last_key c dflt = fst x.
  Proof.
    intros Hne. destruct (removelast_last_opt c Hne) as [x [Hx _]]. exists x. split; [exact Hx|].
    unfold last_key. now rewrite Hx.
  Qed.

  Lemma leaf_inv_upto lo (c : list (K * V)) s : c <> [] -> sorted c -> Forall (fun e => lo_ok cmp lo (fst e)) c ->
    (forall x, last_opt c = Some x -> cmp (fst x) s <> Gt) -> inv 0 lo (Some s) (Leaf c).
  Proof.
    intros Hne Hs Hlo Hl. destruct (removelast_last_opt c Hne) as [x [Hx _]].
    constructor; auto. pose proof (sorted_last_max cmp laws c x Hs Hx) as Hmax.
    rewrite Forall_forall in *. intros e He. split; [apply Hlo; exact He|].
    cbn. eapply cmp_le_trans; [exact laws|apply Hmax; exact He|apply Hl; exact Hx].
  Qed.

  Lemma plan_chain dflt : forall (pl : list (list (K * V))) lo tail,
    pl <> [] -> Forall (fun ch : list (K * V) => ch <> []) pl -> sorted (concat pl) ->
    Forall (fun e => lo_ok cmp lo (fst e)) (concat pl) ->
    match tail with Some fk => Forall (fun e => cmp (fst e) fk = Lt) (concat pl) | None => True end ->
    let R := wk_of (plan_leaves pl tail dflt) in
    let X := concat pl in
    let s_last := match tail with Some fk => sep (last_key X dflt) fk | None => last_key X dflt end in
    wk_abs R = X /\ last_key_of R = Some s_last /\ wk_chain 0 lo (Some s_last) R.
  Proof.
    induction pl as [|c pl IH]; intros lo tail Hne Hall Hs Hlo Htail; [congruence|].
    inversion Hall as [|? ? Hc Hall']; subst.
    destruct pl as [|nx r].
    - (* the last planned page *)
      cbn [concat] in Hs, Hlo, Htail. rewrite ?app_nil_r in Hs, Hlo, Htail.
      cbn [ScanTree.plan_leaves wk_of List.map concat fst snd]. rewrite ?app_nil_r.
      cbn [wk_abs flat_map fst Tree.abs last_key_of last_opt wk_chain]. unfold wk_abs. cbn [flat_map fst Tree.abs].
      rewrite app_nil_r. split; [reflexivity|]. split; [reflexivity|].
      destruct (last_key_last c dflt Hc) as [x [Hx Hlk]].
      apply leaf_inv_upto; [exact Hc|exact Hs|exact Hlo|]. intros x' Hx'. rewrite Hx in Hx'. inversion Hx'; subst x'.
      destruct tail as [fk|].
      + rewrite Hlk. assert (Hlt : cmp (fst x) fk = Lt).
        { rewrite Forall_forall in Htail. apply Htail. destruct (removelast_last_opt c Hc) as [y [Hy Hyc]].
          rewrite Hx in Hy. inversion Hy; subst y. rewrite Hyc. apply in_or_app. right. cbn. auto. }
        destruct (Hsep _ _ Hlt) as [S1 _]. exact S1.
      + rewrite Hlk. rewrite (cmp_refl _ laws). discriminate.
    - (* a planned page followed by another one *)
      inversion Hall' as [|? ? Hnx _]; subst.
      cbn [concat] in *. apply (sorted_app_inv cmp) in Hs as (Hsc & Hsr & Hlt).
      apply Forall_app in Hlo as [Hloc Hlor].
      destruct (last_key_last c dflt Hc) as [x [Hx Hlk]].
      destruct nx as [|y nx']; [congruence|].
      assert (Hxy : cmp (fst x) (fst y) = Lt).
      { apply Hlt; [destruct (removelast_last_opt c Hc) as [z [Hz Hzc]]; rewrite Hx in Hz; inversion Hz; subst z;
                    rewrite Hzc; apply in_or_app; right; cbn; auto|cbn; auto]. }
      destruct (Hsep _ _ Hxy) as [S1 S2].
      set (s := sep (fst x) (fst y)) in *.
      assert (Hlor' : Forall (fun e => lo_ok cmp (Some s) (fst e)) (concat ((y :: nx') :: r))).
      { cbn [concat]. pose proof (sorted_head_min cmp laws _ y Hsr eq_refl) as Hmin.
        eapply Forall_impl; [|exact Hmin]. cbn. intros e He. eapply cmp_lt_le_trans; eauto. }
      assert (Htail' : match tail with Some fk => Forall (fun e => cmp (fst e) fk = Lt) (concat ((y :: nx') :: r)) | None => True end).
      { destruct tail; [|exact I]. apply Forall_app in Htail as [_ Ht]. exact Ht. }
      specialize (IH (Some s) tail ltac:(discriminate) Hall' Hsr Hlor' Htail').
      cbn zeta in IH. destruct IH as (I1 & I2 & I3).
      change (ScanTree.plan_leaves sep (c :: (y :: nx') :: r) tail dflt)
        with ((Leaf c, sep (last_key c dflt) (first_key (y :: nx') dflt)) :: ScanTree.plan_leaves sep ((y :: nx') :: r) tail dflt).
      cbn [wk_of List.map fst snd]. fold (wk_of (ScanTree.plan_leaves sep ((y :: nx') :: r) tail dflt)).
      rewrite Hlk. cbn [first_key fst]. fold s.
      change (concat ((y :: nx') :: r)) with ((y :: nx') ++ concat r) in *.
      assert (Hlast : last_key (c ++ (y :: nx') ++ concat r) dflt = last_key ((y :: nx') ++ concat r) dflt).
      { unfold last_key. rewrite last_opt_app_nonempty; [reflexivity|]. discriminate. }
      split; [|split].
      + unfold wk_abs in *. cbn [flat_map fst Tree.abs]. now rewrite I1.
      + rewrite Hlast. destruct (wk_of (ScanTree.plan_leaves sep ((y :: nx') :: r) tail dflt)) as [|q R'] eqn:ER.
        * cbn in I2. discriminate.
        * exact I2.
      + rewrite Hlast.
        destruct (wk_of (ScanTree.plan_leaves sep ((y :: nx') :: r) tail dflt)) as [|q R'] eqn:ER; [contradiction|].
        cbn [wk_chain]. split; [|exact I3].
        apply leaf_inv_upto; [exact Hc|exact Hsc|exact Hloc|]. intros x' Hx'. rewrite Hx in Hx'. inversion Hx'; subst x'. exact S1.
  Qed.

  Lemma concat_nonempty_ex (pl : list (list (K * V))) : concat pl <> [] -> pl <> [].
  Proof. destruct pl; [cbn; congruence|discriminate]. Qed.

  Lemma sorted_app_r (a b : list (K * V)) : sorted (a ++ b) -> sorted b.
  Proof. intros H. apply (sorted_app_inv cmp) in H. tauto. Qed.
  Lemma sorted_app_l (a b : list (K * V)) : sorted (a ++ b) -> sorted a.
  Proof. intros H. apply (sorted_app_inv cmp) in H. tauto. Qed.

  Lemma last_key_in (c : list (K * V)) dflt : c <> [] -> exists v, In (last_key c dflt, v) c.
  Proof.
    intros Hne. destruct (removelast_last_opt c Hne) as [[k v] [Hx Hc]]. exists v.
    unfold last_key. rewrite Hx. cbn. rewrite Hc. apply in_or_app. right. cbn. auto.
  Qed.

  (* the two pages build_split makes of the last two planned pages *)
  Lemma two_leaves lo (range : list (K * V)) d dflt : sorted range ->
    Forall (fun e => lo_ok cmp lo (fst e)) range -> 0 < d < length range ->
    let x := firstn d range in let y := skipn d range in
    let s := sep (last_key x dflt) (first_key y dflt) in
    inv 0 lo (Some s) (Leaf x) /\ inv 0 (Some s) (Some (last_key range dflt)) (Leaf y).
  Proof.
    intros Hs Hlo Hd x y s.
    assert (Hne : range <> []) by (destruct range; cbn in Hd; [lia|discriminate]).
    assert (Hb : Forall (in_bounds cmp lo (Some (last_key range dflt))) range).
    { destruct (last_key_last range dflt Hne) as [z [Hz Hlk]]. pose proof (sorted_last_max cmp laws range z Hs Hz) as Hmax.
      rewrite Forall_forall in *. intros e He. split; [apply Hlo; exact He|]. cbn. rewrite Hlk. apply Hmax. exact He. }
    pose proof (split_at_inv cmp laws sep Hsep lo (Some (last_key range dflt)) range d dflt Hs Hb Hd) as H.
    cbn zeta in H. fold x y in H.
    assert (Hx : x <> []) by (unfold x; destruct range; cbn in *; [lia|]; destruct d; [lia|discriminate]).
    assert (Hy : y <> []).
    { unfold y. intros E. assert (length (skipn d range) = 0) by now rewrite E. rewrite skipn_length in H0. lia. }
    destruct (last_key_last x dflt Hx) as [lx [Hlx Hlkx]]. rewrite Hlx in H.
    destruct y as [|fy y'] eqn:Ey; [congruence|]. cbn [hd_error] in H.
    unfold s. rewrite Hlkx. cbn [first_key]. exact H.
  Qed.

  Lemma build_replacement_nil dflt : build_replacement_leaves [] dflt = [].
  Proof. reflexivity. Qed.

  Lemma build_replacement_chain lo (E : list (K * V)) dflt : E <> [] -> sorted E ->
    Forall (fun e => lo_ok cmp lo (fst e)) E ->
    let R := wk_of (build_replacement_leaves E dflt) in
    wk_abs R = E /\ last_key_of R = Some (last_key E dflt) /\ wk_chain 0 lo (Some (last_key E dflt)) R.
  Proof.
    intros Hne Hs Hlo. unfold ScanTree.build_replacement_leaves.
    destruct (greedy_spec E [] 0%N 0%N eq_refl) as [G1 G2]. cbn [rev app] in G1.
    remember (greedy E [] 0%N 0%N) as plan eqn:Eplan. clear Eplan.
    assert (Hpl : plan <> []) by (apply concat_nonempty_ex; now rewrite G1).
    destruct (Nat.leb 2 (length plan) && leaf_below_merge fixed_k fixed_v page_size _ _) eqn:Eb.
    - (* balanced tail *)
      apply andb_true_iff in Eb as [Eb _]. apply Nat.leb_le in Eb.
      remember (length plan) as n eqn:En.
      assert (Hsplit : plan = firstn (n - 2) plan ++ [nth (n - 2) plan []; nth (Nat.pred n) plan []]).
      { rewrite <- (firstn_skipn (n - 2) plan) at 1. f_equal.
        assert (Hl : length (skipn (n - 2) plan) = 2) by (rewrite skipn_length; lia).
        destruct (skipn (n - 2) plan) as [|a [|b [|c r]]] eqn:Es; cbn in Hl; try lia.
        assert (Ha : nth (n - 2) plan [] = a).
        { rewrite <- (firstn_skipn (n - 2) plan) at 1. rewrite app_nth2; rewrite firstn_length_le; try lia.
          rewrite Nat.sub_diag, Es. reflexivity. }
        assert (Hb : nth (Nat.pred n) plan [] = b).
        { rewrite <- (firstn_skipn (n - 2) plan) at 1. rewrite app_nth2; rewrite firstn_length_le; try lia.
          replace (Nat.pred n - (n - 2)) with 1 by lia. rewrite Es. reflexivity. }
        now rewrite Ha, Hb. }
      remember (firstn (n - 2) plan) as keep eqn:Ekp. remember (nth (n - 2) plan []) as p2 eqn:Ep2.
      remember (nth (Nat.pred n) plan []) as lastc eqn:Elc. clear Ekp Ep2 Elc.
      remember (p2 ++ lastc) as range eqn:Erange.
      assert (HE : E = concat keep ++ range).
      { rewrite <- G1, Hsplit, concat_app. cbn [concat]. rewrite Erange. now rewrite app_nil_r. }
      assert (Hall : Forall (fun ch : list (K * V) => ch <> []) keep /\ p2 <> [] /\ lastc <> []).
      { rewrite Hsplit in G2. apply Forall_app in G2 as [F1 F2]. inversion F2 as [|? ? Hp F3]; subst. inversion F3; subst. auto. }
      destruct Hall as (Fk & Np2 & Nl).
      assert (Hlr : 2 <= length range).
      { rewrite Erange, app_length. destruct p2; [congruence|]. destruct lastc; [congruence|]. cbn. lia. }
      pose proof (division_bounds ksize vsize range Hlr) as Hd.
      assert (Hrs : sorted range) by (rewrite HE in Hs; now apply sorted_app_r in Hs).
      assert (Hrne : range <> []) by (destruct range; cbn in Hlr; [lia|discriminate]).
      assert (HlkE : last_key E dflt = last_key range dflt).
      { rewrite HE. unfold last_key. now rewrite last_opt_app_nonempty. }
      destruct keep as [|k1 keep'] eqn:Ekeep.
      + (* nothing before the balanced pair *)
        cbn [ScanTree.plan_leaves app concat] in *. rewrite HE in Hlo. cbn [app] in Hlo, HE.
        destruct (two_leaves lo range (division ksize vsize range) dflt Hrs Hlo Hd) as [T1 T2].
        cbn [wk_of List.map fst snd]. unfold wk_abs. cbn [flat_map fst Tree.abs last_key_of last_opt wk_chain].
        rewrite app_nil_r, firstn_skipn. rewrite HlkE. split; [now rewrite HE|]. split; [reflexivity|]. split; [exact T1|exact T2].
      + (* planned pages, then the balanced pair *)
        assert (Hkne : concat (k1 :: keep') <> []).
        { inversion Fk; subst. cbn [concat]. destruct k1; [congruence|discriminate]. }
        rewrite HE in Hs, Hlo. apply Forall_app in Hlo as [Hlo1 Hlo2].
        pose proof (sorted_app_inv cmp _ _ Hs) as (Hs1 & _ & Hlt).
        destruct range as [|fr range'] eqn:Er; [congruence|]. rewrite <- Er in *.
        assert (Htail : Forall (fun e => cmp (fst e) (first_key range dflt) = Lt) (concat (k1 :: keep'))).
        { assert (Hfk : first_key range dflt = fst fr) by (rewrite Er; reflexivity).
          rewrite Forall_forall. intros e He. rewrite Hfk. apply Hlt; [exact He|]. rewrite Er. cbn. auto. }
        destruct (plan_chain dflt (k1 :: keep') lo (Some (first_key range dflt)) ltac:(discriminate) Fk Hs1 Hlo1 Htail)
          as (P1 & P2 & P3).
        set (s1 := sep (last_key (concat (k1 :: keep')) dflt) (first_key range dflt)) in *.
        assert (Hs1lt : cmp (last_key (concat (k1 :: keep')) dflt) (first_key range dflt) = Lt).
        { destruct (last_key_in (concat (k1 :: keep')) dflt Hkne) as [v Hin]. rewrite Forall_forall in Htail.
          apply (Htail _ Hin). }
        destruct (Hsep _ _ Hs1lt) as [_ S2].
        assert (Hlo2' : Forall (fun e => lo_ok cmp (Some s1) (fst e)) range).
        { assert (Hfk : first_key range dflt = fst fr) by (rewrite Er; reflexivity).
          pose proof (sorted_head_min cmp laws range fr Hrs ltac:(rewrite Er; reflexivity)) as Hmin.
          eapply Forall_impl; [|exact Hmin]. cbn. intros e He.
          apply (cmp_lt_le_trans cmp laws s1 (fst fr) (fst e)); [|exact He]. rewrite <- Hfk. exact S2. }
        destruct (two_leaves (Some s1) range (division ksize vsize range) dflt Hrs Hlo2' Hd) as [T1 T2].
        unfold wk_of. rewrite map_app. fold (wk_of (ScanTree.plan_leaves sep (k1 :: keep') (Some (first_key range dflt)) dflt)).
        cbn [List.map fst snd].
        set (R1 := wk_of (ScanTree.plan_leaves sep (k1 :: keep') (Some (first_key range dflt)) dflt)) in *.
        split; [|split].
        * rewrite wk_abs_app, P1. unfold wk_abs. cbn [flat_map fst Tree.abs]. rewrite app_nil_r, firstn_skipn.
          now rewrite HE.
        * rewrite HlkE. unfold last_key_of. rewrite last_opt_app_nonempty by discriminate. reflexivity.
        * rewrite HlkE. apply (wk_app 0 R1 _ lo (Some (last_key range dflt))).
          -- intros E0. rewrite E0 in P2. discriminate.
          -- discriminate.
          -- exists s1. split; [exact P2|]. split; [exact P3|]. cbn [wk_chain]. split; [exact T1|exact T2].
    - (* the plan as it is *)
      destruct (plan_chain dflt plan lo None Hpl G2 ltac:(now rewrite G1) ltac:(now rewrite G1) I) as (P1 & P2 & P3).
      cbn zeta in *. rewrite G1 in *. auto.
  Qed.

  (* ---- replacing a run of children by the packed leaves *)
  Lemma wk_of_nil_inv (l : list (node * K)) : wk_of l = [] -> l = [].
  Proof. destruct l; [reflexivity|discriminate]. Qed.

  Lemma lo_ok_le_step s s' : cmp s' s <> Gt -> forall k, lo_ok cmp (Some s) k -> lo_ok cmp (Some s') k.
  Proof. intros H k Hk. cbn in *. eapply cmp_le_lt_trans; eauto. Qed.

  Lemma replace_wk lo hi (P M S : wk) (E : list (K * V)) dflt :
    wk_chain 0 lo hi (P ++ M ++ S) -> M <> [] -> sorted E -> Subseq E (wk_abs M) ->
    let newl := P ++ wk_of (build_replacement_leaves E dflt) ++ S in
    (newl = [] /\ E = [] /\ P = [] /\ S = []) \/
    (wk_chain 0 lo hi newl /\ wk_abs newl = wk_abs P ++ E ++ wk_abs S).
  Proof.
    intros Hc HM HsE Hsub. cbn zeta.
    (* the bounds of the middle part and the chains around it *)
    assert (Hmid : exists loM hiM, wk_chain 0 loM hiM M /\
              (P = [] -> loM = lo) /\
              (P <> [] -> exists sP, last_key_of P = Some sP /\ loM = Some sP /\ wk_chain 0 lo (Some sP) P) /\
              (S = [] -> hiM = hi) /\
              (S <> [] -> exists sM, last_key_of M = Some sM /\ hiM = Some sM /\ wk_chain 0 (Some sM) hi S)).
    { destruct P as [|p P'].
      - cbn [app] in Hc. destruct S as [|q S'].
        + rewrite app_nil_r in Hc. exists lo, hi. repeat split; auto; congruence.
        + apply (wk_app 0 M (q :: S') lo hi HM ltac:(discriminate)) in Hc. destruct Hc as (sM & E1 & H1 & H2).
          exists lo, (Some sM). repeat split; auto; try congruence. intros _. exists sM. auto.
      - apply (wk_app 0 (p :: P') (M ++ S) lo hi ltac:(discriminate)) in Hc.
        2:{ destruct M; [congruence|discriminate]. }
        destruct Hc as (sP & E0 & H0 & Hc). destruct S as [|q S'].
        + rewrite app_nil_r in Hc. exists (Some sP), hi. repeat split; auto; try congruence. intros _. exists sP. auto.
        + apply (wk_app 0 M (q :: S') (Some sP) hi HM ltac:(discriminate)) in Hc. destruct Hc as (sM & E1 & H1 & H2).
          exists (Some sP), (Some sM). repeat split; auto; try congruence.
          * intros _. exists sP. auto.
          * intros _. exists sM. auto. }
    destruct Hmid as (loM & hiM & HMc & HP0 & HP1 & HS0 & HS1).
    destruct (wk_facts _ _ _ _ HMc) as [_ HMb].
    pose proof (Subseq_Forall _ _ _ Hsub HMb) as HEb.
    destruct E as [|e0 E'] eqn:EE.
    - (* nothing left: the children are dropped *)
      rewrite build_replacement_nil. cbn [wk_of List.map app].
      destruct P as [|p P']; destruct S as [|q S'].
      + left. auto.
      + right. cbn [app]. destruct (HS1 ltac:(discriminate)) as (sM & E1 & E2 & H2). subst hiM.
        rewrite (HP0 eq_refl) in HMc. split; [|reflexivity].
        eapply wk_weaken; [exact H2| |auto]. apply (lo_step cmp laws). eapply wk_lo_le; eauto.
      + right. rewrite !app_nil_r. destruct (HP1 ltac:(discriminate)) as (sP & E1 & E2 & H2). subst loM.
        rewrite (HS0 eq_refl) in HMc. split; [|cbn; now rewrite ?app_nil_r].
        eapply wk_weaken; [exact H2|auto|]. apply (hi_step cmp laws). eapply wk_le_hi; eauto.
      + right. destruct (HP1 ltac:(discriminate)) as (sP & E1 & E2 & H2). subst loM.
        destruct (HS1 ltac:(discriminate)) as (sM & E3 & E4 & H4). subst hiM.
        split; [|apply wk_abs_app].
        apply (wk_app 0 (p :: P') (q :: S') lo hi ltac:(discriminate) ltac:(discriminate)).
        exists sP. split; [exact E1|]. split; [exact H2|].
        eapply wk_weaken; [exact H4| |auto]. apply lo_ok_le_step.
        pose proof (wk_lo_le _ _ _ _ HMc) as Hl. cbn in Hl. rewrite Hl. discriminate.
    - (* the packed replacement *)
      rewrite <- EE in *. assert (HEne : E <> []) by (rewrite EE; discriminate).
      assert (HloE : Forall (fun e => lo_ok cmp loM (fst e)) E).
      { eapply Forall_impl; [|exact HEb]. intros e [B1 _]. exact B1. }
      destruct (build_replacement_chain loM E dflt HEne HsE HloE) as (R1 & R2 & R3).
      set (R := wk_of (build_replacement_leaves E dflt)) in *.
      assert (HRne : R <> []) by (intros E0; rewrite E0 in R2; discriminate).
      assert (Hlk_hi : hi_ok cmp hiM (last_key E dflt)).
      { destruct (last_key_in E dflt HEne) as [v Hin]. rewrite Forall_forall in HEb. destruct (HEb _ Hin) as [_ B2]. exact B2. }
      right. split.
      2:{ rewrite !wk_abs_app, R1. reflexivity. }
      (* R ++ S *)
      assert (HRS : wk_chain 0 loM hi (R ++ S)).
      { destruct S as [|q S'].
        - rewrite app_nil_r. rewrite (HS0 eq_refl) in *. eapply wk_weaken; [exact R3|auto|]. apply (hi_step cmp laws). exact Hlk_hi.
        - destruct (HS1 ltac:(discriminate)) as (sM & E3 & E4 & H4). subst hiM.
          apply (wk_app 0 R (q :: S') loM hi HRne ltac:(discriminate)).
          exists (last_key E dflt). split; [exact R2|]. split; [exact R3|].
          eapply wk_weaken; [exact H4| |auto]. apply lo_ok_le_step. exact Hlk_hi. }
      destruct P as [|p P'].
      + cbn [app]. now rewrite (HP0 eq_refl) in HRS.
      + destruct (HP1 ltac:(discriminate)) as (sP & E1 & E2 & H2). subst loM.
        apply (wk_app 0 (p :: P') (R ++ S) lo hi ltac:(discriminate)).
        * destruct R; [congruence|discriminate].
        * exists sP. auto.
  Qed.

  (* ---- replace_children on a bottom-level branch *)
  Lemma wk_abs_cons (x : node * option K) (l : wk) : wk_abs (x :: l) = abs (fst x) ++ wk_abs l.
  Proof. reflexivity. Qed.

  Lemma with_keys_fst (cs : list node) : forall ks, List.map fst (with_keys cs ks) = cs.
  Proof. induction cs as [|c r IH]; intros ks; cbn; [reflexivity|]. destruct ks; cbn; now rewrite IH. Qed.

  Lemma wk_abs_map (l : wk) : wk_abs l = flat_map abs (List.map fst l).
  Proof. unfold wk_abs. induction l as [|x l IH]; cbn; [reflexivity|]. now rewrite IH. Qed.

  Lemma slice_split {A} (l : list A) a n : a + n <= length l ->
    l = firstn a l ++ firstn n (skipn a l) ++ skipn (a + n) l.
  Proof.
    intros H. rewrite <- (firstn_skipn a l) at 1. f_equal.
    rewrite <- (firstn_skipn n (skipn a l)) at 1. f_equal.
    rewrite skipn_skipn'. f_equal. lia.
  Qed.

  Lemma skipn_cons_nth {A} (l : list A) i d : i < length l -> skipn i l = nth i l d :: skipn (S i) l.
  Proof.
    revert i. induction l as [|x l IH]; intros i H; [cbn in H; lia|].
    destruct i as [|i]; [reflexivity|]. cbn [skipn nth]. apply IH. cbn in H. lia.
  Qed.

  Lemma firstn_snoc_nth {A} (l : list A) i d : i < length l -> firstn (S i) l = firstn i l ++ [nth i l d].
  Proof.
    revert i. induction l as [|x l IH]; intros i H; [cbn in H; lia|].
    destruct i as [|i]; [reflexivity|]. cbn [firstn nth app]. f_equal. apply IH. cbn in H. lia.
  Qed.

  Lemma inv0_leaf_entries lo hi t : inv 0 lo hi t -> abs t = leaf_entries t.
  Proof. intros H. destruct (inv_0_leaf cmp _ _ _ H) as [es ->]. reflexivity. Qed.

  Lemma replace_children_ok lo hi c0 rest start n entries dflt :
    chain 0 lo hi c0 rest -> rest <> [] -> 1 <= n -> start + n <= S (length rest) ->
    Subseq entries (flat_map abs (firstn n (skipn start (children c0 rest)))) ->
    del_ok 1 lo hi (replace_children ksize vsize fixed_k fixed_v page_size sep c0 rest start n entries dflt)
      (flat_map abs (firstn start (children c0 rest)) ++ entries ++ flat_map abs (skipn (start + n) (children c0 rest))).
  Proof.
    intros Hc Hne Hn Hse Hsub. unfold replace_children.
    set (cs := children c0 rest) in *. set (all := with_keys cs (seps rest)).
    assert (Hlen : length cs = S (length rest)) by apply children_length.
    assert (Hall : List.map fst all = cs) by apply with_keys_fst.
    assert (Hlall : length all = length cs) by (unfold all; rewrite <- (map_length fst), with_keys_fst; reflexivity).
    pose proof (chain_wk _ _ _ _ _ Hc) as Hwk. fold cs all in Hwk.
    assert (Hsorted : sorted (wk_abs all)).
    { rewrite wk_abs_map, Hall. unfold cs. rewrite abs_children.
      change (abs c0 ++ abs_rest rest) with (abs (Branch c0 rest)).
      eapply (inv_sorted cmp laws). constructor; eauto. }
    (* every child is a leaf *)
    assert (Hleafs : forall i, i < length cs -> abs (nth i cs c0) = leaf_entries (nth i cs c0)).
    { intros i Hi. pose proof (chain_children_inv cmp _ _ _ _ _ Hc) as Hci. rewrite Forall_forall in Hci.
      destruct (Hci (nth i cs c0) ltac:(apply nth_In; exact Hi)) as (lo' & hi' & Hinv). eapply inv0_leaf_entries; eauto. }
    (* the absorption step as a change of the slice *)
    assert (Habsorb : exists start' n' es',
      (let '(a, b, e) :=
         match entries with
         | [] => (start, start + n, entries)
         | _ :: _ =>
             if leaf_below_merge fixed_k fixed_v page_size (nlen entries) (leaf_bytes ksize vsize entries)
             then
               let nb := if Nat.eqb start 0 then start + n else Nat.pred start in
               if Nat.ltb nb (length cs)
               then
                 let nbes := leaf_entries (nth nb cs c0) in
                 if single_large ksize vsize fixed_k fixed_v page_size nbes then (start, start + n, entries)
                 else if Nat.eqb nb (start + n) then (start, S (start + n), entries ++ nbes)
                      else (Nat.pred start, start + n, nbes ++ entries)
               else (start, start + n, entries)
             else (start, start + n, entries)
         end in (a, b, e)) = (start', start' + n', es') /\
      1 <= n' /\ start' + n' <= length cs /\
      Subseq es' (wk_abs (firstn n' (skipn start' all))) /\
      wk_abs (firstn start' all) ++ es' ++ wk_abs (skipn (start' + n') all) =
      flat_map abs (firstn start cs) ++ entries ++ flat_map abs (skipn (start + n) cs)).
    { assert (Hbase : Subseq entries (wk_abs (firstn n (skipn start all))) /\
                      wk_abs (firstn start all) ++ entries ++ wk_abs (skipn (start + n) all) =
                      flat_map abs (firstn start cs) ++ entries ++ flat_map abs (skipn (start + n) cs)).
      { rewrite !wk_abs_map. rewrite <- !firstn_map, <- !skipn_map. rewrite !Hall. split; [exact Hsub|reflexivity]. }
      destruct Hbase as [Hb1 Hb2].
      destruct entries as [|e0 entries'] eqn:Een.
      { exists start, n, []. repeat split; auto; lia. }
      rewrite <- Een in *.
      destruct (leaf_below_merge _ _ _ _ _); [|exists start, n, entries; (split; [reflexivity|split; [lia|split; [lia|split; [exact Hb1|exact Hb2]]]])].
      destruct (Nat.eqb start 0) eqn:E0.
      - apply Nat.eqb_eq in E0. subst start. cbn [Nat.add] in *. cbv zeta.
        destruct (Nat.ltb n (length cs)) eqn:En; [|exists 0, n, entries; (split; [reflexivity|split; [lia|split; [lia|split; [exact Hb1|exact Hb2]]]])].
        apply Nat.ltb_lt in En.
        destruct (single_large _ _ _ _ _ _); [exists 0, n, entries; (split; [reflexivity|split; [lia|split; [lia|split; [exact Hb1|exact Hb2]]]])|].
        rewrite Nat.eqb_refl. exists 0, (S n), (entries ++ leaf_entries (nth n cs c0)).
        split; [reflexivity|]. split; [lia|]. split; [lia|].
        assert (Hnth : nth n all (c0, None) = (nth n cs c0, snd (nth n all (c0, None)))).
        { pose proof (map_nth fst all (c0, None) n) as Hm. rewrite Hall in Hm. cbn [fst] in Hm.
          destruct (nth n all (c0, None)) as [x y]. cbn [fst snd] in *. now rewrite Hm. }
        change (skipn 0 all) with all in *. change (0 + S n) with (S n).
        rewrite (firstn_snoc_nth all n (c0, None)) by lia.
        rewrite (skipn_cons_nth all n (c0, None)) in Hb2 by lia.
        rewrite Hnth in *. rewrite wk_abs_cons in Hb2. cbn [fst] in Hb2.
        rewrite (Hleafs n En) in Hb2.
        split.
        + rewrite wk_abs_app. apply Subseq_app; [exact Hb1|]. rewrite wk_abs_cons. cbn [fst wk_abs flat_map]. rewrite app_nil_r, (Hleafs n En). apply Subseq_refl.
        + rewrite <- Hb2. cbn [app]. rewrite <- !app_assoc. reflexivity.
      - apply Nat.eqb_neq in E0. cbv zeta.
        destruct (Nat.ltb (Nat.pred start) (length cs)) eqn:En; [|exists start, n, entries; (split; [reflexivity|split; [lia|split; [lia|split; [exact Hb1|exact Hb2]]]])].
        apply Nat.ltb_lt in En.
        destruct (single_large _ _ _ _ _ _); [exists start, n, entries; (split; [reflexivity|split; [lia|split; [lia|split; [exact Hb1|exact Hb2]]]])|].
        assert (Hneq : Nat.eqb (Nat.pred start) (start + n) = false) by (apply Nat.eqb_neq; lia).
        rewrite Hneq. destruct start as [|s0]; [lia|]. cbn [Nat.pred] in *.
        exists s0, (S n), (leaf_entries (nth s0 cs c0) ++ entries).
        split; [f_equal; f_equal; lia|]. split; [lia|]. split; [lia|].
        assert (Hnth : nth s0 all (c0, None) = (nth s0 cs c0, snd (nth s0 all (c0, None)))).
        { pose proof (map_nth fst all (c0, None) s0) as Hm. rewrite Hall in Hm. cbn [fst] in Hm.
          destruct (nth s0 all (c0, None)) as [x y]. cbn [fst snd] in *. now rewrite Hm. }
        rewrite (skipn_cons_nth all s0 (c0, None)) by lia. rewrite firstn_cons.
        rewrite (firstn_snoc_nth all s0 (c0, None)) in Hb2 by lia.
        rewrite Hnth in *. rewrite wk_abs_app in Hb2. rewrite (wk_abs_cons _ []) in Hb2. cbn [fst wk_abs flat_map] in Hb2. rewrite app_nil_r in Hb2.
        rewrite (Hleafs s0 En) in Hb2.
        split.
        + change ((nth s0 cs c0, snd (nth s0 all (c0, None))) :: firstn n (skipn (S s0) all))
            with ([(nth s0 cs c0, snd (nth s0 all (c0, None)))] ++ firstn n (skipn (S s0) all)).
          rewrite wk_abs_app. apply Subseq_app; [|exact Hb1]. rewrite wk_abs_cons. cbn [fst wk_abs flat_map]. rewrite app_nil_r, (Hleafs s0 En). apply Subseq_refl.
        + rewrite <- Hb2. replace (s0 + S n) with (S s0 + n) by lia. rewrite <- !app_assoc. reflexivity. }
    destruct Habsorb as (start' & n' & es' & Hsel & Hn' & Hse' & Hsub' & Habs').
    assert (Heta : forall x : nat * nat * list (K * V), (let '(a, b, e) := x in (a, b, e)) = x) by (intros [[? ?] ?]; reflexivity).
    rewrite Heta in Hsel. cbv zeta in Hsel. cbv zeta. fold cs. rewrite Hsel. cbv beta iota.
    (* the three parts of the children list *)
    pose proof (slice_split all start' n' ltac:(lia)) as Hsplit.
    set (P := firstn start' all) in *. set (M := firstn n' (skipn start' all)) in *. set (S0 := skipn (start' + n') all) in *.
    assert (HMne : M <> []).
    { unfold M. intros E0. assert (length (firstn n' (skipn start' all)) = 0) by now rewrite E0.
      rewrite firstn_length, skipn_length in H. lia. }
    assert (HsE : sorted es').
    { eapply Subseq_sorted; [exact Hsub'|]. rewrite Hsplit, !wk_abs_app in Hsorted.
      apply sorted_app_r in Hsorted. now apply sorted_app_l in Hsorted. }
    rewrite Hsplit in Hwk.
    fold (wk_of (build_replacement_leaves es' dflt)).
    destruct (replace_wk lo hi P M S0 es' dflt Hwk HMne HsE Hsub') as [(E1 & E2 & E3 & E4)|[Hch Hab]].
    - rewrite E1. cbn [del_ok]. rewrite <- Habs'. fold P S0. rewrite E2, E3, E4. reflexivity.
    - rewrite <- Habs'. fold P S0. rewrite <- Hab.
      destruct (P ++ wk_of (build_replacement_leaves es' dflt) ++ S0) as [|[c k] r] eqn:Enew; [contradiction|].
      destruct (wk_pair_up 0 r lo hi c k dflt Hch) as [W1 W2]. rewrite <- W2.
      now apply (finalize_ok cmp ksize fixed_k page_size).
  Qed.
End SpliceP.
