(* The tree-level splice of a buffered insert run (btree_cursor.rs: open_insert_run / flush_insert_run;
   btree_mutator.rs: splice_insert_run, rebuild_branch_level, build_branch_nodes, replace_branch_child) on the
   LOGICAL tree of Tree.v -- definitions only.  ShapeCursor.v is the decorated twin that is extracted and
   compared with the real tree; CursorSpliceP.v has the proofs.

   Mirrored function by function:
     * `spliced`            = SplicedNode without page number and checksum: a node with a BOUND on its subtree
                              (Some s: s is no less than the subtree's greatest key; None: what the parent stores
                              for the slot still covers it);
     * `bb_plan`            = the greedy loop of build_branch_nodes (cut a page when the next child would not fit
                              or the page would exceed u16::MAX keys, but only when the page already has >= 2
                              children: `index - start >= 2`);
     * `bb_fixup`           = its tail fix-up (a one-child last page is merged into its neighbour, or takes the
                              neighbour's last child when the neighbour is at the key limit);
     * `build_branch_nodes` = plan + fix-up + BranchBuilder per chunk; the bound of a built page is the bound
                              of its last child;
     * `rebuild_branch_level`, `replace_branch_child`, `routes`, `splice_level` (= one iteration of the
       `for (page, child_index) in path.into_iter().rev()` loop of splice_insert_run, with the `carried` bound),
       `grow` (= `while nodes.len() > 1`), `splice_insert_run`;
     * `settle_next` / `settle_prev` / `open_pos` = the two normalising peeks of open_insert_run;
     * `flush_entries`      = buffer ++ rest of the leaf as flush_insert_run assembles it.
   The size function of a key, fixed_k, page_size and the separator function are parameters as in Mutator.v.
   The list-level functions are polymorphic in the node type T (constructor `mkb`), so that the logical and
   the decorated model share them literally.

   Abstracted: page numbers / checksums (DEFERRED everywhere on the rebuilt spine), the freeing of the
   replaced pages, error latching.  `separator(node)` of build_branch_nodes panics on a None that is not last;
   the model returns `dflt` there and CursorSpliceP.v proves that it never happens (bounds_ok). *)
From Coq Require Import List NArith Bool Arith.
From RV Require Import Base.SortedMap Btree.Tree Btree.Read Btree.Mutator Btree.Scan Btree.ScanTree.
Import ListNotations.

Section Generic.
  Context {K T : Type}.
  Variable cmp : K -> K -> comparison.
  Variable ksize : K -> N.
  Variable fixed_k : bool.
  Variable page_size : N.
  Variable mkb : T -> list (K * T) -> T.        (* BranchBuilder::build of one chunk of children *)
  Variable dflt : K.

  (* SplicedNode without page number and checksum *)
  Local Notation spliced := (T * option K)%type.

  Local Open Scope N_scope.

  (* fn separator(node) *)
  Definition sep_of (n : spliced) : K := match snd n with Some s => s | None => dflt end.

  (* the loop `for index in 1..children.len()`; `cur` = children[start..index] reversed (its head is
     children[index-1]), `key_bytes` as in the code, `cs` = children[index..] *)
  Fixpoint bb_plan (guard : bool) (cur : list spliced) (key_bytes : N) (cs : list spliced) : list (list spliced) :=
    match cs with
    | [] => [rev cur]
    | c :: r =>
        let sb := match cur with p :: _ => ksize (sep_of p) | [] => 0 end in
        let n := nlen cur in                                                  (* index - start *)
        let required := branch_required fixed_k n (key_bytes + sb) in
        let too_many := 65535 <? n in
        if ((page_size <? required) || too_many) && (negb guard || (2 <=? n)) then rev cur :: bb_plan guard [c] 0 r
        else bb_plan guard (c :: cur) (key_bytes + sb) r
    end.

  Fixpoint split_last2 {A} (l : list A) : option (list A * A * A) :=
    match l with
    | [] | [_] => None
    | [a; b] => Some ([], a, b)
    | x :: r => match split_last2 r with Some (p, a, b) => Some (x :: p, a, b) | None => None end
    end.

  (* "A single child cannot form a branch page; put it back with its neighbor ..." *)
  Definition bb_fixup (plan : list (list spliced)) : list (list spliced) :=
    match split_last2 plan with
    | Some (p, prev, [x]) =>
        if 65535 <? nlen prev then
          match last_opt prev with
          | Some y => p ++ [removelast prev; [y; x]]
          | None => plan
          end
        else p ++ [prev ++ [x]]
    | _ => plan
    end.

  (* the separators pushed by `for node in &chunk[..chunk.len() - 1] { builder.push_key(separator(node)) }` *)
  Fixpoint pair_up (prev : spliced) (l : list spliced) : list (K * T) :=
    match l with
    | [] => []
    | x :: r => (sep_of prev, fst x) :: pair_up x r
    end.

  Fixpoint last_child (l : list spliced) (d : spliced) : spliced :=
    match l with [] => d | x :: r => last_child r x end.

  Definition build_chunk (ch : list spliced) : list spliced :=
    match ch with
    | [] => []
    | x :: r => [(mkb (fst x) (pair_up x r), snd (last_child r x))]
    end.

  (* `fixup` = false drops the tail fix-up, `guard` = false the `index - start >= 2` guard: the two variants of the
     negative Examples; the code is build_branch_nodes true true *)
  Definition build_branch_nodes_gen (guard fixup : bool) (children : list spliced) : list spliced :=
    match children with
    | [] => []
    | c :: r =>
        let plan := bb_plan guard [c] 0 r in
        flat_map build_chunk (if fixup then bb_fixup plan else plan)
    end.
  Definition build_branch_nodes := build_branch_nodes_gen true true.

  (* children with the separator stored after them (None for the branch's last child): `preserved` *)
  Fixpoint with_keys (cs : list T) (ks : list K) : list spliced :=
    match cs with
    | [] => []
    | c :: r => match ks with k :: ks' => (c, Some k) :: with_keys r ks' | [] => (c, None) :: with_keys r [] end
    end.

  (* "A replacement ending in None is still covered by what this level stores for the slot" *)
  Fixpoint fix_last (repl : list spliced) (stored : option K) : list spliced :=
    match repl with
    | [] => []
    | [(n, None)] => [(n, stored)]
    | x :: r => x :: fix_last r stored
    end.

  Definition rebuild_branch_level (cs : list T) (ks : list K) (ci : nat) (repl : list spliced) : list spliced :=
    let all := with_keys cs ks in
    build_branch_nodes (firstn ci all ++ fix_last repl (nth_error ks ci) ++ skipn (S ci) all).

  (* the branch with child ci replaced, separators untouched (in place or on a new page: the same node) *)
  Definition replace_branch_child (cs : list T) (ks : list K) (ci : nat) (n : T) : T :=
    match with_keys (firstn ci cs ++ n :: skipn (S ci) cs) ks with
    | x :: r => mkb (fst x) (pair_up x r)
    | [] => n
    end.

  Definition routes (stored bound : option K) : bool :=
    match stored, bound with
    | None, _ | _, None => true
    | Some s, Some b => match cmp b s with Gt => false | _ => true end          (* K::compare(bound, stored).is_le() *)
    end.

  (* one ancestor of the path.  `carry` = false is the variant that drops the carried bound at an ancestor
     storing no separator for the slot (negative Example); the code is splice_level true *)
  Definition splice_level_gen (carry : bool) (cs : list T) (ks : list K) (ci : nat) (nodes : list spliced) : list spliced :=
    match nodes with
    | [(n, bound)] =>
        let stored := nth_error ks ci in
        if routes stored bound then
          [(replace_branch_child cs ks ci n, match stored with None => if carry then bound else None | Some _ => None end)]
        else rebuild_branch_level cs ks ci nodes
    | _ => rebuild_branch_level cs ks ci nodes
    end.
  Definition splice_level := splice_level_gen true.

  (* while nodes.len() > 1 { nodes = build_branch_nodes(&nodes) } *)
  Fixpoint grow (fuel : nat) (nodes : list spliced) : list spliced :=
    match nodes with
    | [] | [_] => nodes
    | _ => match fuel with O => nodes | S f => grow f (build_branch_nodes nodes) end
    end.
End Generic.

Section OpenRun.
  Context {E : Type}.
  (* the leaves of the tree in key order; a position is (leaf number, gap index in the leaf) *)
  Variable ls : list (list E).

  (* peek_next -> ensure_has_entry(Next): at the end of a leaf, step to the start of the following leaf;
     at the edge of the tree the cursor stays parked.  (No leaf is empty under the invariant, so one step
     reaches a leaf with an entry.) *)
  Definition settle_next (p : nat * nat) : nat * nat :=
    let '(j, pos) := p in
    if Nat.ltb pos (length (nth j ls [])) then p
    else if Nat.ltb (S j) (length ls) then (S j, O) else p.

  (* peek_prev -> ensure_has_entry(Previous) *)
  Definition settle_prev (p : nat * nat) : nat * nat :=
    let '(j, pos) := p in
    if Nat.ltb 0 pos then p
    else match j with O => p | S j' => (j', length (nth j' ls [])) end.

  (* open_insert_run: peek_next, then peek_prev *)
  Definition open_pos (p : nat * nat) : nat * nat := settle_prev (settle_next p).

  (* number of entries before the gap *)
  Definition gap_index (p : nat * nat) : nat := length (concat (firstn (fst p) ls)) + snd p.

  (* some position of the gap with g entries before it (the first one in leaf order) *)
  Fixpoint gap_pos_from (l : list (list E)) (j g : nat) : nat * nat :=
    match l with
    | [] => (j, g)
    | [x] => (j, g)
    | x :: r => if Nat.leb g (length x) then (j, g) else gap_pos_from r (S j) (g - length x)
    end.
  Definition gap_pos (g : nat) : nat * nat := gap_pos_from ls O g.
End OpenRun.

Section CursorSplice.
  Context {K V : Type}.
  Variable cmp : K -> K -> comparison.
  Variable ksize : K -> N.
  Variable vsize : V -> N.
  Variable fixed_k fixed_v : bool.
  Variable page_size : N.
  Variable sep : K -> K -> K.

  Notation node := (@node K V).
  Notation build_replacement_leaves := (build_replacement_leaves ksize vsize fixed_k fixed_v page_size sep).

  (* flush_insert_run: the leaf's entries before the gap, the pending inserts, the rest of the leaf
     (an ascending run copied the head of the leaf when it opened, a descending run adds it here) *)
  Definition flush_entries (es : list (K * V)) (pos : nat) (run : list (K * V)) : list (K * V) :=
    firstn pos es ++ run ++ skipn pos es.

  Definition leaf_nodes (entries : list (K * V)) (dflt : K) : list (node * option K) :=
    List.map (fun p => (fst p, Some (snd p))) (build_replacement_leaves entries dflt).

  (* the path loop of splice_insert_run, as a recursion from the root: leaf number j, gap index pos *)
  Fixpoint splice_sub (carry : bool) (fuel : nat) (t : node) (j pos : nat) (run : list (K * V)) (dflt : K)
    : list (node * option K) :=
    match t with
    | Leaf es => leaf_nodes (flush_entries es pos run) dflt
    | Branch c0 rest =>
        match fuel with
        | O => [(t, None)]
        | S f =>
            let '(c, j') := locate (children c0 rest) j in
            splice_level_gen cmp ksize fixed_k page_size (@Branch K V) dflt carry (children c0 rest) (seps rest) c
              (splice_sub carry f (nth_child c0 rest c) j' pos run dflt)
        end
    end.

  Definition splice_insert_run_gen (carry : bool) (bt : @btree K V) (j pos : nat) (run : list (K * V)) : @btree K V :=
    match run with
    | [] => bt                                   (* inserted_pairs == 0: flush_insert_run returns early *)
    | (k0, _) :: _ =>
        let nodes := match bt_root bt with
                     | None => leaf_nodes run k0
                     | Some t => splice_sub carry (fuel_of t) t j pos run k0
                     end in
        match grow ksize fixed_k page_size (@Branch K V) k0 (length nodes) nodes with
        | (root, _) :: _ => mk_btree (Some root) (bt_len bt + nlen run)
        | [] => bt
        end
    end.
  Definition splice_insert_run := splice_insert_run_gen true.

  (* open_insert_run + flush_insert_run for a gap with g entries before it *)
  Definition flush_at_gap (bt : @btree K V) (g : nat) (run : list (K * V)) : @btree K V :=
    let ls := bt_leaves bt in
    let '(j, pos) := open_pos ls (gap_pos ls g) in
    splice_insert_run bt j pos run.
End CursorSplice.

(* The cursor session over a tree: the gap logic of Cursor.v (list level, proved in CursorP.v) drives the tree
   through a STORE -- its leaves in key order, the splice of a run at a position, the removal of a key -- with the
   position kept as the number of entries before the gap (CursorSpliceP.open_pos_canonical: the position
   open_insert_run settles on depends on nothing else) and the size-triggered flush computed as the code does:
   OwnedEntryBuffer::total_bytes() = key + value bytes of the pending inserts plus, for an ascending run, of the
   leaf's entries before the gap.  Instances: the logical tree (below; object of the theorems) and the shape
   model (ShapeCursor.v; extracted and compared with the real tree). *)
From RV Require Import Btree.Cursor.
Section Machine.
  Context {K V Tree : Type}.
  Variable cmp : K -> K -> comparison.
  Variable ksize : K -> N.
  Variable vsize : V -> N.
  Variable flush_bytes : N.                                       (* INSERT_FLUSH_BYTES *)
  Variable leaves_of : Tree -> list (list (K * V)).
  Variable splice : Tree -> nat -> nat -> list (K * V) -> Tree.   (* splice_insert_run at (leaf, index) *)
  Variable delete_key : Tree -> K -> Tree.                        (* pop_leaf_entry of the neighbour *)

  Record cstate : Type := mk_cstate { cs_tree : Tree; cs_m : @mstate K V }.

  Local Open Scope N_scope.

  (* where open_insert_run settled *)
  Definition run_pos (st : cstate) : nat * nat :=
    let ls := leaves_of (cs_tree st) in
    open_pos ls (gap_pos ls (length (s_before (cs_m st)))).

  (* flush_insert_run *)
  Definition c_flush (st : cstate) : cstate :=
    match s_run (cs_m st) with
    | None => st
    | Some r =>
        let '(j, pos) := run_pos st in
        mk_cstate (splice (cs_tree st) j pos (r_buf r)) (flush (cs_m st))
    end.

  (* run.entries.total_bytes() *)
  Definition run_bytes (st : cstate) : N :=
    match s_run (cs_m st) with
    | None => 0
    | Some r =>
        let '(j, pos) := run_pos st in
        match r_dir r with
        | Ascending => leaf_bytes ksize vsize (firstn pos (nth j (leaves_of (cs_tree st)) []))
        | Descending => 0
        end + leaf_bytes ksize vsize (r_buf r)
    end.

  Definition other_dir_open (d : run_dir) (m : @mstate K V) : bool :=
    match s_run m with Some r => negb (dir_eqb (r_dir r) d) | None => false end.

  (* insert_before / insert_after: ensure_insert_run splices a run of the other direction first; an accepted
     insert that fills the buffer splices at once *)
  Definition c_insert (d : run_dir) (st : cstate) (k : K) (v : V) : bool * cstate :=
    let st1 := if other_dir_open d (cs_m st) then c_flush st else st in
    let '(b, m2) := match d with
                    | Ascending => m_insert_before cmp (fun _ => false) (cs_m st1) k v
                    | Descending => m_insert_after cmp (fun _ => false) (cs_m st1) k v
                    end in
    let st2 := mk_cstate (cs_tree st1) m2 in
    (b, if b && (flush_bytes <=? run_bytes st2) then c_flush st2 else st2).

  Definition c_remove (next : bool) (st : cstate) : option (K * V) * cstate :=
    let st1 := c_flush st in
    let '(e, m') := if next then m_remove_next (cs_m st1) else m_remove_prev (cs_m st1) in
    (e, mk_cstate (match e with Some x => delete_key (cs_tree st1) (fst x) | None => cs_tree st1 end) m').

  Definition c_move (next : bool) (st : cstate) : option (K * V) * cstate :=
    let st1 := c_flush st in
    let '(e, m') := if next then m_next (cs_m st1) else m_prev (cs_m st1) in
    (e, mk_cstate (cs_tree st1) m').

  Definition c_step (st : cstate) (o : @cursor_op K V) : @cursor_out K V * cstate :=
    match o with
    | CPeekNext => (CEntry (m_peek_next (cs_m st)), st)
    | CPeekPrev => (CEntry (m_peek_prev (cs_m st)), st)
    | CNext => let '(e, st') := c_move true st in (CEntry e, st')
    | CPrev => let '(e, st') := c_move false st in (CEntry e, st')
    | CInsertBefore k v => let '(b, st') := c_insert Ascending st k v in (CAccepted b, st')
    | CInsertAfter k v => let '(b, st') := c_insert Descending st k v in (CAccepted b, st')
    | CRemoveNext => let '(e, st') := c_remove true st in (CEntry e, st')
    | CRemovePrev => let '(e, st') := c_remove false st in (CEntry e, st')
    end.

  Fixpoint c_script (ops : list (@cursor_op K V)) (st : cstate) : list (@cursor_out K V) * cstate :=
    match ops with
    | [] => ([], st)
    | o :: r =>
        let '(x, st') := c_step st o in
        let '(xs, st'') := c_script r st' in
        (x :: xs, st'')
    end.

  (* lower_bound_mut / upper_bound_mut ... close() (or drop: CursorMut::drop also finishes the run) *)
  Definition c_open (t : Tree) (lower : bool) (b : bound K) : cstate :=
    let m := concat (leaves_of t) in
    mk_cstate t (m_of_cursor (if lower then seek_lower cmp m b else seek_upper cmp m b)).
  Definition c_session (t : Tree) (lower : bool) (b : bound K) (ops : list (@cursor_op K V))
    : list (@cursor_out K V) * Tree :=
    let '(outs, st) := c_script ops (c_open t lower b) in
    (outs, cs_tree (c_flush st)).
End Machine.

Section TreeMachine.
  Context {K V : Type}.
  Variable cmp : K -> K -> comparison.
  Variable ksize : K -> N.
  Variable vsize : V -> N.
  Variable fixed_k fixed_v : bool.
  Variable page_size : N.
  Variable sep : K -> K -> K.
  Variable flush_bytes : N.

  Definition t_delete_key (bt : @btree K V) (k : K) : @btree K V :=
    fst (Mutator.delete cmp ksize vsize fixed_k fixed_v page_size sep bt k).

  Definition t_session (bt : @btree K V) (lower : bool) (b : bound K) (ops : list (@cursor_op K V))
    : list (@cursor_out K V) * @btree K V :=
    c_session cmp ksize vsize flush_bytes (@bt_leaves K V)
              (splice_insert_run cmp ksize vsize fixed_k fixed_v page_size sep) t_delete_key bt lower b ops.
End TreeMachine.
