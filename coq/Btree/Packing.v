(* build_replacement_leaves (btree_mutator.rs): how a flushed insert run (the buffered entries plus the
   rest of the leaf) is cut into leaves -- definitions only.
     * greedy plan: cut a page whenever the next entry would require a split (leaf_split_required);
     * tail rebalance: when there are >= 2 planned pages and the last one is below the merge
       threshold, the last two are rebuilt by LeafBuilder::build_split's balanced division;
     * separators: between consecutive leaves branch_separator(last key, next first key); the final
       leaf gets its own greatest key. *)
From Coq Require Import List NArith Bool.
From RV Require Import Base.SortedMap Btree.Tree Btree.Mutator.
Import ListNotations.

Section Packing.
  Context {K V : Type}.
  Variable ksize : K -> N.
  Variable vsize : V -> N.
  Variable fixed_k fixed_v : bool.
  Variable page_size : N.
  Variable sep : K -> K -> K.

  Notation pair_bytes := (pair_bytes ksize vsize).
  Notation leaf_bytes := (leaf_bytes ksize vsize).
  Notation leaf_split_required := (leaf_split_required fixed_k fixed_v page_size).
  Notation leaf_below_merge := (leaf_below_merge fixed_k fixed_v page_size).

  Local Open Scope N_scope.

  (* the greedy plan; `cur` is the page being filled, `bytes` its key+value bytes *)
  Fixpoint greedy (cur : list (K * V)) (bytes : N) (es : list (K * V)) : list (list (K * V)) :=
    match es with
    | [] => match cur with [] => [] | _ => [cur] end
    | e :: r =>
        let eb := pair_bytes e in
        if leaf_split_required (nlen cur + 1) (bytes + eb) then cur :: greedy [e] eb r
        else greedy (cur ++ [e]) (bytes + eb) r
    end.

  Definition plan (es : list (K * V)) : list (list (K * V)) := greedy [] 0 es.

  (* split off the last two chunks *)
  Fixpoint split_last2 (l : list (list (K * V))) : option (list (list (K * V)) * list (K * V) * list (K * V)) :=
    match l with
    | [] | [_] => None
    | [a; b] => Some ([], a, b)
    | x :: r => match split_last2 r with Some (p, a, b) => Some (x :: p, a, b) | None => None end
    end.

  Definition rebalance (chunks : list (list (K * V))) : list (list (K * V)) :=
    match split_last2 chunks with
    | Some (p, a, b) =>
        if leaf_below_merge (nlen b) (leaf_bytes b) then
          let m := a ++ b in
          let d := division ksize vsize m in
          p ++ [firstn d m; skipn d m]
        else chunks
    | None => chunks
    end.

  (* attach the separators *)
  Fixpoint with_seps (chunks : list (list (K * V))) (dflt : K) : list (list (K * V) * K) :=
    match chunks with
    | [] => []
    | [c] => [(c, match last_opt c with Some e => fst e | None => dflt end)]
    | c :: ((c' :: _) as r) =>
        (c, match last_opt c, hd_error c' with
            | Some x, Some y => sep (fst x) (fst y)
            | _, _ => dflt
            end) :: with_seps r dflt
    end.

  Definition replacement_leaves (es : list (K * V)) (dflt : K) : list (list (K * V) * K) :=
    with_seps (rebalance (plan es)) dflt.

End Packing.
