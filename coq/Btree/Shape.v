(* Shape-level model of the redb B-tree mutator (btree_mutator.rs / btree_base.rs / btree.rs) --
   definitions only.

   The logical tree of Tree.v decorated with what the code's shape decisions additionally depend on:
     * dirty  = PageAllocator::uncommitted(page): the page was allocated by the running write
                transaction and may be modified in place;
     * alloc  = page.memory().len() = page_size << page_order of a leaf page (an in-place insert or
                replace needs `alloc - total_length` free bytes; removals in place never shrink it).
   A branch page never changes its keys in place, so its allocated length is always the one
   `BranchBuilder::build` asked for; it is computed by the printer, not stored.

   Every function below is the decorated twin of a function of Mutator.v; ShapeP.v proves that
   erasing the decorations commutes with them (`erase (s_op st) = op (erase st)`, with the in-place
   oracle of Mutator.v instantiated by the decision taken here from dirty/alloc), so that the
   refinement theorems about Mutator.v are theorems about the trees printed from here.  The check
   compares these trees, node by node, with the real tree after every operation (S2).

   `same` flags: a result that is the SAME PAGE as before (leaf mutated in place, branch skipped or
   patched in place) lets the parent take its skip path; pages are not numbered in the model, the
   flag stands for "page number unchanged, checksum DEFERRED". *)
From Coq Require Import List NArith Bool Arith.
From RV Require Import Base.SortedMap Btree.Tree Btree.Read Btree.Mutator.
Import ListNotations.

Section Shape.
  Context {K V : Type}.
  Variable cmp : K -> K -> comparison.
  Variable ksize : K -> N.
  Variable vsize : V -> N.
  Variable fixed_k fixed_v : bool.
  Variable page_size : N.
  Variable sep : K -> K -> K.

  Inductive snode : Type :=
  | SLeaf (dirty : bool) (alloc : N) (es : list (K * V))
  | SBranch (dirty : bool) (c0 : snode) (rest : list (K * snode)).

  Fixpoint erase (t : snode) : @node K V :=
    match t with
    | SLeaf _ _ es => Leaf es
    | SBranch _ c0 rest => Branch (erase c0) (List.map (fun p => (fst p, erase (snd p))) rest)
    end.
  Definition erase_rest (rest : list (K * snode)) : list (K * @node K V) :=
    List.map (fun p => (fst p, erase (snd p))) rest.

  Record sbtree : Type := mk_sbtree { sb_root : option snode; sb_len : N }.
  Definition erase_tree (st : sbtree) : @btree K V :=
    mk_btree (option_map erase (sb_root st)) (sb_len st).
  Definition sempty : sbtree := mk_sbtree None 0%N.

  (* commit: every page of the tree becomes a committed page *)
  Fixpoint clean (t : snode) : snode :=
    match t with
    | SLeaf _ a es => SLeaf false a es
    | SBranch _ c0 rest => SBranch false (clean c0) (List.map (fun p => (fst p, clean (snd p))) rest)
    end.
  Definition s_commit (st : sbtree) : sbtree := mk_sbtree (option_map clean (sb_root st)) (sb_len st).

  Local Open Scope N_scope.

  Notation leaf_required := (leaf_required fixed_k fixed_v).
  Notation leaf_bytes := (leaf_bytes ksize vsize).
  Notation leaf_split_required := (leaf_split_required fixed_k fixed_v page_size).
  Notation leaf_below_merge := (leaf_below_merge fixed_k fixed_v page_size).
  Notation single_large := (single_large ksize vsize fixed_k fixed_v page_size).
  Notation division := (division ksize vsize).
  Notation branch_required := (branch_required fixed_k).

  (* TransactionalMemory::allocate_helper: required_pages = ceil(size / page_size),
     order = ceil_log2(required_pages), the page has page_size << order bytes *)
  Definition order_for (required : N) : N := N.log2_up ((required + page_size - 1) / page_size).
  Definition alloc_for (required : N) : N := page_size * 2 ^ (order_for required).

  (* a leaf page built by LeafBuilder::build / build_split: uncommitted, allocated for its content *)
  Definition mk_leaf (es : list (K * V)) : snode :=
    SLeaf true (alloc_for (leaf_required (nlen es) (leaf_bytes es))) es.

  Definition u32_max : N := 4294967295.

  (* `uncommitted(page) && has_inplace_space()` of insert_helper:
     LeafMutator::sufficient_replace_inplace_space / sufficient_insert_inplace_space *)
  Definition inplace_ok (dirty : bool) (alloc : N) (es : list (K * V)) (pos : nat) (found : bool)
      (k : K) (v : V) : bool :=
    let n := nlen es in
    let total := leaf_required n (leaf_bytes es) in
    let remaining := alloc - total in
    dirty &&
    (if found then
       match nth_error es pos with
       | Some (_, ov) => (total - vsize ov + vsize v <=? u32_max) && (vsize v <=? vsize ov + remaining)
       | None => false
       end
     else
       let delta := ksize k + vsize v + (if fixed_k then 0 else 4) + (if fixed_v then 0 else 4) in
       (n <? 65535) && negb ((page_size <? alloc) && (N.of_nat pos <? n))
       && (total + delta <=? u32_max) && (delta <=? remaining)).

  (* ---------------------------------------------------------------- insert *)
  Definition s_ins_result : Type := (snode * option (K * snode) * option V * bool)%type.

  Definition s_leaf_insert (rightmost : bool) (d : bool) (a : N) (es : list (K * V)) (k : K) (v : V)
    : s_ins_result :=
    let '(pos, found) := position cmp es k in
    let old := if found then option_map snd (nth_error es pos) else None in
    let n := length es in
    let self := SLeaf d a es in
    if negb found && single_large es then
      let nl := mk_leaf [(k, v)] in
      if Nat.eqb pos 0 then
        (nl, Some (match hd_error es with Some e => sep k (fst e) | None => k end, self), None, false)
      else
        (self, Some (match last_opt es with Some e => sep (fst e) k | None => k end, nl), None, true)
    else
      let es' := firstn pos es ++ (k, v) :: skipn (if found then S pos else pos) es in
      if inplace_ok d a es pos found k v then (SLeaf true a es', None, old, true)
      else if found && match old with Some ov => vsize ov =? vsize v | None => false end then
        (* same-size replacement of a committed leaf: clone of the same allocated length, patched *)
        (SLeaf true a es', None, old, false)
      else if rightmost && Nat.eqb pos n
              && leaf_split_required (nlen es + 1) (leaf_bytes es + ksize k + vsize v) then
        (self, Some (match last_opt es with Some e => sep (fst e) k | None => k end, mk_leaf [(k, v)]), None, true)
      else if negb (leaf_split_required (nlen es') (leaf_bytes es')) then (mk_leaf es', None, old, false)
      else
        let d' := division es' in
        let x := firstn d' es' in
        let y := skipn d' es' in
        let s := match last_opt x, hd_error y with
                 | Some p, Some q => sep (fst p) (fst q)
                 | _, _ => k
                 end in
        (mk_leaf x, Some (s, mk_leaf y), old, false).

  Definition skeys (rest : list (K * snode)) : list K := List.map fst rest.
  Definition s_child_for_key (rest : list (K * snode)) (q : K) : nat :=
    fst (bsearch cmp (S (length rest)) (skeys rest) q 0 (length rest)).
  Definition s_nth_child (c0 : snode) (rest : list (K * snode)) (i : nat) : snode :=
    nth i (c0 :: List.map snd rest) c0.

  Fixpoint s_set_child (i : nat) (c' : snode) (sib : list (K * snode)) (c0 : snode) (rest : list (K * snode))
    : snode * list (K * snode) :=
    match i, rest with
    | O, _ => (c', sib ++ rest)
    | S j, (s, c1) :: rest' => let '(a, b) := s_set_child j c' sib c1 rest' in (c0, (s, a) :: b)
    | S _, [] => (c0, [])
    end.

  Definition keys_size (ks : list K) : N := fold_right (fun k a => ksize k + a) 0 ks.
  Definition s_branch_required (rest : list (K * snode)) : N :=
    branch_required (nlen rest) (keys_size (skeys rest)).
  Definition s_branch_should_split (rest : list (K * snode)) : bool :=
    ((page_size <? s_branch_required rest) || (65535 <? nlen rest)) && (3 <=? nlen rest).

  (* BranchBuilder::build_split: both halves are new pages *)
  Definition s_split_branch (a : snode) (b : list (K * snode)) : snode * option (K * snode) :=
    let d := Nat.div2 (length b) in
    match nth_error b d with
    | Some (sk, cr) => (SBranch true a (firstn d b), Some (sk, SBranch true cr (skipn (S d) b)))
    | None => (SBranch true a b, None)
    end.

  Fixpoint s_insert_sub (fuel : nat) (rightmost : bool) (t : snode) (k : K) (v : V) : s_ins_result :=
    match t with
    | SLeaf d a es => s_leaf_insert rightmost d a es k v
    | SBranch d c0 rest =>
        match fuel with
        | O => (t, None, None, true)
        | S f =>
            let i := s_child_for_key rest k in
            let '(c', sib, old, same) :=
              s_insert_sub f (rightmost && Nat.eqb i (length rest)) (s_nth_child c0 rest i) k v in
            match sib with
            | None =>
                let '(a, b) := s_set_child i c' [] c0 rest in
                if same then (SBranch d a b, None, old, true)          (* skip path: nothing written *)
                else if d then (SBranch true a b, None, old, true)     (* write_child_page in place *)
                else (SBranch true a b, None, old, false)              (* clone + patch (copy on write) *)
            | Some (s, c2) =>
                let '(a, b) := s_set_child i c' [(s, c2)] c0 rest in
                if s_branch_should_split b then let '(x, y) := s_split_branch a b in (x, y, old, false)
                else (SBranch true a b, None, old, false)
            end
        end
    end.

  Fixpoint sheight (t : snode) : nat :=
    match t with SLeaf _ _ _ => O | SBranch _ c0 _ => S (sheight c0) end.

  Definition s_insert (st : sbtree) (k : K) (v : V) : sbtree * option V :=
    match sb_root st with
    | None => (mk_sbtree (Some (mk_leaf [(k, v)])) 1, None)
    | Some t =>
        let '(t', sib, old, _) := s_insert_sub (S (sheight t)) true t k v in
        let root' := match sib with None => t' | Some (s, c2) => SBranch true t' [(s, c2)] end in
        (mk_sbtree (Some root') (match old with Some _ => sb_len st | None => sb_len st + 1 end), old)
    end.

  (* the in-place decision insert takes at the leaf the key routes to (the oracle of Mutator.insert) *)
  Fixpoint s_decision (fuel : nat) (t : snode) (k : K) (v : V) : bool :=
    match t with
    | SLeaf d a es => let '(pos, found) := position cmp es k in inplace_ok d a es pos found k v
    | SBranch _ c0 rest =>
        match fuel with
        | O => false
        | S f => s_decision f (s_nth_child c0 rest (s_child_for_key rest k)) k v
        end
    end.
  Definition s_oracle (st : sbtree) (k : K) (v : V) : list (K * V) -> K -> V -> bool :=
    let b := match sb_root st with None => false | Some t => s_decision (S (sheight t)) t k v end in
    fun _ _ _ => b.

  (* ---------------------------------------------------------------- delete *)
  Inductive s_del_result : Type :=
  | SDSubtree (t : snode) (same : bool)
  | SDDeletedSubtree
  | SDPartialLeaf (es : list (K * V))
  | SDPartialBranch (c0 : snode) (rest : list (K * snode))
  | SDDeletedBranch (c : snode).

  (* delete_leaf_at_position: in place on an uncommitted page whose disposition is Rebuild *)
  Definition s_leaf_delete_at (d : bool) (a : N) (es : list (K * V)) (pos : nat) : s_del_result :=
    let retained := firstn pos es ++ skipn (S pos) es in
    match retained with
    | [] => SDDeletedSubtree
    | _ => if leaf_below_merge (nlen retained) (leaf_bytes retained) then SDPartialLeaf retained
           else if d then SDSubtree (SLeaf true a retained) true
           else SDSubtree (mk_leaf retained) false
    end.

  Definition s_leaf_delete (d : bool) (a : N) (es : list (K * V)) (k : K) : s_del_result * option V :=
    let '(pos, found) := position cmp es k in
    if found then (s_leaf_delete_at d a es pos, option_map snd (nth_error es pos))
    else (SDSubtree (SLeaf d a es) true, None).

  Definition s_finalize_branch (c0 : snode) (rest : list (K * snode)) : s_del_result :=
    match rest with
    | [] => SDDeletedBranch c0
    | _ => if s_branch_required rest <? page_size / 3 then SDPartialBranch c0 rest
           else SDSubtree (SBranch true c0 rest) false
    end.

  Fixpoint s_remove_child (i : nat) (c0 : snode) (rest : list (K * snode)) : snode * list (K * snode) :=
    match i, rest with
    | O, (_, c1) :: rest' => (c1, rest')
    | O, [] => (c0, [])
    | S i', (s1, c1) :: rest' =>
        match i', rest' with
        | O, [] => (c0, [])
        | _, _ => let '(a, b) := s_remove_child i' c1 rest' in (c0, (s1, a) :: b)
        end
    | S _, [] => (c0, [])
    end.

  Fixpoint s_merge_pair (j : nat) (nc : snode) (ns : list (K * snode)) (c0 : snode) (rest : list (K * snode))
    : snode * list (K * snode) :=
    match j, rest with
    | O, _ :: rest' => (nc, ns ++ rest')
    | S j', (s1, c1) :: rest' => let '(a, b) := s_merge_pair j' nc ns c1 rest' in (c0, (s1, a) :: b)
    | _, [] => (c0, [])
    end.

  Definition s_sep_at (rest : list (K * snode)) (j : nat) (dflt : K) : K :=
    match nth_error rest j with Some (s, _) => s | None => dflt end.

  Definition s_build_leaf_maybe_split (es : list (K * V)) (dflt : K) : snode * list (K * snode) :=
    if leaf_split_required (nlen es) (leaf_bytes es) then
      let d' := division es in
      let x := firstn d' es in
      let y := skipn d' es in
      let s := match last_opt x, hd_error y with
               | Some p, Some q => sep (fst p) (fst q)
               | _, _ => dflt
               end in
      (mk_leaf x, [(s, mk_leaf y)])
    else (mk_leaf es, []).

  Definition s_build_branch_maybe_split (c0 : snode) (rest : list (K * snode)) : snode * list (K * snode) :=
    if s_branch_should_split rest then
      match s_split_branch c0 rest with
      | (a, Some (s, b)) => (a, [(s, b)])
      | (a, None) => (a, [])
      end
    else (SBranch true c0 rest, []).

  Definition s_leaf_entries (t : snode) : list (K * V) :=
    match t with SLeaf _ _ es => es | SBranch _ _ _ => [] end.

  (* apply_child_deletion_result; replace_branch_child for the Subtree case *)
  Definition s_apply_child_deletion (d : bool) (c0 : snode) (rest : list (K * snode)) (i : nat)
      (r : s_del_result) (dflt : K) : s_del_result :=
    let m := match i with O => 1%nat | S i' => i' end in
    let j := Nat.min i m in
    match r with
    | SDSubtree c' same =>
        let '(a, b) := s_set_child i c' [] c0 rest in
        if same then SDSubtree (SBranch d a b) true
        else if d then SDSubtree (SBranch true a b) true
        else SDSubtree (SBranch true a b) false
    | SDDeletedSubtree => let '(a, b) := s_remove_child i c0 rest in s_finalize_branch a b
    | SDPartialLeaf retained =>
        let sib := s_leaf_entries (s_nth_child c0 rest m) in
        if single_large sib then
          let '(a, b) := s_set_child i (mk_leaf retained) [] c0 rest in s_finalize_branch a b
        else
          let merged := if Nat.ltb i m then retained ++ sib else sib ++ retained in
          let '(nc, ns) := s_build_leaf_maybe_split merged dflt in
          let '(a, b) := s_merge_pair j nc ns c0 rest in s_finalize_branch a b
    | SDDeletedBranch g =>
        let sk := s_sep_at rest j dflt in
        match s_nth_child c0 rest m with
        | SBranch _ b0 brest =>
            let '(x0, xrest) := if Nat.ltb i m then (g, (sk, b0) :: brest) else (b0, brest ++ [(sk, g)]) in
            let '(nc, ns) := s_build_branch_maybe_split x0 xrest in
            let '(a, b) := s_merge_pair j nc ns c0 rest in s_finalize_branch a b
        | SLeaf _ _ _ => SDSubtree (SBranch d c0 rest) true
        end
    | SDPartialBranch p0 prest =>
        let sk := s_sep_at rest j dflt in
        match s_nth_child c0 rest m with
        | SBranch _ b0 brest =>
            let '(x0, xrest) := if Nat.ltb i m then (p0, prest ++ (sk, b0) :: brest) else (b0, brest ++ (sk, p0) :: prest) in
            let '(nc, ns) := s_build_branch_maybe_split x0 xrest in
            let '(a, b) := s_merge_pair j nc ns c0 rest in s_finalize_branch a b
        | SLeaf _ _ _ => SDSubtree (SBranch d c0 rest) true
        end
    end.

  Fixpoint s_delete_sub (fuel : nat) (t : snode) (k : K) : s_del_result * option V :=
    match t with
    | SLeaf d a es => s_leaf_delete d a es k
    | SBranch d c0 rest =>
        match fuel with
        | O => (SDSubtree t true, None)
        | S f =>
            let i := s_child_for_key rest k in
            let '(r, found) := s_delete_sub f (s_nth_child c0 rest i) k in
            match found with
            | None => (SDSubtree t true, None)
            | Some _ => (s_apply_child_deletion d c0 rest i r k, found)
            end
        end
    end.

  Definition s_finish_deletion (r : s_del_result) : option snode :=
    match r with
    | SDSubtree t _ => Some t
    | SDDeletedSubtree => None
    | SDPartialLeaf es => Some (mk_leaf es)
    | SDPartialBranch c0 rest => Some (SBranch true c0 rest)
    | SDDeletedBranch c => Some c
    end.

  Definition s_delete (st : sbtree) (k : K) : sbtree * option V :=
    match sb_root st with
    | None => (st, None)
    | Some t =>
        let '(r, found) := s_delete_sub (S (sheight t)) t k in
        match found with
        | None => (st, None)
        | Some _ => (mk_sbtree (s_finish_deletion r) (sb_len st - 1), found)
        end
    end.

  Definition s_pop_first (st : sbtree) : sbtree * option (K * V) :=
    match tfirst (erase_tree st) with
    | None => (st, None)
    | Some e => (fst (s_delete st (fst e)), Some e)
    end.

  Definition s_pop_last (st : sbtree) : sbtree * option (K * V) :=
    match tlast (erase_tree st) with
    | None => (st, None)
    | Some e => (fst (s_delete st (fst e)), Some e)
    end.

  (* ---------------------------------------------------------------- path markers *)
  (* Measurement only (evidence: which code paths the compared programs went through); nothing is
     proved about these and no other definition uses them.  Each function re-evaluates the conditions
     of the corresponding function above and names the path taken. *)
  Definition s_leaf_insert_tag (rightmost : bool) (d : bool) (a : N) (es : list (K * V)) (k : K) (v : V) : N :=
    let '(pos, found) := position cmp es k in
    let old := if found then option_map snd (nth_error es pos) else None in
    let es' := firstn pos es ++ (k, v) :: skipn (if found then S pos else pos) es in
    if negb found && single_large es then (if Nat.eqb pos 0 then 1 else 2)
    else if inplace_ok d a es pos found k v then (if found then 4 else 3)
    else if found && match old with Some ov => vsize ov =? vsize v | None => false end then 5
    else if rightmost && Nat.eqb pos (length es)
            && leaf_split_required (nlen es + 1) (leaf_bytes es + ksize k + vsize v) then 6
    else if negb (leaf_split_required (nlen es') (leaf_bytes es')) then 7
    else 8.

  Fixpoint s_insert_tag_sub (fuel : nat) (rightmost : bool) (t : snode) (k : K) (v : V) : N :=
    match t with
    | SLeaf d a es => s_leaf_insert_tag rightmost d a es k v
    | SBranch _ c0 rest =>
        match fuel with
        | O => 0
        | S f => let i := s_child_for_key rest k in
                 s_insert_tag_sub f (rightmost && Nat.eqb i (length rest)) (s_nth_child c0 rest i) k v
        end
    end.
  (* 0 first entry of an empty tree, 1/2 single large value (new leaf in front / behind), 3 in-place insert,
     4 in-place replace, 5 same-size patch, 6 rightmost append, 7 rebuild without split, 8 leaf split *)
  Definition s_insert_tag (st : sbtree) (k : K) (v : V) : N :=
    match sb_root st with None => 0 | Some t => s_insert_tag_sub (S (sheight t)) true t k v end.

  Definition del_result_tag (r : s_del_result) : N :=
    match r with
    | SDSubtree _ _ => 32 | SDDeletedSubtree => 33 | SDPartialLeaf _ => 34
    | SDPartialBranch _ _ => 31 | SDDeletedBranch _ => 30
    end.

  Definition s_apply_tags (d : bool) (c0 : snode) (rest : list (K * snode)) (i : nat) (r : s_del_result) (dflt : K) : list N :=
    let m := match i with O => 1%nat | S i' => i' end in
    let left := Nat.ltb m i in           (* merge partner is the LEFT sibling *)
    let out := del_result_tag (s_apply_child_deletion d c0 rest i r dflt) in
    match r with
    | SDSubtree _ same => [if same then 10 else if d then 11 else 12]
    | SDDeletedSubtree => [13; out]
    | SDPartialLeaf retained =>
        let sib := s_leaf_entries (s_nth_child c0 rest m) in
        if single_large sib then [14; out]
        else
          let merged := if Nat.ltb i m then retained ++ sib else sib ++ retained in
          let resplit := leaf_split_required (nlen merged) (leaf_bytes merged) in
          [(if left then 15 else 16) + (if resplit then 2 else 0); out]
    | SDDeletedBranch g =>
        match s_nth_child c0 rest m with
        | SBranch _ b0 brest =>
            let sk := s_sep_at rest (Nat.min i m) dflt in
            let xrest := if Nat.ltb i m then (sk, b0) :: brest else brest ++ [(sk, g)] in
            [(if left then 19 else 20) + (if s_branch_should_split xrest then 2 else 0); out]
        | _ => [99]
        end
    | SDPartialBranch p0 prest =>
        match s_nth_child c0 rest m with
        | SBranch _ b0 brest =>
            let sk := s_sep_at rest (Nat.min i m) dflt in
            let xrest := if Nat.ltb i m then prest ++ (sk, b0) :: brest else brest ++ (sk, p0) :: prest in
            [(if left then 23 else 24) + (if s_branch_should_split xrest then 2 else 0); out]
        | _ => [99]
        end
    end.

  (* leaf: 1 removed in place, 2 rebuilt on a new page, 34 partial leaf, 33 leaf deleted;
     per branch level (bottom up): 10 skip / 11 child pointer written in place / 12 branch copied,
     13 child removed, 14 single-large-value exemption, 15/16 leaf merged with left/right sibling
     (17/18 and re-split), 19/20 (21/22) lone grandchild joins left/right branch (and re-split),
     23/24 (25/26) partial branch merged with left/right branch (and re-split), each followed by the
     outcome at that level: 30 DeletedBranch, 31 PartialBranch, 32 Subtree;
     root: 40 root collapsed to the only child, 41 tree emptied, 42 root built from a partial leaf,
     43 root built from a partial branch *)
  Fixpoint s_delete_tags (fuel : nat) (t : snode) (k : K) : list N :=
    match t with
    | SLeaf d a es =>
        let '(pos, found) := position cmp es k in
        if found then
          match s_leaf_delete_at d a es pos with
          | SDSubtree _ same => [if same then 1 else 2]
          | r => [del_result_tag r]
          end
        else []
    | SBranch d c0 rest =>
        match fuel with
        | O => []
        | S f =>
            let i := s_child_for_key rest k in
            let '(r, found) := s_delete_sub f (s_nth_child c0 rest i) k in
            match found with
            | None => []
            | Some _ => s_delete_tags f (s_nth_child c0 rest i) k ++ s_apply_tags d c0 rest i r k
            end
        end
    end.

  Definition s_delete_tag_list (st : sbtree) (k : K) : list N :=
    match sb_root st with
    | None => []
    | Some t =>
        let '(r, found) := s_delete_sub (S (sheight t)) t k in
        match found with
        | None => []
        | Some _ =>
            s_delete_tags (S (sheight t)) t k ++
            match r with
            | SDDeletedBranch _ => [40] | SDDeletedSubtree => [41] | SDPartialLeaf _ => [42]
            | SDPartialBranch _ _ => [43] | SDSubtree _ _ => []
            end
        end
    end.

End Shape.

Arguments SLeaf {K V} dirty alloc es.
Arguments SBranch {K V} dirty c0 rest.
Arguments mk_sbtree {K V}.
Arguments sempty {K V}.
