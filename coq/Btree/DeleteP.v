(* Refinement proof for the modelled delete (delete_key / apply_child_deletion_result /
   finish_deletion): invariant preserved, abstraction = SortedMap.remove, returned value = get. *)
From Coq Require Import List NArith Bool Sorted Lia Arith.
From RV Require Import Base.SortedMap Base.SortedMapP Btree.Tree Btree.TreeP Btree.Read Btree.ReadP Btree.Mutator Btree.MutatorP.
Import ListNotations.

Section DeleteP.
  Context {K V : Type}.
  Variable cmp : K -> K -> comparison.
  Hypothesis laws : OrderLaws cmp.
  Variable ksize : K -> N.
  Variable vsize : V -> N.
  Variable fixed_k fixed_v : bool.
  Variable page_size : N.
  Variable sep : K -> K -> K.
  Hypothesis Hsep : valid_sep cmp sep.

  Notation node := (@node K V).
  Notation inv := (@inv K V cmp).
  Notation chain := (@chain K V cmp).
  Notation abs := (@abs K V).
  Notation abs_rest := (@abs_rest K V).
  Notation sorted := (@sorted K V cmp).
  Notation get := (@get K V cmp).
  Notation sremove := (@SortedMap.remove K V cmp).
  Notation del_result := (@del_result K V).
  Notation leaf_delete := (leaf_delete cmp ksize vsize fixed_k fixed_v page_size).
  Notation finalize_branch := (finalize_branch ksize fixed_k page_size).
  Notation apply_child_deletion := (apply_child_deletion ksize vsize fixed_k fixed_v page_size sep).
  Notation delete_sub := (delete_sub cmp ksize vsize fixed_k fixed_v page_size sep).
  Notation delete := (delete cmp ksize vsize fixed_k fixed_v page_size sep).
  Implicit Types (t c : node) (rest : list (K * node)) (h : nat) (e : K * V) (k s : K) (v : V) (lo hi : option K).

  (* ------------------------------------------------------------ bounds of the i-th child *)
  Definition lo_at lo rest (i : nat) : option K :=
    match i with O => lo | S i' => match nth_error rest i' with Some (s, _) => Some s | None => lo end end.
  Definition hi_at hi rest (i : nat) : option K :=
    match nth_error rest i with Some (s, _) => Some s | None => hi end.

  Lemma lo_at_cons lo s (c' : node) rest i : i <= length rest -> lo_at lo ((s, c') :: rest) (S i) = lo_at (Some s) rest i.
  Proof.
    intros Hi. destruct i as [|i]; [reflexivity|]. cbn.
    destruct (nth_error rest i) as [[s' x]|] eqn:E; [reflexivity|]. apply nth_error_None in E. lia.
  Qed.

  Lemma hi_at_cons hi s (c' : node) rest i : hi_at hi ((s, c') :: rest) (S i) = hi_at hi rest i.
  Proof. reflexivity. Qed.

  Definition pre_abs c0 rest i : list (K * V) := flat_map abs (firstn i (children c0 rest)).
  Definition post_abs c0 rest i : list (K * V) := flat_map abs (skipn (S i) (children c0 rest)).

  Lemma abs_split c0 rest i : i <= length rest ->
    abs c0 ++ abs_rest rest = pre_abs c0 rest i ++ abs (nth_child c0 rest i) ++ post_abs c0 rest i.
  Proof.
    intros Hi. rewrite <- abs_children. rewrite (children_split c0 rest i Hi) at 1.
    unfold pre_abs, post_abs. rewrite flat_map_app. reflexivity.
  Qed.

  Lemma pre_abs_cons c s c' rest i : pre_abs c ((s, c') :: rest) (S i) = abs c ++ pre_abs c' rest i.
  Proof. reflexivity. Qed.
  Lemma post_abs_cons c s c' rest i : post_abs c ((s, c') :: rest) (S i) = post_abs c' rest i.
  Proof. reflexivity. Qed.
  Lemma pre_abs_0 c rest : pre_abs c rest 0 = [].
  Proof. reflexivity. Qed.
  Lemma post_abs_0 c rest : post_abs c rest 0 = abs_rest rest.
  Proof. unfold post_abs, children. cbn. unfold TreeP.abs_rest. induction rest as [|[s c'] r IH]; cbn; [reflexivity|]. now rewrite IH. Qed.

  (* witnesses of the bound relations along a chain *)
  Lemma inv_lo_hi h lo hi t : inv h lo hi t -> exists k, lo_ok cmp lo k /\ hi_ok cmp hi k.
  Proof.
    intros Hi. pose proof (inv_nonempty cmp laws _ _ _ _ Hi) as Hne. pose proof (inv_bounds cmp laws _ _ _ _ Hi) as Hb.
    destruct (abs t) as [|e l]; [congruence|]. inversion Hb as [|? ? [Ha Hb'] _]; subst. eauto.
  Qed.

  Lemma inv_weaken h lo hi t lo' hi' : inv h lo hi t ->
    (forall k, lo_ok cmp lo k -> lo_ok cmp lo' k) -> (forall k, hi_ok cmp hi k -> hi_ok cmp hi' k) -> inv h lo' hi' t.
  Proof. intros H. apply (proj1 (inv_chain_weaken cmp)); exact H. Qed.

  Lemma chain_weaken h lo hi c rest lo' hi' : chain h lo hi c rest ->
    (forall k, lo_ok cmp lo k -> lo_ok cmp lo' k) -> (forall k, hi_ok cmp hi k -> hi_ok cmp hi' k) -> chain h lo' hi' c rest.
  Proof. intros H. apply (proj2 (inv_chain_weaken cmp)); exact H. Qed.

  (* lo < s  ->  anything above s is above lo *)
  Lemma lo_step lo s : lo_ok cmp lo s -> forall k, lo_ok cmp (Some s) k -> lo_ok cmp lo k.
  Proof. intros H k Hk. cbn in Hk. eapply lo_ok_weaken; eauto. rewrite Hk. discriminate. Qed.

  Lemma hi_step hi s : hi_ok cmp hi s -> forall k, hi_ok cmp (Some s) k -> hi_ok cmp hi k.
  Proof. intros H k Hk. cbn in Hk. eapply hi_ok_weaken; eauto. Qed.

  Lemma inv_lo_sep h lo s t : inv h lo (Some s) t -> lo_ok cmp lo s.
  Proof. intros H. destruct (inv_lo_hi _ _ _ _ H) as (k & H1 & H2). cbn in H2. eapply lo_ok_weaken; eauto. Qed.

  Lemma inv_sep_hi h s hi t : inv h (Some s) hi t -> hi_ok cmp hi s.
  Proof. intros H. destruct (inv_lo_hi _ _ _ _ H) as (k & H1 & H2). cbn in H1. eapply hi_ok_weaken; eauto. rewrite H1. discriminate. Qed.

  Lemma chain_first_inv h lo hi c rest : chain h lo hi c rest -> inv h lo (hi_at hi rest 0) c.
  Proof. intros H. inversion H; subst; cbn; assumption. Qed.

  Lemma chain_sep_hi h s hi c rest : chain h (Some s) hi c rest -> hi_ok cmp hi s.
  Proof.
    intros H. pose proof (chain_bounds cmp laws _ _ _ _ _ H) as Hb.
    assert (Hne : abs c <> []) by (inversion H; subst; eapply inv_nonempty; eauto).
    destruct (abs c) as [|e l]; [congruence|]. inversion Hb as [|? ? [H1 H2] _]; subst. cbn in H1.
    eapply hi_ok_weaken; eauto. rewrite H1. discriminate.
  Qed.

  (* ------------------------------------------------------------ index-based access *)
  Lemma chain_child_inv h lo hi c0 rest : chain h lo hi c0 rest -> forall i, i <= length rest ->
    inv h (lo_at lo rest i) (hi_at hi rest i) (nth_child c0 rest i).
  Proof.
    induction 1 as [h lo hi c Hi|h lo hi c s c' rest Hi Hc IH]; intros i Hle.
    - cbn in Hle. assert (i = 0) by lia. subst. exact Hi.
    - destruct i as [|i].
      + exact Hi.
      + cbn in Hle. rewrite nth_child_cons by lia. specialize (IH i ltac:(lia)).
        rewrite lo_at_cons, hi_at_cons by lia. exact IH.
  Qed.

  Lemma route_bounds h lo hi c0 rest k : chain h lo hi c0 rest -> lo_ok cmp lo k -> hi_ok cmp hi k ->
    let i := lin_index cmp k (seps rest) in
    lo_ok cmp (lo_at lo rest i) k /\ hi_ok cmp (hi_at hi rest i) k.
  Proof.
    induction 1 as [h lo hi c Hi|h lo hi c s c' rest Hi Hc IH]; intros Hlo Hhi; cbn zeta.
    - split; assumption.
    - cbn [seps List.map fst]. rewrite lin_index_cons. destruct (cmp k s) eqn:E.
      + split; [exact Hlo|]. cbn. rewrite E. discriminate.
      + split; [exact Hlo|]. cbn. rewrite E. discriminate.
      + assert (Hs : lo_ok cmp (Some s) k) by (cbn; now apply (cmp_gt_lt cmp laws)).
        destruct (IH Hs Hhi) as [I1 I2].
        assert (Hle : lin_index cmp k (seps rest) <= length rest) by (unfold seps; rewrite <- (map_length fst rest); apply lin_index_le).
        rewrite lo_at_cons, hi_at_cons by exact Hle. split; assumption.
  Qed.

  (* ------------------------------------------------------------ rebuilding a branch *)
  Lemma set_child_chain h lo hi c0 rest : chain h lo hi c0 rest -> forall i c', i <= length rest ->
    inv h (lo_at lo rest i) (hi_at hi rest i) c' ->
    let '(a, b) := set_child i c' [] c0 rest in
    chain h lo hi a b /\ length b = length rest /\
    abs a ++ abs_rest b = pre_abs c0 rest i ++ abs c' ++ post_abs c0 rest i.
  Proof.
    induction 1 as [h lo hi c Hi|h lo hi c s c1 rest Hi Hc IH]; intros i c' Hle Hc'.
    - cbn in Hle. assert (i = 0) by lia. subst. cbn. split; [now constructor|]. split; [reflexivity|].
      unfold pre_abs, post_abs. cbn. now rewrite app_nil_r.
    - destruct i as [|i].
      + cbn [set_child app]. cbn in Hc'. split; [constructor; auto|]. split; [reflexivity|].
        rewrite pre_abs_0, post_abs_0. reflexivity.
      + cbn in Hle. cbn [set_child].
        assert (Hc'' : inv h (lo_at (Some s) rest i) (hi_at hi rest i) c') by (rewrite lo_at_cons, hi_at_cons in Hc' by lia; exact Hc').
        specialize (IH i c' ltac:(lia) Hc''). destruct (set_child i c' [] c1 rest) as [a b].
        destruct IH as (J1 & J2 & J3). split; [constructor; auto|]. split; [cbn; lia|].
        rewrite abs_rest_cons, J3, (pre_abs_cons c s c1), (post_abs_cons c s c1). repeat rewrite <- app_assoc. reflexivity.
  Qed.

  Lemma remove_child_chain h lo hi c0 rest : chain h lo hi c0 rest -> forall i, rest <> [] -> i <= length rest ->
    let '(a, b) := remove_child i c0 rest in
    chain h lo hi a b /\ abs a ++ abs_rest b = pre_abs c0 rest i ++ post_abs c0 rest i.
  Proof.
    induction 1 as [h lo hi c Hi|h lo hi c s c1 rest Hi Hc IH]; intros i Hne Hle; [congruence|].
    destruct i as [|i].
    - cbn [remove_child]. split.
      + eapply chain_weaken; [exact Hc| |auto]. apply lo_step. eapply inv_lo_sep; eauto.
      + rewrite pre_abs_0, post_abs_0, abs_rest_cons. reflexivity.
    - cbn in Hle. cbn [remove_child]. destruct i as [|i]; destruct rest as [|[s2 c2] rest'].
      + (* the last of two children goes *)
        split.
        * constructor. eapply inv_weaken; [exact Hi|auto|]. apply hi_step. eapply chain_sep_hi; eauto.
        * unfold pre_abs, post_abs. cbn. now rewrite !app_nil_r.
      + specialize (IH 0 ltac:(discriminate) ltac:(cbn; lia)).
        destruct (remove_child 0 c1 ((s2, c2) :: rest')) as [a b]. destruct IH as [J1 J2].
        split; [constructor; auto|]. rewrite abs_rest_cons, J2, (pre_abs_cons c s c1), (post_abs_cons c s c1). repeat rewrite <- app_assoc. reflexivity.
      + cbn in Hle. lia.
      + specialize (IH (S i) ltac:(discriminate) ltac:(cbn in *; lia)).
        destruct (remove_child (S i) c1 ((s2, c2) :: rest')) as [a b]. destruct IH as [J1 J2].
        split; [constructor; auto|]. rewrite abs_rest_cons, J2, (pre_abs_cons c s c1), (post_abs_cons c s c1). repeat rewrite <- app_assoc. reflexivity.
  Qed.

  Lemma chain_app h lo s hi c r c2 r2 : chain h lo (Some s) c r -> chain h (Some s) hi c2 r2 ->
    chain h lo hi c (r ++ (s, c2) :: r2).
  Proof.
    intros H1 H2. remember (Some s) as mid eqn:Em. revert c2 r2 H2.
    induction H1 as [h lo mid c Hi|h lo mid c s1 c1 r Hi Hc IH]; intros c2 r2 H2; subst mid.
    - cbn. constructor; auto.
    - cbn. constructor; auto.
  Qed.

  Lemma abs_rest_app_cons r s c2 r2 : abs_rest (r ++ (s, c2) :: r2) = abs_rest r ++ abs c2 ++ abs_rest r2.
  Proof. now rewrite abs_rest_app, abs_rest_cons. Qed.

  (* replace the adjacent pair (j, j+1) *)
  Lemma merge_pair_chain h lo hi c0 rest : chain h lo hi c0 rest -> forall j, j < length rest ->
    forall nc ns, chain h (lo_at lo rest j) (hi_at hi rest (S j)) nc ns ->
    let '(a, b) := merge_pair j nc ns c0 rest in
    chain h lo hi a b /\
    abs a ++ abs_rest b = pre_abs c0 rest j ++ (abs nc ++ abs_rest ns) ++ post_abs c0 rest (S j).
  Proof.
    induction 1 as [h lo hi c Hi|h lo hi c s c1 rest Hi Hc IH]; intros j Hlt nc ns Hn; [cbn in Hlt; lia|].
    destruct j as [|j].
    - cbn [merge_pair]. cbn [lo_at] in Hn.
      assert (Hpost : post_abs c ((s, c1) :: rest) 1 = abs_rest rest).
      { rewrite post_abs_cons. apply post_abs_0. }
      rewrite pre_abs_0, Hpost. cbn [app].
      destruct rest as [|[s2 c2] rest'].
      + cbn in Hn. rewrite app_nil_r. split; [exact Hn|]. unfold TreeP.abs_rest at 3. cbn. now rewrite app_nil_r.
      + cbn in Hn. inversion Hc as [|? ? ? ? ? ? ? Hi1 Hc2]; subst. split.
        * eapply chain_app; eauto.
        * rewrite abs_rest_app_cons. rewrite abs_rest_cons. now rewrite <- !app_assoc.
    - cbn in Hlt. cbn [merge_pair].
      assert (Hn' : chain h (lo_at (Some s) rest j) (hi_at hi rest (S j)) nc ns) by (rewrite lo_at_cons, hi_at_cons in Hn by lia; exact Hn).
      specialize (IH j ltac:(lia) nc ns Hn'). destruct (merge_pair j nc ns c1 rest) as [a b].
      destruct IH as [J1 J2]. split; [constructor; auto|].
      rewrite abs_rest_cons, J2, (pre_abs_cons c s c1), (post_abs_cons c s c1). repeat rewrite <- app_assoc. reflexivity.
  Qed.

  (* ------------------------------------------------------------ what a deletion result means *)
  Definition del_ok h lo hi (r : del_result) (L : list (K * V)) : Prop :=
    match r with
    | DSubtree t' => inv h lo hi t' /\ abs t' = L
    | DDeletedSubtree => L = []
    | DPartialLeaf es => h = 0 /\ inv 0 lo hi (Leaf es) /\ es = L
    | DPartialBranch c0 rest => (exists h', h = S h') /\ inv h lo hi (Branch c0 rest) /\ abs (Branch c0 rest) = L
    | DDeletedBranch c => exists h', h = S h' /\ inv h' lo hi c /\ abs c = L
    end.

  Lemma finalize_ok h lo hi a b : chain h lo hi a b -> del_ok (S h) lo hi (finalize_branch a b) (abs a ++ abs_rest b).
  Proof.
    intros Hc. unfold Mutator.finalize_branch. destruct b as [|p b].
    - cbn. exists h. inversion Hc; subst. split; [reflexivity|]. split; [assumption|]. unfold TreeP.abs_rest. cbn. now rewrite app_nil_r.
    - assert (Hi : inv (S h) lo hi (Branch a (p :: b))) by (constructor; [discriminate|exact Hc]).
      destruct (N.ltb _ _); cbn; [split; [eauto|]|]; split; auto.
  Qed.

  (* ------------------------------------------------------------ leaves *)
  Lemma remove_at es k pos : sorted es -> position cmp es k = (pos, true) ->
    firstn pos es ++ skipn (S pos) es = sremove es k /\ option_map snd (nth_error es pos) = get es k.
  Proof.
    intros Hs Hp. destruct (position_split cmp laws es k pos true Hs Hp) as (H1 & H2 & _).
    destruct (H2 eq_refl) as (ov & R & HR & HRlt).
    destruct (insert_at cmp laws es k ov pos true Hs Hp) as [_ Hget]. split; [|exact Hget].
    assert (Hsk : skipn (S pos) es = R).
    { change (S pos) with (1 + pos). rewrite <- skipn_skipn'. now rewrite HR. }
    rewrite Hsk. rewrite <- (firstn_skipn pos es) at 2. rewrite HR.
    rewrite (remove_app_right cmp laws) by (rewrite Forall_forall in H1; exact H1).
    cbn. now rewrite (cmp_refl _ laws).
  Qed.

  Lemma leaf_delete_ok lo hi es k : inv 0 lo hi (Leaf es) ->
    let '(r, found) := leaf_delete es k in
    found = get es k /\ del_ok 0 lo hi r (sremove es k) /\ (found = None -> r = DSubtree (Leaf es)).
  Proof.
    intros Hi. inversion Hi as [lo0 hi0 es0 Hne Hs Hb|]; subst. unfold Mutator.leaf_delete.
    destruct (position cmp es k) as [pos found] eqn:Hp. destruct found.
    - destruct (remove_at es k pos Hs Hp) as [Hr Hg]. split; [exact Hg|]. split.
      2:{ intros Hnone. rewrite Hnone in Hg. destruct (position_split cmp laws es k pos true Hs Hp) as (_ & H2 & _).
          destruct (H2 eq_refl) as (ov & R & HR & _).
          assert (In (k, ov) es) by (rewrite <- (firstn_skipn pos es), HR; apply in_or_app; right; cbn; auto).
          rewrite (In_get cmp laws es k ov Hs H) in Hg. discriminate. }
      unfold leaf_delete_at. rewrite Hr.
      assert (Hs' : sorted (sremove es k)) by (apply sorted_remove; assumption).
      assert (Hb' : Forall (in_bounds cmp lo hi) (sremove es k)) by now apply remove_Forall.
      destruct (sremove es k) as [|e l] eqn:Er; [reflexivity|].
      assert (Hi' : inv 0 lo hi (Leaf (e :: l))) by (constructor; [discriminate|assumption|assumption]).
      destruct (leaf_below_merge _ _ _ _ _); cbn; auto.
    - destruct es as [|[k0 v0] es'] eqn:Ees; [congruence|]. rewrite <- Ees in *.
      destruct (insert_at cmp laws es k v0 pos false Hs Hp) as [_ Hg].
      split; [exact Hg|]. split; [|reflexivity]. cbn. split; [exact Hi|].
      symmetry. apply remove_absent. now rewrite <- Hg.
  Qed.

  (* ------------------------------------------------------------ merged nodes *)
  Lemma merged_leaf_inv lo s hi A B : inv 0 lo (Some s) (Leaf A) -> inv 0 (Some s) hi (Leaf B) ->
    inv 0 lo hi (Leaf (A ++ B)).
  Proof.
    intros HA HB. pose proof (inv_lo_sep _ _ _ _ HA) as Hls. pose proof (inv_sep_hi _ _ _ _ HB) as Hsh.
    inversion HA as [? ? ? HAne HAs HAb|]; subst. inversion HB as [? ? ? HBne HBs HBb|]; subst.
    constructor.
    - destruct A; [congruence|discriminate].
    - apply sorted_app; auto. intros a b Ha Hb. rewrite Forall_forall in HAb, HBb.
      destruct (HAb a Ha) as [_ H1]. destruct (HBb b Hb) as [H2 _]. cbn in H1, H2. eapply cmp_le_lt_trans; eauto.
    - apply Forall_app. split.
      + eapply Forall_impl; [|exact HAb]. intros e [H1 H2]. split; [exact H1|]. eapply hi_step; eauto.
      + eapply Forall_impl; [|exact HBb]. intros e [H1 H2]. split; [|exact H2]. eapply lo_step; eauto.
  Qed.

  Lemma build_leaf_ok lo hi es dflt : inv 0 lo hi (Leaf es) ->
    let '(nc, ns) := build_leaf_maybe_split ksize vsize fixed_k fixed_v page_size sep es dflt in
    chain 0 lo hi nc ns /\ abs nc ++ abs_rest ns = es.
  Proof.
    intros Hi. unfold build_leaf_maybe_split.
    destruct (leaf_split_required fixed_k fixed_v page_size (nlen es) (leaf_bytes ksize vsize es)) eqn:Esp.
    - apply leaf_split_required_len in Esp. unfold nlen in Esp.
      assert (Hl2 : 2 <= length es) by lia.
      pose proof (division_bounds ksize vsize es Hl2) as Hd.
      inversion Hi as [? ? ? Hne Hs Hb|]; subst.
      destruct (split_at_inv cmp laws sep Hsep lo hi es (division ksize vsize es) dflt Hs Hb Hd) as [I1 I2].
      unfold split_leaf. cbn. split.
      + constructor; [exact I1|]. constructor. exact I2.
      + unfold TreeP.abs_rest. cbn. rewrite app_nil_r. apply firstn_skipn.
    - split; [constructor; exact Hi|]. unfold TreeP.abs_rest. cbn. now rewrite app_nil_r.
  Qed.

  Lemma build_branch_ok h lo hi x0 xrest : chain h lo hi x0 xrest -> xrest <> [] ->
    let '(nc, ns) := build_branch_maybe_split ksize fixed_k page_size x0 xrest in
    chain (S h) lo hi nc ns /\ abs nc ++ abs_rest ns = abs x0 ++ abs_rest xrest.
  Proof.
    intros Hc Hne. unfold build_branch_maybe_split.
    destruct (branch_should_split ksize fixed_k page_size xrest) eqn:Esp.
    - pose proof (split_branch_ok cmp ksize fixed_k page_size _ _ _ _ _ Hc Esp) as H.
      destruct (split_branch x0 xrest) as [x [[sk y]|]]; [|tauto]. destruct H as (K1 & K2 & K3). split.
      + constructor; [exact K1|]. constructor. exact K2.
      + unfold TreeP.abs_rest at 1. cbn. rewrite app_nil_r. exact K3.
    - split; [constructor; constructor; assumption|]. unfold TreeP.abs_rest at 1. cbn. now rewrite app_nil_r.
  Qed.

  Lemma merge_step h lo hi c0 rest j nc ns Lx : chain h lo hi c0 rest -> j < length rest ->
    chain h (lo_at lo rest j) (hi_at hi rest (S j)) nc ns -> abs nc ++ abs_rest ns = Lx ->
    del_ok (S h) lo hi (let '(a, b) := merge_pair j nc ns c0 rest in finalize_branch a b)
           (pre_abs c0 rest j ++ Lx ++ post_abs c0 rest (S j)).
  Proof.
    intros Hc Hj Hn HL. pose proof (merge_pair_chain _ _ _ _ _ Hc j Hj nc ns Hn) as H.
    destruct (merge_pair j nc ns c0 rest) as [a b]. destruct H as [J1 J2].
    rewrite <- HL, <- J2. now apply finalize_ok.
  Qed.

  Lemma pre_abs_step c0 rest i : i <= length rest ->
    pre_abs c0 rest (S i) = pre_abs c0 rest i ++ abs (nth_child c0 rest i).
  Proof.
    intros Hi. unfold pre_abs, nth_child.
    assert (Hl : i < length (children c0 rest)) by (rewrite children_length; lia).
    revert Hl. generalize (children c0 rest) as l. intros l. revert i Hi.
    induction l as [|x l IH]; intros i Hi Hl; [cbn in Hl; lia|].
    destruct i as [|i]; cbn [firstn flat_map nth].
    - cbn. now rewrite app_nil_r.
    - rewrite <- app_assoc. f_equal.
      assert (Hnth : nth i l c0 = nth i l x) by (apply nth_indep; cbn in Hl; lia).
      specialize (IH i ltac:(lia) ltac:(cbn in Hl; lia)). cbn [firstn flat_map] in IH. exact IH.
  Qed.

  Lemma post_abs_step c0 rest i : i < length rest ->
    post_abs c0 rest i = abs (nth_child c0 rest (S i)) ++ post_abs c0 rest (S i).
  Proof.
    intros Hi. unfold post_abs, nth_child.
    assert (Hl : S i < length (children c0 rest)) by (rewrite children_length; lia).
    revert Hl. generalize (children c0 rest) as l. intros l. clear Hi. revert i.
    induction l as [|x l IH]; intros i Hl; [cbn in Hl; lia|].
    destruct i as [|i].
    - destruct l as [|y l]; [cbn in Hl; lia|]. reflexivity.
    - cbn [skipn nth]. cbn [skipn] in IH. apply IH. cbn in Hl. lia.
  Qed.

  Lemma nth_pair rest i : i < length rest -> exists s c, nth_error rest i = Some (s, c).
  Proof.
    intros Hi. destruct (nth_error rest i) as [[s c]|] eqn:E; [eauto|]. apply nth_error_None in E. lia.
  Qed.

  Lemma nth_child_S c0 rest i s c : nth_error rest i = Some (s, c) -> nth_child c0 rest (S i) = c.
  Proof.
    intros E. unfold nth_child, children. cbn [nth].
    apply (map_nth_error snd) in E. cbn in E. now apply nth_error_nth.
  Qed.

  (* ------------------------------------------------------------ apply_child_deletion_result *)
  Lemma apply_child_deletion_ok h lo hi c0 rest i r X dflt :
    chain h lo hi c0 rest -> rest <> [] -> i <= length rest ->
    del_ok h (lo_at lo rest i) (hi_at hi rest i) r X ->
    del_ok (S h) lo hi (apply_child_deletion c0 rest i r dflt) (pre_abs c0 rest i ++ X ++ post_abs c0 rest i).
  Proof.
    intros Hc Hne Hle Hr.
    (* the pair (j, j+1) = (i, its merge partner), the separator between them, the bounds *)
    set (m := match i with O => 1 | S i' => i' end).
    set (j := Nat.min i m).
    assert (Hj : j < length rest) by (unfold j, m; destruct rest; [congruence|]; destruct i; cbn [length] in *; lia).
    destruct (nth_pair rest j Hj) as (sj & cj1 & Ej).
    assert (Hsk : sep_at rest j dflt = sj) by (unfold sep_at; now rewrite Ej).
    assert (Hhj : hi_at hi rest j = Some sj) by (unfold hi_at; now rewrite Ej).
    assert (Hlj : lo_at lo rest (S j) = Some sj) by (cbn; now rewrite Ej).
    pose proof (chain_child_inv _ _ _ _ _ Hc j ltac:(lia)) as Hcj. rewrite Hhj in Hcj.
    pose proof (chain_child_inv _ _ _ _ _ Hc (S j) ltac:(lia)) as Hcj1. rewrite Hlj in Hcj1.
    unfold Mutator.apply_child_deletion. fold m. fold j.
    destruct r as [c'|  |retained|p0 prest|g]; cbn [del_ok] in Hr; try rewrite Hsk; clear Hsk.
    - (* Subtree *)
      destruct Hr as [Hi' HX]. pose proof (set_child_chain _ _ _ _ _ Hc i c' Hle Hi') as H.
      destruct (set_child i c' [] c0 rest) as [a b]. destruct H as (J1 & J2 & J3). cbn [del_ok].
      split; [|rewrite abs_branch, J3, HX; reflexivity]. constructor; [|exact J1]. destruct b; [destruct rest; [congruence|cbn in J2; lia]|discriminate].
    - (* DeletedSubtree *)
      subst X. pose proof (remove_child_chain _ _ _ _ _ Hc i Hne Hle) as H.
      destruct (remove_child i c0 rest) as [a b]. destruct H as [J1 J2]. cbn [app]. rewrite <- J2. now apply finalize_ok.
    - (* PartialLeaf *)
      destruct Hr as (Hh & Hir & HX). subst h X.
      assert (Hm : m <= length rest) by (destruct i; cbn in *; unfold m; lia).
      pose proof (chain_child_inv _ _ _ _ _ Hc m Hm) as Hsib.
      destruct (inv_0_leaf cmp _ _ _ Hsib) as [sib Esib]. rewrite Esib. cbn [leaf_entries].
      destruct (single_large ksize vsize fixed_k fixed_v page_size sib).
      + pose proof (set_child_chain _ _ _ _ _ Hc i (Leaf retained) Hle Hir) as H.
        destruct (set_child i (Leaf retained) [] c0 rest) as [a b]. destruct H as (J1 & J2 & J3).
        cbn [abs] in J3. rewrite <- J3. now apply finalize_ok.
      + destruct i as [|i'].
        * (* i = 0: the partial leaf is the left one *)
          change m with 1 in *. change j with 0 in *. cbn [Nat.ltb Nat.leb].
          rewrite Esib in Hcj1. rewrite Hhj in Hir. cbn [lo_at] in Hir.
          pose proof (merged_leaf_inv _ _ _ _ _ Hir Hcj1) as Hm'.
          pose proof (build_leaf_ok _ _ _ dflt Hm') as Hb.
          destruct (build_leaf_maybe_split ksize vsize fixed_k fixed_v page_size sep (retained ++ sib) dflt) as [nc ns].
          destruct Hb as [B1 B2].
          pose proof (merge_step _ _ _ _ _ 0 nc ns _ Hc Hj B1 B2) as Hms.
          rewrite pre_abs_0 in *. cbn [app] in *. rewrite (post_abs_step c0 rest 0 Hj), Esib. cbn [abs].
          rewrite <- app_assoc in Hms. exact Hms.
        * (* i = S i': the partial leaf is the right one *)
          change m with i' in *. assert (Ej' : j = i') by (unfold j; lia). rewrite Ej' in *. clear Ej'.
          assert (Hlt : Nat.ltb (S i') i' = false) by (apply Nat.ltb_ge; lia). rewrite Hlt.
          rewrite Esib in Hcj. rewrite Hlj in Hir.
          pose proof (merged_leaf_inv _ _ _ _ _ Hcj Hir) as Hm'.
          pose proof (build_leaf_ok _ _ _ dflt Hm') as Hb.
          destruct (build_leaf_maybe_split ksize vsize fixed_k fixed_v page_size sep (sib ++ retained) dflt) as [nc ns].
          destruct Hb as [B1 B2].
          pose proof (merge_step _ _ _ _ _ i' nc ns _ Hc Hj B1 B2) as Hms.
          rewrite (pre_abs_step c0 rest i' ltac:(lia)), Esib. cbn [abs].
          rewrite <- !app_assoc in *. exact Hms.
    - (* PartialBranch *)
      destruct Hr as ([h' Hh] & Hir & HX). subst h X.
      assert (Hm : m <= length rest) by (destruct i; cbn in *; unfold m; lia).
      inversion Hir as [|? ? ? ? ? Hpne Hpc]; subst.
      destruct i as [|i'].
      * change m with 1 in *. change j with 0 in *. cbn [Nat.ltb Nat.leb].
        inversion Hcj1 as [|? ? ? b0 brest Hbne Hbc Eq]; subst.
        rewrite Hhj in Hpc. cbn [lo_at] in Hpc.
        pose proof (chain_app _ _ _ _ _ _ _ _ Hpc Hbc) as Hx.
        pose proof (build_branch_ok _ _ _ _ _ Hx ltac:(destruct prest; discriminate)) as Hb.
        destruct (build_branch_maybe_split ksize fixed_k page_size p0 (prest ++ (sj, b0) :: brest)) as [nc ns].
        destruct Hb as [B1 B2].
        pose proof (merge_step _ _ _ _ _ 0 nc ns _ Hc Hj B1 B2) as Hms.
        rewrite pre_abs_0 in *. cbn [app] in *. rewrite (post_abs_step c0 rest 0 Hj). match goal with HB : Branch _ _ = nth_child _ _ _ |- _ => rewrite <- HB end. rewrite !abs_branch.
        rewrite abs_rest_app_cons in Hms. rewrite <- !app_assoc in *. exact Hms.
      * change m with i' in *. assert (Ej' : j = i') by (unfold j; lia). rewrite Ej' in *. clear Ej'.
        assert (Hlt : Nat.ltb (S i') i' = false) by (apply Nat.ltb_ge; lia). rewrite Hlt.
        inversion Hcj as [|? ? ? b0 brest Hbne Hbc Eq]; subst.
        rewrite Hlj in Hpc.
        pose proof (chain_app _ _ _ _ _ _ _ _ Hbc Hpc) as Hx.
        pose proof (build_branch_ok _ _ _ _ _ Hx ltac:(destruct brest; discriminate)) as Hb.
        destruct (build_branch_maybe_split ksize fixed_k page_size b0 (brest ++ (sj, p0) :: prest)) as [nc ns].
        destruct Hb as [B1 B2].
        pose proof (merge_step _ _ _ _ _ i' nc ns _ Hc Hj B1 B2) as Hms.
        rewrite (pre_abs_step c0 rest i' ltac:(lia)). match goal with HB : Branch _ _ = nth_child _ _ _ |- _ => rewrite <- HB end. rewrite !abs_branch.
        rewrite abs_rest_app_cons in Hms. rewrite <- !app_assoc in *. exact Hms.
    - (* DeletedBranch *)
      destruct Hr as (h' & Hh & Hig & HX). subst h X.
      destruct i as [|i'].
      * change m with 1 in *. change j with 0 in *. cbn [Nat.ltb Nat.leb].
        inversion Hcj1 as [|? ? ? b0 brest Hbne Hbc Eq]; subst.
        rewrite Hhj in Hig. cbn [lo_at] in Hig.
        assert (Hx : chain h' lo (hi_at hi rest 1) g ((sj, b0) :: brest)) by (constructor; assumption).
        pose proof (build_branch_ok _ _ _ _ _ Hx ltac:(discriminate)) as Hb.
        destruct (build_branch_maybe_split ksize fixed_k page_size g ((sj, b0) :: brest)) as [nc ns].
        destruct Hb as [B1 B2].
        pose proof (merge_step _ _ _ _ _ 0 nc ns _ Hc Hj B1 B2) as Hms.
        rewrite pre_abs_0 in *. cbn [app] in *. rewrite (post_abs_step c0 rest 0 Hj). match goal with HB : Branch _ _ = nth_child _ _ _ |- _ => rewrite <- HB end. rewrite !abs_branch.
        rewrite abs_rest_cons in Hms. rewrite <- !app_assoc in *. exact Hms.
      * change m with i' in *. assert (Ej' : j = i') by (unfold j; lia). rewrite Ej' in *. clear Ej'.
        assert (Hlt : Nat.ltb (S i') i' = false) by (apply Nat.ltb_ge; lia). rewrite Hlt.
        inversion Hcj as [|? ? ? b0 brest Hbne Hbc Eq]; subst.
        rewrite Hlj in Hig.
        pose proof (chain_app _ _ _ _ _ _ _ _ Hbc (chain_last _ _ _ _ _ Hig)) as Hx.
        pose proof (build_branch_ok _ _ _ _ _ Hx ltac:(destruct brest; discriminate)) as Hb.
        destruct (build_branch_maybe_split ksize fixed_k page_size b0 (brest ++ [(sj, g)])) as [nc ns].
        destruct Hb as [B1 B2].
        pose proof (merge_step _ _ _ _ _ i' nc ns _ Hc Hj B1 B2) as Hms.
        rewrite (pre_abs_step c0 rest i' ltac:(lia)). match goal with HB : Branch _ _ = nth_child _ _ _ |- _ => rewrite <- HB end. rewrite !abs_branch.
        rewrite abs_rest_app_cons in Hms. change (abs_rest []) with (@nil (K * V)) in Hms. rewrite app_nil_r in Hms.
        rewrite <- !app_assoc in *. exact Hms.
  Qed.


  (* ------------------------------------------------------------ the descent *)
  Lemma remove_sandwich (L X R : list (K * V)) k :
    Forall (fun e => cmp (fst e) k = Lt) L -> Forall (fun e => cmp k (fst e) = Lt) R ->
    sremove (L ++ X ++ R) k = L ++ sremove X k ++ R.
  Proof.
    intros HL HR. rewrite (remove_app_right cmp laws) by (rewrite Forall_forall in HL; exact HL).
    f_equal. apply remove_app_left. rewrite Forall_forall in HR. exact HR.
  Qed.

  Lemma delete_sub_ok fuel : forall t h lo hi k, inv h lo hi t -> h <= fuel ->
    let '(r, found) := delete_sub fuel t k in
    found = get (abs t) k /\ del_ok h lo hi r (sremove (abs t) k) /\ (found = None -> r = DSubtree t).
  Proof.
    induction fuel as [|f IH]; intros t h lo hi k Hi Hf.
    - assert (h = 0) by lia. subst. destruct (inv_0_leaf cmp _ _ _ Hi) as [es ->]. now apply leaf_delete_ok.
    - inversion Hi as [lo0 hi0 es Hne Hs Hb|h' lo0 hi0 c0 rest Hne Hc]; subst.
      + now apply leaf_delete_ok.
      + cbn [Mutator.delete_sub]. rewrite (child_for_key_lin cmp laws _ _ _ _ _ k Hc).
        set (i := lin_index cmp k (seps rest)).
        assert (Hle : i <= length rest) by (unfold i, seps; rewrite <- (map_length fst rest); apply lin_index_le).
        pose proof (chain_child_inv _ _ _ _ _ Hc i Hle) as Hci.
        pose proof (IH _ h' _ _ k Hci ltac:(lia)) as Hsub.
        destruct (delete_sub f (nth_child c0 rest i) k) as [r found]. destruct Hsub as (Hfound & Hok & Hnone).
        assert (HL : Forall (fun e => cmp (fst e) k = Lt) (pre_abs c0 rest i)).
        { unfold pre_abs. apply Forall_flat_map'. apply (chain_left_of cmp laws _ _ _ _ _ k Hc). }
        assert (HR : Forall (fun e => cmp k (fst e) = Lt) (post_abs c0 rest i)).
        { unfold post_abs. apply Forall_flat_map'. apply (chain_right_of cmp laws _ _ _ _ _ k Hc). }
        assert (Hget : get (abs (Branch c0 rest)) k = get (abs (nth_child c0 rest i)) k).
        { rewrite abs_branch, (abs_split c0 rest i Hle). now apply (get_sandwich cmp laws). }
        assert (Hrem : sremove (abs (Branch c0 rest)) k = pre_abs c0 rest i ++ sremove (abs (nth_child c0 rest i)) k ++ post_abs c0 rest i).
        { rewrite abs_branch, (abs_split c0 rest i Hle). now apply remove_sandwich. }
        destruct found as [ov|].
        * split; [now rewrite Hget|]. split; [|discriminate]. rewrite Hrem.
          now apply apply_child_deletion_ok.
        * split; [now rewrite Hget|]. split; [|reflexivity]. cbn [del_ok]. split; [exact Hi|].
          symmetry. apply remove_absent. now rewrite Hget, <- Hfound.
  Qed.

  (* ------------------------------------------------------------ table level *)
  Theorem delete_refines_lemma (bt : @btree K V) k : TreeInv cmp bt ->
    let '(bt', old) := delete bt k in
    TreeInv cmp bt' /\ abs_tree bt' = sremove (abs_tree bt) k /\ old = get (abs_tree bt) k.
  Proof.
    unfold TreeInv, Mutator.delete, abs_tree. destruct (bt_root bt) as [t|] eqn:Er.
    - intros [[h Hi] Hlen].
      pose proof (delete_sub_ok (fuel_of t) t h None None k Hi) as Hok.
      assert (Hf : h <= fuel_of t) by (unfold fuel_of; rewrite (inv_height cmp _ _ _ _ Hi); lia).
      specialize (Hok Hf). destruct (delete_sub (fuel_of t) t k) as [r found]. destruct Hok as (Hfound & Hok & _).
      pose proof (inv_sorted cmp laws _ _ _ _ Hi) as Hsorted.
      destruct found as [ov|].
      + assert (Hl : (bt_len bt - 1)%N = len (sremove (abs t) k)).
        { rewrite (len_remove cmp laws), <- Hfound, Hlen. reflexivity. }
        destruct r as [t'| |es|p0 prest|c]; cbn [finish_deletion bt_root bt_len del_ok] in *.
        * destruct Hok as [Hi' Habs]. split; [|split; auto]. split; [exists h; exact Hi'|]. now rewrite Habs.
        * split; [|split; auto]. now rewrite Hl, Hok.
        * destruct Hok as (_ & Hi' & Habs). split; [|split; auto]. split; [exists 0; exact Hi'|]. cbn. now rewrite Habs.
        * destruct Hok as (_ & Hi' & Habs). split; [|split; auto]. split; [exists h; exact Hi'|]. now rewrite Habs.
        * destruct Hok as (h' & _ & Hi' & Habs). split; [|split; auto]. split; [exists h'; exact Hi'|]. now rewrite Habs.
      + rewrite Er. split; [split; [exists h; exact Hi|exact Hlen]|]. split; [|exact Hfound].
        symmetry. apply remove_absent. now rewrite <- Hfound.
    - intros Hlen. rewrite Er. cbn. auto.
  Qed.

End DeleteP.
