(* The store of Scan.v instantiated by the LOGICAL tree of Tree.v: leaf addressing, descend_to_position,
   MutateHelper::delete_leaf_entries (`t_flush`) and MutateHelper::replace_leaf_children with
   build_replacement_leaves (`t_splice`) -- definitions only.  ShapeScan.v is the decorated twin (ScanTreeP.v
   proves that erasing the decorations maps one to the other); the refinement theorems are about this file. *)
From Coq Require Import List NArith Bool Arith.
From RV Require Import Base.SortedMap Btree.Tree Btree.Read Btree.Mutator Btree.Scan Btree.RangeMut.
Import ListNotations.

Section ScanTree.
  Context {K V : Type}.
  Variable cmp : K -> K -> comparison.
  Variable ksize : K -> N.
  Variable vsize : V -> N.
  Variable fixed_k fixed_v : bool.
  Variable page_size : N.
  Variable sep : K -> K -> K.

  Notation node := (@node K V).
  Notation leaf_bytes := (leaf_bytes ksize vsize).
  Notation leaf_split_required := (leaf_split_required fixed_k fixed_v page_size).
  Notation leaf_below_merge := (leaf_below_merge fixed_k fixed_v page_size).
  Notation single_large := (single_large ksize vsize fixed_k fixed_v page_size).
  Notation apply_child_deletion := (apply_child_deletion ksize vsize fixed_k fixed_v page_size sep).
  Notation finalize_branch := (finalize_branch ksize fixed_k page_size).

  Fixpoint leaves (t : node) : list (list (K * V)) :=
    match t with
    | Leaf es => [es]
    | Branch c0 rest => leaves c0 ++ flat_map (fun p => leaves (snd p)) rest
    end.
  Definition nleaves (t : node) : nat := length (leaves t).
  Definition bt_leaves (bt : @btree K V) : list (list (K * V)) :=
    match bt_root bt with None => [] | Some t => leaves t end.

  (* the child holding leaf number j, and the leaf's number inside that child *)
  Fixpoint locate (cs : list node) (j : nat) : nat * nat :=
    match cs with
    | [] => (O, j)
    | c :: r =>
        let n := nleaves c in
        if Nat.ltb j n then (O, j) else let '(i, j') := locate r (j - n) in (S i, j')
    end.
  Definition leaves_before (cs : list node) (i : nat) : nat :=
    fold_right (fun c a => nleaves c + a) O (firstn i cs).

  (* lower_bound_entry *)
  Definition lower_bound_entry (es : list (K * V)) (p : seekpos K) : nat :=
    match p with
    | PStart => O
    | PEnd => length es
    | PBefore q => fst (position cmp es q)
    | PAfter q => let '(i, found) := position cmp es q in if found then S i else i
    end.

  (* descend_to_position: (leaf number, gap index) *)
  Fixpoint seek_sub (fuel : nat) (t : node) (p : seekpos K) : nat * nat :=
    match t with
    | Leaf es => (O, lower_bound_entry es p)
    | Branch c0 rest =>
        match fuel with
        | O => (O, O)
        | S f =>
            let i := match p with
                     | PStart => O
                     | PEnd => length rest
                     | PBefore q | PAfter q => child_for_key cmp rest q
                     end in
            let '(j, x) := seek_sub f (nth_child c0 rest i) p in
            (leaves_before (children c0 rest) i + j, x)
        end
    end.
  Definition t_seek (bt : @btree K V) (p : seekpos K) : nat * nat :=
    match bt_root bt with None => (O, O) | Some t => seek_sub (fuel_of t) t p end.

  Definition t_has_parent (bt : @btree K V) (j : nat) : bool :=
    match bt_root bt with Some (Branch _ _) => true | _ => false end.

  (* (index of the leaf among its parent's children, number of children of the parent) *)
  Fixpoint parent_pos (fuel : nat) (t : node) (j : nat) : option (nat * nat) :=
    match t with
    | Leaf _ => None
    | Branch c0 rest =>
        match fuel with
        | O => None
        | S f =>
            let '(c, j') := locate (children c0 rest) j in
            match nth_child c0 rest c with
            | Leaf _ => Some (c, S (length rest))
            | child => parent_pos f child j'
            end
        end
    end.

  (* run_parent_has_more_children *)
  Definition t_more_children (bt : @btree K V) (j : nat) (d : direction) : bool :=
    match bt_root bt with
    | None => false
    | Some t =>
        match parent_pos (fuel_of t) t j with
        | Some (c, n) => match d with DNext => Nat.ltb (S c) n | DPrev => Nat.ltb 0 c end
        | None => false
        end
    end.

  (* ---------------------------------------------------------------- delete_leaf_entries *)
  Definition leaf_delete_batch (es : list (K * V)) (idx : list nat) : del_result :=
    let retained := remove_indexes es idx in
    match retained with
    | [] => DDeletedSubtree
    | _ => if leaf_below_merge (nlen retained) (leaf_bytes retained) then DPartialLeaf retained
           else DSubtree (Leaf retained)
    end.

  Fixpoint batch_sub (fuel : nat) (t : node) (j : nat) (idx : list nat) (dflt : K) : del_result :=
    match t with
    | Leaf es => leaf_delete_batch es idx
    | Branch c0 rest =>
        match fuel with
        | O => DSubtree t
        | S f =>
            let '(c, j') := locate (children c0 rest) j in
            apply_child_deletion c0 rest c (batch_sub f (nth_child c0 rest c) j' idx dflt) dflt
        end
    end.

  Definition t_flush (allow : bool) (bt : @btree K V) (j : nat) (idx : list nat) : @btree K V :=
    match bt_root bt, idx, nth j (bt_leaves bt) [] with
    | Some t, _ :: _, (k, _) :: _ =>
        mk_btree (finish_deletion (batch_sub (fuel_of t) t j idx k)) (bt_len bt - N.of_nat (length idx))
    | _, _, _ => bt
    end.

  (* ---------------------------------------------------------------- replace_leaf_children *)
  Fixpoint greedy (es : list (K * V)) (cur : list (K * V)) (n bytes : N) : list (list (K * V)) :=
    match es with
    | [] => match cur with [] => [] | _ => [rev cur] end
    | e :: r =>
        let eb := pair_bytes ksize vsize e in
        if leaf_split_required (n + 1) (bytes + eb) then rev cur :: greedy r [e] 1 eb
        else greedy r (e :: cur) (n + 1) (bytes + eb)
    end.

  Definition last_key (es : list (K * V)) (dflt : K) : K := match last_opt es with Some e => fst e | None => dflt end.
  Definition first_key (es : list (K * V)) (dflt : K) : K := match es with e :: _ => fst e | [] => dflt end.

  Fixpoint plan_leaves (plan : list (list (K * V))) (tail : option K) (dflt : K) : list (node * K) :=
    match plan with
    | [] => []
    | c :: r =>
        let lk := last_key c dflt in
        let s := match r with
                 | nx :: _ => sep lk (first_key nx dflt)
                 | [] => match tail with Some fk => sep lk fk | None => lk end
                 end in
        (Leaf c, s) :: plan_leaves r tail dflt
    end.

  Definition build_replacement_leaves (es : list (K * V)) (dflt : K) : list (node * K) :=
    let plan := greedy es [] 0%N 0%N in
    let n := length plan in
    let lastc := nth (Nat.pred n) plan [] in
    if Nat.leb 2 n && leaf_below_merge (nlen lastc) (leaf_bytes lastc) then
      let keep := firstn (n - 2) plan in
      let range := nth (n - 2) plan [] ++ lastc in
      let d' := division ksize vsize range in
      let x := firstn d' range in
      let y := skipn d' range in
      plan_leaves keep (Some (first_key range dflt)) dflt ++
      [(Leaf x, sep (last_key x dflt) (first_key y dflt)); (Leaf y, last_key range dflt)]
    else plan_leaves plan None dflt.

  Fixpoint with_keys (cs : list node) (ks : list K) : list (node * option K) :=
    match cs with
    | [] => []
    | c :: r => match ks with k :: ks' => (c, Some k) :: with_keys r ks' | [] => (c, None) :: with_keys r [] end
    end.
  Fixpoint pair_up (prev : option K) (l : list (node * option K)) (dflt : K) : list (K * node) :=
    match l with
    | [] => []
    | (c, k) :: r => (match prev with Some s => s | None => dflt end, c) :: pair_up k r dflt
    end.

  Definition replace_children (c0 : node) (rest : list (K * node)) (start n : nat) (entries : list (K * V)) (dflt : K)
    : del_result :=
    let cs := children c0 rest in
    let old := length cs in
    let end_ := start + n in
    let '(start', end', es') :=
      match entries with
      | [] => (start, end_, entries)
      | _ =>
          if leaf_below_merge (nlen entries) (leaf_bytes entries) then
            let nb := if Nat.eqb start 0 then end_ else Nat.pred start in
            if Nat.ltb nb old then
              let nbes := leaf_entries (nth nb cs c0) in
              if single_large nbes then (start, end_, entries)
              else if Nat.eqb nb end_ then (start, S end_, entries ++ nbes) else (Nat.pred start, end_, nbes ++ entries)
            else (start, end_, entries)
          else (start, end_, entries)
      end in
    let repl := List.map (fun p => (fst p, Some (snd p))) (build_replacement_leaves es' dflt) in
    let all := with_keys cs (seps rest) in
    let newl := firstn start' all ++ repl ++ skipn end' all in
    match newl with
    | [] => DDeletedSubtree
    | (c, k) :: r => finalize_branch c (pair_up k r dflt)
    end.

  Fixpoint splice_sub (fuel : nat) (t : node) (j n : nat) (entries : list (K * V)) (dflt : K) : del_result :=
    match t with
    | Leaf _ => DSubtree t
    | Branch c0 rest =>
        match fuel with
        | O => DSubtree t
        | S f =>
            let '(c, j') := locate (children c0 rest) j in
            match nth_child c0 rest c with
            | Leaf _ => replace_children c0 rest c n entries dflt
            | child => apply_child_deletion c0 rest c (splice_sub f child j' n entries dflt) dflt
            end
        end
    end.

  Definition t_splice (bt : @btree K V) (j n : nat) (entries : list (K * V)) (removed : N) : @btree K V :=
    match bt_root bt, nth j (bt_leaves bt) [] with
    | Some t, (k, _) :: _ =>
        mk_btree (finish_deletion (splice_sub (fuel_of t) t j n entries k)) (bt_len bt - removed)
    | _, _ => bt
    end.

  Definition t_underfilling (retained : list (K * V)) : bool :=
    match retained with [] => true | _ => leaf_below_merge (nlen retained) (leaf_bytes retained) end.
  Definition t_packs (retained : list (K * V)) : bool :=
    t_underfilling retained || leaf_fits fixed_k fixed_v page_size (nlen retained) (leaf_bytes retained).

  (* retain_in_bounds on the logical tree *)
  Definition t_retain_in (bt : @btree K V) (lo hi : bound K) (p : K -> V -> bool) : @btree K V :=
    let n := length (concat (bt_leaves bt)) in
    scan_retain_in cmp bt_leaves t_seek t_flush t_splice t_has_parent t_more_children t_underfilling t_packs
                   (S n) 4 bt lo hi p.

  (* extract_if / extract_from_if on the logical tree *)
  Variable entry_eqb : K * V -> K * V -> bool.
  Definition t_extract_new (bt : @btree K V) (lo hi : bound K) : @xstate K V (@btree K V) := extract_new bt lo hi.
  Definition t_extract_next (p : K -> V -> bool) (x : @xstate K V (@btree K V)) (d : direction)
    : option (K * V) * @xstate K V (@btree K V) :=
    let n := length (concat (bt_leaves (rg_tree (x_range x)))) in
    extract_next cmp entry_eqb bt_leaves t_seek t_flush t_splice t_has_parent t_more_children t_underfilling t_packs
                 (S n) 4 p x d.
  Definition t_extract_close (x : @xstate K V (@btree K V)) : @btree K V :=
    extract_tree cmp entry_eqb bt_leaves t_seek t_flush t_splice t_has_parent t_more_children t_underfilling t_packs x.
End ScanTree.
