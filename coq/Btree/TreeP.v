(* Proofs about the logical B-tree invariant: consequences of `inv` and soundness of the checker. *)
From Coq Require Import List NArith Bool Sorted Lia Arith.
From RV Require Import Base.SortedMap Base.SortedMapP Btree.Tree.
Import ListNotations.

Section TreeP.
  Context {K V : Type}.
  Variable cmp : K -> K -> comparison.
  Hypothesis laws : OrderLaws cmp.

  Notation node := (@node K V).
  Notation inv := (@inv K V cmp).
  Notation chain := (@chain K V cmp).
  Notation abs := (@abs K V).
  Notation sorted := (@sorted K V cmp).
  Notation in_bounds := (@in_bounds K V cmp).
  Implicit Types (t c : node) (rest : list (K * node)) (lo hi : option K) (h : nat) (e : K * V) (k s : K).

  (* induction principle for the nested type *)
  Fixpoint node_ind2 (P : node -> Prop)
      (Hleaf : forall es, P (Leaf es))
      (Hbranch : forall c0 rest, P c0 -> Forall (fun p => P (snd p)) rest -> P (Branch c0 rest))
      (t : node) : P t :=
    match t with
    | Leaf es => Hleaf es
    | Branch c0 rest =>
        Hbranch c0 rest (node_ind2 P Hleaf Hbranch c0)
          ((fix go (l : list (K * node)) : Forall (fun p => P (snd p)) l :=
              match l with
              | [] => Forall_nil _
              | p :: l' => Forall_cons p (node_ind2 P Hleaf Hbranch (snd p)) (go l')
              end) rest)
    end.

  Scheme inv_mut := Induction for Tree.inv Sort Prop
    with chain_mut := Induction for Tree.chain Sort Prop.
  Combined Scheme inv_chain_ind from inv_mut, chain_mut.

  Definition abs_rest rest : list (K * V) := flat_map (fun p => abs (snd p)) rest.

  Lemma abs_branch c0 rest : abs (Branch c0 rest) = abs c0 ++ abs_rest rest.
  Proof. reflexivity. Qed.

  Lemma abs_rest_cons s c rest : abs_rest ((s, c) :: rest) = abs c ++ abs_rest rest.
  Proof. reflexivity. Qed.

  Lemma abs_rest_app r1 r2 : abs_rest (r1 ++ r2) = abs_rest r1 ++ abs_rest r2.
  Proof. unfold abs_rest. apply flat_map_app. Qed.

  (* ------------------------------------------------------------ bounds bookkeeping *)
  Lemma lo_ok_weaken lo k k' : lo_ok cmp lo k -> cmp k k' <> Gt -> lo_ok cmp lo k'.
  Proof. destruct lo as [l|]; cbn; auto. intros. eapply cmp_lt_le_trans; eauto. Qed.

  Lemma hi_ok_weaken hi k k' : hi_ok cmp hi k -> cmp k' k <> Gt -> hi_ok cmp hi k'.
  Proof. destruct hi as [x|]; cbn; auto. intros. eapply cmp_le_trans; eauto. Qed.

  (* non-emptiness and key bounds of every subtree *)
  Lemma inv_chain_bounds :
    (forall h lo hi t, inv h lo hi t -> abs t <> [] /\ Forall (in_bounds lo hi) (abs t)) /\
    (forall h lo hi c rest, chain h lo hi c rest ->
        abs c <> [] /\ Forall (in_bounds lo hi) (abs c ++ abs_rest rest)).
  Proof.
    apply inv_chain_ind.
    - intros lo hi es Hne Hs Hb. cbn. auto.
    - intros h lo hi c0 rest Hne Hc [IH1 IH2]. rewrite abs_branch. split; [|exact IH2].
      destruct (abs c0); [congruence|discriminate].
    - intros h lo hi c Hi [IH1 IH2]. cbn. rewrite app_nil_r. auto.
    - intros h lo hi c s c' rest Hi [IH1 IH2] Hc [IH3 IH4]. split; [exact IH1|].
      rewrite abs_rest_cons.
      (* a witness on each side of s *)
      destruct (abs c) as [|e1 l1] eqn:E1; [congruence|].
      destruct (abs c') as [|e2 l2] eqn:E2; [congruence|].
      assert (Hlo_s : lo_ok cmp lo s).
      { inversion IH2 as [|? ? [Ha Hb] _]; subst. cbn in Hb. eapply lo_ok_weaken; eauto. }
      assert (Hs_hi : hi_ok cmp hi s).
      { inversion IH4 as [|? ? [Ha Hb] _]; subst. cbn in Ha. eapply hi_ok_weaken; eauto.
        rewrite Ha. discriminate. }
      apply Forall_app. split.
      + eapply Forall_impl; [|exact IH2]. intros e [Ha Hb]. split; [exact Ha|].
        cbn in Hb. eapply hi_ok_weaken; eauto.
      + eapply Forall_impl; [|exact IH4]. intros e [Ha Hb]. split; [|exact Hb].
        cbn in Ha. eapply lo_ok_weaken; eauto. rewrite Ha. discriminate.
  Qed.

  Lemma inv_nonempty h lo hi t : inv h lo hi t -> abs t <> [].
  Proof. intros H. now apply inv_chain_bounds in H. Qed.

  Lemma inv_bounds h lo hi t : inv h lo hi t -> Forall (in_bounds lo hi) (abs t).
  Proof. intros H. now apply inv_chain_bounds in H. Qed.

  Lemma chain_bounds h lo hi c rest : chain h lo hi c rest -> Forall (in_bounds lo hi) (abs c ++ abs_rest rest).
  Proof. intros H. now apply inv_chain_bounds in H. Qed.

  (* ------------------------------------------------------------ sortedness *)
  Lemma inv_chain_sorted :
    (forall h lo hi t, inv h lo hi t -> sorted (abs t)) /\
    (forall h lo hi c rest, chain h lo hi c rest -> sorted (abs c ++ abs_rest rest)).
  Proof.
    apply inv_chain_ind.
    - auto.
    - intros. now rewrite abs_branch.
    - intros. cbn. now rewrite app_nil_r.
    - intros h lo hi c s c' rest Hi IH1 Hc IH2. rewrite abs_rest_cons.
      apply sorted_app; auto.
      intros a b Ha Hb.
      pose proof (inv_bounds _ _ _ _ Hi) as B1. pose proof (chain_bounds _ _ _ _ _ Hc) as B2.
      rewrite Forall_forall in B1, B2. destruct (B1 _ Ha) as [_ H1]. destruct (B2 _ Hb) as [H2 _].
      cbn in H1, H2. eapply cmp_le_lt_trans; eauto.
  Qed.

  Lemma inv_sorted h lo hi t : inv h lo hi t -> sorted (abs t).
  Proof. intros H. now apply inv_chain_sorted in H. Qed.

  Lemma BTreeInv_sorted t : BTreeInv cmp t -> sorted (abs t).
  Proof. intros [h H]. eapply inv_sorted; eauto. Qed.

  (* ------------------------------------------------------------ height *)
  Lemma inv_chain_height :
    (forall h lo hi t, inv h lo hi t -> height t = h) /\
    (forall h lo hi c rest, chain h lo hi c rest -> height c = h).
  Proof. apply inv_chain_ind; cbn; auto. Qed.

  Lemma inv_height h lo hi t : inv h lo hi t -> height t = h.
  Proof. intros H. now apply inv_chain_height in H. Qed.

  (* separators are what the statement says: max(child_i) <= sep_i < min(child_{i+1}) *)
  Lemma chain_cons_sep h lo hi c s c' rest : chain h lo hi c ((s, c') :: rest) ->
    Forall (fun e => cmp (fst e) s <> Gt) (abs c) /\ Forall (fun e => cmp s (fst e) = Lt) (abs c' ++ abs_rest rest).
  Proof.
    intros H. inversion H; subst. split.
    - eapply Forall_impl; [|eapply inv_bounds; eauto]. intros e [_ Hb]. exact Hb.
    - eapply Forall_impl; [|eapply chain_bounds; eauto]. intros e [Ha _]. exact Ha.
  Qed.

  (* weakening of the outer bounds *)
  Lemma inv_chain_weaken :
    (forall h lo hi t, inv h lo hi t -> forall lo' hi',
        (forall k, lo_ok cmp lo k -> lo_ok cmp lo' k) -> (forall k, hi_ok cmp hi k -> hi_ok cmp hi' k) -> inv h lo' hi' t) /\
    (forall h lo hi c rest, chain h lo hi c rest -> forall lo' hi',
        (forall k, lo_ok cmp lo k -> lo_ok cmp lo' k) -> (forall k, hi_ok cmp hi k -> hi_ok cmp hi' k) -> chain h lo' hi' c rest).
  Proof.
    apply inv_chain_ind.
    - intros lo hi es Hne Hs Hb lo' hi' Hl Hh. constructor; auto.
      eapply Forall_impl; [|exact Hb]. intros e [Ha Hb']. split; auto.
    - intros h lo hi c0 rest Hne Hc IH lo' hi' Hl Hh. constructor; auto.
    - intros h lo hi c Hi IH lo' hi' Hl Hh. constructor; auto.
    - intros h lo hi c s c' rest Hi IH1 Hc IH2 lo' hi' Hl Hh. constructor; auto.
  Qed.

  Lemma inv_weaken_none h lo hi t : inv h lo hi t -> inv h None None t.
  Proof. intros H. eapply (proj1 inv_chain_weaken); eauto; cbn; auto. Qed.

  (* ------------------------------------------------------------ checker soundness *)
  Lemma lo_okb_sound lo k : lo_okb cmp lo k = true -> lo_ok cmp lo k.
  Proof. destruct lo; cbn; auto. apply klt_iff; auto. Qed.

  Lemma hi_okb_sound hi k : hi_okb cmp hi k = true -> hi_ok cmp hi k.
  Proof. destruct hi; cbn; auto. apply kle_iff; auto. Qed.

  Lemma checkb_sound t : forall lo hi h, checkb cmp lo hi t = Some h -> inv h lo hi t.
  Proof.
    induction t as [es|c0 rest IH0 IHr] using node_ind2; intros lo hi h.
    - cbn. destruct es as [|e es]; [discriminate|].
      destruct (sortedb cmp (e :: es) && forallb _ (e :: es)) eqn:E; [|discriminate].
      intros H; inversion H; subst. apply andb_true_iff in E as [E1 E2].
      constructor; [discriminate|now apply sortedb_sound|].
      rewrite forallb_forall in E2. rewrite Forall_forall. intros x Hx. specialize (E2 x Hx).
      apply andb_true_iff in E2 as [E3 E4]. split; [now apply lo_okb_sound|now apply hi_okb_sound].
    - cbn [checkb]. destruct rest as [|p rest]; [discriminate|]. fold (@checkb K V cmp).
      destruct (checkb cmp lo (first_sep (p :: rest) hi) c0) as [h0|] eqn:E0; [|discriminate].
      destruct (check_rest (@checkb K V cmp) h0 hi (p :: rest)) eqn:Eg; [|discriminate].
      intros H; inversion H; subst h. constructor; [discriminate|].
      apply IH0 in E0.
      (* generalise over the current child and lower bound *)
      clear H IH0. revert lo c0 E0 Eg. revert IHr. generalize (p :: rest) as l. clear p rest. intros l IHr.
      induction IHr as [|[s c] l Hc _ IHl]; intros lo c0 E0 Eg.
      + constructor. exact E0.
      + cbn in Eg. cbn [first_sep] in E0.
        destruct (checkb cmp (Some s) (first_sep l hi) c) as [h'|] eqn:Ec; [|discriminate].
        apply andb_true_iff in Eg as [Eh Eg]. apply Nat.eqb_eq in Eh; subst h'.
        constructor; [exact E0|]. apply IHl; auto.
  Qed.

  Theorem wf_check_sound_lemma t : wf_checkb cmp t = true -> BTreeInv cmp t.
  Proof.
    unfold wf_checkb. destruct (checkb cmp None None t) as [h|] eqn:E; [|discriminate].
    intros _. exists h. now apply checkb_sound.
  Qed.

  Lemma tree_check_sound (bt : @btree K V) : tree_checkb cmp bt = true -> TreeInv cmp bt.
  Proof.
    unfold tree_checkb, TreeInv. destruct (bt_root bt) as [t|].
    - intros H. apply andb_true_iff in H as [H1 H2]. split; [now apply wf_check_sound_lemma|now apply N.eqb_eq].
    - apply N.eqb_eq.
  Qed.

End TreeP.
