(* Proofs for the read path: the binary search equals the linear specification on sorted keys,
   routing through separators finds the only child that can contain the key, and every read
   (get / range in both directions / first / last / len) on a well-formed tree returns what the
   SortedMap specification returns on the abstraction. *)
From Coq Require Import List NArith Bool Sorted Lia Arith.
From RV Require Import Base.SortedMap Base.SortedMapP Btree.Tree Btree.TreeP Btree.Read.
Import ListNotations.

Section ListAux.
  Context {A : Type}.
  Lemma sorted_nth_rel (R : A -> A -> Prop) l : StronglySorted R l ->
    forall i j a b, i < j -> nth_error l i = Some a -> nth_error l j = Some b -> R a b.
  Proof.
    induction 1 as [|x l Hs IH Hf]; intros i j a b Hij Ha Hb.
    - destruct i; discriminate.
    - destruct j as [|j]; [lia|]. cbn in Hb. destruct i as [|i]; cbn in Ha.
      + inversion Ha; subst. rewrite Forall_forall in Hf. apply Hf. eapply nth_error_In; eauto.
      + eapply IH; [|eauto|eauto]. lia.
  Qed.

  Lemma Forall_flat_map' {B} (P : B -> Prop) (f : A -> list B) l :
    Forall P (flat_map f l) <-> Forall (fun x => Forall P (f x)) l.
  Proof.
    induction l as [|x l IH]; cbn.
    - split; constructor.
    - rewrite Forall_app, IH. split.
      + intros [H1 H2]. constructor; auto.
      + intros H. inversion H; subst. auto.
  Qed.

  Lemma filter_flat_map {B} (g : B -> bool) (f : A -> list B) l :
    filter g (flat_map f l) = flat_map (fun x => filter g (f x)) l.
  Proof. induction l as [|x l IH]; cbn; [reflexivity|]. now rewrite filter_app, IH. Qed.

  Lemma flat_map_nil_Forall {B} (f : A -> list B) l : Forall (fun x => f x = []) l -> flat_map f l = [].
  Proof. induction 1 as [|x l Hx _ IH]; cbn; [reflexivity|]. now rewrite Hx, IH. Qed.

  Lemma flat_map_ext_Forall {B} (f g : A -> list B) l : Forall (fun x => f x = g x) l -> flat_map f l = flat_map g l.
  Proof. induction 1 as [|x l Hx _ IH]; cbn; [reflexivity|]. now rewrite Hx, IH. Qed.
  Lemma in_firstn' n (l : list A) x : In x (firstn n l) -> In x l.
  Proof. revert l; induction n as [|n IH]; intros [|y l]; cbn; auto; try tauto. intros [H|H]; auto. Qed.

  Lemma in_skipn' n (l : list A) x : In x (skipn n l) -> In x l.
  Proof. revert l; induction n as [|n IH]; intros [|y l]; cbn; auto. Qed.
  Lemma skipn_skipn' a b (l : list A) : skipn a (skipn b l) = skipn (a + b) l.
  Proof.
    revert l; induction b as [|b IH]; intros l.
    - now rewrite Nat.add_0_r.
    - rewrite Nat.add_succ_r. destruct l as [|x l]; cbn [skipn]; [now rewrite !skipn_nil|apply IH].
  Qed.
End ListAux.

Section ReadP.
  Context {K V : Type}.
  Variable cmp : K -> K -> comparison.
  Hypothesis laws : OrderLaws cmp.

  Notation node := (@node K V).
  Notation inv := (@inv K V cmp).
  Notation chain := (@chain K V cmp).
  Notation abs := (@abs K V).
  Notation abs_rest := (@abs_rest K V).
  Notation sorted := (@sorted K V cmp).
  Notation get := (@get K V cmp).
  Implicit Types (t c : node) (rest : list (K * node)) (h : nat) (e : K * V) (k s q : K).

  (* ------------------------------------------------------------ linear specification of the search *)
  Definition gtb q s : bool := match cmp q s with Gt => true | _ => false end.
  Definition lin_index q (ks : list K) : nat := length (take_while (gtb q) ks).
  Definition found_at q (ks : list K) (i : nat) : bool :=
    match nth_error ks i with Some k => keq cmp q k | None => false end.

  Lemma lin_index_le q ks : lin_index q ks <= length ks.
  Proof.
    unfold lin_index. induction ks as [|a ks IH]; cbn; [lia|]. destruct (gtb q a); cbn; lia.
  Qed.

  Lemma lin_index_cons q a ks :
    lin_index q (a :: ks) = match cmp q a with Gt => S (lin_index q ks) | _ => O end.
  Proof. unfold lin_index, gtb. cbn. destruct (cmp q a); reflexivity. Qed.

  Lemma lin_index_char q ks : forall i, i <= length ks ->
    (forall j k, j < i -> nth_error ks j = Some k -> cmp q k = Gt) ->
    (forall k, nth_error ks i = Some k -> cmp q k <> Gt) ->
    lin_index q ks = i.
  Proof.
    induction ks as [|a ks IH]; intros i Hi H1 H2.
    - cbn in Hi. destruct i; [reflexivity|lia].
    - rewrite lin_index_cons. destruct i as [|i].
      + specialize (H2 a eq_refl). destruct (cmp q a); congruence.
      + rewrite (H1 0 a); [|lia|reflexivity]. f_equal. apply IH.
        * cbn in Hi. lia.
        * intros j k Hj Hn. apply (H1 (S j) k); [lia|exact Hn].
        * intros k Hn. apply (H2 k). exact Hn.
  Qed.

  Lemma div2_mid lo hi : lo < hi -> lo <= Nat.div2 (lo + hi) < hi.
  Proof.
    intros H. pose proof (Nat.div2_odd (lo + hi)) as E. destruct (Nat.odd (lo + hi)); cbn [Nat.b2n] in E; lia.
  Qed.

  Lemma bsearch_lin fuel ks q : StronglySorted (fun a b => cmp a b = Lt) ks ->
    forall lo hi, lo <= hi -> hi <= length ks ->
    (forall j k, j < lo -> nth_error ks j = Some k -> cmp q k = Gt) ->
    (forall j k, hi <= j -> nth_error ks j = Some k -> cmp q k = Lt) ->
    hi - lo < fuel ->
    bsearch cmp fuel ks q lo hi = (lin_index q ks, found_at q ks (lin_index q ks)).
  Proof.
    intros Hs. induction fuel as [|f IH]; intros lo hi Hlh Hhl H1 H2 Hf; [lia|].
    cbn [bsearch]. destruct (Nat.ltb lo hi) eqn:El.
    - apply Nat.ltb_lt in El. pose proof (div2_mid lo hi El) as Hm.
      set (mid := Nat.div2 (lo + hi)) in *.
      destruct (nth_error ks mid) as [key|] eqn:En.
      2:{ apply nth_error_None in En. lia. }
      destruct (cmp q key) eqn:Ec.
      + (* found *)
        assert (Hi : lin_index q ks = mid).
        { apply lin_index_char; [lia| |].
          - intros j k Hj Hn. pose proof (sorted_nth_rel _ _ Hs j mid k key Hj Hn En) as Hlt.
            apply (cmp_eq_iff cmp laws) in Ec. subst key. now apply (cmp_gt_lt cmp laws).
          - intros k Hn. rewrite En in Hn. inversion Hn; subst. rewrite Ec. discriminate. }
        rewrite Hi. unfold found_at. rewrite En. unfold keq. now rewrite Ec.
      + apply IH; try lia; auto.
        intros j k Hj Hn. destruct (Nat.eq_dec j mid) as [->|Hne].
        * rewrite En in Hn. inversion Hn; subst. exact Ec.
        * assert (Hlt : cmp key k = Lt) by (eapply (sorted_nth_rel _ _ Hs mid j); eauto; lia).
          eapply (cmp_trans _ laws); eauto.
      + apply IH; try lia; auto.
        intros j k Hj Hn. destruct (Nat.eq_dec j mid) as [->|Hne].
        * rewrite En in Hn. inversion Hn; subst. exact Ec.
        * assert (Hlt : cmp k key = Lt) by (eapply (sorted_nth_rel _ _ Hs j mid); eauto; lia).
          apply (cmp_gt_lt cmp laws). apply (cmp_gt_lt cmp laws) in Ec. eapply (cmp_trans _ laws); eauto.
    - apply Nat.ltb_ge in El. assert (lo = hi) by lia. subst hi.
      assert (Hi : lin_index q ks = lo).
      { apply lin_index_char; [lia|exact H1|].
        intros k Hn. rewrite (H2 lo k); [discriminate|lia|exact Hn]. }
      rewrite Hi. unfold found_at. destruct (nth_error ks lo) as [k|] eqn:En; [|reflexivity].
      unfold keq. rewrite (H2 lo k); [reflexivity|lia|exact En].
  Qed.

  Lemma bsearch_top ks q : StronglySorted (fun a b => cmp a b = Lt) ks ->
    bsearch cmp (S (length ks)) ks q 0 (length ks) = (lin_index q ks, found_at q ks (lin_index q ks)).
  Proof.
    intros Hs. apply bsearch_lin; auto; try lia.
    intros j k Hj Hn. assert (nth_error ks j = None) by (apply nth_error_None; lia). congruence.
  Qed.

  (* ------------------------------------------------------------ leaf lookup *)
  Lemma sorted_keys es : sorted es -> StronglySorted (fun a b => cmp a b = Lt) (List.map fst es).
  Proof.
    induction 1 as [|e es Hs IH Hf]; cbn; constructor; auto.
    rewrite Forall_map. exact Hf.
  Qed.

  Lemma position_lin es q : sorted es ->
    position cmp es q = (lin_index q (List.map fst es), found_at q (List.map fst es) (lin_index q (List.map fst es))).
  Proof.
    intros Hs. unfold position. rewrite <- (map_length fst es). apply bsearch_top. now apply sorted_keys.
  Qed.

  Lemma get_lin es q : sorted es ->
    get es q = match nth_error es (lin_index q (List.map fst es)) with
               | Some (k, v) => if keq cmp q k then Some v else None
               | None => None
               end.
  Proof.
    induction es as [|[k v] es IH]; intros Hs; [reflexivity|].
    apply sorted_cons_inv in Hs as [Hs Hlt]. cbn [List.map fst]. rewrite lin_index_cons. cbn [SortedMap.get].
    destruct (cmp q k) eqn:E; cbn [nth_error]; unfold keq; rewrite ?E; auto.
    apply keys_lt_get_none; auto. eapply Forall_impl; [|exact Hlt]. cbn. intros e He. eapply (cmp_trans _ laws); eauto.
  Qed.

  Lemma leaf_get_correct es q : sorted es -> leaf_get cmp es q = get es q.
  Proof.
    intros Hs. unfold leaf_get. rewrite position_lin, get_lin by assumption.
    set (i := lin_index q (List.map fst es)). unfold found_at. rewrite nth_error_map.
    destruct (nth_error es i) as [[k v]|]; cbn; [|reflexivity]. destruct (keq cmp q k); reflexivity.
  Qed.

  (* ------------------------------------------------------------ routing *)
  Lemma children_cons c s c' rest : children c ((s, c') :: rest) = c :: children c' rest.
  Proof. reflexivity. Qed.

  Lemma abs_children c rest : flat_map abs (children c rest) = abs c ++ abs_rest rest.
  Proof.
    unfold children. cbn. f_equal. unfold TreeP.abs_rest. induction rest as [|[s c'] rest IH]; cbn; [reflexivity|]. now rewrite IH.
  Qed.

  Lemma children_length c rest : length (children c rest) = S (length rest).
  Proof. unfold children. cbn. now rewrite map_length. Qed.

  Lemma chain_children_bounds h lo hi c rest : chain h lo hi c rest ->
    Forall (fun c' => Forall (in_bounds cmp lo hi) (abs c')) (children c rest).
  Proof.
    intros H. apply Forall_flat_map'. rewrite abs_children. eapply chain_bounds; eauto.
  Qed.

  Lemma chain_children_inv h lo hi c rest : chain h lo hi c rest ->
    Forall (fun c' => exists lo' hi', inv h lo' hi' c') (children c rest).
  Proof.
    induction 1 as [h lo hi c Hi|h lo hi c s c' rest Hi Hc IH].
    - constructor; [eauto|constructor].
    - rewrite children_cons. constructor; eauto.
  Qed.

  Lemma chain_seps_lo h lo hi c rest : chain h lo hi c rest -> Forall (lo_ok cmp lo) (seps rest).
  Proof.
    induction 1 as [h lo hi c Hi|h lo hi c s c' rest Hi Hc IH]; cbn; constructor.
    - pose proof (inv_nonempty cmp laws _ _ _ _ Hi) as Hne. pose proof (inv_bounds cmp laws _ _ _ _ Hi) as Hb.
      destruct (abs c) as [|e l]; [congruence|]. inversion Hb as [|? ? [Ha Hb'] _]; subst.
      cbn in Hb'. eapply lo_ok_weaken; eauto.
    - assert (Hls : lo_ok cmp lo s).
      { pose proof (inv_nonempty cmp laws _ _ _ _ Hi) as Hne. pose proof (inv_bounds cmp laws _ _ _ _ Hi) as Hb.
        destruct (abs c) as [|e l]; [congruence|]. inversion Hb as [|? ? [Ha Hb'] _]; subst.
        cbn in Hb'. eapply lo_ok_weaken; eauto. }
      eapply Forall_impl; [|exact IH]. intros s' Hs'. cbn in Hs'.
      eapply lo_ok_weaken; eauto. rewrite Hs'. discriminate.
  Qed.

  Lemma chain_seps_sorted h lo hi c rest : chain h lo hi c rest ->
    StronglySorted (fun a b => cmp a b = Lt) (seps rest).
  Proof.
    induction 1 as [h lo hi c Hi|h lo hi c s c' rest Hi Hc IH]; cbn; constructor; auto.
    apply chain_seps_lo in Hc. exact Hc.
  Qed.

  Lemma child_for_key_lin h lo hi c rest q : chain h lo hi c rest ->
    child_for_key cmp rest q = lin_index q (seps rest).
  Proof.
    intros Hc. unfold child_for_key. rewrite <- (map_length fst rest). fold (seps rest).
    rewrite bsearch_top; [reflexivity|]. eapply chain_seps_sorted; eauto.
  Qed.

  Definition all_lt q (c : node) : Prop := Forall (fun e => cmp (fst e) q = Lt) (abs c).
  Definition all_gt q (c : node) : Prop := Forall (fun e => cmp q (fst e) = Lt) (abs c).

  Lemma chain_left_of h lo hi c rest q : chain h lo hi c rest ->
    Forall (all_lt q) (firstn (lin_index q (seps rest)) (children c rest)).
  Proof.
    induction 1 as [h lo hi c Hi|h lo hi c s c' rest Hi Hc IH]; cbn [seps List.map fst].
    - cbn. constructor.
    - rewrite lin_index_cons, children_cons. destruct (cmp q s) eqn:E; cbn [firstn]; try constructor; auto.
      apply (cmp_gt_lt cmp laws) in E.
      eapply Forall_impl; [|eapply inv_bounds; eauto]. intros e [_ Hb]. cbn in Hb. eapply cmp_le_lt_trans; eauto.
  Qed.

  Lemma chain_right_of h lo hi c rest q : chain h lo hi c rest ->
    Forall (all_gt q) (skipn (S (lin_index q (seps rest))) (children c rest)).
  Proof.
    induction 1 as [h lo hi c Hi|h lo hi c s c' rest Hi Hc IH]; cbn [seps List.map fst].
    - cbn. constructor.
    - rewrite lin_index_cons, children_cons.
      assert (Hall : cmp q s <> Gt -> Forall (all_gt q) (children c' rest)).
      { intros Hq. eapply Forall_impl; [|eapply chain_children_bounds; eauto].
        intros c1 Hc1. eapply Forall_impl; [|exact Hc1]. intros e [Ha _]. cbn in Ha.
        eapply cmp_le_lt_trans; eauto. }
      destruct (cmp q s) eqn:E; cbn [skipn]; try (apply Hall; congruence). exact IH.
  Qed.

  Lemma nth_child_cons c s c' rest i : i <= length rest ->
    nth_child c ((s, c') :: rest) (S i) = nth_child c' rest i.
  Proof.
    intros Hi. unfold nth_child. rewrite children_cons. cbn [nth]. apply nth_indep. rewrite children_length. lia.
  Qed.

  Lemma children_split c rest i : i <= length rest ->
    children c rest = firstn i (children c rest) ++ nth_child c rest i :: skipn (S i) (children c rest).
  Proof.
    intros Hi. unfold nth_child.
    rewrite <- (firstn_skipn i (children c rest)) at 1. f_equal.
    assert (Hl : i < length (children c rest)) by (rewrite children_length; lia).
    revert Hl. generalize (children c rest) as l. clear. intros l. revert i.
    induction l as [|x l IH]; intros [|i] Hl; cbn in *; try lia; auto.
    apply IH. lia.
  Qed.

  Lemma nth_child_inv h lo hi c rest i : chain h lo hi c rest -> i <= length rest ->
    exists lo' hi', inv h lo' hi' (nth_child c rest i).
  Proof.
    intros Hc Hi. apply chain_children_inv in Hc. rewrite Forall_forall in Hc. apply Hc.
    unfold nth_child. apply nth_In. rewrite children_length. lia.
  Qed.

  (* the abstraction splits around the routed child: everything left is smaller than q, everything right is greater *)
  Lemma chain_route h lo hi c rest q : chain h lo hi c rest ->
    let i := lin_index q (seps rest) in
    exists L R, abs c ++ abs_rest rest = L ++ abs (nth_child c rest i) ++ R /\
                Forall (fun e => cmp (fst e) q = Lt) L /\ Forall (fun e => cmp q (fst e) = Lt) R.
  Proof.
    intros Hc i.
    assert (Hi : i <= length rest) by (unfold i; rewrite <- (map_length fst rest); apply lin_index_le).
    exists (flat_map abs (firstn i (children c rest))), (flat_map abs (skipn (S i) (children c rest))).
    split; [|split].
    - rewrite <- abs_children. rewrite (children_split c rest i Hi) at 1. rewrite flat_map_app. reflexivity.
    - apply Forall_flat_map'. apply (chain_left_of _ _ _ _ _ q Hc).
    - apply Forall_flat_map'. apply (chain_right_of _ _ _ _ _ q Hc).
  Qed.

  Lemma get_sandwich (L X R : list (K * V)) q :
    Forall (fun e => cmp (fst e) q = Lt) L -> Forall (fun e => cmp q (fst e) = Lt) R ->
    get (L ++ X ++ R) q = get X q.
  Proof.
    intros HL HR. rewrite !get_app. rewrite (keys_gt_get_none cmp laws q L HL).
    destruct (get X q); [reflexivity|]. apply (keys_lt_get_none cmp q R HR).
  Qed.

  (* ------------------------------------------------------------ get *)
  Lemma inv_0_leaf lo hi t : inv 0 lo hi t -> exists es, t = Leaf es.
  Proof. intros H. inversion H; subst. eauto. Qed.

  Lemma get_sub_correct fuel : forall t h lo hi q, inv h lo hi t -> h <= fuel ->
    get_sub cmp fuel t q = get (abs t) q.
  Proof.
    induction fuel as [|f IH]; intros t h lo hi q Hi Hf.
    - assert (h = 0) by lia. subst. destruct (inv_0_leaf _ _ _ Hi) as [es ->].
      inversion Hi; subst. cbn. now apply leaf_get_correct.
    - inversion Hi as [lo0 hi0 es Hne Hs Hb|h' lo0 hi0 c0 rest Hne Hc]; subst.
      + cbn. now apply leaf_get_correct.
      + cbn [get_sub]. rewrite (child_for_key_lin _ _ _ _ _ q Hc).
        destruct (chain_route _ _ _ _ _ q Hc) as (L & R & Habs & HL & HR).
        rewrite abs_branch, Habs, get_sandwich by assumption.
        set (i := lin_index q (seps rest)).
        assert (Hi' : i <= length rest) by (unfold i; rewrite <- (map_length fst rest); apply lin_index_le).
        destruct (nth_child_inv _ _ _ _ _ i Hc Hi') as (lo' & hi' & Hci).
        eapply IH; [exact Hci|lia].
  Qed.

  (* ------------------------------------------------------------ first / last *)
  Lemma first_sub_correct fuel : forall t h lo hi, inv h lo hi t -> h <= fuel ->
    first_sub fuel t = first (abs t).
  Proof.
    induction fuel as [|f IH]; intros t h lo hi Hi Hf.
    - assert (h = 0) by lia. subst. destruct (inv_0_leaf _ _ _ Hi) as [es ->]. reflexivity.
    - inversion Hi as [lo0 hi0 es Hne Hs Hb|h' lo0 hi0 c0 rest Hne Hc]; subst; [reflexivity|].
      cbn [first_sub]. rewrite abs_branch.
      assert (Hc0 : exists hi', inv h' lo hi' c0) by (inversion Hc; subst; eauto).
      destruct Hc0 as [hi' Hc0]. rewrite (IH c0 h' lo hi' Hc0) by lia.
      pose proof (inv_nonempty cmp laws _ _ _ _ Hc0) as Hne0.
      destruct (abs c0); [congruence|reflexivity].
  Qed.

  Lemma last_opt_app_nonempty {A} (l1 l2 : list A) : l2 <> [] -> last_opt (l1 ++ l2) = last_opt l2.
  Proof.
    intros Hne. destruct (exists_last Hne) as [l' [x ->]]. rewrite app_assoc, !last_opt_app. reflexivity.
  Qed.

  Lemma chain_last_child h lo hi c rest : chain h lo hi c rest ->
    exists lo', inv h lo' hi (nth_child c rest (length rest)) /\
    exists L, abs c ++ abs_rest rest = L ++ abs (nth_child c rest (length rest)).
  Proof.
    induction 1 as [h lo hi c Hi|h lo hi c s c' rest Hi Hc IH].
    - exists lo. split; [exact Hi|]. exists []. cbn. now rewrite app_nil_r.
    - destruct IH as (lo' & Hl & L & HL). exists lo'. cbn [length].
      rewrite nth_child_cons by lia. split; [exact Hl|].
      exists (abs c ++ L). rewrite abs_rest_cons, HL. now rewrite app_assoc.
  Qed.

  Lemma last_sub_correct fuel : forall t h lo hi, inv h lo hi t -> h <= fuel ->
    last_sub fuel t = last (abs t).
  Proof.
    induction fuel as [|f IH]; intros t h lo hi Hi Hf.
    - assert (h = 0) by lia. subst. destruct (inv_0_leaf _ _ _ Hi) as [es ->]. reflexivity.
    - inversion Hi as [lo0 hi0 es Hne Hs Hb|h' lo0 hi0 c0 rest Hne Hc]; subst; [reflexivity|].
      cbn [last_sub]. rewrite abs_branch.
      destruct (chain_last_child _ _ _ _ _ Hc) as (lo' & Hl & L & HL).
      rewrite (IH _ h' lo' hi Hl) by lia. rewrite HL. unfold last.
      symmetry. apply last_opt_app_nonempty. eapply inv_nonempty; eauto.
  Qed.

  (* ------------------------------------------------------------ range *)
  Lemma range_nil_all_lt (lo hi : bound K) q c :
    (lo = Included q \/ lo = Excluded q) -> all_lt q c -> range cmp (abs c) lo hi = [].
  Proof.
    intros Hlo Hc. unfold range. apply filter_Forall_nil. eapply Forall_impl; [|exact Hc].
    intros e He. cbn in He. unfold in_range. apply andb_false_iff. left.
    destruct Hlo as [-> | ->]; cbn.
    - now apply (kle_false_iff cmp laws).
    - apply (klt_false_iff cmp laws). rewrite He. discriminate.
  Qed.

  Lemma range_nil_all_gt (lo hi : bound K) q c :
    (hi = Included q \/ hi = Excluded q) -> all_gt q c -> range cmp (abs c) lo hi = [].
  Proof.
    intros Hhi Hc. unfold range. apply filter_Forall_nil. eapply Forall_impl; [|exact Hc].
    intros e He. cbn in He. unfold in_range. apply andb_false_iff. right.
    destruct Hhi as [-> | ->]; cbn.
    - now apply (kle_false_iff cmp laws).
    - apply (klt_false_iff cmp laws). rewrite He. discriminate.
  Qed.

  Lemma range_sub_correct fuel : forall t h lo' hi' (lo hi : bound K), inv h lo' hi' t -> h <= fuel ->
    range_sub cmp fuel t lo hi = range cmp (abs t) lo hi.
  Proof.
    induction fuel as [|f IH]; intros t h lo' hi' lo hi Hi Hf.
    - assert (h = 0) by lia. subst. destruct (inv_0_leaf _ _ _ Hi) as [es ->]. reflexivity.
    - inversion Hi as [lo0 hi0 es Hne Hs Hb|h' lo0 hi0 c0 rest Hne Hc]; subst; [reflexivity|].
      cbn [range_sub]. rewrite abs_branch, <- abs_children. unfold range. rewrite filter_flat_map.
      set (cs := children c0 rest). set (i := lo_child cmp rest lo). set (j := hi_child cmp rest hi).
      set (g := fun c : node => filter (fun e => in_range cmp lo hi (fst e)) (abs c)).
      assert (Hg : forall c, g c = range cmp (abs c) lo hi) by reflexivity.
      (* children left of i contribute nothing *)
      assert (HA : flat_map g (firstn i cs) = []).
      { apply flat_map_nil_Forall. unfold i, lo_child. destruct lo as [|q|q].
        - cbn. constructor.
        - rewrite (child_for_key_lin _ _ _ _ _ q Hc). eapply Forall_impl; [|apply (chain_left_of _ _ _ _ _ q Hc)].
          intros c Hcl. rewrite Hg. eapply range_nil_all_lt; eauto.
        - rewrite (child_for_key_lin _ _ _ _ _ q Hc). eapply Forall_impl; [|apply (chain_left_of _ _ _ _ _ q Hc)].
          intros c Hcl. rewrite Hg. eapply range_nil_all_lt; eauto. }
      (* children right of j contribute nothing *)
      assert (HB : flat_map g (skipn (S j) cs) = []).
      { apply flat_map_nil_Forall. unfold j, hi_child. destruct hi as [|q|q].
        - rewrite skipn_all2; [constructor|]. unfold cs. rewrite children_length. lia.
        - rewrite (child_for_key_lin _ _ _ _ _ q Hc). eapply Forall_impl; [|apply (chain_right_of _ _ _ _ _ q Hc)].
          intros c Hcl. rewrite Hg. eapply range_nil_all_gt; eauto.
        - rewrite (child_for_key_lin _ _ _ _ _ q Hc). eapply Forall_impl; [|apply (chain_right_of _ _ _ _ _ q Hc)].
          intros c Hcl. rewrite Hg. eapply range_nil_all_gt; eauto. }
      (* the visited children agree by induction *)
      assert (HC : forall l, incl l cs -> flat_map (fun c => range_sub cmp f c lo hi) l = flat_map g l).
      { intros l Hl. apply flat_map_ext_Forall. rewrite Forall_forall. intros c Hin. apply Hl in Hin.
        pose proof (chain_children_inv _ _ _ _ _ Hc) as Hall. rewrite Forall_forall in Hall.
        destruct (Hall c Hin) as (lo1 & hi1 & Hci). rewrite Hg. eapply IH; [exact Hci|lia]. }
      rewrite HC.
      2:{ intros x Hx. apply in_firstn' in Hx. eapply in_skipn'; eauto. }
      (* cs = firstn i ++ middle ++ tail, and tail is a suffix of skipn (S j) or of ... *)
      rewrite <- (firstn_skipn i cs) at 2. rewrite flat_map_app, HA. cbn [app].
      rewrite <- (firstn_skipn (S j - i) (skipn i cs)) at 2. rewrite flat_map_app.
      assert (HD : flat_map g (skipn (S j - i) (skipn i cs)) = []).
      { rewrite skipn_skipn'.
        destruct (le_lt_dec i (S j)) as [Hle|Hgt].
        - replace (S j - i + i) with (S j) by lia. exact HB.
        - replace (S j - i + i) with i by lia.
          (* i > S j : skipn i cs is a suffix of skipn (S j) cs *)
          replace i with ((i - S j) + S j) by lia. rewrite <- skipn_skipn'.
          apply flat_map_nil_Forall.
          assert (HB' : Forall (fun c => g c = []) (skipn (S j) cs)).
          { clear -HB. induction (skipn (S j) cs) as [|x l IHl]; [constructor|].
            cbn in HB. apply app_eq_nil in HB as [H1 H2]. constructor; auto. }
          rewrite Forall_forall in *. intros c Hin. apply HB'. eapply in_skipn'; eauto. }
      rewrite HD, app_nil_r. reflexivity.
  Qed.

  (* ------------------------------------------------------------ table level *)
  Notation TreeInv := (@TreeInv K V cmp).

  Lemma tget_correct bt q : TreeInv bt -> tget cmp bt q = get (abs_tree bt) q.
  Proof.
    unfold TreeInv, tget, abs_tree. destruct (bt_root bt) as [t|]; [|reflexivity].
    intros [[h Hi] _]. eapply get_sub_correct; eauto. unfold fuel_of.
    rewrite (inv_height cmp _ _ _ _ Hi). lia.
  Qed.

  Lemma tfirst_correct bt : TreeInv bt -> tfirst bt = first (abs_tree bt).
  Proof.
    unfold TreeInv, tfirst, abs_tree. destruct (bt_root bt) as [t|]; [|reflexivity].
    intros [[h Hi] _]. eapply first_sub_correct; eauto. unfold fuel_of.
    rewrite (inv_height cmp _ _ _ _ Hi). lia.
  Qed.

  Lemma tlast_correct bt : TreeInv bt -> tlast bt = last (abs_tree bt).
  Proof.
    unfold TreeInv, tlast, abs_tree. destruct (bt_root bt) as [t|]; [|reflexivity].
    intros [[h Hi] _]. eapply last_sub_correct; eauto. unfold fuel_of.
    rewrite (inv_height cmp _ _ _ _ Hi). lia.
  Qed.

  Lemma trange_correct bt lo hi : TreeInv bt -> trange cmp bt lo hi = range cmp (abs_tree bt) lo hi.
  Proof.
    unfold TreeInv, trange, abs_tree. destruct (bt_root bt) as [t|]; [|reflexivity].
    intros [[h Hi] _]. destruct (bounds_empty cmp lo hi) eqn:Eb.
    - symmetry. now apply bounds_empty_range.
    - eapply range_sub_correct; eauto. unfold fuel_of. rewrite (inv_height cmp _ _ _ _ Hi). lia.
  Qed.

  Lemma tlen_correct bt : TreeInv bt -> tlen bt = len (abs_tree bt).
  Proof.
    unfold TreeInv, tlen, abs_tree. destruct (bt_root bt) as [t|]; [|auto]. intros [_ H]. exact H.
  Qed.

  Theorem read_correct_lemma bt : TreeInv bt -> forall qu : SortedMap.query, query cmp bt qu = run_query cmp (abs_tree bt) qu.
  Proof.
    intros Hi qu. destruct qu; cbn.
    - now rewrite tget_correct.
    - now rewrite trange_correct.
    - unfold range_rev. now rewrite trange_correct.
    - now rewrite tfirst_correct.
    - now rewrite tlast_correct.
    - now rewrite tlen_correct.
  Qed.

End ReadP.
