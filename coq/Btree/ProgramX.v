(* Programs over the writers proved so far -- the operations of Mutator.v (reads, insert, remove,
   pop_first, pop_last), the guard operations of Guard.v (insert_reserve, get_mut +
   AccessGuardMut::insert, the entry API) and retain / retain_in (Scan.v over ScanTree.v) -- refine the
   sorted-map specification.  NOT covered: extract_if / extract_from_if (modelled in RangeMut.v, validated
   per run). *)
From Coq Require Import List NArith Bool.
From RV Require Import Base.SortedMap Base.SortedMapP Btree.Tree Btree.TreeP Btree.Read Btree.ReadP
  Btree.Mutator Btree.MutatorP Btree.DeleteP Btree.ProgramP Btree.Guard Btree.GuardP
  Btree.Scan Btree.ScanTree Btree.RetainTreeP.
Import ListNotations.

Section ProgramX.
  Context {K V : Type}.
  Variable cmp : K -> K -> comparison.
  Hypothesis laws : OrderLaws cmp.
  Variable ksize : K -> N.
  Variable vsize : V -> N.
  Variable fixed_k fixed_v : bool.
  Variable page_size : N.
  Variable sep : K -> K -> K.
  Variable inplace : list (K * V) -> K -> V -> bool.
  Variable blank : V -> V.
  Hypothesis Hsep : valid_sep cmp sep.

  Inductive xop : Type :=
  | XBase (o : @tree_op K V)
  | XGuard (g : @gop K V)
  | XRetain (p : K -> V -> bool)
  | XRetainIn (lo hi : bound K) (p : K -> V -> bool).

  Definition apply_xop (bt : @btree K V) (o : xop) : @SortedMap.out K V * @btree K V :=
    match o with
    | XBase b => apply_tree_op cmp ksize vsize fixed_k fixed_v page_size sep inplace bt b
    | XGuard g => apply_gop cmp ksize vsize fixed_k fixed_v page_size sep inplace blank bt g
    | XRetain p => (OUnit, t_retain_in cmp ksize vsize fixed_k fixed_v page_size sep bt Unbounded Unbounded p)
    | XRetainIn lo hi p => (OUnit, t_retain_in cmp ksize vsize fixed_k fixed_v page_size sep bt lo hi p)
    end.

  Definition spec_xop (m : @SortedMap.map K V) (o : xop) : @SortedMap.out K V * @SortedMap.map K V :=
    match o with
    | XBase b => apply_op cmp m (spec_op b)
    | XGuard g => spec_gop cmp m g
    | XRetain p => apply_op cmp m (OpRetain p)
    | XRetainIn lo hi p => apply_op cmp m (OpRetainIn lo hi p)
    end.

  Fixpoint run_x (ops : list xop) (bt : @btree K V) : list (@SortedMap.out K V) * @btree K V :=
    match ops with
    | [] => ([], bt)
    | o :: r => let '(x, bt') := apply_xop bt o in let '(xs, bt'') := run_x r bt' in (x :: xs, bt'')
    end.

  Fixpoint spec_run_x (ops : list xop) (m : @SortedMap.map K V) : list (@SortedMap.out K V) * @SortedMap.map K V :=
    match ops with
    | [] => ([], m)
    | o :: r => let '(x, m') := spec_xop m o in let '(xs, m'') := spec_run_x r m' in (x :: xs, m'')
    end.

  Lemma apply_xop_refines (bt : @btree K V) o : TreeInv cmp bt ->
    let '(x, bt') := apply_xop bt o in
    TreeInv cmp bt' /\ (x, abs_tree bt') = spec_xop (abs_tree bt) o.
  Proof.
    intros Hi. destruct o as [b|g|p|lo hi p]; cbn [apply_xop spec_xop apply_op].
    - apply (apply_tree_op_refines cmp laws ksize vsize fixed_k fixed_v page_size sep inplace Hsep bt b Hi).
    - apply (apply_gop_refines cmp laws ksize vsize fixed_k fixed_v page_size sep Hsep inplace blank bt g Hi).
    - destruct (t_retain_refines cmp laws ksize vsize fixed_k fixed_v page_size sep Hsep bt Unbounded Unbounded p Hi) as [H1 H2].
      split; [exact H1|]. rewrite H2. now rewrite (retain_in_full cmp).
    - destruct (t_retain_refines cmp laws ksize vsize fixed_k fixed_v page_size sep Hsep bt lo hi p Hi) as [H1 H2].
      split; [exact H1|]. now rewrite H2.
  Qed.

  Theorem program_x_refines_lemma ops : forall (bt : @btree K V), TreeInv cmp bt ->
    let '(xs, bt') := run_x ops bt in
    TreeInv cmp bt' /\ (xs, abs_tree bt') = spec_run_x ops (abs_tree bt).
  Proof.
    induction ops as [|o r IH]; intros bt Hi; cbn [run_x spec_run_x].
    - split; [exact Hi|reflexivity].
    - pose proof (apply_xop_refines bt o Hi) as H1.
      destruct (apply_xop bt o) as [x bt1]. destruct H1 as [Hi1 E1]. rewrite <- E1.
      specialize (IH bt1 Hi1). destruct (run_x r bt1) as [xs bt2]. destruct IH as [Hi2 E2].
      rewrite <- E2. split; [exact Hi2|reflexivity].
  Qed.
End ProgramX.
