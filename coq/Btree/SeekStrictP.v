(* Seeking PBefore k: every entry in the leaves after the leaf landed on is strictly greater than k. *)
From Coq Require Import List NArith Bool Sorted Lia Arith.
From RV Require Import Base.SortedMap Base.SortedMapP Btree.Tree Btree.TreeP Btree.Read Btree.ReadP
  Btree.Mutator Btree.MutatorP Btree.DeleteP Btree.Scan Btree.ScanTree Btree.ScanTreeP Btree.ScanP.
Import ListNotations.

Section SeekStrictP.
  Context {K V : Type}.
  Variable cmp : K -> K -> comparison.
  Hypothesis laws : OrderLaws cmp.

  Notation node := (@node K V).
  Notation inv := (@inv K V cmp).
  Notation chain := (@chain K V cmp).
  Notation abs := (@abs K V).
  Notation leaves := (@leaves K V).
  Notation nleaves := (@nleaves K V).
  Implicit Types (t c : node) (rest : list (K * node)) (h : nat) (lo hi : option K).

  Lemma seek_sub_before_strict fuel : forall t h lo hi k, inv h lo hi t -> h <= fuel ->
    let '(j, i) := seek_sub cmp fuel t (PBefore k) in
    Forall (fun e : K * V => cmp k (fst e) = Lt) (post_l t j).
  Proof.
    induction fuel as [|f IH]; intros t h lo hi k Hi Hf.
    - assert (h = 0) by lia. subst. destruct (inv_0_leaf cmp _ _ _ Hi) as [es ->].
      cbn [seek_sub]. unfold post_l. cbn. constructor.
    - inversion Hi as [lo0 hi0 es Hne Hs Hb|h' lo0 hi0 c0 rest Hne Hc]; subst.
      + cbn [seek_sub]. unfold post_l. cbn. constructor.
      + cbn [seek_sub].
        set (ci := child_for_key cmp rest k).
        assert (Hc1 : ci <= length rest).
        { unfold ci. rewrite (child_for_key_lin cmp laws _ _ _ _ _ _ Hc), <- (map_length fst rest). apply lin_index_le. }
        pose proof (chain_child_inv cmp _ _ _ _ _ Hc ci Hc1) as Hci.
        pose proof (seek_sub_spec cmp laws f (nth_child c0 rest ci) h' _ _ (PBefore k) Hci ltac:(lia)) as Hsp.
        specialize (IH (nth_child c0 rest ci) h' _ _ k Hci ltac:(lia)).
        destruct (seek_sub cmp f (nth_child c0 rest ci) (PBefore k)) as [j' x]. destruct Hsp as (I1 & _).
        assert (Hcl : ci < length (children c0 rest)) by (rewrite children_length; lia).
        assert (Hj'n : j' < nleaves (nth ci (children c0 rest) (Leaf []))) by (rewrite nth_children_nth_child; assumption).
        assert (Hjn : leaves_before (children c0 rest) ci + j' < nleaves (Branch c0 rest)).
        { unfold nleaves. rewrite leaves_branch. now apply leaves_before_lt. }
        pose proof (view_branch c0 rest _ Hjn) as Hv. rewrite (locate_child _ ci j' Hcl Hj'n) in Hv.
        destruct Hv as (_ & _ & _ & _ & V3). rewrite V3.
        apply Forall_app. split; [exact IH|].
        unfold post_abs, ci. rewrite (child_for_key_lin cmp laws _ _ _ _ _ k Hc). apply Forall_flat_map'.
        eapply Forall_impl; [|apply (chain_right_of cmp laws _ _ _ _ _ k Hc)]. intros c1 H1. exact H1.
  Qed.

  Lemma root_of' (bt : @btree K V) : TreeInv cmp bt -> bt_leaves bt <> [] ->
    exists t h, bt_root bt = Some t /\ inv h None None t /\ h <= fuel_of t.
  Proof.
    intros Hi Hne. unfold TreeInv, bt_leaves in *. destruct (bt_root bt) as [t|]; [|congruence].
    destruct Hi as [[h Hi] Hl]. exists t, h. repeat split; auto; unfold fuel_of; rewrite (inv_height cmp _ _ _ _ Hi); lia.
  Qed.

  Lemma t_seek_before_strict (bt : @btree K V) k : TreeInv cmp bt -> bt_leaves bt <> [] ->
    let '(j, i) := t_seek cmp bt (PBefore k) in
    Forall (fun e : K * V => cmp k (fst e) = Lt) (ScanP.post (@bt_leaves K V) bt j).
  Proof.
    intros Hi Hne. destruct (root_of' bt Hi Hne) as (t & h & Er & Hinv & Hf).
    unfold ScanTree.t_seek, ScanP.post, bt_leaves. rewrite Er.
    pose proof (seek_sub_before_strict (fuel_of t) t h None None k Hinv Hf) as H.
    destruct (seek_sub cmp (fuel_of t) t (PBefore k)) as [j i]. exact H.
  Qed.
End SeekStrictP.

