(* Erasure of the decorated cursor model: erasing the decorations (dirty flags, allocated lengths) of the shape
   model commutes with a whole cursor session,
       erase (s_session st lower b ops) = t_session (erase st) lower b ops        (outputs equal, trees erased),
   so that CursorSessionP.tree_session_refines is a theorem about the trees of ShapeCursor.v -- the trees the check
   compares node by node with the real B-tree after every cursor session.
   Part 1: the list-level functions of CursorSplice.v (polymorphic in the node type) commute with any map of the
   node type that commutes with the page constructor.  Part 2: leaves / locate / build_replacement_leaves /
   splice_sub / splice_insert_run on snode.  Part 3: the session machine commutes with any map of the store that
   commutes with leaves / splice / delete_key. *)
From Coq Require Import List NArith Bool Arith Lia.
From RV Require Import Base.SortedMap Btree.Tree Btree.Read Btree.Mutator Btree.Shape Btree.ShapeP Btree.Scan
                       Btree.ScanTree Btree.ShapeScan Btree.Cursor Btree.CursorSplice Btree.ShapeCursor
                       Base.SortedMapP Btree.CursorSession Btree.CursorSessionP.
Import ListNotations.

(* ---------------------------------------------------------------- part 1: generic *)
Lemma fix_last_cons {K A : Type} (x : A * option K) (r0 : list (A * option K)) (stored : option K) :
  r0 <> [] -> fix_last (x :: r0) stored = x :: fix_last r0 stored.
Proof. destruct x as [n [k|]]; destruct r0; try congruence; reflexivity. Qed.

Section GenericMap.
  Context {K T U : Type}.
  Variable cmp : K -> K -> comparison.
  Variable ksize : K -> N.
  Variable fixed_k : bool.
  Variable page_size : N.
  Variable mkb1 : T -> list (K * T) -> T.
  Variable mkb2 : U -> list (K * U) -> U.
  Variable dflt : K.
  Variable f : T -> U.
  Hypothesis Hmkb : forall c l, f (mkb1 c l) = mkb2 (f c) (List.map (fun p => (fst p, f (snd p))) l).

  Definition fs (p : T * option K) : U * option K := (f (fst p), snd p).
  Notation em := (List.map fs).

  Lemma nlen_map {A B} (g : A -> B) l : nlen (List.map g l) = nlen l.
  Proof. unfold nlen. now rewrite map_length. Qed.

  Lemma bb_plan_map guard : forall cs cur kb,
    bb_plan ksize fixed_k page_size dflt guard (em cur) kb (em cs) =
    List.map em (bb_plan ksize fixed_k page_size dflt guard cur kb cs).
  Proof.
    induction cs as [|c r IH]; intros cur kb; cbn [List.map bb_plan].
    - now rewrite map_rev.
    - rewrite nlen_map.
      assert (E : match em cur with p :: _ => ksize (sep_of dflt p) | [] => 0%N end =
                  match cur with p :: _ => ksize (sep_of dflt p) | [] => 0%N end) by (destruct cur; reflexivity).
      rewrite E. destruct (_ && _).
      + cbn [List.map]. rewrite map_rev. f_equal. exact (IH [c] 0%N).
      + exact (IH (c :: cur) _).
  Qed.

  Lemma split_last2_map {A B} (g : A -> B) : forall l,
    split_last2 (List.map g l) =
    match split_last2 l with Some (p, a, b) => Some (List.map g p, g a, g b) | None => None end.
  Proof.
    induction l as [|x r IH]; [reflexivity|].
    destruct r as [|y [|z r']]; [reflexivity|reflexivity|].
    change (split_last2 (List.map g (x :: y :: z :: r'))) with
      (match split_last2 (List.map g (y :: z :: r')) with Some (p, a, b) => Some (g x :: p, a, b) | None => None end).
    rewrite IH.
    change (split_last2 (x :: y :: z :: r')) with
      (match split_last2 (y :: z :: r') with Some (p, a, b) => Some (x :: p, a, b) | None => None end).
    destruct (split_last2 (y :: z :: r')) as [[[p a] b]|]; reflexivity.
  Qed.

  Lemma last_opt_map {A B} (g : A -> B) : forall l, last_opt (List.map g l) = option_map g (last_opt l).
  Proof. induction l as [|x [|y r] IH]; [reflexivity|reflexivity|]. exact IH. Qed.

  Lemma removelast_map {A B} (g : A -> B) : forall l, removelast (List.map g l) = List.map g (removelast l).
  Proof. induction l as [|x [|y r] IH]; [reflexivity|reflexivity|]. cbn [List.map removelast] in *. now rewrite IH. Qed.

  Lemma bb_fixup_map plan : bb_fixup (List.map em plan) = List.map em (bb_fixup plan).
  Proof.
    unfold bb_fixup. rewrite split_last2_map. destruct (split_last2 plan) as [[[p prev] l]|]; [|reflexivity].
    destruct l as [|x [|y l']]; cbn [List.map]; [reflexivity| |reflexivity].
    rewrite nlen_map. destruct (65535 <? nlen prev)%N.
    - rewrite last_opt_map. destruct (last_opt prev) as [y|]; cbn [option_map]; [|reflexivity].
      rewrite map_app. cbn [List.map]. now rewrite removelast_map.
    - rewrite map_app. cbn [List.map]. now rewrite map_app.
  Qed.

  Lemma pair_up_map : forall l prev,
    pair_up dflt (fs prev) (em l) = List.map (fun p => (fst p, f (snd p))) (pair_up dflt prev l).
  Proof. induction l as [|x r IH]; intros prev; [reflexivity|]. cbn [List.map pair_up]. now rewrite IH. Qed.

  Lemma last_child_map : forall l d, last_child (em l) (fs d) = fs (last_child l d).
  Proof. induction l as [|x r IH]; intros d; [reflexivity|]. cbn [List.map last_child]. apply IH. Qed.

  Lemma build_chunk_map ch : build_chunk mkb2 dflt (em ch) = em (build_chunk mkb1 dflt ch).
  Proof.
    destruct ch as [|x r]; [reflexivity|]. cbn [List.map build_chunk]. rewrite pair_up_map, last_child_map.
    unfold fs at 3. cbn [fst snd]. now rewrite Hmkb.
  Qed.

  Lemma flat_chunk_map : forall plan,
    flat_map (build_chunk mkb2 dflt) (List.map em plan) = em (flat_map (build_chunk mkb1 dflt) plan).
  Proof. induction plan as [|c r IH]; [reflexivity|]. cbn [List.map flat_map]. now rewrite map_app, build_chunk_map, IH. Qed.

  Lemma build_branch_nodes_map guard fixup ch :
    build_branch_nodes_gen ksize fixed_k page_size mkb2 dflt guard fixup (em ch) =
    em (build_branch_nodes_gen ksize fixed_k page_size mkb1 dflt guard fixup ch).
  Proof.
    destruct ch as [|c r]; [reflexivity|]. cbn [List.map build_branch_nodes_gen].
    change [fs c] with (em [c]). rewrite bb_plan_map. destruct fixup; [rewrite bb_fixup_map|]; apply flat_chunk_map.
  Qed.

  Lemma with_keys_map : forall cs ks, with_keys (List.map f cs) ks = em (with_keys cs ks).
  Proof.
    induction cs as [|c r IH]; intros ks; [reflexivity|]. cbn [List.map with_keys].
    destruct ks as [|k ks']; cbn [List.map]; now rewrite IH.
  Qed.

  Lemma fix_last_map stored : forall repl, fix_last (em repl) stored = em (fix_last repl stored).
  Proof.
    induction repl as [|[n b] r IH]; [reflexivity|].
    destruct r as [|y r'].
    - destruct b; reflexivity.
    - change (em ((n, b) :: y :: r')) with (fs (n, b) :: em (y :: r')).
      rewrite !fix_last_cons by (cbn; discriminate). rewrite IH. reflexivity.
  Qed.

  Lemma rebuild_branch_level_map cs ks ci repl :
    rebuild_branch_level ksize fixed_k page_size mkb2 dflt (List.map f cs) ks ci (em repl) =
    em (rebuild_branch_level ksize fixed_k page_size mkb1 dflt cs ks ci repl).
  Proof.
    unfold rebuild_branch_level, build_branch_nodes. rewrite <- build_branch_nodes_map.
    now rewrite !map_app, fix_last_map, with_keys_map, firstn_map, skipn_map.
  Qed.

  Lemma replace_branch_child_map cs ks ci n :
    replace_branch_child mkb2 dflt (List.map f cs) ks ci (f n) = f (replace_branch_child mkb1 dflt cs ks ci n).
  Proof.
    unfold replace_branch_child.
    assert (E : firstn ci (List.map f cs) ++ f n :: skipn (S ci) (List.map f cs) =
                List.map f (firstn ci cs ++ n :: skipn (S ci) cs))
      by (rewrite map_app; cbn [List.map]; now rewrite firstn_map, skipn_map).
    rewrite E, with_keys_map. destruct (with_keys (firstn ci cs ++ n :: skipn (S ci) cs) ks) as [|x r]; [reflexivity|].
    cbn [List.map]. rewrite pair_up_map. unfold fs at 1. cbn [fst]. now rewrite Hmkb.
  Qed.

  Lemma splice_level_map carry cs ks ci nodes :
    splice_level_gen cmp ksize fixed_k page_size mkb2 dflt carry (List.map f cs) ks ci (em nodes) =
    em (splice_level_gen cmp ksize fixed_k page_size mkb1 dflt carry cs ks ci nodes).
  Proof.
    unfold splice_level_gen. destruct nodes as [|[n b] [|y r]].
    - exact (rebuild_branch_level_map cs ks ci []).
    - cbn [List.map]. unfold fs at 1. cbn [fst snd]. destruct (routes cmp (nth_error ks ci) b).
      + rewrite replace_branch_child_map. reflexivity.
      + exact (rebuild_branch_level_map cs ks ci [(n, b)]).
    - exact (rebuild_branch_level_map cs ks ci ((n, b) :: y :: r)).
  Qed.

  Lemma grow_map : forall fuel nodes,
    grow ksize fixed_k page_size mkb2 dflt fuel (em nodes) = em (grow ksize fixed_k page_size mkb1 dflt fuel nodes).
  Proof.
    induction fuel as [|n IH]; intros nodes; destruct nodes as [|x [|y r]]; try reflexivity.
    change (grow ksize fixed_k page_size mkb2 dflt (S n) (em (x :: y :: r))) with
      (grow ksize fixed_k page_size mkb2 dflt n (build_branch_nodes ksize fixed_k page_size mkb2 dflt (em (x :: y :: r)))).
    unfold build_branch_nodes. rewrite build_branch_nodes_map. apply IH.
  Qed.
End GenericMap.

(* ---------------------------------------------------------------- part 2: snode *)
Section ShapeCursorP.
  Context {K V : Type}.
  Variable cmp : K -> K -> comparison.
  Variable ksize : K -> N.
  Variable vsize : V -> N.
  Variable fixed_k fixed_v : bool.
  Variable page_size : N.
  Variable sep : K -> K -> K.
  Variable flush_bytes : N.

  Notation snode := (@snode K V).
  Notation erase := (@erase K V).
  Notation erase_rest := (@erase_rest K V).
  Notation es1 := (@fs K snode (@node K V) erase).
  Notation s_brl := (ShapeScan.build_replacement_leaves ksize vsize fixed_k fixed_v page_size sep).
  Notation t_brl := (ScanTree.build_replacement_leaves ksize vsize fixed_k fixed_v page_size sep).

  Fixpoint leaves_erase (t : snode) : leaves (erase t) = s_leaves t.
  Proof.
    destruct t as [d a es|d c0 rest]; cbn [Shape.erase leaves s_leaves]; [reflexivity|].
    f_equal; [apply leaves_erase|].
    induction rest as [|[s c] r IHr]; cbn [List.map flat_map fst snd]; [reflexivity|].
    f_equal; [apply leaves_erase|exact IHr].
  Qed.

  Lemma nleaves_erase t : nleaves (erase t) = s_nleaves t.
  Proof. unfold nleaves, s_nleaves. now rewrite leaves_erase. Qed.

  Lemma bt_leaves_erase (st : @sbtree K V) : bt_leaves (erase_tree st) = sb_leaves st.
  Proof. unfold bt_leaves, sb_leaves, erase_tree. cbn [bt_root]. destruct (sb_root st); [apply leaves_erase|reflexivity]. Qed.

  Lemma locate_erase : forall cs j, ScanTree.locate (List.map erase cs) j = ShapeScan.locate cs j.
  Proof.
    induction cs as [|c r IH]; intros j; [reflexivity|]. cbn [List.map ScanTree.locate ShapeScan.locate].
    rewrite nleaves_erase. destruct (Nat.ltb j (s_nleaves c)); [reflexivity|]. now rewrite IH.
  Qed.

  Lemma children_erase c0 rest : children (erase c0) (erase_rest rest) = List.map erase (s_children c0 rest).
  Proof. unfold children, s_children, Shape.erase_rest. cbn [List.map]. now rewrite !map_map. Qed.

  Lemma greedy_same : forall es cur n bytes,
    ShapeScan.greedy ksize vsize fixed_k fixed_v page_size es cur n bytes =
    ScanTree.greedy ksize vsize fixed_k fixed_v page_size es cur n bytes.
  Proof.
    induction es as [|e r IH]; intros cur n bytes; [reflexivity|]. cbn [ShapeScan.greedy ScanTree.greedy].
    now rewrite !IH.
  Qed.

  Lemma plan_leaves_erase tail dflt : forall plan,
    List.map (fun p => (erase (fst p), snd p)) (ShapeScan.plan_leaves ksize vsize fixed_k fixed_v page_size sep plan tail dflt) =
    ScanTree.plan_leaves sep plan tail dflt.
  Proof.
    induction plan as [|c r IH]; [reflexivity|]. cbn [ShapeScan.plan_leaves ScanTree.plan_leaves List.map fst snd].
    now rewrite IH.
  Qed.

  Lemma brl_erase es dflt : List.map (fun p => (erase (fst p), snd p)) (s_brl es dflt) = t_brl es dflt.
  Proof.
    unfold ShapeScan.build_replacement_leaves, ScanTree.build_replacement_leaves. rewrite greedy_same.
    destruct (_ && _).
    - rewrite map_app, plan_leaves_erase. reflexivity.
    - apply plan_leaves_erase.
  Qed.

  Lemma leaf_nodes_erase es dflt :
    List.map es1 (s_leaf_nodes ksize vsize fixed_k fixed_v page_size sep es dflt) =
    leaf_nodes ksize vsize fixed_k fixed_v page_size sep es dflt.
  Proof.
    unfold s_leaf_nodes, leaf_nodes. rewrite <- brl_erase, !map_map. reflexivity.
  Qed.

  Lemma splice_sub_erase : forall fuel t j pos run dflt,
    List.map es1 (s_splice_sub cmp ksize vsize fixed_k fixed_v page_size sep fuel t j pos run dflt) =
    splice_sub cmp ksize vsize fixed_k fixed_v page_size sep true fuel (erase t) j pos run dflt.
  Proof.
    induction fuel as [|n IH]; intros t j pos run dflt; destruct t as [d a es|d c0 rest];
      cbn [s_splice_sub splice_sub Shape.erase]; try apply leaf_nodes_erase; [reflexivity|].
    fold (erase_rest rest). rewrite children_erase, locate_erase.
    destruct (ShapeScan.locate (s_children c0 rest) j) as [c j'].
    rewrite erase_nth_child, <- IH, erase_rest_seps. unfold splice_level.
    rewrite (splice_level_map cmp ksize fixed_k page_size (@SBranch K V true) (@Branch K V) dflt erase
               (fun c l => eq_refl)). reflexivity.
  Qed.

  Theorem splice_insert_run_erase (st : @sbtree K V) j pos run :
    erase_tree (s_splice_insert_run cmp ksize vsize fixed_k fixed_v page_size sep st j pos run) =
    splice_insert_run cmp ksize vsize fixed_k fixed_v page_size sep (erase_tree st) j pos run.
  Proof.
    unfold s_splice_insert_run, splice_insert_run, splice_insert_run_gen. destruct run as [|[k0 v0] run']; [reflexivity|].
    set (run := (k0, v0) :: run').
    set (snodes := match sb_root st with
                   | None => s_leaf_nodes ksize vsize fixed_k fixed_v page_size sep run k0
                   | Some t => s_splice_sub cmp ksize vsize fixed_k fixed_v page_size sep (S (sheight t)) t j pos run k0
                   end).
    assert (E : match bt_root (erase_tree st) with
                | None => leaf_nodes ksize vsize fixed_k fixed_v page_size sep run k0
                | Some t => splice_sub cmp ksize vsize fixed_k fixed_v page_size sep true (fuel_of t) t j pos run k0
                end = List.map es1 snodes).
    { unfold snodes, erase_tree. cbn [bt_root]. destruct (sb_root st) as [t|]; cbn [option_map].
      - unfold fuel_of. now rewrite erase_height, splice_sub_erase.
      - now rewrite leaf_nodes_erase. }
    rewrite E, map_length.
    rewrite (grow_map ksize fixed_k page_size (@SBranch K V true) (@Branch K V) k0 erase (fun c l => eq_refl)).
    destruct (grow ksize fixed_k page_size (@SBranch K V true) k0 (length snodes) snodes) as [|[root b] r]; reflexivity.
  Qed.

  Lemma delete_key_erase (st : @sbtree K V) k :
    erase_tree (s_delete_key cmp ksize vsize fixed_k fixed_v page_size sep st k) =
    t_delete_key cmp ksize vsize fixed_k fixed_v page_size sep (erase_tree st) k.
  Proof.
    unfold s_delete_key, t_delete_key. pose proof (erase_delete cmp ksize vsize fixed_k fixed_v page_size sep st k) as H.
    destruct (s_delete cmp ksize vsize fixed_k fixed_v page_size sep st k) as [st' old]. now rewrite H.
  Qed.
End ShapeCursorP.

(* ---------------------------------------------------------------- part 3: the session machine *)
Section MachineMap.
  Context {K V T1 T2 : Type}.
  Variable cmp : K -> K -> comparison.
  Variable ksize : K -> N.
  Variable vsize : V -> N.
  Variable flush_bytes : N.
  Variable leaves1 : T1 -> list (list (K * V)).
  Variable splice1 : T1 -> nat -> nat -> list (K * V) -> T1.
  Variable delete1 : T1 -> K -> T1.
  Variable leaves2 : T2 -> list (list (K * V)).
  Variable splice2 : T2 -> nat -> nat -> list (K * V) -> T2.
  Variable delete2 : T2 -> K -> T2.
  Variable f : T1 -> T2.
  Hypothesis H_leaves : forall t, leaves2 (f t) = leaves1 t.
  Hypothesis H_splice : forall t j pos run, f (splice1 t j pos run) = splice2 (f t) j pos run.
  Hypothesis H_delete : forall t k, f (delete1 t k) = delete2 (f t) k.

  Definition fc (st : @cstate K V T1) : @cstate K V T2 := mk_cstate (f (cs_tree st)) (cs_m st).

  Lemma run_pos_map st : run_pos leaves2 (fc st) = run_pos leaves1 st.
  Proof. unfold run_pos, fc. cbn [cs_tree cs_m]. now rewrite H_leaves. Qed.

  Lemma c_flush_map st : c_flush leaves2 splice2 (fc st) = fc (c_flush leaves1 splice1 st).
  Proof.
    unfold c_flush. rewrite run_pos_map. change (cs_m (fc st)) with (cs_m st). destruct (s_run (cs_m st)); [|reflexivity].
    destruct (run_pos leaves1 st) as [j pos]. unfold fc. cbn [cs_tree cs_m]. now rewrite H_splice.
  Qed.

  Lemma run_bytes_map st : run_bytes ksize vsize leaves2 (fc st) = run_bytes ksize vsize leaves1 st.
  Proof.
    unfold run_bytes. rewrite run_pos_map. change (cs_m (fc st)) with (cs_m st). destruct (s_run (cs_m st)); [|reflexivity].
    destruct (run_pos leaves1 st) as [j pos]. unfold fc. cbn [cs_tree]. now rewrite H_leaves.
  Qed.

  Lemma c_step_map st o :
    c_step cmp ksize vsize flush_bytes leaves2 splice2 delete2 (fc st) o =
    (fst (c_step cmp ksize vsize flush_bytes leaves1 splice1 delete1 st o),
     fc (snd (c_step cmp ksize vsize flush_bytes leaves1 splice1 delete1 st o))).
  Proof.
    assert (Hins : forall d k v,
      c_insert cmp ksize vsize flush_bytes leaves2 splice2 d (fc st) k v =
      (fst (c_insert cmp ksize vsize flush_bytes leaves1 splice1 d st k v),
       fc (snd (c_insert cmp ksize vsize flush_bytes leaves1 splice1 d st k v)))).
    { intros d k v. unfold c_insert. change (cs_m (fc st)) with (cs_m st). rewrite c_flush_map.
      set (st1 := if other_dir_open d (cs_m st) then c_flush leaves1 splice1 st else st).
      assert (E1 : (if other_dir_open d (cs_m st) then fc (c_flush leaves1 splice1 st) else fc st) = fc st1)
        by (unfold st1; destruct other_dir_open; reflexivity).
      rewrite E1. change (cs_m (fc st1)) with (cs_m st1). change (cs_tree (fc st1)) with (f (cs_tree st1)).
      destruct (match d with
                | Ascending => m_insert_before cmp (fun _ => false) (cs_m st1) k v
                | Descending => m_insert_after cmp (fun _ => false) (cs_m st1) k v
                end) as [b m2].
      change (mk_cstate (f (cs_tree st1)) m2) with (fc (mk_cstate (cs_tree st1) m2)).
      rewrite run_bytes_map, c_flush_map. cbn [fst snd]. destruct (b && _); reflexivity. }
    assert (Hmov : forall nx,
      c_move leaves2 splice2 nx (fc st) =
      (fst (c_move leaves1 splice1 nx st), fc (snd (c_move leaves1 splice1 nx st)))).
    { intros nx. unfold c_move. rewrite c_flush_map. set (st1 := c_flush leaves1 splice1 st).
      change (cs_m (fc st1)) with (cs_m st1). change (cs_tree (fc st1)) with (f (cs_tree st1)).
      destruct (if nx then m_next (cs_m st1) else m_prev (cs_m st1)) as [e m']. reflexivity. }
    assert (Hrem : forall nx,
      c_remove leaves2 splice2 delete2 nx (fc st) =
      (fst (c_remove leaves1 splice1 delete1 nx st), fc (snd (c_remove leaves1 splice1 delete1 nx st)))).
    { intros nx. unfold c_remove. rewrite c_flush_map. set (st1 := c_flush leaves1 splice1 st).
      change (cs_m (fc st1)) with (cs_m st1). change (cs_tree (fc st1)) with (f (cs_tree st1)).
      destruct (if nx then m_remove_next (cs_m st1) else m_remove_prev (cs_m st1)) as [e m'].
      cbn [fst snd]. unfold fc. cbn [cs_tree cs_m]. destruct e as [x|]; [now rewrite H_delete|reflexivity]. }
    destruct o as [| | | |k v|k v| |]; cbn [c_step]; try reflexivity.
    - rewrite Hmov. destruct (c_move leaves1 splice1 true st); reflexivity.
    - rewrite Hmov. destruct (c_move leaves1 splice1 false st); reflexivity.
    - rewrite Hins. destruct (c_insert cmp ksize vsize flush_bytes leaves1 splice1 Ascending st k v); reflexivity.
    - rewrite Hins. destruct (c_insert cmp ksize vsize flush_bytes leaves1 splice1 Descending st k v); reflexivity.
    - rewrite Hrem. destruct (c_remove leaves1 splice1 delete1 true st); reflexivity.
    - rewrite Hrem. destruct (c_remove leaves1 splice1 delete1 false st); reflexivity.
  Qed.

  Lemma c_script_map ops : forall st,
    c_script cmp ksize vsize flush_bytes leaves2 splice2 delete2 ops (fc st) =
    (fst (c_script cmp ksize vsize flush_bytes leaves1 splice1 delete1 ops st),
     fc (snd (c_script cmp ksize vsize flush_bytes leaves1 splice1 delete1 ops st))).
  Proof.
    induction ops as [|o r IH]; intros st; [reflexivity|]. cbn [c_script]. rewrite c_step_map.
    destruct (c_step cmp ksize vsize flush_bytes leaves1 splice1 delete1 st o) as [x st']. cbn [fst snd]. rewrite IH.
    destruct (c_script cmp ksize vsize flush_bytes leaves1 splice1 delete1 r st') as [xs st'']. reflexivity.
  Qed.

  Theorem c_session_map t lower b ops :
    c_session cmp ksize vsize flush_bytes leaves2 splice2 delete2 (f t) lower b ops =
    (fst (c_session cmp ksize vsize flush_bytes leaves1 splice1 delete1 t lower b ops),
     f (snd (c_session cmp ksize vsize flush_bytes leaves1 splice1 delete1 t lower b ops))).
  Proof.
    unfold c_session.
    assert (E : c_open cmp leaves2 (f t) lower b = fc (c_open cmp leaves1 t lower b))
      by (unfold c_open, fc; cbn [cs_tree cs_m]; now rewrite H_leaves).
    rewrite E, c_script_map.
    destruct (c_script cmp ksize vsize flush_bytes leaves1 splice1 delete1 ops (c_open cmp leaves1 t lower b)) as [outs st].
    cbn [fst snd]. now rewrite c_flush_map.
  Qed.
End MachineMap.

(* ---------------------------------------------------------------- the erasure theorem *)
Section SessionErase.
  Context {K V : Type}.
  Variable cmp : K -> K -> comparison.
  Variable ksize : K -> N.
  Variable vsize : V -> N.
  Variable fixed_k fixed_v : bool.
  Variable page_size : N.
  Variable sep : K -> K -> K.
  Variable flush_bytes : N.

  Theorem session_erase (st : @sbtree K V) lower b ops :
    t_session cmp ksize vsize fixed_k fixed_v page_size sep flush_bytes (erase_tree st) lower b ops =
    (fst (s_session cmp ksize vsize fixed_k fixed_v page_size sep flush_bytes st lower b ops),
     erase_tree (snd (s_session cmp ksize vsize fixed_k fixed_v page_size sep flush_bytes st lower b ops))).
  Proof.
    unfold t_session, s_session.
    exact (c_session_map cmp ksize vsize flush_bytes (@sb_leaves K V)
             (s_splice_insert_run cmp ksize vsize fixed_k fixed_v page_size sep)
             (s_delete_key cmp ksize vsize fixed_k fixed_v page_size sep)
             (@bt_leaves K V) (splice_insert_run cmp ksize vsize fixed_k fixed_v page_size sep)
             (t_delete_key cmp ksize vsize fixed_k fixed_v page_size sep) (@erase_tree K V)
             (@bt_leaves_erase K V)
             (splice_insert_run_erase cmp ksize vsize fixed_k fixed_v page_size sep)
             (delete_key_erase cmp ksize vsize fixed_k fixed_v page_size sep) st lower b ops).
  Qed.

  (* hence the session theorem holds of the shape model, whose trees are the ones compared with the real B-tree *)
  Hypothesis laws : OrderLaws cmp.
  Hypothesis Hsep : valid_sep cmp sep.

  Theorem shape_session_refines (st : @sbtree K V) lower b ops : TreeInv cmp (erase_tree st) ->
    let '(outs, st') := s_session cmp ksize vsize fixed_k fixed_v page_size sep flush_bytes st lower b ops in
    let '(ys, c') := cursor_script cmp ops (if lower then seek_lower cmp (abs_tree (erase_tree st)) b
                                            else seek_upper cmp (abs_tree (erase_tree st)) b) in
    outs = ys /\ TreeInv cmp (erase_tree st') /\ abs_tree (erase_tree st') = cursor_map c'.
  Proof.
    intros HI.
    pose proof (tree_session_refines cmp laws ksize vsize fixed_k fixed_v page_size sep Hsep flush_bytes (erase_tree st) lower b ops HI) as H.
    rewrite session_erase in H.
    destruct (s_session cmp ksize vsize fixed_k fixed_v page_size sep flush_bytes st lower b ops) as [outs st']. exact H.
  Qed.
End SessionErase.
