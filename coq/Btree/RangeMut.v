(* RangeMut (btree_cursor.rs) and BtreeExtractIf (extract_if.rs) as a machine over the abstract store
   of Scan.v -- definitions only.

   A pair of mutable gap cursors converging over a key range.  At most one end is LIVE (holds a cursor
   position); the other end is PARKED as the key bound describing its gap -- Included(k): the gap is before
   the not yet consumed key k; Excluded(k): the gap is behind k, the last key of a leaf the end has
   finished (resp. before the first key of the leaf, going backward) -- or PENDING: parked with a snapshot
   of its current leaf and the indexes of the entries it has yielded from it but not yet removed.
   The parked bound doubles as the scan limit of the live end (`entry_in_range`).  Activating an end
   parks the other one, reseeks by the own bound and re-attaches a pending batch when the leaf it lands on
   still equals the snapshot, otherwise applies it by key (`resolve_batch`: delete_key without in-place
   mutation) and reseeks. *)
From Coq Require Import List NArith Bool Arith.
From RV Require Import Base.SortedMap Btree.Scan.
Import ListNotations.

Section RangeMut.
  Context {K V T : Type}.
  Variable cmp : K -> K -> comparison.
  Variable entry_eqb : K * V -> K * V -> bool.      (* equality of leaf contents (snapshot_matches compares the page bytes) *)

  Variable leaves : T -> list (list (K * V)).
  Variable seek : T -> seekpos K -> nat * nat.
  Variable flush : bool -> T -> nat -> list nat -> T.
  Variable splice : T -> nat -> nat -> list (K * V) -> N -> T.
  Variable has_parent : T -> nat -> bool.
  Variable more_children : T -> nat -> direction -> bool.
  Variable underfilling : list (K * V) -> bool.
  Variable packs : list (K * V) -> bool.

  Notation cstate := (@cstate K V).
  Notation leaf_at := (leaf_at leaves).
  Notation seek_to := (seek_to leaves seek).
  Notation ensure_has_entry := (ensure_has_entry leaves seek flush splice has_parent more_children underfilling packs).
  Notation finish_pending := (finish_pending leaves flush splice has_parent more_children underfilling packs).
  Notation splice_open := (splice_open splice).

  Inductive end_state : Type :=
  | EParked (b : bound K)
  | EPending (b : bound K) (snapshot : list (K * V)) (idx : list nat)
  | ELive (c : cstate).

  Record rstate : Type := mk_rstate {
    rg_tree : T;
    rg_front : end_state;
    rg_back : end_state;
    rg_settled : option direction
  }.

  Definition end_of (st : rstate) (d : direction) : end_state :=
    match d with DNext => rg_front st | DPrev => rg_back st end.
  Definition set_end (st : rstate) (d : direction) (e : end_state) : rstate :=
    match d with
    | DNext => mk_rstate (rg_tree st) e (rg_back st) (rg_settled st)
    | DPrev => mk_rstate (rg_tree st) (rg_front st) e (rg_settled st)
    end.
  Definition set_tree (st : rstate) (t : T) : rstate := mk_rstate t (rg_front st) (rg_back st) (rg_settled st).
  Definition set_settled (st : rstate) (s : option direction) : rstate :=
    mk_rstate (rg_tree st) (rg_front st) (rg_back st) s.

  Definition range_new (t : T) (lo hi : bound K) : rstate := mk_rstate t (EParked lo) (EParked hi) None.

  (* park_bound *)
  Definition park_bound (t : T) (c : cstate) (d : direction) : bound K :=
    match c_pos c with
    | None => Unbounded
    | Some (j, i) =>
        let es := leaf_at t j in
        let edge := match boundary_key es d with Some k => Excluded k | None => Unbounded end in
        match d with
        | DNext => match nth_error es i with Some e => Included (fst e) | None => edge end
        | DPrev => match i with
                   | O => edge
                   | S i' => match nth_error es i' with Some e => Included (fst e) | None => edge end
                   end
        end
    end.

  (* park: a live end becomes Parked / Pending; an open coalescing run is spliced first *)
  Definition park (st : rstate) (d : direction) : rstate :=
    let st := set_settled st None in
    match end_of st d with
    | ELive c =>
        let t := rg_tree st in
        let b := park_bound t c d in
        let parked :=
          match c_removed c, c_pos c with
          | _ :: _, Some (j, _) => EPending b (leaf_at t j) (c_removed c)
          | _, _ => EParked b
          end in
        let '(t', _) := splice_open t c in
        set_end (set_tree st t') d parked
    | _ => st
    end.

  (* seek_end: descend to the gap the end's parked bound describes *)
  Definition seek_end (st : rstate) (d : direction) : cstate :=
    let b := match end_of st d with
             | EParked b => b
             | EPending b _ _ => b
             | ELive _ => Unbounded
             end in
    let target := match d with DNext => pos_of_lower b | DPrev => pos_of_upper b end in
    mk_cstate (seek_to (rg_tree st) target) [] false None.

  Fixpoint list_eqb (a b : list (K * V)) : bool :=
    match a, b with
    | [], [] => true
    | x :: a', y :: b' => entry_eqb x y && list_eqb a' b'
    | _, _ => false
    end.

  (* MutateHelper::delete_key(key, allow_in_place = false): the key's leaf and index, then the same
     leaf disposition and rebalancing as a batch of one *)
  Definition delete_key (t : T) (k : K) : T :=
    if has_root leaves t then
      let '(j, i) := seek t (PBefore k) in
      match nth_error (leaf_at t j) i with
      | Some e => match cmp k (fst e) with Eq => flush false t j [i] | _ => t end
      | None => t
      end
    else t.

  (* resolve_batch: the pending entries are deleted by key, recovered from the snapshot *)
  Definition resolve_batch (t : T) (snapshot : list (K * V)) (idx : list nat) : T :=
    fold_left (fun t' i => match nth_error snapshot i with Some e => delete_key t' (fst e) | None => t' end) idx t.

  (* activate *)
  Definition activate (st : rstate) (d : direction) : rstate :=
    match end_of st d with
    | ELive _ => st
    | own =>
        let st1 := park st (dir_opposite d) in
        let c := seek_end st1 d in
        match own with
        | EPending b snapshot idx =>
            let matches := match c_pos c with
                           | Some (j, _) => list_eqb (leaf_at (rg_tree st1) j) snapshot
                           | None => false
                           end in
            if matches then set_end st1 d (ELive (mk_cstate (c_pos c) idx true None))
            else
              let st2 := set_end st1 d (EParked b) in
              let st3 := set_tree st2 (resolve_batch (rg_tree st2) snapshot idx) in
              set_end st3 d (ELive (seek_end st3 d))
        | _ => set_end st1 d (ELive c)
        end
    end.

  (* entry_in_range: the live end's current entry against the bound of the parked peer *)
  Definition entry_in_range (st : rstate) (d : direction) (k : K) : bool :=
    let b := match end_of st (dir_opposite d) with
             | EParked b => b
             | EPending b _ _ => b
             | ELive _ => Unbounded
             end in
    match d with
    | DNext => match b with Included x => kle cmp k x | Excluded x => klt cmp k x | Unbounded => true end
    | DPrev => match b with Included x => kle cmp x k | Excluded x => klt cmp x k | Unbounded => true end
    end.

  Definition dir_eqb (a b : direction) : bool :=
    match a, b with DNext, DNext | DPrev, DPrev => true | _, _ => false end.

  (* settle: the end is live, positioned at an entry, and the entry lies between the two ends *)
  Definition settle' (efuel : nat) (st : rstate) (d : direction) : bool * rstate :=
    if match rg_settled st with Some d0 => dir_eqb d0 d | None => false end then (true, st)
    else
      let st1 := activate st d in
      match end_of st1 d with
      | ELive c =>
          let '(b, t', c') := ensure_has_entry efuel (rg_tree st1) c d in
          let st2 := set_end (set_tree st1 t') d (ELive c') in
          if b then
            match current_entry leaves t' c' d with
            | Some e => if entry_in_range st2 d (fst e) then (true, set_settled st2 (Some d)) else (false, st2)
            | None => (false, st2)
            end
          else (false, st2)
      | _ => (false, st1)
      end.

  Definition live_cursor (st : rstate) (d : direction) : option cstate :=
    match end_of st d with ELive c => Some c | _ => None end.

  (* peek *)
  Definition range_peek (efuel : nat) (st : rstate) (d : direction) : option (K * V) * rstate :=
    let '(b, st1) := settle' efuel st d in
    if b then
      match live_cursor st1 d with
      | Some c => (current_entry leaves (rg_tree st1) c d, st1)
      | None => (None, st1)
      end
    else (None, st1).

  (* advance (next / prev): step the gap past the peeked entry *)
  Definition range_advance (efuel : nat) (st : rstate) (d : direction) : rstate :=
    let '(b, st1) := settle' efuel st d in
    if b then
      match live_cursor st1 d with
      | Some c => set_end (set_settled st1 None) d (ELive (cursor_move c d))
      | None => st1
      end
    else st1.

  (* remove_next / remove_prev: deferred removal (the leaf is rewritten when the cursor leaves it) *)
  Definition range_remove (efuel : nat) (st : rstate) (d : direction) : option (K * V) * rstate :=
    let '(b, st1) := settle' efuel st d in
    if b then
      match live_cursor st1 d with
      | Some c => (current_entry leaves (rg_tree st1) c d, set_end (set_settled st1 None) d (ELive (cursor_remove c d true)))
      | None => (None, st1)
      end
    else (None, st1).

  (* flush_end / apply_pending *)
  Definition flush_end (st : rstate) (d : direction) : rstate :=
    match end_of st d with
    | ELive c =>
        let '(t', c') := finish_pending (rg_tree st) c in
        park (set_end (set_tree st t') d (ELive c')) d
    | EPending _ _ _ =>
        let st1 := activate st d in
        match end_of st1 d with
        | ELive c =>
            let '(t', c') := finish_pending (rg_tree st1) c in
            park (set_end (set_tree st1 t') d (ELive c')) d
        | _ => st1
        end
    | EParked _ => st
    end.

  (* close *)
  Definition range_close (st : rstate) : rstate := flush_end (flush_end st DNext) DPrev.

  (* ---------------------------------------------------------------- BtreeExtractIf *)
  Record xstate : Type := mk_xstate { x_range : rstate; x_closed : bool }.

  Definition extract_new (t : T) (lo hi : bound K) : xstate := mk_xstate (range_new t lo hi) false.

  Definition extract_close (x : xstate) : xstate :=
    if x_closed x then x else mk_xstate (range_close (x_range x)) true.

  (* next_inner / next_back_inner *)
  Fixpoint extract_step (fuel efuel : nat) (p : K -> V -> bool) (st : rstate) (d : direction) : option (K * V) * xstate :=
    match fuel with
    | O => (None, extract_close (mk_xstate st false))
    | S f =>
        let '(e, st1) := range_peek efuel st d in
        match e with
        | None => (None, extract_close (mk_xstate st1 false))
        | Some (k, v) =>
            if p k v then let '(r, st2) := range_remove efuel st1 d in (r, mk_xstate st2 false)
            else extract_step f efuel p (range_advance efuel st1 d) d
        end
    end.

  Definition extract_next (fuel efuel : nat) (p : K -> V -> bool) (x : xstate) (d : direction) : option (K * V) * xstate :=
    if x_closed x then (None, x) else extract_step fuel efuel p (x_range x) d.

  Definition extract_tree (x : xstate) : T := rg_tree (x_range (extract_close x)).

End RangeMut.
