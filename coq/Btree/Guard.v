(* Value replacement through guards on the logical tree -- definitions only.

   BtreeMut::get_mut (btree.rs) descends to the leaf the key routes to, making every page of the
   path uncommitted first (copy on write; no logical change), and hands out an AccessGuardMut when the
   key is there.  AccessGuardMut::insert (btree_base.rs) replaces the value of THAT entry: in place when
   sufficient_replace_inplace_space holds, otherwise the leaf is rebuilt with the new value on a new page
   (LeafBuilder::build, NO split whatever its size) and the parent's child pointer (or the root) is
   patched in place.  Both paths give the same logical leaf, and the tree keeps its structure:
   `set_sub` below.  When the key is absent nothing is written.

   insert_reserve = insert of a zero-filled value of the requested length followed by a write of the
   bytes into the page (AccessGuardMutInPlace): `reserve`.

   Table::entry and the Entry / OccupiedEntry / VacantEntry methods are compositions of get, get_mut,
   AccessGuardMut::insert, insert and remove on the tree (table.rs): the `XEntry*` operations. *)
From Coq Require Import List NArith Bool Arith.
From RV Require Import Base.SortedMap Btree.Tree Btree.Read Btree.Mutator.
Import ListNotations.

Section Guard.
  Context {K V : Type}.
  Variable cmp : K -> K -> comparison.
  Notation node := (@node K V).

  (* get_mut_helper + AccessGuardMut::insert *)
  Fixpoint set_sub (fuel : nat) (t : node) (k : K) (v : V) : node * option V :=
    match t with
    | Leaf es =>
        let '(pos, found) := position cmp es k in
        match nth_error es pos with
        | Some (_, ov) =>
            if found then (Leaf (firstn pos es ++ (k, v) :: skipn (S pos) es), Some ov) else (t, None)
        | None => (t, None)
        end
    | Branch c0 rest =>
        match fuel with
        | O => (t, None)
        | S f =>
            let i := child_for_key cmp rest k in
            let '(c', old) := set_sub f (nth_child c0 rest i) k v in
            match old with
            | None => (t, None)
            | Some _ => let '(a, b) := set_child i c' [] c0 rest in (Branch a b, old)
            end
        end
    end.

  (* get_mut(k) followed by guard.insert(v): returns the value the guard showed before the write *)
  Definition guard_set (bt : @btree K V) (k : K) (v : V) : @btree K V * option V :=
    match bt_root bt with
    | None => (bt, None)
    | Some t =>
        let '(t', old) := set_sub (fuel_of t) t k v in
        (mk_btree (Some t') (bt_len bt), old)
    end.

  (* get_mut(k) and then the writes vs through the guard, in order *)
  Definition get_mut_writes (bt : @btree K V) (k : K) (vs : list V) : @btree K V * option V :=
    match tget cmp bt k with
    | None => (bt, None)
    | Some old => (fold_left (fun b v => fst (guard_set b k v)) vs bt, Some old)
    end.
End Guard.

(* ---------------------------------------------------------------- all writers of the table API *)
Section XOps.
  Context {K V : Type}.
  Variable cmp : K -> K -> comparison.
  Variable ksize : K -> N.
  Variable vsize : V -> N.
  Variable fixed_k fixed_v : bool.
  Variable page_size : N.
  Variable sep : K -> K -> K.
  Variable inplace : list (K * V) -> K -> V -> bool.
  Variable blank : V -> V.      (* the zero-filled, initialized value insert_reserve stores first *)

  Notation insert := (Mutator.insert cmp ksize vsize fixed_k fixed_v page_size sep inplace).
  Notation delete := (Mutator.delete cmp ksize vsize fixed_k fixed_v page_size sep).

  (* insert_reserve(k, |v|) and the write of v through the AccessGuardMutInPlace *)
  Definition reserve (bt : @btree K V) (k : K) (v : V) : @btree K V :=
    fst (guard_set cmp (fst (insert bt k (blank v))) k v).

  Inductive gop : Type :=
  | GReserve (k : K) (v : V)                    (* insert_reserve + write *)
  | GGetMut (k : K) (vs : list V)               (* get_mut, then AccessGuardMut::insert for each v *)
  | GEntryOrInsert (k : K) (v : V)              (* entry(k).or_insert(v) *)
  | GEntryModify (k : K) (v2 vdef : V)          (* entry(k).and_modify(|g| g.insert(v2)).or_insert(vdef) *)
  | GEntryInsert (k : K) (v : V)                (* Occupied: insert(v) -> old;  Vacant: insert(v) *)
  | GEntryRemove (k : K)                        (* Occupied: remove() -> old;  Vacant: nothing *)
  | GEntryRemoveEntry (k : K)                   (* Occupied: remove_entry() -> (k, old) *)
  | GEntryGet (k : K).                          (* Occupied: get() *)

  (* what the operation returns FROM THE TABLE (echoes of the value just written are not modelled) *)
  Definition apply_gop (bt : @btree K V) (o : gop) : @SortedMap.out K V * @btree K V :=
    match o with
    | GReserve k v => (OUnit, reserve bt k v)
    | GGetMut k vs => let '(bt', old) := get_mut_writes cmp bt k vs in (OVal old, bt')
    | GEntryOrInsert k v =>
        match tget cmp bt k with
        | Some old => (OVal (Some old), bt)                       (* OccupiedEntry::into_mut: get_mut *)
        | None => (OVal None, fst (insert bt k v))                 (* VacantEntry::insert: insert + get_mut *)
        end
    | GEntryModify k v2 vdef =>
        match tget cmp bt k with
        | Some old => (OVal (Some old), fst (guard_set cmp bt k v2))
        | None => (OVal None, fst (insert bt k vdef))
        end
    | GEntryInsert k v => let '(bt', old) := insert bt k v in (OVal old, bt')
    | GEntryRemove k =>
        match tget cmp bt k with
        | Some _ => let '(bt', old) := delete bt k in (OVal old, bt')
        | None => (OVal None, bt)
        end
    | GEntryRemoveEntry k =>
        match tget cmp bt k with
        | Some _ => let '(bt', old) := delete bt k in (OEntry (option_map (fun v => (k, v)) old), bt')
        | None => (OEntry None, bt)
        end
    | GEntryGet k => (OVal (tget cmp bt k), bt)
    end.

  (* the same operations on the sorted-map specification *)
  Definition spec_gop (m : @SortedMap.map K V) (o : gop) : @SortedMap.out K V * @SortedMap.map K V :=
    let ins := SortedMap.insert cmp in
    let get := SortedMap.get cmp in
    match o with
    | GReserve k v => (OUnit, ins m k v)
    | GGetMut k vs =>
        match get m k with
        | None => (OVal None, m)
        | Some old => (OVal (Some old), fold_left (fun m' v => ins m' k v) vs m)
        end
    | GEntryOrInsert k v => (OVal (get m k), match get m k with Some _ => m | None => ins m k v end)
    | GEntryModify k v2 vdef => (OVal (get m k), match get m k with Some _ => ins m k v2 | None => ins m k vdef end)
    | GEntryInsert k v => (OVal (get m k), ins m k v)
    | GEntryRemove k => (OVal (get m k), SortedMap.remove cmp m k)
    | GEntryRemoveEntry k => (OEntry (option_map (fun v => (k, v)) (get m k)), SortedMap.remove cmp m k)
    | GEntryGet k => (OVal (get m k), m)
    end.
End XOps.
