(* The cursor machine of Scan.v refines the sorted-map specification, for every store that satisfies
   the interface laws below (the logical B-tree does: ScanTreeP.v, SpliceP.v).
   retain_in_bounds: `scan_retain_in` = SortedMap.retain_in on the contents. *)
From Coq Require Import List NArith Bool Sorted Lia Arith.
From RV Require Import Base.SortedMap Base.SortedMapP Btree.Tree Btree.Read Btree.ReadP Btree.Scan Btree.RangeMut Btree.ScanTreeP Btree.SpliceP.
Import ListNotations.

Section RemoveIndexes.
  Context {K V : Type}.
  Implicit Types (es : list (K * V)) (R : list nat).

  Lemma remove_indexes_nil es : remove_indexes es [] = es.
  Proof. unfold remove_indexes. destruct es; reflexivity. Qed.

  Lemma remove_from_nil o es : remove_indexes_from o es [] = es.
  Proof. destruct es; reflexivity. Qed.

  Lemma remove_from_stale es : forall o R, Forall (fun x => x < o) R -> remove_indexes_from o es R = es.
  Proof.
    induction es as [|e r IH]; intros o R HR; cbn [remove_indexes_from]; [reflexivity|].
    destruct R as [|x R']; [reflexivity|].
    assert (E : Nat.eqb x o = false) by (apply Nat.eqb_neq; inversion HR; subst; lia). rewrite E.
    f_equal. apply IH. eapply Forall_impl; [|exact HR]. cbn. intros; lia.
  Qed.

  (* indexes below the end of the first part do not touch the second part *)
  Lemma remove_from_app es1 : forall o R es2, Forall (fun x => x < o + length es1) R ->
    remove_indexes_from o (es1 ++ es2) R = remove_indexes_from o es1 R ++ es2.
  Proof.
    induction es1 as [|e r IH]; intros o R es2 HR; cbn [app remove_indexes_from length] in *.
    - apply remove_from_stale. eapply Forall_impl; [|exact HR]. cbn. intros; lia.
    - destruct R as [|x R']; [reflexivity|].
      destruct (Nat.eqb x o) eqn:E.
      + apply IH. inversion HR; subst. eapply Forall_impl; [|eassumption]. cbn. intros; lia.
      + cbn [app]. f_equal. apply IH. eapply Forall_impl; [|exact HR]. cbn. intros; lia.
  Qed.

  (* recording the index just past the first part removes the entry there *)
  Lemma remove_from_snoc_kill es1 : forall o R e, StronglySorted lt R -> Forall (fun x => o <= x < o + length es1) R ->
    remove_indexes_from o (es1 ++ [e]) (R ++ [o + length es1]) = remove_indexes_from o es1 R.
  Proof.
    induction es1 as [|e1 r IH]; intros o R e HS HR; cbn [app remove_indexes_from length] in *.
    - destruct R as [|x R']; [|inversion HR; subst; lia].
      cbn. rewrite Nat.add_0_r, Nat.eqb_refl. reflexivity.
    - destruct R as [|x R'].
      + cbn [app]. assert (E : Nat.eqb (o + S (length r)) o = false) by (apply Nat.eqb_neq; lia). rewrite E.
        f_equal. specialize (IH (S o) [] e ltac:(constructor) ltac:(constructor)). cbn [app] in IH.
        replace (S o + length r) with (o + S (length r)) in IH by lia. rewrite IH. now rewrite remove_from_nil.
      + cbn [app]. inversion HS as [|? ? HS' Hlt]; subst. inversion HR as [|? ? Hx HR']; subst.
        destruct (Nat.eqb x o) eqn:E.
        * apply Nat.eqb_eq in E. subst x. specialize (IH (S o) R' e HS').
          replace (S o + length r) with (o + S (length r)) in IH by lia. apply IH.
          rewrite Forall_forall in *. intros y Hy. specialize (Hlt y Hy). specialize (HR' y Hy). lia.
        * apply Nat.eqb_neq in E. f_equal. specialize (IH (S o) (x :: R') e HS).
          replace (S o + length r) with (o + S (length r)) in IH by lia. apply IH.
          constructor; [lia|]. rewrite Forall_forall in *. intros y Hy. specialize (Hlt y Hy). specialize (HR' y Hy). lia.
  Qed.

  Lemma ascending_sorted R : StronglySorted lt R -> ascending R = R.
  Proof.
    intros HS. unfold ascending. destruct R as [|x R']; [reflexivity|].
    destruct (last_opt (x :: R')) as [y|] eqn:El; [|reflexivity].
    assert (Hle : x <= y).
    { inversion HS as [|? ? _ Hlt]; subst. destruct R' as [|z R'']; [cbn in El; inversion El; lia|].
      assert (In y (z :: R'')).
      { clear -El. revert z El. induction R'' as [|w R IH]; intros z El; cbn in El.
        - inversion El. cbn. auto.
        - right. apply (IH w). exact El. }
      rewrite Forall_forall in Hlt. specialize (Hlt y H). lia. }
    assert (E : Nat.ltb y x = false) by (apply Nat.ltb_ge; lia). now rewrite E.
  Qed.

  Lemma firstn_S_snoc es i e : nth_error es i = Some e -> firstn (S i) es = firstn i es ++ [e].
  Proof.
    revert i. induction es as [|x r IH]; intros i H; [destruct i; discriminate|].
    destruct i as [|i]; cbn in *; [inversion H; reflexivity|]. f_equal. now apply IH.
  Qed.

  Lemma skipn_nth_cons es i e : nth_error es i = Some e -> skipn i es = e :: skipn (S i) es.
  Proof.
    revert i. induction es as [|x r IH]; intros i H; [destruct i; discriminate|].
    destruct i as [|i]; cbn in *; [inversion H; reflexivity|]. now apply IH.
  Qed.
End RemoveIndexes.

Section ListSplit.
  Context {A : Type}.
  Lemma split_unique (P Q : A -> Prop) : (forall e, P e -> Q e -> False) ->
    forall X Y X' Y', X ++ Y = X' ++ Y' -> Forall P X -> Forall Q Y -> Forall P X' -> Forall Q Y' -> X = X' /\ Y = Y'.
  Proof.
    intros Hd. induction X as [|x X IH]; intros Y X' Y' E HX HY HX' HY'.
    - destruct X' as [|x' X'']; [cbn in E; auto|].
      cbn in E. subst Y. inversion HY; subst. inversion HX'; subst. exfalso. eauto.
    - destruct X' as [|x' X''].
      + cbn in E. subst Y'. inversion HY'; subst. inversion HX; subst. exfalso. eauto.
      + cbn in E. inversion E; subst. inversion HX; subst. inversion HX'; subst.
        destruct (IH Y X'' Y' H1 H3 HY H5 HY') as [E1 E2]. subst. auto.
  Qed.

  Lemma concat_view (l : list (list A)) j : j < length l ->
    concat l = concat (firstn j l) ++ nth j l [] ++ concat (skipn (S j) l).
  Proof.
    revert j. induction l as [|x l IH]; intros j Hj; [cbn in Hj; lia|].
    destruct j as [|j]; [reflexivity|].
    rewrite firstn_cons. change (skipn (S (S j)) (x :: l)) with (skipn (S j) l). cbn [nth concat].
    rewrite (IH j) at 1 by (cbn in Hj; lia). now rewrite app_assoc.
  Qed.

  Lemma concat_firstn_S (l : list (list A)) j : j < length l ->
    concat (firstn (S j) l) = concat (firstn j l) ++ nth j l [].
  Proof.
    revert j. induction l as [|x l IH]; intros j Hj; [cbn in Hj; lia|].
    destruct j as [|j]; [cbn; now rewrite app_nil_r|].
    rewrite !firstn_cons. cbn [nth concat].
    rewrite (IH j) by (cbn in Hj; lia). now rewrite app_assoc.
  Qed.

  Lemma concat_skipn_S (l : list (list A)) j : j < length l ->
    concat (skipn j l) = nth j l [] ++ concat (skipn (S j) l).
  Proof.
    revert j. induction l as [|x l IH]; intros j Hj; [cbn in Hj; lia|].
    destruct j as [|j]; [reflexivity|].
    change (skipn (S j) (x :: l)) with (skipn j l). change (skipn (S (S j)) (x :: l)) with (skipn (S j) l). cbn [nth].
    apply IH. cbn in Hj. lia.
  Qed.
  Lemma nth_skipn' (l : list A) a n d : nth n (skipn a l) d = nth (a + n) l d.
  Proof.
    revert a. induction l as [|x l IH]; intros a; [destruct a, n; reflexivity|].
    destruct a as [|a]; [reflexivity|]. cbn [skipn Nat.add nth]. apply IH.
  Qed.
End ListSplit.

Section ScanP.
  Context {K V T : Type}.
  Variable cmp : K -> K -> comparison.
  Hypothesis laws : OrderLaws cmp.

  Variable leaves : T -> list (list (K * V)).
  Variable seek : T -> seekpos K -> nat * nat.
  Variable flush : bool -> T -> nat -> list nat -> T.
  Variable splice : T -> nat -> nat -> list (K * V) -> N -> T.
  Variable has_parent : T -> nat -> bool.
  Variable more_children : T -> nat -> direction -> bool.
  Variable underfilling : list (K * V) -> bool.
  Variable packs : list (K * V) -> bool.
  Variable ok : T -> Prop.

  Notation sorted := (@sorted K V cmp).
  Notation leaf_at := (leaf_at leaves).
  Notation cstate := (@cstate K V).
  Definition contents (t : T) : list (K * V) := concat (leaves t).
  Definition pre (t : T) (j : nat) : list (K * V) := concat (firstn j (leaves t)).
  Definition post (t : T) (j : nat) : list (K * V) := concat (skipn (S j) (leaves t)).
  Definition run_leaves (t : T) (a n : nat) : list (K * V) := concat (firstn n (skipn a (leaves t))).

  (* ---- the laws of the store *)
  Hypothesis ok_leaves : forall t, ok t -> Forall (fun l => l <> []) (leaves t) /\ sorted (contents t).
  Hypothesis seek_ok : forall t p, ok t -> leaves t <> [] ->
    let '(j, i) := seek t p in
    j < length (leaves t) /\ i <= length (leaf_at t j) /\
    Forall (below cmp p) (pre t j ++ firstn i (leaf_at t j)) /\ Forall (above cmp p) (skipn i (leaf_at t j) ++ post t j).
  Hypothesis flush_ok : forall a t j idx, ok t -> j < length (leaves t) -> idx <> [] ->
    valid_idx (length (leaf_at t j)) idx ->
    ok (flush a t j idx) /\ contents (flush a t j idx) = pre t j ++ remove_indexes (leaf_at t j) idx ++ post t j.
  Hypothesis splice_ok : forall t a n es r, ok t -> 1 <= n -> a + n <= length (leaves t) ->
    has_parent t a = true -> (forall x, S x < n -> more_children t (a + x) DNext = true) ->
    Subseq es (run_leaves t a n) -> N.of_nat (length (run_leaves t a n)) = (N.of_nat (length es) + r)%N ->
    ok (splice t a n es r) /\ contents (splice t a n es r) = concat (firstn a (leaves t)) ++ es ++ concat (skipn (a + n) (leaves t)).
  Hypothesis more_next : forall t j, ok t -> j < length (leaves t) -> more_children t j DNext = true -> S j < length (leaves t).
  Hypothesis has_parent_const : forall t j j', has_parent t j = has_parent t j'.

  Lemma view t j : j < length (leaves t) -> contents t = pre t j ++ leaf_at t j ++ post t j.
  Proof. apply concat_view. Qed.

  (* ---- well-formed cursor states of a FORWARD scan, and what they stand for *)
  Definition run_wf (t : T) (j : nat) (r : option (direction * run)) : Prop :=
    match r with
    | None => True
    | Some (d, r) =>
        d = DNext /\ r_first r + r_count r = j /\ 1 <= r_count r /\ has_parent t (r_first r) = true /\
        (forall x, x < r_count r -> more_children t (r_first r + x) DNext = true) /\
        Subseq (r_entries r) (run_leaves t (r_first r) (r_count r)) /\
        N.of_nat (length (run_leaves t (r_first r) (r_count r))) = (N.of_nat (length (r_entries r)) + r_removed r)%N
    end.

  Definition wf (t : T) (c : cstate) : Prop :=
    match c_pos c with
    | None => c_removed c = [] /\ c_run c = None
    | Some (j, i) =>
        j < length (leaves t) /\ i <= length (leaf_at t j) /\
        StronglySorted lt (c_removed c) /\ Forall (fun x => x < i) (c_removed c) /\ run_wf t j (c_run c)
    end.

  Definition run_prefix (t : T) (j : nat) (r : option (direction * run)) : list (K * V) :=
    match r with
    | None => pre t j
    | Some (_, r) => concat (firstn (r_first r) (leaves t)) ++ r_entries r
    end.

  (* the scanned part as it will be once everything pending is applied, and the part not yet scanned *)
  Definition VP (t : T) (c : cstate) : list (K * V) :=
    match c_pos c with
    | None => contents t
    | Some (j, i) => run_prefix t j (c_run c) ++ remove_indexes (firstn i (leaf_at t j)) (c_removed c)
    end.
  Definition Bs (t : T) (c : cstate) : list (K * V) :=
    match c_pos c with
    | None => []
    | Some (j, i) => skipn i (leaf_at t j) ++ post t j
    end.

  Notation seek_to := (seek_to leaves seek).
  Notation close_current_leaf := (close_current_leaf leaves flush splice has_parent more_children underfilling packs).
  Notation advance_past_closed_leaf := (advance_past_closed_leaf leaves seek flush splice has_parent more_children underfilling packs).
  Notation ensure_has_entry := (ensure_has_entry leaves seek flush splice has_parent more_children underfilling packs).
  Notation finish_pending := (finish_pending leaves flush splice has_parent more_children underfilling packs).
  Notation splice_open := (splice_open splice).

  Lemma leaf_nonempty t j : ok t -> j < length (leaves t) -> leaf_at t j <> [].
  Proof.
    intros Hok Hj. destruct (ok_leaves t Hok) as [Hall _]. rewrite Forall_forall in Hall.
    apply Hall. unfold Scan.leaf_at. now apply nth_In.
  Qed.

  Lemma pre_S t j : j < length (leaves t) -> pre t (S j) = pre t j ++ leaf_at t j.
  Proof. apply concat_firstn_S. Qed.

  Lemma post_S t j : S j < length (leaves t) -> post t j = leaf_at t (S j) ++ post t (S j).
  Proof. intros H. unfold post. now apply concat_skipn_S. Qed.

  Lemma post_last t j : length (leaves t) <= S j -> post t j = [].
  Proof. intros H. unfold post. now rewrite skipn_all2. Qed.

  Lemma run_leaves_S t a n : a + n < length (leaves t) -> run_leaves t a (S n) = run_leaves t a n ++ leaf_at t (a + n).
  Proof.
    intros H. unfold run_leaves. rewrite concat_firstn_S by (rewrite skipn_length; lia).
    f_equal. unfold Scan.leaf_at. rewrite nth_skipn'. reflexivity.
  Qed.

  Lemma pre_run t a n : a + n <= length (leaves t) -> pre t (a + n) = concat (firstn a (leaves t)) ++ run_leaves t a n.
  Proof.
    intros H. unfold pre, run_leaves. rewrite <- concat_app. f_equal.
    rewrite <- (firstn_skipn a (firstn (a + n) (leaves t))). f_equal.
    - rewrite firstn_firstn. f_equal. lia.
    - rewrite skipn_firstn_comm. f_equal. lia.
  Qed.

  (* the scanned part is a subsequence of what physically precedes the gap *)
  Lemma VP_subseq t c j i : wf t c -> c_pos c = Some (j, i) ->
    Subseq (VP t c) (pre t j ++ firstn i (leaf_at t j)).
  Proof.
    unfold wf, VP. intros Hwf E. rewrite E in *. destruct Hwf as (Hj & Hi & HS & HF & Hrun).
    apply Subseq_app; [|apply remove_indexes_from_Subseq].
    destruct (c_run c) as [[d r]|]; cbn [run_prefix]; [|apply Subseq_refl].
    destruct Hrun as (_ & Ej & _ & _ & _ & Hsub & _). rewrite <- Ej, pre_run by lia.
    apply Subseq_app; [apply Subseq_refl|exact Hsub].
  Qed.

  (* at the end of a leaf: everything scanned is at most the leaf's last key, everything else is above it *)
  Lemma bounds_at_leaf_end t j (X : list (K * V)) : ok t -> j < length (leaves t) -> Subseq X (pre t j ++ leaf_at t j) ->
    exists k, boundary_key (leaf_at t j) DNext = Some k /\
      Forall (fun e => cmp (fst e) k <> Gt) X /\ Forall (fun e => cmp k (fst e) = Lt) (post t j).
  Proof.
    intros Hok Hj Hsub. destruct (ok_leaves t Hok) as [_ Hs]. rewrite (view t j Hj), app_assoc in Hs.
    pose proof (leaf_nonempty t j Hok Hj) as Hne.
    destruct (removelast_last_opt (leaf_at t j) Hne) as [x [Hx Hxe]].
    exists (fst x). split; [cbn; now rewrite Hx|].
    apply (sorted_app_inv cmp) in Hs as (Hs1 & _ & Hlt).
    assert (Hxl : last_opt (pre t j ++ leaf_at t j) = Some x) by (rewrite last_opt_app_nonempty; assumption).
    split.
    - eapply Subseq_Forall; [exact Hsub|]. rewrite Forall_forall. intros e He.
      eapply (last_max cmp laws); eauto.
    - rewrite Forall_forall. intros e He. apply Hlt; [|exact He].
      rewrite Hxe. rewrite app_assoc. apply in_or_app. right. cbn. auto.
  Qed.

  (* reseeking past the boundary key in the rewritten store lands on the same gap *)
  Lemma reseek_after t k X Y : ok t -> contents t = X ++ Y ->
    Forall (fun e => cmp (fst e) k <> Gt) X -> Forall (fun e => cmp k (fst e) = Lt) Y ->
    let c' := mk_cstate (seek_to t (PAfter k)) [] false None in
    wf t c' /\ VP t c' = X /\ Bs t c' = Y /\ (c_pos c' = None -> Y = []).
  Proof.
    intros Hok Hc HX HY. unfold Scan.seek_to, has_root. destruct (leaves t) as [|l0 ls] eqn:EL.
    - unfold contents in Hc. rewrite EL in Hc. cbn in Hc. symmetry in Hc. apply app_eq_nil in Hc as [-> ->].
      cbn. unfold wf, VP, Bs, contents. cbn. rewrite EL. cbn. auto.
    - pose proof (seek_ok t (PAfter k) Hok ltac:(rewrite EL; discriminate)) as Hseek.
      destruct (seek t (PAfter k)) as [j i]. destruct Hseek as (Hj & Hi & Hb & Ha).
      cbn zeta. unfold wf, VP, Bs. cbn [c_pos c_removed c_run run_prefix].
      rewrite remove_indexes_nil.
      assert (Hsplit : (pre t j ++ firstn i (leaf_at t j)) ++ (skipn i (leaf_at t j) ++ post t j) = X ++ Y).
      { rewrite <- Hc, (view t j Hj). rewrite <- !app_assoc. f_equal. rewrite app_assoc, firstn_skipn. reflexivity. }
      destruct (split_unique (below cmp (PAfter k)) (above cmp (PAfter k))
                  ltac:(cbn; intros e H1 H2; apply (cmp_lt_gt cmp laws) in H2; congruence)
                  _ _ _ _ Hsplit Hb Ha HX HY) as [E1 E2].
      repeat split; auto; try constructor. discriminate.
  Qed.

  (* ---- leaving a leaf whose entries have all been scanned *)
  Lemma firstn_all_leaf t j : firstn (length (leaf_at t j)) (leaf_at t j) = leaf_at t j.
  Proof. apply firstn_all. Qed.

  (* the path that rewrites the store and reseeks past the leaf *)
  Lemma flushed_ok t c j t' : ok t -> wf t c -> c_pos c = Some (j, length (leaf_at t j)) ->
    ok t' -> contents t' = VP t c ++ Bs t c ->
    let p := match boundary_key (leaf_at t j) DNext with Some k => seek_to t' (resume_pos DNext k) | None => None end in
    forall det, let c' := mk_cstate p [] det None in
    wf t' c' /\ VP t' c' = VP t c /\ Bs t' c' = Bs t c /\ (p = None -> Bs t c = []).
  Proof.
    intros Hok Hwf Epos Hok' Hcont p det c'.
    pose proof Hwf as Hwf0. unfold wf in Hwf0. rewrite Epos in Hwf0. destruct Hwf0 as (Hj & _ & _ & _ & _).
    pose proof (VP_subseq t c j _ Hwf Epos) as Hsub. rewrite firstn_all_leaf in Hsub.
    destruct (bounds_at_leaf_end t j (VP t c) Hok Hj Hsub) as (k & Ek & HX & HY).
    assert (EB : Bs t c = post t j).
    { unfold Bs. rewrite Epos. now rewrite skipn_all. }
    rewrite <- EB in HY.
    destruct (reseek_after t' k (VP t c) (Bs t c) Hok' Hcont HX HY) as (W1 & W2 & W3 & W4).
    unfold c', p. rewrite Ek. cbn [resume_pos].
    unfold wf, VP, Bs in *. cbn [c_pos c_removed c_run] in *. auto.
  Qed.

  Lemma splice_open_ok t c j : ok t -> wf t c -> c_pos c = Some (j, length (leaf_at t j)) -> c_removed c = [] ->
    c_run c <> None ->
    let '(t', c') := splice_open t c in
    ok t' /\ contents t' = VP t c ++ Bs t c /\ c_pos c' = None /\ c_removed c' = [] /\ c_run c' = None.
  Proof.
    intros Hok Hwf Epos ER Hrun. unfold Scan.splice_open. destruct (c_run c) as [[d r]|] eqn:Er; [|congruence].
    unfold wf in Hwf. rewrite Epos, Er in Hwf. destruct Hwf as (Hj & _ & _ & _ & Hr).
    destruct Hr as (_ & Ej & Hn & Hp & Hmore & Hsub & Hcnt).
    destruct (splice_ok t (r_first r) (r_count r) (r_entries r) (r_removed r) Hok Hn ltac:(lia) Hp
                ltac:(intros x Hx; apply Hmore; lia) Hsub Hcnt) as [S1 S2].
    split; [exact S1|]. split; [|cbn; auto].
    rewrite S2. unfold VP, Bs. rewrite Epos, Er, ER. cbn [run_prefix]. rewrite remove_indexes_nil, firstn_all_leaf, skipn_all.
    cbn [app]. rewrite Ej. rewrite (concat_skipn_S (leaves t) j Hj). fold (leaf_at t j). unfold post.
    rewrite <- !app_assoc. reflexivity.
  Qed.

  Definition settled_or_clean (t : T) (c : cstate) : Prop :=
    match c_pos c with
    | None => False
    | Some (j, i) => i < length (leaf_at t j) \/ (c_removed c = [] /\ c_run c = None)
    end.

  Lemma valid_of_wf n i (R : list nat) : StronglySorted lt R -> Forall (fun x => x < i) R -> i <= n -> valid_idx n R.
  Proof. intros HS HF Hi. split; [exact HS|]. eapply Forall_impl; [|exact HF]. cbn. intros; lia. Qed.

  (* stepping to the next leaf (no mutation) *)
  Lemma step_ok t c j X : ok t -> j < length (leaves t) -> c_pos c = Some (j, length (leaf_at t j)) -> c_removed c = [] ->
    (S j < length (leaves t) -> run_wf t (S j) (c_run c) /\ run_prefix t (S j) (c_run c) = X) ->
    let '(b, c') := step_adjacent leaves t c DNext in
    (b = true -> wf t c' /\ VP t c' = X /\ Bs t c' = post t j /\ settled_or_clean t c') /\
    (b = false -> c' = c /\ post t j = []).
  Proof.
    intros Hok Hj Epos ER Hrun. unfold step_adjacent. rewrite Epos.
    destruct (Nat.ltb (S j) (length (leaves t))) eqn:E.
    - apply Nat.ltb_lt in E. pose proof (leaf_nonempty t (S j) Hok E) as Hne.
      destruct (Hrun E) as [Hw Hp]. split; [|discriminate]. intros _.
      unfold wf, VP, Bs, settled_or_clean. cbn [c_pos c_removed c_run]. rewrite ER.
      cbn [firstn skipn]. rewrite remove_indexes_nil, app_nil_r.
      split; [|split; [|split]].
      + repeat split; try lia; try constructor. exact Hw.
      + exact Hp.
      + symmetry. now apply post_S.
      + left. destruct (leaf_at t (S j)); [congruence|cbn; lia].
    - apply Nat.ltb_ge in E. split; [discriminate|]. intros _. split; [reflexivity|]. apply post_last. lia.
  Qed.

  Lemma advance_ok t c j : ok t -> wf t c -> c_pos c = Some (j, length (leaf_at t j)) ->
    let '(b, t', c') := advance_past_closed_leaf t c DNext in
    ok t' /\ wf t' c' /\ VP t' c' = VP t c /\ Bs t' c' = Bs t c /\
    (b = false -> Bs t c = []) /\ (b = true -> settled_or_clean t' c').
  Proof.
    intros Hok Hwf Epos. unfold Scan.advance_past_closed_leaf, Scan.close_current_leaf. rewrite Epos.
    pose proof Hwf as Hwf0. unfold wf in Hwf0. rewrite Epos in Hwf0. destruct Hwf0 as (Hj & _ & HS & HF & Hr0).
    assert (EB : Bs t c = post t j) by (unfold Bs; rewrite Epos; now rewrite skipn_all).
    destruct (c_removed c) as [|x0 R0] eqn:ER.
    - (* no pending removals in this leaf *)
      destruct (c_run c) as [[d r]|] eqn:Er.
      + (* an open run is spliced: the leaf had nothing to contribute *)
        pose proof (splice_open_ok t c j Hok Hwf Epos ER ltac:(rewrite Er; discriminate)) as Hsp.
        destruct (splice_open t c) as [t' c1]. destruct Hsp as (S1 & S2 & S3 & S4 & S5).
        destruct (flushed_ok t c j t' Hok Hwf Epos S1 S2 (c_detached c1)) as (F1 & F2 & F3 & F4).
        rewrite S4, S5. split; [exact S1|]. split; [exact F1|]. split; [exact F2|]. split; [exact F3|].
        destruct (boundary_key (leaf_at t j) DNext) as [k|]; cbn [resume_pos] in *.
        * destruct (seek_to t' (PAfter k)) as [[j' i']|] eqn:Es.
          -- split; [discriminate|]. intros _. unfold settled_or_clean. cbn. auto.
          -- split; [intros _; now apply F4|discriminate].
        * split; [intros _; now apply F4|discriminate].
      + (* nothing to do: step to the next leaf *)
        assert (HX : S j < length (leaves t) -> run_wf t (S j) (c_run c) /\ run_prefix t (S j) (c_run c) = VP t c).
        { intros _. rewrite Er. split; [exact I|]. unfold VP. rewrite Epos, Er, ER. cbn [run_prefix].
          rewrite remove_indexes_nil, firstn_all_leaf. now apply pre_S. }
        pose proof (step_ok t c j (VP t c) Hok Hj Epos ER HX) as Hst.
        destruct (step_adjacent leaves t c DNext) as [b c']. destruct Hst as [H1 H2].
        split; [exact Hok|]. destruct b.
        * destruct (H1 eq_refl) as (W1 & W2 & W3 & W4). rewrite EB. repeat split; auto. discriminate.
        * destruct (H2 eq_refl) as [-> Hp]. rewrite EB. repeat split; auto. discriminate.
    - (* pending removals *)
      rewrite <- ER in *. assert (HRne : c_removed c <> []) by (rewrite ER; discriminate).
      rewrite (ascending_sorted _ HS).
      assert (Hvalid : valid_idx (length (leaf_at t j)) (c_removed c)) by (eapply valid_of_wf; eauto).
      set (retained := remove_indexes (leaf_at t j) (c_removed c)).
      assert (EVP : VP t c = run_prefix t j (c_run c) ++ retained).
      { unfold VP. rewrite Epos, firstn_all_leaf. reflexivity. }
      destruct (negb (underfilling retained || match c_run c with Some _ => true | None => false end) || negb (has_parent t j)) eqn:Ecase.
      + (* direct flush *)
        assert (Hnorun : c_run c = None).
        { destruct (c_run c) as [[d r]|] eqn:Er; [|reflexivity]. exfalso.
          destruct Hr0 as (_ & _ & _ & Hp & _). rewrite (has_parent_const t j (r_first r)), Hp in Ecase.
          rewrite orb_true_r in Ecase. cbn in Ecase. discriminate. }
        destruct (flush_ok (negb (c_detached c)) t j (c_removed c) Hok Hj HRne Hvalid) as [Fo Fc].
        assert (Hcont : contents (flush (negb (c_detached c)) t j (c_removed c)) = VP t c ++ Bs t c).
        { rewrite Fc, EVP, EB, Hnorun. cbn [run_prefix]. fold retained. now rewrite app_assoc. }
        destruct (flushed_ok t c j _ Hok Hwf Epos Fo Hcont false) as (F1 & F2 & F3 & F4).
        cbn [c_removed c_detached c_run]. split; [exact Fo|]. split; [exact F1|]. split; [exact F2|]. split; [exact F3|].
        destruct (boundary_key (leaf_at t j) DNext) as [k|]; cbn [resume_pos] in *.
        * destruct (seek_to (flush (negb (c_detached c)) t j (c_removed c)) (PAfter k)) as [[j' i']|] eqn:Es.
          -- split; [discriminate|]. intros _. unfold settled_or_clean. cbn. auto.
          -- split; [intros _; now apply F4|discriminate].
        * split; [intros _; now apply F4|discriminate].
      + (* the leaf joins a coalescing run *)
        apply orb_false_iff in Ecase as [_ Ehp]. apply negb_false_iff in Ehp.
        assert (Hrn : exists r', run_append (c_run c) DNext j retained (length (c_removed c)) = (DNext, r') /\
                  r_first r' + r_count r' = S j /\ 1 <= r_count r' /\
                  has_parent t (r_first r') = true /\
                  (forall x, S x < r_count r' -> more_children t (r_first r' + x) DNext = true) /\
                  Subseq (r_entries r') (run_leaves t (r_first r') (r_count r')) /\
                  N.of_nat (length (run_leaves t (r_first r') (r_count r'))) = (N.of_nat (length (r_entries r')) + r_removed r')%N /\
                  concat (firstn (r_first r') (leaves t)) ++ r_entries r' = VP t c).
        { pose proof (remove_indexes_length _ _ Hvalid) as Hlen. fold retained in Hlen.
          pose proof (remove_indexes_from_Subseq (leaf_at t j) 0 (c_removed c)) as Hsubr.
          fold (remove_indexes (leaf_at t j) (c_removed c)) in Hsubr. fold retained in Hsubr.
          unfold run_append. destruct (c_run c) as [[d r]|] eqn:Er.
          - destruct Hr0 as (Ed & Ej & Hn & Hp & Hmore & Hsub & Hcnt). subst d.
            eexists. split; [reflexivity|]. cbn [r_first r_count r_entries r_removed].
            assert (Hrl : run_leaves t (r_first r) (S (r_count r)) = run_leaves t (r_first r) (r_count r) ++ leaf_at t j).
            { rewrite run_leaves_S by lia. now rewrite Ej. }
            split; [lia|]. split; [lia|]. split; [exact Hp|]. split; [intros x Hx; apply Hmore; lia|].
            split; [rewrite Hrl; now apply Subseq_app|]. split.
            + rewrite Hrl, !app_length. lia.
            + rewrite EVP. cbn [run_prefix]. now rewrite app_assoc.
          - eexists. split; [reflexivity|]. cbn [r_first r_count r_entries r_removed].
            assert (Hrl : run_leaves t j 1 = leaf_at t j).
            { unfold run_leaves. rewrite (skipn_cons_nth (leaves t) j [] Hj). cbn. now rewrite app_nil_r. }
            split; [lia|]. split; [lia|]. split; [exact Ehp|]. split; [intros x Hx; lia|].
            split; [now rewrite Hrl|]. split; [rewrite Hrl; lia|]. rewrite EVP. reflexivity. }
        destruct Hrn as (r' & Ern & Ej' & Hn' & Hp' & Hmore' & Hsub' & Hcnt' & Hpre').
        rewrite Ern.
        destruct (packs retained && more_children t j DNext) eqn:Ekeep.
        * (* absorbed: the run stays open, the scan steps to the next sibling *)
          apply andb_true_iff in Ekeep as [_ Emore].
          pose proof (more_next t j Hok Hj Emore) as Hnext.
          set (c1 := mk_cstate (Some (j, length (leaf_at t j))) [] false (Some (DNext, r'))).
          assert (HX : S j < length (leaves t) -> run_wf t (S j) (c_run c1) /\ run_prefix t (S j) (c_run c1) = VP t c).
          { intros _. unfold c1. cbn [c_run run_wf run_prefix]. split; [|exact Hpre'].
            repeat split; auto. intros x Hx. destruct (Nat.eq_dec (S x) (r_count r')) as [E|E].
            - replace (r_first r' + x) with j by lia. exact Emore.
            - apply Hmore'. lia. }
          pose proof (step_ok t c1 j (VP t c) Hok Hj eq_refl eq_refl HX) as Hst.
          destruct (step_adjacent leaves t c1 DNext) as [b c']. destruct Hst as [H1 H2].
          split; [exact Hok|]. destruct b.
          -- destruct (H1 eq_refl) as (W1 & W2 & W3 & W4). rewrite EB. repeat split; auto. discriminate.
          -- destruct (H2 eq_refl) as [_ Hp]. exfalso.
             rewrite (post_S t j Hnext) in Hp. pose proof (leaf_nonempty t (S j) Hok Hnext) as Hne.
             destruct (leaf_at t (S j)); [congruence|discriminate].
        * (* the run ends here: splice and reseek *)
          cbn [Scan.splice_open c_run c_removed c_detached].
          destruct (splice_ok t (r_first r') (r_count r') (r_entries r') (r_removed r') Hok Hn' ltac:(lia) Hp' Hmore' Hsub' Hcnt') as [So Sc].
          assert (Hcont : contents (splice t (r_first r') (r_count r') (r_entries r') (r_removed r')) = VP t c ++ Bs t c).
          { rewrite Sc, EB, <- Hpre', Ej'. unfold post. now rewrite app_assoc. }
          destruct (flushed_ok t c j _ Hok Hwf Epos So Hcont false) as (F1 & F2 & F3 & F4).
          split; [exact So|]. split; [exact F1|]. split; [exact F2|]. split; [exact F3|].
          destruct (boundary_key (leaf_at t j) DNext) as [k|]; cbn [resume_pos] in *.
          -- destruct (seek_to (splice t (r_first r') (r_count r') (r_entries r') (r_removed r')) (PAfter k)) as [[j' i']|] eqn:Es.
             ++ split; [discriminate|]. intros _. unfold settled_or_clean. cbn. auto.
             ++ split; [intros _; now apply F4|discriminate].
          -- split; [intros _; now apply F4|discriminate].
  Qed.

  (* ---- having an entry; moving over it; recording its removal *)
  Definition entry_at (t : T) (c : cstate) : Prop :=
    match c_pos c with Some (j, i) => i < length (leaf_at t j) | None => False end.

  Lemma step_entry t c j X : ok t -> j < length (leaves t) -> c_pos c = Some (j, length (leaf_at t j)) -> c_removed c = [] ->
    (S j < length (leaves t) -> run_wf t (S j) (c_run c) /\ run_prefix t (S j) (c_run c) = X) ->
    fst (step_adjacent leaves t c DNext) = true -> entry_at t (snd (step_adjacent leaves t c DNext)).
  Proof.
    intros Hok Hj Epos ER Hrun. unfold step_adjacent. rewrite Epos.
    destruct (Nat.ltb (S j) (length (leaves t))) eqn:E; [|discriminate].
    apply Nat.ltb_lt in E. intros _. unfold entry_at. cbn.
    pose proof (leaf_nonempty t (S j) Hok E) as Hne. destruct (leaf_at t (S j)); [congruence|cbn; lia].
  Qed.

  (* a cursor that is clean (no pending removals, no run) at the end of a leaf reaches an entry by one step *)
  Lemma advance_clean t c j : ok t -> wf t c -> c_pos c = Some (j, length (leaf_at t j)) ->
    c_removed c = [] -> c_run c = None ->
    let '(b, t', c') := advance_past_closed_leaf t c DNext in b = true -> entry_at t' c'.
  Proof.
    intros Hok Hwf Epos ER Er. unfold Scan.advance_past_closed_leaf, Scan.close_current_leaf. rewrite Epos, ER, Er.
    pose proof Hwf as Hwf0. unfold wf in Hwf0. rewrite Epos in Hwf0. destruct Hwf0 as (Hj & _).
    pose proof (step_entry t c j (VP t c) Hok Hj Epos ER) as Hs.
    destruct (step_adjacent leaves t c DNext) as [b c']. cbn [fst snd] in Hs. intros Hb. apply Hs; [|exact Hb].
    intros _. rewrite Er. split; [exact I|]. unfold VP. rewrite Epos, Er, ER. cbn [run_prefix].
    rewrite remove_indexes_nil, firstn_all_leaf. now apply pre_S.
  Qed.

  Lemma has_entry_iff t c j i : c_pos c = Some (j, i) -> (has_entry (leaf_at t j) i DNext = true <-> entry_at t c).
  Proof. intros E. unfold has_entry, entry_at. rewrite E. apply Nat.ltb_lt. Qed.

  Lemma ensure_ok fuel t c : 2 <= fuel -> ok t -> wf t c ->
    let '(b, t', c') := ensure_has_entry fuel t c DNext in
    ok t' /\ wf t' c' /\ VP t' c' = VP t c /\ Bs t' c' = Bs t c /\
    (b = true -> entry_at t' c') /\ (b = false -> Bs t c = []).
  Proof.
    intros Hf Hok Hwf. destruct fuel as [|[|f]]; try lia. clear Hf.
    cbn [Scan.ensure_has_entry]. destruct (c_pos c) as [[j i]|] eqn:Epos.
    2:{ repeat split; auto; try discriminate. intros _. unfold Bs. now rewrite Epos. }
    destruct (has_entry (leaf_at t j) i DNext) eqn:Eh.
    { repeat split; auto; try discriminate. intros _. now apply (has_entry_iff t c j i Epos). }
    (* at the end of leaf j *)
    assert (Ei : i = length (leaf_at t j)).
    { unfold wf in Hwf. rewrite Epos in Hwf. destruct Hwf as (_ & Hi & _). unfold has_entry in Eh. apply Nat.ltb_ge in Eh. lia. }
    subst i. pose proof (advance_ok t c j Hok Hwf Epos) as Ha.
    destruct (advance_past_closed_leaf t c DNext) as [[b t1] c1]. destruct Ha as (A1 & A2 & A3 & A4 & A5 & A6).
    destruct b.
    2:{ repeat split; auto; discriminate. }
    specialize (A6 eq_refl). unfold settled_or_clean in A6.
    destruct (c_pos c1) as [[j1 i1]|] eqn:Epos1; [|contradiction].
    destruct (has_entry (leaf_at t1 j1) i1 DNext) eqn:Eh1.
    { repeat split; auto; try discriminate. intros _. now apply (has_entry_iff t1 c1 j1 i1 Epos1). }
    destruct A6 as [Hlt|[ER1 Er1]]; [unfold has_entry in Eh1; apply Nat.ltb_ge in Eh1; lia|].
    assert (Ei1 : i1 = length (leaf_at t1 j1)).
    { unfold wf in A2. rewrite Epos1 in A2. destruct A2 as (_ & Hi & _). unfold has_entry in Eh1. apply Nat.ltb_ge in Eh1. lia. }
    subst i1. pose proof (advance_ok t1 c1 j1 A1 A2 Epos1) as Hb. pose proof (advance_clean t1 c1 j1 A1 A2 Epos1 ER1 Er1) as Hc.
    destruct (advance_past_closed_leaf t1 c1 DNext) as [[b2 t2] c2]. destruct Hb as (B1 & B2 & B3 & B4 & B5 & B6).
    destruct b2.
    2:{ repeat split; auto; try congruence; try discriminate. intros _. rewrite <- A4. now apply B5. }
    specialize (Hc eq_refl). unfold entry_at in Hc. destruct (c_pos c2) as [[j2 i2]|] eqn:Epos2; [|contradiction].
    destruct f as [|f'].
    - cbn [Scan.ensure_has_entry]. rewrite Epos2.
      assert (Eh2 : has_entry (leaf_at t2 j2) i2 DNext = true) by (unfold has_entry; now apply Nat.ltb_lt). rewrite Eh2.
      repeat split; auto; try congruence; try discriminate. intros _. unfold entry_at. now rewrite Epos2.
    - cbn [Scan.ensure_has_entry]. rewrite Epos2.
      assert (Eh2 : has_entry (leaf_at t2 j2) i2 DNext = true) by (unfold has_entry; now apply Nat.ltb_lt). rewrite Eh2.
      repeat split; auto; try congruence; try discriminate. intros _. unfold entry_at. now rewrite Epos2.
  Qed.

  Lemma entry_exists t c : entry_at t c -> exists j i e, c_pos c = Some (j, i) /\ nth_error (leaf_at t j) i = Some e /\
    current_entry leaves t c DNext = Some e.
  Proof.
    unfold entry_at, current_entry. destruct (c_pos c) as [[j i]|]; [|contradiction]. intros Hlt.
    destruct (nth_error (leaf_at t j) i) as [e|] eqn:E.
    - exists j, i, e. auto.
    - apply nth_error_None in E. lia.
  Qed.

  Lemma move_ok t c j i e : wf t c -> c_pos c = Some (j, i) -> nth_error (leaf_at t j) i = Some e ->
    wf t (cursor_move c DNext) /\ VP t (cursor_move c DNext) = VP t c ++ [e] /\ Bs t c = e :: Bs t (cursor_move c DNext).
  Proof.
    intros Hwf Epos En. unfold cursor_move. rewrite Epos. cbn [move_once].
    unfold wf, VP, Bs in *. rewrite Epos in *. cbn [c_pos c_removed c_run].
    destruct Hwf as (Hj & Hi & HS & HF & Hr).
    assert (Hlt : i < length (leaf_at t j)) by (apply nth_error_Some; congruence).
    split; [|split].
    - repeat split; auto; try lia. eapply Forall_impl; [|exact HF]. cbn. intros; lia.
    - rewrite (firstn_S_snoc _ _ _ En). unfold remove_indexes. rewrite remove_from_app.
      + now rewrite app_assoc.
      + rewrite firstn_length_le by lia. exact HF.
    - rewrite (skipn_nth_cons _ _ _ En). reflexivity.
  Qed.

  Lemma remove_ok t c j i e (df : bool) : wf t c -> c_pos c = Some (j, i) -> nth_error (leaf_at t j) i = Some e ->
    wf t (cursor_remove c DNext df) /\ VP t (cursor_remove c DNext df) = VP t c /\
    Bs t c = e :: Bs t (cursor_remove c DNext df).
  Proof.
    intros Hwf Epos En. unfold cursor_remove. rewrite Epos. cbn [move_once entry_index].
    unfold wf, VP, Bs in *. rewrite Epos in *. cbn [c_pos c_removed c_run].
    destruct Hwf as (Hj & Hi & HS & HF & Hr).
    assert (Hlt : i < length (leaf_at t j)) by (apply nth_error_Some; congruence).
    split; [|split].
    - repeat split; auto; try lia.
      + clear -HS HF. induction (c_removed c) as [|x R IH]; cbn; [repeat constructor|].
        inversion HS; subst. inversion HF; subst. constructor; [apply IH; assumption|].
        apply Forall_app. split; [assumption|]. constructor; [lia|constructor].
      + apply Forall_app. split; [eapply Forall_impl; [|exact HF]; cbn; intros; lia|]. constructor; [lia|constructor].
    - f_equal. rewrite (firstn_S_snoc _ _ _ En). unfold remove_indexes.
      pose proof (remove_from_snoc_kill (firstn i (leaf_at t j)) 0 (c_removed c) e HS) as H.
      rewrite firstn_length_le in H by lia. cbn [Nat.add] in H. apply H.
      eapply Forall_impl; [|exact HF]. cbn. intros; lia.
    - rewrite (skipn_nth_cons _ _ _ En). reflexivity.
  Qed.

  (* ---- finish_pending_removals: everything pending is applied *)
  Lemma remove_split (es : list (K * V)) i (R : list nat) : Forall (fun x => x < i) R -> i <= length es ->
    remove_indexes es R = remove_indexes (firstn i es) R ++ skipn i es.
  Proof.
    intros HF Hi. unfold remove_indexes. rewrite <- (firstn_skipn i es) at 1. apply remove_from_app.
    rewrite firstn_length_le by lia. exact HF.
  Qed.

  Lemma finish_ok t c : ok t -> wf t c ->
    let '(t', c') := finish_pending t c in ok t' /\ contents t' = VP t c ++ Bs t c.
  Proof.
    intros Hok Hwf. unfold Scan.finish_pending.
    destruct (c_pos c) as [[j i]|] eqn:Epos.
    2:{ unfold wf in Hwf. rewrite Epos in Hwf. destruct Hwf as [ER Er].
        unfold Scan.splice_open. rewrite Er. split; [exact Hok|]. unfold VP, Bs. rewrite Epos. now rewrite app_nil_r. }
    pose proof Hwf as Hwf0. unfold wf in Hwf0. rewrite Epos in Hwf0. destruct Hwf0 as (Hj & Hi & HS & HF & Hr0).
    assert (Hview : contents t = pre t j ++ (firstn i (leaf_at t j) ++ skipn i (leaf_at t j)) ++ post t j)
      by (rewrite firstn_skipn; now apply view).
    destruct (c_removed c) as [|x0 R0] eqn:ER.
    - (* only an open run, if any *)
      unfold Scan.splice_open. destruct (c_run c) as [[d r]|] eqn:Er.
      + destruct Hr0 as (_ & Ej & Hn & Hp & Hmore & Hsub & Hcnt).
        destruct (splice_ok t (r_first r) (r_count r) (r_entries r) (r_removed r) Hok Hn ltac:(lia) Hp
                    ltac:(intros x Hx; apply Hmore; lia) Hsub Hcnt) as [S1 S2].
        split; [exact S1|]. rewrite S2. unfold VP, Bs. rewrite Epos, Er, ER. cbn [run_prefix]. rewrite remove_indexes_nil.
        rewrite Ej, (concat_skipn_S (leaves t) j Hj). fold (leaf_at t j). unfold post.
        rewrite <- (firstn_skipn i (leaf_at t j)) at 1. rewrite <- !app_assoc. reflexivity.
      + split; [exact Hok|]. unfold VP, Bs. rewrite Epos, Er, ER. cbn [run_prefix]. rewrite remove_indexes_nil.
        rewrite Hview. rewrite <- !app_assoc. reflexivity.
    - (* the current leaf has pending removals: close it, then splice what is open *)
      rewrite <- ER in *. assert (HRne : c_removed c <> []) by (rewrite ER; discriminate).
      assert (Hdir : match c_run c with Some (d0, _) => d0 | None => DNext end = DNext).
      { destruct (c_run c) as [[d r]|]; [destruct Hr0 as (-> & _); reflexivity|reflexivity]. }
      rewrite Hdir. unfold Scan.close_current_leaf. rewrite Epos, ER. rewrite <- ER.
      rewrite (ascending_sorted _ HS).
      assert (Hvalid : valid_idx (length (leaf_at t j)) (c_removed c)) by (eapply valid_of_wf; eauto).
      set (retained := remove_indexes (leaf_at t j) (c_removed c)).
      assert (Eret : retained = remove_indexes (firstn i (leaf_at t j)) (c_removed c) ++ skipn i (leaf_at t j))
        by (apply remove_split; assumption).
      assert (EVB : VP t c ++ Bs t c = run_prefix t j (c_run c) ++ retained ++ post t j).
      { unfold VP, Bs. rewrite Epos, Eret. rewrite <- !app_assoc. reflexivity. }
      destruct (negb (underfilling retained || match c_run c with Some _ => true | None => false end) || negb (has_parent t j)) eqn:Ecase.
      + assert (Hnorun : c_run c = None).
        { destruct (c_run c) as [[d r]|] eqn:Er; [|reflexivity]. exfalso.
          destruct Hr0 as (_ & _ & _ & Hp & _). rewrite (has_parent_const t j (r_first r)), Hp in Ecase.
          rewrite orb_true_r in Ecase. cbn in Ecase. discriminate. }
        destruct (flush_ok (negb (c_detached c)) t j (c_removed c) Hok Hj HRne Hvalid) as [Fo Fc].
        cbn [Scan.splice_open c_run]. split; [exact Fo|]. rewrite Fc, EVB, Hnorun. reflexivity.
      + apply orb_false_iff in Ecase as [_ Ehp]. apply negb_false_iff in Ehp.
        pose proof (remove_indexes_length _ _ Hvalid) as Hlen. fold retained in Hlen.
        pose proof (remove_indexes_from_Subseq (leaf_at t j) 0 (c_removed c)) as Hsubr.
        fold (remove_indexes (leaf_at t j) (c_removed c)) in Hsubr. fold retained in Hsubr.
        (* whichever way the run ends, it is spliced with the leaf's retained entries appended *)
        assert (Hfinal : forall r', run_append (c_run c) DNext j retained (length (c_removed c)) = (DNext, r') ->
                  ok (splice t (r_first r') (r_count r') (r_entries r') (r_removed r')) /\
                  contents (splice t (r_first r') (r_count r') (r_entries r') (r_removed r')) = VP t c ++ Bs t c).
        { intros r' Ern. unfold run_append in Ern. destruct (c_run c) as [[d r]|] eqn:Er.
          - destruct Hr0 as (Ed & Ej & Hn & Hp & Hmore & Hsub & Hcnt). subst d. inversion Ern; subst r'. clear Ern.
            cbn [r_first r_count r_entries r_removed].
            assert (Hrl : run_leaves t (r_first r) (S (r_count r)) = run_leaves t (r_first r) (r_count r) ++ leaf_at t j).
            { rewrite run_leaves_S by lia. now rewrite Ej. }
            destruct (splice_ok t (r_first r) (S (r_count r)) (r_entries r ++ retained) (r_removed r + N.of_nat (length (c_removed c))) Hok
                        ltac:(lia) ltac:(lia) Hp ltac:(intros x Hx; apply Hmore; lia)
                        ltac:(rewrite Hrl; now apply Subseq_app) ltac:(rewrite Hrl, !app_length; lia)) as [S1 S2].
            split; [exact S1|]. rewrite S2, EVB. cbn [run_prefix]. replace (r_first r + S (r_count r)) with (S j) by lia.
            unfold post. rewrite <- !app_assoc. reflexivity.
          - inversion Ern; subst r'. clear Ern. cbn [r_first r_count r_entries r_removed].
            assert (Hrl : run_leaves t j 1 = leaf_at t j).
            { unfold run_leaves. rewrite (skipn_cons_nth (leaves t) j [] Hj). cbn. now rewrite app_nil_r. }
            destruct (splice_ok t j 1 retained (N.of_nat (length (c_removed c))) Hok ltac:(lia) ltac:(lia) Ehp
                        ltac:(intros x Hx; lia) ltac:(now rewrite Hrl) ltac:(rewrite Hrl; lia)) as [S1 S2].
            split; [exact S1|]. rewrite S2, EVB. cbn [run_prefix]. replace (j + 1) with (S j) by lia. reflexivity. }
        destruct (run_append (c_run c) DNext j retained (length (c_removed c))) as [d' r'] eqn:Ern.
        assert (d' = DNext).
        { unfold run_append in Ern. destruct (c_run c) as [[d r]|]; [destruct Hr0 as (-> & _)|]; inversion Ern; reflexivity. }
        subst d'. specialize (Hfinal r' eq_refl).
        destruct (packs retained && more_children t j DNext); cbn [Scan.splice_open c_run c_removed c_detached]; exact Hfinal.
  Qed.

  (* ---- retain_in_bounds *)
  Section Retain.
  Variables (lo hi : bound K) (p : K -> V -> bool).
  Notation keepf := (SortedMap.retain_in cmp lo hi p).
  Notation retain_scan := (retain_scan cmp leaves seek flush splice has_parent more_children underfilling packs).

  Lemma keepf_app a b : keepf (a ++ b) = keepf a ++ keepf b.
  Proof. unfold SortedMap.retain_in. apply filter_app. Qed.

  Lemma before_upper_eq k : before_upper cmp hi k = below_upper cmp hi k.
  Proof. destruct hi; reflexivity. Qed.

  Lemma below_upper_mono k k' : cmp k k' = Lt -> below_upper cmp hi k = false -> below_upper cmp hi k' = false.
  Proof.
    intros Hlt. destruct hi as [|b|b]; cbn; [discriminate| |].
    - rewrite !(kle_false_iff cmp laws). intros H. eapply (cmp_trans _ laws); eauto.
    - rewrite !(klt_false_iff cmp laws). intros H. intros Hgt. apply H.
      apply (cmp_gt_lt cmp laws) in Hgt. apply (cmp_gt_lt cmp laws). eapply (cmp_trans _ laws); eauto.
  Qed.

  Lemma keepf_beyond (e : K * V) (rest : list (K * V)) : sorted (e :: rest) -> below_upper cmp hi (fst e) = false ->
    keepf (e :: rest) = e :: rest.
  Proof.
    intros Hs Hb. unfold SortedMap.retain_in. apply filter_Forall_id.
    apply (sorted_cons_inv cmp) in Hs as [_ Hlt]. unfold keys_lt in Hlt. constructor.
    - unfold in_range. rewrite Hb, andb_false_r. reflexivity.
    - rewrite Forall_forall in *. intros x Hx. specialize (Hlt x Hx).
      unfold in_range. rewrite (below_upper_mono _ _ Hlt Hb), andb_false_r. reflexivity.
  Qed.

  Lemma retain_scan_ok efuel : 2 <= efuel -> forall fuel t c A m0, ok t -> wf t c -> sorted m0 ->
    m0 = A ++ Bs t c -> VP t c = keepf A -> Forall (fun e => above_lower cmp lo (fst e) = true) (Bs t c) ->
    length (Bs t c) < fuel ->
    let '(t', c') := retain_scan fuel efuel t c hi p in ok t' /\ contents t' = keepf m0.
  Proof.
    intros Hef. induction fuel as [|f IH]; intros t c A m0 Hok Hwf Hs Hm HVP Hlo Hlen; [lia|].
    cbn [Scan.retain_scan].
    pose proof (ensure_ok efuel t c Hef Hok Hwf) as He.
    destruct (ensure_has_entry efuel t c DNext) as [[b t1] c1]. destruct He as (E1 & E2 & E3 & E4 & E5 & E6).
    rewrite <- E3 in HVP. rewrite <- E4 in Hm, Hlo, Hlen.
    assert (Hfin : forall X, Bs t1 c1 = X -> keepf X = X ->
              let '(t', c') := finish_pending t1 c1 in ok t' /\ contents t' = keepf m0).
    { intros X EX HX. pose proof (finish_ok t1 c1 E1 E2) as Hf. destruct (finish_pending t1 c1) as [t' c'].
      destruct Hf as [F1 F2]. split; [exact F1|]. rewrite F2, Hm, keepf_app, HVP, EX, HX. reflexivity. }
    destruct b.
    2:{ apply (Hfin []); [rewrite E4; now apply E6|reflexivity]. }
    destruct (entry_exists t1 c1 (E5 eq_refl)) as (j & i & e & Epos & En & Ecur). rewrite Ecur.
    destruct e as [k v].
    destruct (move_ok t1 c1 j i (k, v) E2 Epos En) as (M1 & M2 & M3).
    destruct (remove_ok t1 c1 j i (k, v) false E2 Epos En) as (R1 & R2 & R3).
    assert (Hsb : sorted (Bs t1 c1)) by (rewrite Hm in Hs; now apply (sorted_app_inv cmp) in Hs).
    rewrite before_upper_eq. destruct (below_upper cmp hi k) eqn:Eup.
    - assert (Hrange : in_range cmp lo hi k = true).
      { unfold in_range. rewrite Eup, andb_true_r. rewrite M3 in Hlo. inversion Hlo; subst. assumption. }
      destruct (p k v) eqn:Ep.
      + (* kept *)
        apply (IH t1 (cursor_move c1 DNext) (A ++ [(k, v)]) m0 E1 M1 Hs).
        * rewrite Hm, M3, <- app_assoc. reflexivity.
        * rewrite M2, HVP, keepf_app. f_equal. unfold SortedMap.retain_in. cbn. rewrite Ep, orb_true_r. reflexivity.
        * rewrite M3 in Hlo. now inversion Hlo.
        * rewrite M3 in Hlen. cbn in Hlen. lia.
      + (* removed *)
        apply (IH t1 (cursor_remove c1 DNext false) (A ++ [(k, v)]) m0 E1 R1 Hs).
        * rewrite Hm, R3, <- app_assoc. reflexivity.
        * rewrite R2, HVP, keepf_app. unfold SortedMap.retain_in at 3. cbn. rewrite Hrange, Ep. cbn. now rewrite app_nil_r.
        * rewrite R3 in Hlo. now inversion Hlo.
        * rewrite R3 in Hlen. cbn in Hlen. lia.
    - (* beyond the upper bound: the scan stops *)
      apply (Hfin (Bs t1 c1) eq_refl). rewrite M3 in *. now apply keepf_beyond.
  Qed.

  Lemma pos_lower_below (e : K * V) : below cmp (pos_of_lower lo) e -> above_lower cmp lo (fst e) = false.
  Proof.
    destruct lo as [|k|k]; cbn; [contradiction| |].
    - intros H. apply (kle_false_iff cmp laws). exact H.
    - intros H. apply (klt_false_iff cmp laws). exact H.
  Qed.

  Lemma pos_lower_above (e : K * V) : above cmp (pos_of_lower lo) e -> above_lower cmp lo (fst e) = true.
  Proof.
    destruct lo as [|k|k]; cbn; [reflexivity| |].
    - intros H. now apply (kle_iff cmp).
    - intros H. now apply (klt_iff cmp).
  Qed.

  Theorem scan_retain_ok t fuel efuel : ok t -> 2 <= efuel -> length (contents t) < fuel ->
    let t' := scan_retain_in cmp leaves seek flush splice has_parent more_children underfilling packs fuel efuel t lo hi p in
    ok t' /\ contents t' = keepf (contents t).
  Proof.
    intros Hok Hef Hfuel. cbn zeta. unfold scan_retain_in.
    destruct (ok_leaves t Hok) as [_ Hs].
    destruct (has_root leaves t) eqn:Eroot; cbn [negb orb].
    2:{ split; [exact Hok|]. unfold has_root in Eroot. unfold contents. destruct (leaves t); [reflexivity|discriminate]. }
    destruct (bounds_empty cmp lo hi) eqn:Ebe.
    { split; [exact Hok|]. unfold SortedMap.retain_in. symmetry. apply filter_Forall_id.
      pose proof (bounds_empty_range cmp laws (contents t) lo hi Ebe) as Hr. unfold range in Hr.
      rewrite Forall_forall. intros e He.
      destruct (in_range cmp lo hi (fst e)) eqn:Ei; [|reflexivity]. exfalso.
      assert (In e (filter (fun e0 => in_range cmp lo hi (fst e0)) (contents t))) by (apply filter_In; auto).
      rewrite Hr in H. contradiction. }
    (* the opening seek *)
    unfold Scan.seek_to. rewrite Eroot.
    assert (Hne : leaves t <> []) by (unfold has_root in Eroot; destruct (leaves t); [discriminate|discriminate]).
    pose proof (seek_ok t (pos_of_lower lo) Hok Hne) as Hseek.
    destruct (seek t (pos_of_lower lo)) as [j i]. destruct Hseek as (Hj & Hi & Hb & Ha).
    set (c0 := mk_cstate (Some (j, i)) [] false None).
    assert (Hwf : wf t c0) by (unfold wf, c0; cbn; repeat split; auto; constructor).
    assert (EVP : VP t c0 = pre t j ++ firstn i (leaf_at t j)) by (unfold VP, c0; cbn; now rewrite remove_indexes_nil).
    assert (EBs : Bs t c0 = skipn i (leaf_at t j) ++ post t j) by reflexivity.
    assert (Hm : contents t = VP t c0 ++ Bs t c0).
    { rewrite EVP, EBs, (view t j Hj). rewrite <- !app_assoc. f_equal. rewrite app_assoc, firstn_skipn. reflexivity. }
    pose proof (retain_scan_ok efuel Hef fuel t c0 (VP t c0) (contents t) Hok Hwf Hs Hm) as H.
    destruct (retain_scan fuel efuel t c0 hi p) as [t' c']. cbn [fst]. apply H.
    - rewrite EVP. unfold SortedMap.retain_in. symmetry. apply filter_Forall_id.
      eapply Forall_impl; [|exact Hb]. intros e He. unfold in_range. now rewrite (pos_lower_below e He).
    - rewrite EBs. eapply Forall_impl; [|exact Ha]. intros e He. now apply pos_lower_above.
    - rewrite Hm, app_length in Hfuel. lia.
  Qed.
  End Retain.

  (* ---------------------------------------------------------------- extract_if consumed from the FRONT *)
  (* BtreeExtractIf over RangeMut (RangeMut.v) when only next() is called: the front end is live, the back end stays
     parked at the upper bound (entry_in_range = below_upper).  The double-ended protocol (parking the front,
     activating the back, pending batches) is NOT covered by this theorem. *)
  Section ExtractForward.
  Variable entry_eqb : K * V -> K * V -> bool.
  Variables (lo hi : bound K) (p : K -> V -> bool).
  Notation rstate := (@RangeMut.rstate K V T).
  Notation xstate := (@RangeMut.xstate K V T).
  Notation range_peek := (RangeMut.range_peek cmp entry_eqb leaves seek flush splice has_parent more_children underfilling packs).
  Notation range_advance := (RangeMut.range_advance cmp entry_eqb leaves seek flush splice has_parent more_children underfilling packs).
  Notation range_remove := (RangeMut.range_remove cmp entry_eqb leaves seek flush splice has_parent more_children underfilling packs).
  Notation range_close := (RangeMut.range_close cmp entry_eqb leaves seek flush splice has_parent more_children underfilling packs).
  Notation extract_step := (RangeMut.extract_step cmp entry_eqb leaves seek flush splice has_parent more_children underfilling packs).
  Notation extract_next := (RangeMut.extract_next cmp entry_eqb leaves seek flush splice has_parent more_children underfilling packs).
  Notation extract_close := (RangeMut.extract_close cmp entry_eqb leaves seek flush splice has_parent more_children underfilling packs).
  Notation extract_tree := (RangeMut.extract_tree cmp entry_eqb leaves seek flush splice has_parent more_children underfilling packs).
  Notation settle' := (RangeMut.settle' cmp entry_eqb leaves seek flush splice has_parent more_children underfilling packs).

  (* the live front end with its window, against the specification iterator state *)
  Definition fwd_live (t : T) (c : cstate) (st : @ext_state K V) : Prop :=
    ok t /\ wf t c /\ VP t c = x_pre st /\ Bs t c = x_mid st ++ x_post st /\
    Forall (fun e => below_upper cmp hi (fst e) = true) (x_mid st) /\
    match x_post st with e :: _ => below_upper cmp hi (fst e) = false | [] => True end.

  Definition live_state (t : T) (c : cstate) (s : option direction) : rstate :=
    RangeMut.mk_rstate t (ELive c) (EParked hi) s.

  Lemma entry_in_range_hi t c s k : RangeMut.entry_in_range cmp (live_state t c s) DNext k = below_upper cmp hi k.
  Proof. unfold RangeMut.entry_in_range, live_state. cbn. destruct hi; reflexivity. Qed.

  (* settle on a live front end *)
  Lemma settle_live efuel t c st : 2 <= efuel -> fwd_live t c st ->
    let '(b, r) := settle' efuel (live_state t c None) DNext in
    exists t1 c1, fwd_live t1 c1 st /\
      ((b = true /\ r = live_state t1 c1 (Some DNext) /\ exists e rest, x_mid st = e :: rest /\ current_entry leaves t1 c1 DNext = Some e /\ entry_at t1 c1) \/
       (b = false /\ r = live_state t1 c1 None /\ x_mid st = [])).
  Proof.
    intros Hef (Hok & Hwf & HVP & HBs & Hmid & Hpost).
    unfold RangeMut.settle', live_state. cbn [rg_settled RangeMut.activate RangeMut.end_of rg_front rg_tree rg_back RangeMut.set_end RangeMut.set_tree].
    pose proof (ensure_ok efuel t c Hef Hok Hwf) as He.
    destruct (ensure_has_entry efuel t c DNext) as [[b t1] c1]. destruct He as (E1 & E2 & E3 & E4 & E5 & E6).
    assert (Hl : fwd_live t1 c1 st).
    { refine (conj E1 (conj E2 (conj _ (conj _ (conj Hmid Hpost))))); [rewrite E3; exact HVP|rewrite E4; exact HBs]. }
    destruct b.
    - destruct (entry_exists t1 c1 (E5 eq_refl)) as (j & i & e & Epos & En & Ecur). rewrite Ecur.
      fold (live_state t1 c1 None). rewrite entry_in_range_hi.
      (* e heads the unscanned part *)
      destruct (move_ok t1 c1 j i e E2 Epos En) as (_ & _ & M3). rewrite E4, HBs in M3.
      destruct (x_mid st) as [|e' rest] eqn:Em.
      + cbn [app] in M3. destruct (x_post st) as [|q post']; [discriminate|]. inversion M3; subst q.
        rewrite Hpost. exists t1, c1. split; [exact Hl|]. right. auto.
      + cbn [app] in M3. inversion M3; subst e'. inversion Hmid as [|? ? Hb _]; subst. rewrite Hb.
        exists t1, c1. split; [exact Hl|]. left. split; [reflexivity|]. split; [reflexivity|].
        exists e, rest. split; [reflexivity|]. split; [exact Ecur|apply E5; reflexivity].
    - exists t1, c1. split; [exact Hl|]. right. split; [reflexivity|]. split; [reflexivity|].
      specialize (E6 eq_refl). rewrite HBs in E6. apply app_eq_nil in E6. tauto.
  Qed.

  Lemma settled_remove efuel t c : range_remove efuel (live_state t c (Some DNext)) DNext =
    (current_entry leaves t c DNext, live_state t (cursor_remove c DNext true) None).
  Proof. reflexivity. Qed.

  Lemma settled_advance efuel t c : range_advance efuel (live_state t c (Some DNext)) DNext = live_state t (cursor_move c DNext) None.
  Proof. reflexivity. Qed.

  Lemma settled_peek efuel t c : range_peek efuel (live_state t c (Some DNext)) DNext =
    (current_entry leaves t c DNext, live_state t c (Some DNext)).
  Proof. reflexivity. Qed.

  Lemma finish_norun t c : c_run (snd (finish_pending t c)) = None.
  Proof.
    assert (H : forall t0 c0, c_run (snd (splice_open t0 c0)) = None).
    { intros t0 c0. unfold Scan.splice_open. destruct (c_run c0) as [[d r]|] eqn:Er; cbn; auto. }
    unfold Scan.finish_pending.
    match goal with |- c_run (snd (let '(t1, c1) := ?X in _)) = None => destruct X as [t1 c1] end.
    apply H.
  Qed.

  (* closing (or dropping) the iterator with a live front end applies everything pending *)
  Lemma close_live_tree t c s :
    rg_tree (x_range (extract_close (RangeMut.mk_xstate (live_state t c s) false))) = fst (finish_pending t c).
  Proof.
    unfold RangeMut.extract_close. cbn [x_closed x_range]. unfold RangeMut.range_close, live_state.
    unfold RangeMut.flush_end at 2. cbn [RangeMut.end_of rg_front rg_tree].
    pose proof (finish_norun t c) as Hn. destruct (finish_pending t c) as [t' c']. cbn [snd fst] in *.
    cbn [RangeMut.set_end RangeMut.set_tree rg_tree rg_front rg_back rg_settled].
    unfold RangeMut.park. cbn [RangeMut.set_settled RangeMut.end_of rg_front rg_tree rg_back rg_settled].
    unfold Scan.splice_open. rewrite Hn.
    cbn [RangeMut.set_end RangeMut.set_tree rg_tree rg_front rg_back rg_settled].
    unfold RangeMut.flush_end.
    cbn [RangeMut.set_settled RangeMut.set_end RangeMut.set_tree RangeMut.end_of rg_tree rg_front rg_back rg_settled].
    reflexivity.
  Qed.

  Lemma close_live t c s st : fwd_live t c st ->
    let x := extract_close (RangeMut.mk_xstate (live_state t c s) false) in
    x_closed x = true /\ ok (rg_tree (x_range x)) /\ contents (rg_tree (x_range x)) = ext_finish st.
  Proof.
    intros (Hok & Hwf & HVP & HBs & _ & _). cbn zeta. rewrite close_live_tree.
    split; [reflexivity|]. pose proof (finish_ok t c Hok Hwf) as Hf. destruct (finish_pending t c) as [t' c'].
    destruct Hf as [F1 F2]. cbn [fst]. split; [exact F1|]. rewrite F2, HVP, HBs. reflexivity.
  Qed.

  Lemma Bs_length t c : wf t c -> length (Bs t c) <= length (contents t).
  Proof.
    unfold wf, Bs. destruct (c_pos c) as [[j i]|]; [|cbn; lia]. intros (Hj & _).
    rewrite (view t j Hj), !app_length, skipn_length. lia.
  Qed.

  Lemma step_fwd efuel : 2 <= efuel -> forall fuel t c st, fwd_live t c st -> length (x_mid st) < fuel ->
    let '(o, x') := extract_step fuel efuel p (live_state t c None) DNext in
    let '(o', st') := ext_next p st in
    o = o' /\
    match o with
    | Some _ => exists t' c', x' = RangeMut.mk_xstate (live_state t' c' None) false /\ fwd_live t' c' st'
    | None => x_closed x' = true /\ ok (rg_tree (x_range x')) /\ contents (rg_tree (x_range x')) = ext_finish st' /\ x_mid st' = []
    end.
  Proof.
    intros Hef. induction fuel as [|f IH]; intros t c st Hl Hlen; [lia|].
    cbn [RangeMut.extract_step]. unfold RangeMut.range_peek.
    pose proof (settle_live efuel t c st Hef Hl) as Hs.
    destruct (settle' efuel (live_state t c None) DNext) as [b r].
    destruct Hs as (t1 & c1 & Hl1 & [(-> & -> & e & rest & Em & Ecur & Hent)|(-> & -> & Em)]).
    - (* an entry of the window *)
      cbn [RangeMut.live_cursor RangeMut.end_of live_state rg_front rg_tree]. rewrite Ecur. destruct e as [k v].
      destruct (entry_exists t1 c1 Hent) as (j & i & e' & Epos & En & Ecur'). rewrite Ecur in Ecur'. inversion Ecur'; subst e'.
      destruct Hl1 as (Hok1 & Hwf1 & HVP1 & HBs1 & Hmid1 & Hpost1).
      unfold ext_next. rewrite Em. cbn [take_while drop_while fst snd].
      destruct (p k v) eqn:Ep; cbn [negb].
      + (* yielded *)
        fold (live_state t1 c1 (Some DNext)). rewrite settled_remove, Ecur. split; [reflexivity|].
        exists t1, (cursor_remove c1 DNext true). split; [reflexivity|].
        destruct (remove_ok t1 c1 j i (k, v) true Hwf1 Epos En) as (R1 & R2 & R3).
        unfold fwd_live. cbn [x_pre x_mid x_post]. rewrite app_nil_r.
        refine (conj Hok1 (conj R1 (conj _ (conj _ (conj _ Hpost1))))).
        * now rewrite R2.
        * rewrite HBs1, Em in R3. cbn [app] in R3. now inversion R3.
        * rewrite Em in Hmid1. now inversion Hmid1.
      + (* rejected: step over it *)
        fold (live_state t1 c1 (Some DNext)). rewrite settled_advance.
        destruct (move_ok t1 c1 j i (k, v) Hwf1 Epos En) as (M1 & M2 & M3).
        set (st2 := mk_ext (x_pre st ++ [(k, v)]) rest (x_post st)).
        assert (Hl2 : fwd_live t1 (cursor_move c1 DNext) st2).
        { unfold fwd_live, st2. cbn [x_pre x_mid x_post].
          refine (conj Hok1 (conj M1 (conj _ (conj _ (conj _ Hpost1))))).
          - now rewrite M2, HVP1.
          - rewrite HBs1, Em in M3. cbn [app] in M3. now inversion M3.
          - rewrite Em in Hmid1. now inversion Hmid1. }
        specialize (IH t1 (cursor_move c1 DNext) st2 Hl2 ltac:(unfold st2; cbn [x_mid]; rewrite Em in Hlen; cbn in Hlen; lia)).
        destruct (extract_step f efuel p (live_state t1 (cursor_move c1 DNext) None) DNext) as [o x'].
        unfold ext_next, st2 in IH. cbn [x_pre x_mid x_post] in IH.
        destruct (drop_while (fun e : K * V => negb (p (fst e) (snd e))) rest) as [|e2 r2] eqn:Ed;
          rewrite <- app_assoc in IH; cbn [app] in IH; exact IH.
    - (* the window is exhausted: the iterator closes itself *)
      unfold ext_next. rewrite Em. cbn [take_while drop_while].
      split; [reflexivity|].
      destruct (close_live t1 c1 None st Hl1) as (C1 & C2 & C3). split; [exact C1|]. split; [exact C2|]. split; [|reflexivity].
      rewrite C3. unfold ext_finish. cbn [x_pre x_mid x_post]. now rewrite Em, app_nil_r.
  Qed.

  (* the first next() activates the front end at the lower bound *)
  Definition c_start (t : T) : cstate := mk_cstate (seek_to t (pos_of_lower lo)) [] false None.

  Lemma init_step fuel efuel t :
    extract_step (S fuel) efuel p (RangeMut.range_new t lo hi) DNext = extract_step (S fuel) efuel p (live_state t (c_start t) None) DNext.
  Proof. reflexivity. Qed.

  Lemma take_drop_split (f : K * V -> bool) (X Y : list (K * V)) :
    Forall (fun e => f e = true) X -> match Y with e :: _ => f e = false | [] => True end ->
    take_while f (X ++ Y) = X /\ drop_while f (X ++ Y) = Y.
  Proof.
    intros HX HY. destruct Y as [|y Y'].
    - rewrite app_nil_r. now apply take_while_all.
    - now apply take_while_app_stop.
  Qed.

  Lemma init_live t : ok t -> fwd_live t (c_start t) (ext_begin cmp (contents t) lo hi).
  Proof.
    intros Hok. unfold c_start, Scan.seek_to, has_root.
    destruct (leaves t) as [|l0 ls] eqn:EL.
    - assert (Ec : contents t = []) by (unfold contents; now rewrite EL).
      unfold fwd_live, wf, VP, Bs. cbn [c_pos c_removed c_run]. rewrite Ec. cbn. repeat split; auto.
    - pose proof (seek_ok t (pos_of_lower lo) Hok ltac:(rewrite EL; discriminate)) as Hseek.
      destruct (seek t (pos_of_lower lo)) as [j i]. destruct Hseek as (Hj & Hi & Hb & Ha).
      set (X := pre t j ++ firstn i (leaf_at t j)) in *. set (Y := skipn i (leaf_at t j) ++ post t j) in *.
      assert (Hc : contents t = X ++ Y).
      { unfold X, Y. rewrite (view t j Hj). rewrite <- !app_assoc. f_equal. rewrite app_assoc, firstn_skipn. reflexivity. }
      assert (HX : Forall (fun e => negb (above_lower cmp lo (fst e)) = true) X).
      { eapply Forall_impl; [|exact Hb]. intros e He. now rewrite (pos_lower_below lo e He). }
      assert (HY : match Y with e :: _ => negb (above_lower cmp lo (fst e)) = false | [] => True end).
      { destruct Y as [|y Y']; [exact I|]. inversion Ha; subst. now rewrite (pos_lower_above lo y H1). }
      destruct (take_drop_split _ X Y HX HY) as [T1 T2].
      unfold ext_begin. rewrite Hc, T1, T2.
      unfold fwd_live, wf, VP, Bs. cbn [c_pos c_removed c_run run_prefix x_pre x_mid x_post]. rewrite remove_indexes_nil.
      split; [exact Hok|]. split; [repeat split; auto; constructor|]. split; [reflexivity|].
      split; [fold Y; symmetry; apply take_drop_while|]. split; [apply take_while_Forall|].
      destruct (drop_while (fun e : K * V => below_upper cmp hi (fst e)) Y) as [|q r] eqn:Ed; [exact I|].
      now apply (drop_while_head _ _ _ _ Ed).
  Qed.

  (* n calls of next(), then the iterator is dropped *)
  Variable fuelf : T -> nat.
  Hypothesis fuelf_ok : forall t, length (contents t) < fuelf t.
  Variable efuel : nat.
  Hypothesis efuel_ok : 2 <= efuel.

  Fixpoint nexts (n : nat) (x : xstate) : list (option (K * V)) * xstate :=
    match n with
    | O => ([], x)
    | S n' =>
        let '(o, x1) := extract_next (fuelf (rg_tree (x_range x))) efuel p x DNext in
        let '(os, x2) := nexts n' x1 in (o :: os, x2)
    end.

  Definition rel (x : xstate) (st : @ext_state K V) : Prop :=
    (x_closed x = true /\ ok (rg_tree (x_range x)) /\ contents (rg_tree (x_range x)) = ext_finish st /\ x_mid st = []) \/
    (exists t c, x = RangeMut.mk_xstate (live_state t c None) false /\ fwd_live t c st) \/
    (exists t, x = RangeMut.extract_new t lo hi /\ ok t /\ st = ext_begin cmp (contents t) lo hi).

  Lemma mid_length t c st : fwd_live t c st -> length (x_mid st) < fuelf t.
  Proof.
    intros (_ & Hwf & _ & HBs & _). pose proof (Bs_length t c Hwf) as H. rewrite HBs, app_length in H.
    pose proof (fuelf_ok t). lia.
  Qed.

  Lemma next_rel x st : rel x st ->
    let '(o, x') := extract_next (fuelf (rg_tree (x_range x))) efuel p x DNext in
    let '(o', st') := ext_next p st in o = o' /\ rel x' st'.
  Proof.
    intros [(Hc & Hok & Hcont & Hmid)|[(t & c & -> & Hl)|(t & -> & Hok & ->)]].
    - unfold RangeMut.extract_next. rewrite Hc. unfold ext_next. rewrite Hmid. cbn [take_while drop_while].
      split; [reflexivity|]. left. cbn [x_mid]. repeat split; auto.
      rewrite Hcont. unfold ext_finish. cbn [x_pre x_mid x_post]. now rewrite Hmid, app_nil_r.
    - unfold RangeMut.extract_next. cbn [x_closed x_range rg_tree live_state].
      pose proof (step_fwd efuel efuel_ok (fuelf t) t c st Hl (mid_length t c st Hl)) as H.
      destruct (extract_step (fuelf t) efuel p (live_state t c None) DNext) as [o x'].
      destruct (ext_next p st) as [o' st']. destruct H as [E H]. split; [exact E|].
      destruct o as [e|].
      + right. left. exact H.
      + left. exact H.
    - unfold RangeMut.extract_next, RangeMut.extract_new. cbn [x_closed x_range rg_tree RangeMut.range_new].
      pose proof (init_live t Hok) as Hl.
      pose proof (step_fwd efuel efuel_ok (fuelf t) t (c_start t) _ Hl (mid_length t _ _ Hl)) as H.
      destruct (fuelf t) as [|f] eqn:Ef; [pose proof (fuelf_ok t); lia|].
      change (RangeMut.mk_rstate t (EParked lo) (EParked hi) None) with (@RangeMut.range_new K V T t lo hi). rewrite init_step.
      destruct (extract_step (S f) efuel p (live_state t (c_start t) None) DNext) as [o x'].
      destruct (ext_next p (ext_begin cmp (contents t) lo hi)) as [o' st']. destruct H as [E H]. split; [exact E|].
      destruct o as [e|].
      + right. left. exact H.
      + left. exact H.
  Qed.

  Lemma tree_rel x st : rel x st -> ok (extract_tree x) /\ contents (extract_tree x) = ext_finish st.
  Proof.
    intros [(Hc & Hok & Hcont & _)|[(t & c & -> & Hl)|(t & -> & Hok & ->)]].
    - unfold RangeMut.extract_tree, RangeMut.extract_close. rewrite Hc. auto.
    - unfold RangeMut.extract_tree. destruct (close_live t c None st Hl) as (_ & C2 & C3). auto.
    - unfold RangeMut.extract_tree, RangeMut.extract_close, RangeMut.extract_new. cbn [x_closed x_range].
      unfold RangeMut.range_close, RangeMut.flush_end, RangeMut.range_new. cbn [RangeMut.end_of rg_front rg_back rg_tree].
      split; [exact Hok|]. symmetry. apply ext_begin_finish.
  Qed.

  Theorem extract_forward_ok t n : ok t ->
    let '(os, x) := nexts n (RangeMut.extract_new t lo hi) in
    let '(os', st) := ext_run p (repeat true n) (ext_begin cmp (contents t) lo hi) in
    os = os' /\ ok (extract_tree x) /\ contents (extract_tree x) = ext_finish st.
  Proof.
    intros Hok.
    assert (H : forall m x st, rel x st ->
              let '(os, x') := nexts m x in let '(os', st') := ext_run p (repeat true m) st in os = os' /\ rel x' st').
    { clear t Hok n. induction m as [|m IH]; intros x st Hr.
      - cbn. split; [reflexivity|exact Hr].
      - cbn [nexts repeat ext_run]. pose proof (next_rel x st Hr) as Hn.
        destruct (extract_next (fuelf (rg_tree (x_range x))) efuel p x DNext) as [o x1].
        destruct (ext_next p st) as [o' st1]. destruct Hn as [E Hr1]. subst o'.
        specialize (IH x1 st1 Hr1). destruct (nexts m x1) as [os x2]. destruct (ext_run p (repeat true m) st1) as [os' st2].
        destruct IH as [E2 Hr2]. subst os'. split; [reflexivity|exact Hr2]. }
    specialize (H n (RangeMut.extract_new t lo hi) (ext_begin cmp (contents t) lo hi)
                  (or_intror (or_intror (ex_intro _ t (conj eq_refl (conj Hok eq_refl)))))).
    destruct (nexts n (RangeMut.extract_new t lo hi)) as [os x]. destruct (ext_run p (repeat true n) _) as [os' st].
    destruct H as [E Hr]. split; [exact E|]. now apply tree_rel.
  Qed.
  End ExtractForward.
End ScanP.
