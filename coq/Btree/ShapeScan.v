(* The store of Scan.v instantiated by the shape model: leaf addressing, descend_to_position,
   MutateHelper::delete_leaf_entries (`s_flush`) and MutateHelper::replace_leaf_children with
   build_replacement_leaves (`s_splice`) on the decorated tree -- definitions only. *)
From Coq Require Import List NArith Bool Arith.
From RV Require Import Base.SortedMap Btree.Tree Btree.Read Btree.Mutator Btree.Shape Btree.Scan Btree.RangeMut.
Import ListNotations.

Section ShapeScan.
  Context {K V : Type}.
  Variable cmp : K -> K -> comparison.
  Variable ksize : K -> N.
  Variable vsize : V -> N.
  Variable fixed_k fixed_v : bool.
  Variable page_size : N.
  Variable sep : K -> K -> K.

  Notation snode := (@snode K V).
  Notation mk_leaf := (@mk_leaf K V ksize vsize fixed_k fixed_v page_size).
  Notation leaf_bytes := (leaf_bytes ksize vsize).
  Notation leaf_split_required := (leaf_split_required fixed_k fixed_v page_size).
  Notation leaf_below_merge := (leaf_below_merge fixed_k fixed_v page_size).
  Notation single_large := (single_large ksize vsize fixed_k fixed_v page_size).
  Notation s_apply_child_deletion := (s_apply_child_deletion ksize vsize fixed_k fixed_v page_size sep).
  Notation s_finalize_branch := (s_finalize_branch ksize fixed_k page_size).
  Notation s_finish_deletion := (s_finish_deletion ksize vsize fixed_k fixed_v page_size).

  Definition s_children (c0 : snode) (rest : list (K * snode)) : list snode := c0 :: List.map snd rest.

  Fixpoint s_leaves (t : snode) : list (list (K * V)) :=
    match t with
    | SLeaf _ _ es => [es]
    | SBranch _ c0 rest => s_leaves c0 ++ flat_map (fun p => s_leaves (snd p)) rest
    end.
  Definition s_nleaves (t : snode) : nat := length (s_leaves t).
  Definition sb_leaves (st : @sbtree K V) : list (list (K * V)) :=
    match sb_root st with None => [] | Some t => s_leaves t end.

  (* the child holding leaf number j, and the leaf's number inside that child *)
  Fixpoint locate (cs : list snode) (j : nat) : nat * nat :=
    match cs with
    | [] => (O, j)
    | c :: r =>
        let n := s_nleaves c in
        if Nat.ltb j n then (O, j) else let '(i, j') := locate r (j - n) in (S i, j')
    end.
  Definition leaves_before (cs : list snode) (i : nat) : nat :=
    fold_right (fun c a => s_nleaves c + a) O (firstn i cs).

  (* lower_bound_entry *)
  Definition lower_bound_entry (es : list (K * V)) (p : seekpos K) : nat :=
    match p with
    | PStart => O
    | PEnd => length es
    | PBefore q => fst (position cmp es q)
    | PAfter q => let '(i, found) := position cmp es q in if found then S i else i
    end.

  (* descend_to_position: (leaf number, gap index) *)
  Fixpoint s_seek_sub (fuel : nat) (t : snode) (p : seekpos K) : nat * nat :=
    match t with
    | SLeaf _ _ es => (O, lower_bound_entry es p)
    | SBranch _ c0 rest =>
        match fuel with
        | O => (O, O)
        | S f =>
            let i := match p with
                     | PStart => O
                     | PEnd => length rest
                     | PBefore q | PAfter q => s_child_for_key cmp rest q
                     end in
            let '(j, x) := s_seek_sub f (s_nth_child c0 rest i) p in
            (leaves_before (s_children c0 rest) i + j, x)
        end
    end.
  Definition s_seek (st : @sbtree K V) (p : seekpos K) : nat * nat :=
    match sb_root st with None => (O, O) | Some t => s_seek_sub (S (sheight t)) t p end.

  Definition s_has_parent (st : @sbtree K V) (j : nat) : bool :=
    match sb_root st with Some (SBranch _ _ _) => true | _ => false end.

  (* (index of the leaf among its parent's children, number of children of the parent) *)
  Fixpoint s_parent_pos (fuel : nat) (t : snode) (j : nat) : option (nat * nat) :=
    match t with
    | SLeaf _ _ _ => None
    | SBranch _ c0 rest =>
        match fuel with
        | O => None
        | S f =>
            let '(c, j') := locate (s_children c0 rest) j in
            match s_nth_child c0 rest c with
            | SLeaf _ _ _ => Some (c, S (length rest))
            | child => s_parent_pos f child j'
            end
        end
    end.

  (* run_parent_has_more_children *)
  Definition s_more_children (st : @sbtree K V) (j : nat) (d : direction) : bool :=
    match sb_root st with
    | None => false
    | Some t =>
        match s_parent_pos (S (sheight t)) t j with
        | Some (c, n) => match d with DNext => Nat.ltb (S c) n | DPrev => Nat.ltb 0 c end
        | None => false
        end
    end.

  (* ---------------------------------------------------------------- delete_leaf_entries *)
  (* delete_leaf_indexes: plan_leaf_delete, in place on an uncommitted leaf whose disposition is Rebuild *)
  Definition s_leaf_delete_batch (allow_in_place : bool) (d : bool) (a : N) (es : list (K * V)) (idx : list nat) : s_del_result :=
    let retained := remove_indexes es idx in
    match retained with
    | [] => SDDeletedSubtree
    | _ => if leaf_below_merge (nlen retained) (leaf_bytes retained) then SDPartialLeaf retained
           else if allow_in_place && d then SDSubtree (SLeaf true a retained) true
           else SDSubtree (mk_leaf retained) false
    end.

  Fixpoint s_batch_sub (fuel : nat) (allow : bool) (t : snode) (j : nat) (idx : list nat) (dflt : K) : s_del_result :=
    match t with
    | SLeaf d a es => s_leaf_delete_batch allow d a es idx
    | SBranch d c0 rest =>
        match fuel with
        | O => SDSubtree t true
        | S f =>
            let '(c, j') := locate (s_children c0 rest) j in
            s_apply_child_deletion d c0 rest c (s_batch_sub f allow (s_nth_child c0 rest c) j' idx dflt) dflt
        end
    end.

  Definition s_flush (allow : bool) (st : @sbtree K V) (j : nat) (idx : list nat) : @sbtree K V :=
    match sb_root st, idx, nth j (sb_leaves st) [] with
    | Some t, _ :: _, (k, _) :: _ =>
        mk_sbtree (s_finish_deletion (s_batch_sub (S (sheight t)) allow t j idx k)) (sb_len st - N.of_nat (length idx))
    | _, _, _ => st
    end.

  (* ---------------------------------------------------------------- replace_leaf_children *)
  (* build_replacement_leaves: greedy packing, a page is cut when the next entry would require a split *)
  Fixpoint greedy (es : list (K * V)) (cur : list (K * V)) (n bytes : N) : list (list (K * V)) :=
    match es with
    | [] => match cur with [] => [] | _ => [rev cur] end
    | e :: r =>
        let eb := pair_bytes ksize vsize e in
        if leaf_split_required (n + 1) (bytes + eb) then rev cur :: greedy r [e] 1 eb
        else greedy r (e :: cur) (n + 1) (bytes + eb)
    end.

  Definition last_key (es : list (K * V)) (dflt : K) : K := match last_opt es with Some e => fst e | None => dflt end.
  Definition first_key (es : list (K * V)) (dflt : K) : K := match es with e :: _ => fst e | [] => dflt end.

  (* the planned pages with their separators; `tail` = the first key of what follows the plan (the balanced tail) *)
  Fixpoint plan_leaves (plan : list (list (K * V))) (tail : option K) (dflt : K) : list (snode * K) :=
    match plan with
    | [] => []
    | c :: r =>
        let lk := last_key c dflt in
        let s := match r with
                 | nx :: _ => sep lk (first_key nx dflt)
                 | [] => match tail with Some fk => sep lk fk | None => lk end
                 end in
        (mk_leaf c, s) :: plan_leaves r tail dflt
    end.

  Definition build_replacement_leaves (es : list (K * V)) (dflt : K) : list (snode * K) :=
    let plan := greedy es [] 0%N 0%N in
    let n := length plan in
    let lastc := nth (Nat.pred n) plan [] in
    if Nat.leb 2 n && leaf_below_merge (nlen lastc) (leaf_bytes lastc) then
      (* rebuild the last two pages with build_split's balanced division *)
      let keep := firstn (n - 2) plan in
      let range := nth (n - 2) plan [] ++ lastc in
      let d' := division ksize vsize range in
      let x := firstn d' range in
      let y := skipn d' range in
      plan_leaves keep (Some (first_key range dflt)) dflt ++
      [(mk_leaf x, sep (last_key x dflt) (first_key y dflt)); (mk_leaf y, last_key range dflt)]
    else plan_leaves plan None dflt.

  (* children with the separator stored after them (None for the branch's last child) *)
  Fixpoint with_keys (cs : list snode) (ks : list K) : list (snode * option K) :=
    match cs with
    | [] => []
    | c :: r => match ks with k :: ks' => (c, Some k) :: with_keys r ks' | [] => (c, None) :: with_keys r [] end
    end.
  Fixpoint pair_up (prev : option K) (l : list (snode * option K)) (dflt : K) : list (K * snode) :=
    match l with
    | [] => []
    | (c, k) :: r => (match prev with Some s => s | None => dflt end, c) :: pair_up k r dflt
    end.

  Definition s_replace_children (c0 : snode) (rest : list (K * snode)) (start n : nat) (entries : list (K * V)) (dflt : K)
    : s_del_result :=
    let cs := s_children c0 rest in
    let old := length cs in
    let end_ := start + n in
    (* entries that pack below the merge threshold absorb the adjacent preserved child, unless it holds a single large value *)
    let '(start', end', es') :=
      match entries with
      | [] => (start, end_, entries)
      | _ =>
          if leaf_below_merge (nlen entries) (leaf_bytes entries) then
            let nb := if Nat.eqb start 0 then end_ else Nat.pred start in
            if Nat.ltb nb old then
              let nbes := s_leaf_entries (nth nb cs c0) in
              if single_large nbes then (start, end_, entries)
              else if Nat.eqb nb end_ then (start, S end_, entries ++ nbes) else (Nat.pred start, end_, nbes ++ entries)
            else (start, end_, entries)
          else (start, end_, entries)
      end in
    let repl := List.map (fun p => (fst p, Some (snd p))) (build_replacement_leaves es' dflt) in
    let all := with_keys cs (skeys rest) in
    let newl := firstn start' all ++ repl ++ skipn end' all in
    match newl with
    | [] => SDDeletedSubtree
    | (c, k) :: r => s_finalize_branch c (pair_up k r dflt)
    end.

  Fixpoint s_splice_sub (fuel : nat) (t : snode) (j n : nat) (entries : list (K * V)) (dflt : K) : s_del_result :=
    match t with
    | SLeaf _ _ _ => SDSubtree t true
    | SBranch d c0 rest =>
        match fuel with
        | O => SDSubtree t true
        | S f =>
            let '(c, j') := locate (s_children c0 rest) j in
            match s_nth_child c0 rest c with
            | SLeaf _ _ _ => s_replace_children c0 rest c n entries dflt
            | child => s_apply_child_deletion d c0 rest c (s_splice_sub f child j' n entries dflt) dflt
            end
        end
    end.

  Definition s_splice (st : @sbtree K V) (j n : nat) (entries : list (K * V)) (removed : N) : @sbtree K V :=
    match sb_root st, nth j (sb_leaves st) [] with
    | Some t, (k, _) :: _ =>
        mk_sbtree (s_finish_deletion (s_splice_sub (S (sheight t)) t j n entries k)) (sb_len st - removed)
    | _, _ => st
    end.

  (* the size predicates of close_current_leaf *)
  Definition s_underfilling (retained : list (K * V)) : bool :=
    match retained with [] => true | _ => leaf_below_merge (nlen retained) (leaf_bytes retained) end.
  Definition s_packs (retained : list (K * V)) : bool :=
    s_underfilling retained || leaf_fits fixed_k fixed_v page_size (nlen retained) (leaf_bytes retained).

  (* retain_in_bounds on the shape model *)
  Definition s_retain_in (st : @sbtree K V) (lo hi : bound K) (p : K -> V -> bool) : @sbtree K V :=
    let n := length (concat (sb_leaves st)) in
    scan_retain_in cmp sb_leaves s_seek s_flush s_splice s_has_parent s_more_children s_underfilling s_packs
              (S n) 4 st lo hi p.


  (* extract_if / extract_from_if on the shape model: BtreeExtractIf over RangeMut *)
  Variable entry_eqb : K * V -> K * V -> bool.
  Definition s_extract_new (st : @sbtree K V) (lo hi : bound K) : @xstate K V (@sbtree K V) := extract_new st lo hi.
  Definition s_extract_next (p : K -> V -> bool) (x : @xstate K V (@sbtree K V)) (d : direction)
    : option (K * V) * @xstate K V (@sbtree K V) :=
    let n := length (concat (sb_leaves (rg_tree (x_range x)))) in
    extract_next cmp entry_eqb sb_leaves s_seek s_flush s_splice s_has_parent s_more_children s_underfilling s_packs
                 (S n) 4 p x d.
  Definition s_extract_close (x : @xstate K V (@sbtree K V)) : @sbtree K V :=
    extract_tree cmp entry_eqb sb_leaves s_seek s_flush s_splice s_has_parent s_more_children s_underfilling s_packs x.
End ShapeScan.
