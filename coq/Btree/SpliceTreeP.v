(* The blocks of sibling leaves of the logical tree: parent_pos / more_children describe them, and
   replace_leaf_children (t_splice) on any part of a block rewrites exactly that part. *)
From Coq Require Import List NArith Bool Sorted Lia Arith.
From RV Require Import Base.SortedMap Base.SortedMapP Btree.Tree Btree.TreeP Btree.Read Btree.ReadP
  Btree.Mutator Btree.MutatorP Btree.DeleteP Btree.Scan Btree.ScanTree Btree.ScanTreeP Btree.SpliceP.
Import ListNotations.

Section SpliceTreeP.
  Context {K V : Type}.
  Variable cmp : K -> K -> comparison.
  Hypothesis laws : OrderLaws cmp.
  Variable ksize : K -> N.
  Variable vsize : V -> N.
  Variable fixed_k fixed_v : bool.
  Variable page_size : N.
  Variable sep : K -> K -> K.
  Hypothesis Hsep : valid_sep cmp sep.

  Notation node := (@node K V).
  Notation inv := (@inv K V cmp).
  Notation chain := (@chain K V cmp).
  Notation abs := (@abs K V).
  Notation leaves := (@leaves K V).
  Notation nleaves := (@nleaves K V).
  Notation del_ok := (@del_ok K V cmp).
  Notation splice_sub := (splice_sub ksize vsize fixed_k fixed_v page_size sep).
  Implicit Types (t : node) (rest : list (K * node)) (h : nat) (lo hi : option K).

  Definition F (cs : list node) : list (list (K * V)) := flat_map leaves cs.

  Lemma F_split (cs : list node) ci : ci < length cs ->
    F cs = F (firstn ci cs) ++ leaves (nth ci cs (Leaf [])) ++ F (skipn (S ci) cs).
  Proof.
    intros H. unfold F. rewrite <- (firstn_skipn ci cs) at 1. rewrite flat_map_app. f_equal.
    rewrite (skipn_cons_nth cs ci (Leaf []) H). reflexivity.
  Qed.

  Lemma leaves_before_length (cs : list node) ci : length (F (firstn ci cs)) = leaves_before cs ci.
  Proof.
    unfold F, leaves_before. induction (firstn ci cs) as [|x l IH]; cbn; [reflexivity|].
    rewrite app_length, IH. reflexivity.
  Qed.

  (* a range of leaves inside one child *)
  Lemma F_range (cs : list node) ci j' n : ci < length cs -> j' + n <= nleaves (nth ci cs (Leaf [])) ->
    let j := leaves_before cs ci + j' in
    firstn j (F cs) = F (firstn ci cs) ++ firstn j' (leaves (nth ci cs (Leaf []))) /\
    firstn n (skipn j (F cs)) = firstn n (skipn j' (leaves (nth ci cs (Leaf [])))) /\
    skipn (j + n) (F cs) = skipn (j' + n) (leaves (nth ci cs (Leaf []))) ++ F (skipn (S ci) cs).
  Proof.
    intros Hci Hr j. rewrite (F_split cs ci Hci). unfold j. rewrite <- (leaves_before_length cs ci).
    set (A := F (firstn ci cs)). set (B := leaves (nth ci cs (Leaf []))). set (C := F (skipn (S ci) cs)).
    unfold nleaves in Hr. fold B in Hr.
    split; [|split].
    - rewrite firstn_app. replace (length A + j' - length A) with j' by lia.
      rewrite firstn_all2 by lia. f_equal. rewrite firstn_app. replace (j' - length B) with 0 by lia.
      cbn [firstn]. now rewrite app_nil_r.
    - rewrite skipn_app. replace (length A + j' - length A) with j' by lia. rewrite skipn_all2 by lia. cbn [app].
      rewrite skipn_app. replace (j' - length B) with 0 by lia. cbn [skipn].
      rewrite firstn_app. replace (n - length (skipn j' B)) with 0 by (rewrite skipn_length; lia).
      cbn [firstn]. now rewrite app_nil_r.
    - rewrite skipn_app. replace (length A + j' + n - length A) with (j' + n) by lia. rewrite skipn_all2 by lia. cbn [app].
      rewrite skipn_app. replace (j' + n - length B) with 0 by lia. reflexivity.
  Qed.

  (* leaves of a bottom-level branch *)
  Lemma bottom_leaves lo hi c0 rest : chain 0 lo hi c0 rest ->
    F (children c0 rest) = List.map abs (children c0 rest) /\
    Forall (fun c => nleaves c = 1 /\ exists es, c = Leaf es) (children c0 rest).
  Proof.
    intros Hc. pose proof (chain_children_inv cmp _ _ _ _ _ Hc) as Hall.
    induction (children c0 rest) as [|c cs IH]; [split; [reflexivity|constructor]|].
    inversion Hall as [|? ? (lo' & hi' & Hi) Hr]; subst. destruct (IH Hr) as [I1 I2].
    destruct (inv_0_leaf cmp _ _ _ Hi) as [es ->]. unfold F in *. cbn [flat_map List.map]. rewrite I1. split; [reflexivity|].
    constructor; [|exact I2]. split; [reflexivity|eauto].
  Qed.

  Lemma locate_unit (cs : list node) : Forall (fun c => nleaves c = 1 /\ exists es, c = Leaf es) cs ->
    forall x, x < length cs -> locate cs x = (x, 0).
  Proof.
    induction 1 as [|c cs [Hn _] _ IH]; intros x Hx; [cbn in Hx; lia|].
    cbn [locate]. rewrite Hn. destruct x as [|x]; [reflexivity|].
    cbn [Nat.ltb Nat.leb]. replace (S x - 1) with x by lia. rewrite (IH x) by (cbn in Hx; lia). reflexivity.
  Qed.

  Lemma concat_map_flat (cs : list node) : concat (List.map abs cs) = flat_map abs cs.
  Proof. induction cs; cbn; [reflexivity|]. now f_equal. Qed.

  (* ---- every leaf of a tree of height >= 1 lies in a block of sibling leaves *)
  Lemma block fuel : forall t h lo hi a, inv (S h) lo hi t -> S h <= fuel -> a < nleaves t ->
    exists b m, b <= a < b + m /\ b + m <= nleaves t /\
      (forall x, x < m -> parent_pos fuel t (b + x) = Some (x, m)) /\
      (forall s n E dflt, 1 <= n -> s + n <= m -> Subseq E (concat (firstn n (skipn (b + s) (leaves t)))) ->
         del_ok (S h) lo hi (splice_sub fuel t (b + s) n E dflt)
           (concat (firstn (b + s) (leaves t)) ++ E ++ concat (skipn (b + s + n) (leaves t)))).
  Proof.
    induction fuel as [|f IH]; intros t h lo hi a Hi Hf Ha; [lia|].
    inversion Hi as [|h' lo0 hi0 c0 rest Hne Hc]; subst.
    pose proof (leaves_branch c0 rest) as Hlb. fold (F (children c0 rest)) in Hlb.
    assert (Hlen : length (children c0 rest) = S (length rest)) by apply children_length.
    destruct h as [|h''].
    - (* the children are the leaves *)
      destruct (bottom_leaves _ _ _ _ Hc) as [Hmap Hunit].
      assert (Hnl : nleaves (Branch c0 rest) = S (length rest)).
      { unfold nleaves. rewrite Hlb, Hmap, map_length. exact Hlen. }
      exists 0, (S (length rest)). split; [lia|]. split; [lia|]. split.
      + intros x Hx. cbn [parent_pos Nat.add]. rewrite (locate_unit _ Hunit x) by lia.
        rewrite Forall_forall in Hunit.
        destruct (Hunit (nth_child c0 rest x)) as [_ [es Ees]].
        { unfold nth_child. apply nth_In. lia. }
        now rewrite Ees.
      + intros s n E dflt Hn Hsn Hsub. cbn [Nat.add] in *. cbn [ScanTree.splice_sub].
        rewrite (locate_unit _ Hunit s) by lia.
        rewrite Forall_forall in Hunit.
        destruct (Hunit (nth_child c0 rest s)) as [_ [es Ees]].
        { unfold nth_child. apply nth_In. lia. }
        rewrite Ees. rewrite Hlb, Hmap in Hsub. rewrite Hlb, Hmap.
        rewrite !firstn_map, !skipn_map. rewrite !concat_map_flat.
        rewrite skipn_map, firstn_map, concat_map_flat in Hsub.
        apply (replace_children_ok cmp laws ksize vsize fixed_k fixed_v page_size sep Hsep); auto.
    - (* the block lies inside the child that holds the leaf *)
      unfold nleaves in Ha. rewrite Hlb in Ha.
      pose proof (locate_spec (children c0 rest) a Ha) as Hloc.
      destruct (locate (children c0 rest) a) as [ci a'] eqn:Eloc. destruct Hloc as (L1 & L2 & _).
      assert (Hci : ci <= length rest) by lia.
      rewrite (nth_children_nth_child c0 rest ci Hci) in L2.
      pose proof (chain_child_inv cmp _ _ _ _ _ Hc ci Hci) as Hcinv.
      destruct (IH _ _ _ _ a' Hcinv ltac:(lia) L2) as (b' & m & B1 & B2 & B3 & B4).
      set (child := nth_child c0 rest ci) in *.
      assert (Hchild : exists d0 drest, child = Branch d0 drest) by (inversion Hcinv; subst; eauto).
      destruct Hchild as (d0 & drest & Echild).
      set (off := leaves_before (children c0 rest) ci).
      assert (Hoffa : a = off + a').
      { pose proof (locate_spec (children c0 rest) a Ha) as H. rewrite Eloc in H. destruct H as (_ & _ & _ & H4 & _).
        unfold F in Ha. apply (f_equal (@length _)) in H4. rewrite firstn_length_le in H4 by lia.
        rewrite app_length, leaves_before_length, firstn_length_le in H4.
        - exact H4.
        - rewrite (nth_children_nth_child c0 rest ci Hci). fold child. unfold nleaves in L2. lia. }
      assert (HFr : forall j' n, j' + n <= nleaves child ->
                 firstn (off + j') (leaves (Branch c0 rest)) = F (firstn ci (children c0 rest)) ++ firstn j' (leaves child) /\
                 firstn n (skipn (off + j') (leaves (Branch c0 rest))) = firstn n (skipn j' (leaves child)) /\
                 skipn (off + j' + n) (leaves (Branch c0 rest)) = skipn (j' + n) (leaves child) ++ F (skipn (S ci) (children c0 rest))).
      { intros j' n Hr. rewrite Hlb. pose proof (F_range (children c0 rest) ci j' n L1) as H.
        rewrite (nth_children_nth_child c0 rest ci Hci) in H. apply H. exact Hr. }
      exists (off + b'), m. split; [lia|]. split.
      { unfold nleaves at 1. rewrite Hlb. pose proof (leaves_before_lt (children c0 rest) ci (b' + m - 1) L1) as H.
        rewrite (nth_children_nth_child c0 rest ci Hci) in H. fold child in H. specialize (H ltac:(lia)). unfold F, off. lia. }
      split.
      + intros x Hx. cbn [parent_pos].
        rewrite <- Nat.add_assoc. unfold off. rewrite (locate_child (children c0 rest) ci (b' + x) L1).
        2:{ rewrite (nth_children_nth_child c0 rest ci Hci). fold child. lia. }
        fold child. rewrite Echild. rewrite <- Echild. apply B3. exact Hx.
      + intros s n E dflt Hn Hsn Hsub. cbn [ScanTree.splice_sub].
        replace (off + b' + s) with (off + (b' + s)) in * by lia.
        unfold off at 1. rewrite (locate_child (children c0 rest) ci (b' + s) L1).
        2:{ rewrite (nth_children_nth_child c0 rest ci Hci). fold child. lia. }
        fold child. rewrite Echild. rewrite <- Echild.
        destruct (HFr (b' + s) n ltac:(lia)) as (R1 & R2 & R3).
        rewrite R1, R3. rewrite R2 in Hsub.
        specialize (B4 s n E dflt Hn Hsn Hsub).
        unfold F. rewrite !concat_app, !flat_map_leaves_abs.
        replace (b' + s + n) with (b' + s + n) by lia.
        pose proof (apply_child_deletion_ok cmp laws ksize vsize fixed_k fixed_v page_size sep Hsep _ _ _ c0 rest ci
                      (splice_sub f child (b' + s) n E dflt) _ dflt Hc Hne Hci B4) as Hap.
        unfold pre_abs, post_abs in Hap. rewrite <- !app_assoc in *. exact Hap.
  Qed.
End SpliceTreeP.
