From Coq Require Import List NArith Bool Lia.
From RV Require Import Base.Bytes Base.BytesP Base.SortedMap Btree.Inst.
Open Scope N_scope.

Lemma key_cmp_laws : OrderLaws key_cmp.
Proof.
  constructor.
  - intros [x|x] [y|y]; cbn; try discriminate; intros H.
    + apply N.compare_eq in H. now subst.
    + apply lex_cmp_eq in H. now subst.
  - intros [x|x]; cbn; [apply N.compare_refl|apply lex_cmp_refl].
  - intros [x|x] [y|y]; cbn; try reflexivity; [apply N.compare_antisym|apply lex_cmp_antisym].
  - intros [x|x] [y|y] [z|z]; cbn; try discriminate; try reflexivity.
    + rewrite !N.compare_lt_iff. lia.
    + apply lex_cmp_trans_lt.
Qed.
