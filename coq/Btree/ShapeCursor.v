(* The decorated twin of CursorSplice.v: splice_insert_run on the SHAPE model of Shape.v (dirty flag and allocated
   length per page) -- definitions only.  Extracted (Extract/ExC18.v) and compared node by node with the real tree
   after every cursor session (S2 of ./check C18).

   Every page the splice builds is a new page of the running transaction: leaves through `mk_leaf` (uncommitted,
   allocated for their content, as ShapeScan.build_replacement_leaves does for replace_leaf_children), branches
   `SBranch true`.  replace_branch_child writes the new child pointer in place when the branch page is
   uncommitted and copies the page otherwise: either way the result is an uncommitted page with the same keys
   and the child replaced (its skip path -- same child page, checksum already DEFERRED -- needs the parent to be
   uncommitted already), so the model has one case.  Preserved children keep their decorations.
   The list-level functions (build_branch_nodes, rebuild_branch_level, splice_level, grow) are literally those
   of CursorSplice.v at T = snode (they are polymorphic in the node type).  Erasing the decorations maps s_session
   to CursorSplice.t_session: ShapeCursorP.session_erase (Props/C18.v: c18_shape_session_erases); the driver still
   compares the two extracted functions on every session (ERASE! marker). *)
From Coq Require Import List NArith Bool Arith.
From RV Require Import Base.SortedMap Btree.Tree Btree.Read Btree.Mutator Btree.Shape Btree.Scan Btree.ShapeScan
                       Btree.Cursor Btree.CursorSplice.
Import ListNotations.

Section ShapeCursor.
  Context {K V : Type}.
  Variable cmp : K -> K -> comparison.
  Variable ksize : K -> N.
  Variable vsize : V -> N.
  Variable fixed_k fixed_v : bool.
  Variable page_size : N.
  Variable sep : K -> K -> K.
  Variable flush_bytes : N.

  Notation snode := (@snode K V).
  Notation build_replacement_leaves := (ShapeScan.build_replacement_leaves ksize vsize fixed_k fixed_v page_size sep).

  Definition s_leaf_nodes (entries : list (K * V)) (dflt : K) : list (snode * option K) :=
    List.map (fun p => (fst p, Some (snd p))) (build_replacement_leaves entries dflt).

  Fixpoint s_splice_sub (fuel : nat) (t : snode) (j pos : nat) (run : list (K * V)) (dflt : K)
    : list (snode * option K) :=
    match t with
    | SLeaf _ _ es => s_leaf_nodes (flush_entries es pos run) dflt
    | SBranch _ c0 rest =>
        match fuel with
        | O => [(t, None)]
        | S f =>
            let '(c, j') := ShapeScan.locate (s_children c0 rest) j in
            splice_level cmp ksize fixed_k page_size (@SBranch K V true) dflt (s_children c0 rest) (skeys rest) c
              (s_splice_sub f (s_nth_child c0 rest c) j' pos run dflt)
        end
    end.

  Definition s_splice_insert_run (st : @sbtree K V) (j pos : nat) (run : list (K * V)) : @sbtree K V :=
    match run with
    | [] => st
    | (k0, _) :: _ =>
        let nodes := match sb_root st with
                     | None => s_leaf_nodes run k0
                     | Some t => s_splice_sub (S (sheight t)) t j pos run k0
                     end in
        match grow ksize fixed_k page_size (@SBranch K V true) k0 (length nodes) nodes with
        | (root, _) :: _ => mk_sbtree (Some root) (sb_len st + nlen run)
        | [] => st
        end
    end.

  Definition s_delete_key (st : @sbtree K V) (k : K) : @sbtree K V :=
    fst (s_delete cmp ksize vsize fixed_k fixed_v page_size sep st k).

  (* a whole cursor session on the shape model *)
  Definition s_session (st : @sbtree K V) (lower : bool) (b : bound K) (ops : list (@cursor_op K V))
    : list (@cursor_out K V) * @sbtree K V :=
    c_session cmp ksize vsize flush_bytes (@sb_leaves K V) s_splice_insert_run s_delete_key st lower b ops.

  (* path markers for the evidence: what the splices of a session did *)
  Definition s_height (st : @sbtree K V) : nat := match sb_root st with None => O | Some t => S (sheight t) end.
End ShapeCursor.
