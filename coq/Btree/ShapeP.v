(* Erasing the decorations (dirty flags, allocated lengths, same-page flags) of the shape model gives
   exactly the logical mutator of Mutator.v, with Mutator's in-place oracle instantiated by the decision
   the shape model takes from dirty/alloc.  Hence every theorem about Mutator.insert / delete / pop
   (invariant, refinement of SortedMap) is a theorem about the trees of Shape.v -- the trees the check
   compares with the real B-tree. *)
From Coq Require Import List NArith Bool Arith Lia.
From RV Require Import Base.SortedMap Btree.Tree Btree.Read Btree.Mutator Btree.Shape.
Import ListNotations.

Section ShapeP.
  Context {K V : Type}.
  Variable cmp : K -> K -> comparison.
  Variable ksize : K -> N.
  Variable vsize : V -> N.
  Variable fixed_k fixed_v : bool.
  Variable page_size : N.
  Variable sep : K -> K -> K.

  Notation snode := (@snode K V).
  Notation erase := (@erase K V).
  Notation erase_rest := (@erase_rest K V).
  Notation mk_leaf := (@mk_leaf K V ksize vsize fixed_k fixed_v page_size).
  Notation s_leaf_insert := (s_leaf_insert cmp ksize vsize fixed_k fixed_v page_size sep).
  Notation s_insert_sub := (s_insert_sub cmp ksize vsize fixed_k fixed_v page_size sep).
  Notation s_insert := (s_insert cmp ksize vsize fixed_k fixed_v page_size sep).
  Notation s_decision := (s_decision cmp ksize vsize fixed_k fixed_v page_size).
  Notation s_oracle := (s_oracle cmp ksize vsize fixed_k fixed_v page_size).
  Notation s_delete_sub := (s_delete_sub cmp ksize vsize fixed_k fixed_v page_size sep).
  Notation s_delete := (s_delete cmp ksize vsize fixed_k fixed_v page_size sep).
  Notation s_apply_child_deletion := (s_apply_child_deletion ksize vsize fixed_k fixed_v page_size sep).
  Notation s_finalize_branch := (s_finalize_branch ksize fixed_k page_size).
  Notation s_finish_deletion := (s_finish_deletion ksize vsize fixed_k fixed_v page_size).
  Notation s_pop_first := (s_pop_first cmp ksize vsize fixed_k fixed_v page_size sep).
  Notation s_pop_last := (s_pop_last cmp ksize vsize fixed_k fixed_v page_size sep).
  Notation minsert_sub := (Mutator.insert_sub cmp ksize vsize fixed_k fixed_v page_size sep).
  Notation minsert := (Mutator.insert cmp ksize vsize fixed_k fixed_v page_size sep).
  Notation mdelete_sub := (Mutator.delete_sub cmp ksize vsize fixed_k fixed_v page_size sep).
  Notation mdelete := (Mutator.delete cmp ksize vsize fixed_k fixed_v page_size sep).

  Definition erase_sib (sib : option (K * snode)) : option (K * @node K V) :=
    option_map (fun p => (fst p, erase (snd p))) sib.

  (* ---------------------------------------------------------------- structure *)
  Lemma erase_rest_app r1 r2 : erase_rest (r1 ++ r2) = erase_rest r1 ++ erase_rest r2.
  Proof. unfold Shape.erase_rest. apply map_app. Qed.

  Lemma erase_rest_length rest : length (erase_rest rest) = length rest.
  Proof. unfold Shape.erase_rest. apply map_length. Qed.

  Lemma erase_rest_seps rest : seps (erase_rest rest) = skeys rest.
  Proof. unfold seps, Shape.erase_rest, skeys. rewrite map_map. reflexivity. Qed.

  Lemma erase_branch d c0 rest : erase (SBranch d c0 rest) = Branch (erase c0) (erase_rest rest).
  Proof. reflexivity. Qed.

  Lemma erase_mk_leaf es : erase (mk_leaf es) = Leaf es.
  Proof. reflexivity. Qed.

  Lemma erase_child_for_key rest k : child_for_key cmp (erase_rest rest) k = s_child_for_key cmp rest k.
  Proof. unfold child_for_key, s_child_for_key. now rewrite erase_rest_length, erase_rest_seps. Qed.

  Lemma erase_nth_child c0 rest i : nth_child (erase c0) (erase_rest rest) i = erase (s_nth_child c0 rest i).
  Proof.
    unfold nth_child, s_nth_child, children.
    assert (E : erase c0 :: List.map snd (erase_rest rest) = List.map erase (c0 :: List.map snd rest)).
    { cbn [List.map]. f_equal. unfold Shape.erase_rest. rewrite !map_map. reflexivity. }
    rewrite E. apply map_nth.
  Qed.

  Lemma erase_height t : height (erase t) = sheight t.
  Proof. induction t as [d a es|d c0 IH rest]; cbn; auto. Qed.

  (* ---------------------------------------------------------------- insert *)
  Lemma erase_set_child i : forall c' sib c0 rest,
    set_child i (erase c') (erase_rest sib) (erase c0) (erase_rest rest) =
    let '(a, b) := s_set_child i c' sib c0 rest in (erase a, erase_rest b).
  Proof.
    induction i as [|j IH]; intros c' sib c0 rest; destruct rest as [|[s c1] rest']; cbn [s_set_child set_child Shape.erase_rest List.map fst snd].
    - now rewrite erase_rest_app.
    - rewrite erase_rest_app. reflexivity.
    - reflexivity.
    - fold (erase_rest rest'). rewrite IH. destruct (s_set_child j c' sib c1 rest') as [a b]. reflexivity.
  Qed.

  Lemma erase_sep_bytes rest : sep_bytes ksize (erase_rest rest) = keys_size ksize (skeys rest).
  Proof. induction rest as [|[s c] r IH]; cbn; [reflexivity|]. f_equal. exact IH. Qed.

  Lemma erase_nlen rest : nlen (erase_rest rest) = nlen rest.
  Proof. unfold nlen. now rewrite erase_rest_length. Qed.

  Lemma erase_branch_should_split b :
    branch_should_split ksize fixed_k page_size (erase_rest b) = s_branch_should_split ksize fixed_k page_size b.
  Proof. unfold branch_should_split, s_branch_should_split, s_branch_required. now rewrite erase_nlen, erase_sep_bytes. Qed.

  Lemma erase_rest_firstn n rest : erase_rest (firstn n rest) = firstn n (erase_rest rest).
  Proof. unfold Shape.erase_rest. symmetry. apply firstn_map. Qed.
  Lemma erase_rest_skipn n rest : erase_rest (skipn n rest) = skipn n (erase_rest rest).
  Proof. unfold Shape.erase_rest. symmetry. apply skipn_map. Qed.

  Lemma erase_split_branch a b :
    split_branch (erase a) (erase_rest b) = let '(x, y) := s_split_branch a b in (erase x, erase_sib y).
  Proof.
    unfold split_branch, s_split_branch. rewrite erase_rest_length.
    unfold Shape.erase_rest at 1. rewrite nth_error_map.
    destruct (nth_error b (Nat.div2 (length b))) as [[sk cr]|]; cbn [option_map fst snd].
    - rewrite <- erase_rest_firstn, <- erase_rest_skipn. reflexivity.
    - reflexivity.
  Qed.

  Lemma erase_leaf_insert rm d a es k v b :
    (let '(pos, found) := position cmp es k in
     inplace_ok ksize vsize fixed_k fixed_v page_size d a es pos found k v) = b ->
    let '(t', sib, old, same) := s_leaf_insert rm d a es k v in
    leaf_insert cmp ksize vsize fixed_k fixed_v page_size sep (fun _ _ _ => b) rm es k v = (erase t', erase_sib sib, old).
  Proof.
    unfold Shape.s_leaf_insert, leaf_insert, split_leaf. destruct (position cmp es k) as [pos found]. intros <-.
    repeat match goal with
           | |- context [if ?c then _ else _] => destruct c eqn:?; cbn [erase_sib option_map fst snd]
           end; try reflexivity.
  Qed.

  Lemma erase_insert_sub fuel : forall rm t k v b, s_decision fuel t k v = b ->
    let '(t', sib, old, same) := s_insert_sub fuel rm t k v in
    minsert_sub (fun _ _ _ => b) fuel rm (erase t) k v = (erase t', erase_sib sib, old).
  Proof.
    induction fuel as [|f IH]; intros rm t k v b Hb; destruct t as [d a es|d c0 rest].
    - cbn [Shape.s_insert_sub Shape.erase Mutator.insert_sub]. apply erase_leaf_insert. exact Hb.
    - reflexivity.
    - cbn [Shape.s_insert_sub Shape.erase Mutator.insert_sub]. apply erase_leaf_insert. exact Hb.
    - cbn [Shape.s_insert_sub Mutator.insert_sub]. rewrite erase_branch. cbn [Mutator.insert_sub].
      rewrite erase_child_for_key, erase_nth_child, erase_rest_length.
      cbn [Shape.s_decision] in Hb.
      specialize (IH (rm && Nat.eqb (s_child_for_key cmp rest k) (length rest))
                     (s_nth_child c0 rest (s_child_for_key cmp rest k)) k v b Hb).
      destruct (s_insert_sub f (rm && Nat.eqb (s_child_for_key cmp rest k) (length rest))
                  (s_nth_child c0 rest (s_child_for_key cmp rest k)) k v) as [[[c' sib] old] same].
      rewrite IH. destruct sib as [[s c2]|]; cbn [erase_sib option_map fst snd].
      + change [(s, erase c2)] with (erase_rest [(s, c2)]). rewrite erase_set_child.
        destruct (s_set_child (s_child_for_key cmp rest k) c' [(s, c2)] c0 rest) as [x y].
        rewrite erase_branch_should_split.
        destruct (s_branch_should_split ksize fixed_k page_size y).
        * rewrite erase_split_branch. destruct (s_split_branch x y) as [p q]. reflexivity.
        * reflexivity.
      + change (@nil (K * @node K V)) with (erase_rest []). rewrite erase_set_child.
        destruct (s_set_child (s_child_for_key cmp rest k) c' [] c0 rest) as [x y].
        destruct same; [reflexivity|]. destruct d; reflexivity.
  Qed.

  Theorem erase_insert (st : @sbtree K V) k v :
    let '(st', old) := s_insert st k v in
    minsert (s_oracle st k v) (erase_tree st) k v = (erase_tree st', old).
  Proof.
    unfold Shape.s_insert, Mutator.insert, Shape.s_oracle, erase_tree. destruct (sb_root st) as [t|]; cbn [option_map bt_root bt_len sb_root sb_len].
    - unfold fuel_of. rewrite erase_height.
      pose proof (erase_insert_sub (S (sheight t)) true t k v _ eq_refl) as H.
      destruct (s_insert_sub (S (sheight t)) true t k v) as [[[t' sib] old] same].
      rewrite H. destruct sib as [[s c2]|]; reflexivity.
    - reflexivity.
  Qed.

  (* ---------------------------------------------------------------- delete *)
  Definition erase_del (r : @s_del_result K V) : @del_result K V :=
    match r with
    | SDSubtree t _ => DSubtree (erase t)
    | SDDeletedSubtree => DDeletedSubtree
    | SDPartialLeaf es => DPartialLeaf es
    | SDPartialBranch c0 rest => DPartialBranch (erase c0) (erase_rest rest)
    | SDDeletedBranch c => DDeletedBranch (erase c)
    end.

  Lemma erase_leaf_delete_at d a es pos :
    leaf_delete_at ksize vsize fixed_k fixed_v page_size es pos =
    erase_del (s_leaf_delete_at ksize vsize fixed_k fixed_v page_size d a es pos).
  Proof.
    unfold leaf_delete_at, s_leaf_delete_at. destruct (firstn pos es ++ skipn (S pos) es) as [|e r]; [reflexivity|].
    destruct (leaf_below_merge fixed_k fixed_v page_size (nlen (e :: r)) (leaf_bytes ksize vsize (e :: r))); [reflexivity|].
    destruct d; reflexivity.
  Qed.

  Lemma erase_leaf_delete d a es k :
    leaf_delete cmp ksize vsize fixed_k fixed_v page_size es k =
    let '(r, found) := s_leaf_delete cmp ksize vsize fixed_k fixed_v page_size d a es k in (erase_del r, found).
  Proof.
    unfold leaf_delete, s_leaf_delete. destruct (position cmp es k) as [pos found]. destruct found; [|reflexivity].
    now rewrite (erase_leaf_delete_at d a).
  Qed.

  Lemma erase_finalize_branch c0 rest :
    finalize_branch ksize fixed_k page_size (erase c0) (erase_rest rest) = erase_del (s_finalize_branch c0 rest).
  Proof.
    unfold finalize_branch, Shape.s_finalize_branch, s_branch_required. destruct rest as [|p r]; [reflexivity|].
    rewrite erase_nlen, erase_sep_bytes. cbn [Shape.erase_rest List.map].
    destruct (branch_required fixed_k (nlen (p :: r)) (keys_size ksize (skeys (p :: r))) <? page_size / 3)%N; reflexivity.
  Qed.

  Lemma erase_remove_child i : forall c0 rest,
    remove_child i (erase c0) (erase_rest rest) = let '(a, b) := s_remove_child i c0 rest in (erase a, erase_rest b).
  Proof.
    induction i as [|i' IH]; intros c0 rest.
    - destruct rest as [|[s c1] rest']; reflexivity.
    - destruct rest as [|[s c1] rest']; [reflexivity|].
      change (erase_rest ((s, c1) :: rest')) with ((s, erase c1) :: erase_rest rest').
      assert (E1 : forall (x0 : @node K V) s1 x1 r, remove_child (S i') x0 ((s1, x1) :: r) =
                match i', r with
                | O, [] => (x0, [])
                | _, _ => let '(a, b) := remove_child i' x1 r in (x0, (s1, a) :: b)
                end) by reflexivity.
      assert (E2 : s_remove_child (S i') c0 ((s, c1) :: rest') =
                match i', rest' with
                | O, [] => (c0, [])
                | _, _ => let '(a, b) := s_remove_child i' c1 rest' in (c0, (s, a) :: b)
                end) by reflexivity.
      rewrite E1, E2. specialize (IH c1 rest'). clear E1 E2.
      destruct i' as [|i'']; destruct rest' as [|p r']; try reflexivity;
        cbn [Shape.erase_rest List.map] in *; rewrite IH;
        match goal with |- context [s_remove_child ?i ?c ?r] => destruct (s_remove_child i c r) as [x y] end; reflexivity.
  Qed.

  Lemma erase_merge_pair j : forall nc ns c0 rest,
    merge_pair j (erase nc) (erase_rest ns) (erase c0) (erase_rest rest) =
    let '(a, b) := s_merge_pair j nc ns c0 rest in (erase a, erase_rest b).
  Proof.
    induction j as [|j' IH]; intros nc ns c0 rest; destruct rest as [|[s c1] rest']; cbn [s_merge_pair merge_pair Shape.erase_rest List.map fst snd]; try reflexivity.
    - fold (erase_rest rest'). now rewrite erase_rest_app.
    - fold (erase_rest rest'). rewrite IH. destruct (s_merge_pair j' nc ns c1 rest') as [x y]. reflexivity.
  Qed.

  Lemma erase_sep_at rest j dflt : sep_at (erase_rest rest) j dflt = s_sep_at rest j dflt.
  Proof.
    unfold sep_at, s_sep_at, Shape.erase_rest. rewrite nth_error_map. destruct (nth_error rest j) as [[s c]|]; reflexivity.
  Qed.

  Lemma erase_build_leaf es dflt :
    build_leaf_maybe_split ksize vsize fixed_k fixed_v page_size sep es dflt =
    let '(a, b) := s_build_leaf_maybe_split ksize vsize fixed_k fixed_v page_size sep es dflt in (erase a, erase_rest b).
  Proof.
    unfold build_leaf_maybe_split, s_build_leaf_maybe_split, split_leaf.
    destruct (leaf_split_required fixed_k fixed_v page_size (nlen es) (leaf_bytes ksize vsize es)); reflexivity.
  Qed.

  Lemma erase_build_branch c0 rest :
    build_branch_maybe_split ksize fixed_k page_size (erase c0) (erase_rest rest) =
    let '(a, b) := s_build_branch_maybe_split ksize fixed_k page_size c0 rest in (erase a, erase_rest b).
  Proof.
    unfold build_branch_maybe_split, s_build_branch_maybe_split. rewrite erase_branch_should_split.
    destruct (s_branch_should_split ksize fixed_k page_size rest); [|reflexivity].
    rewrite erase_split_branch. destruct (s_split_branch c0 rest) as [a [[s b]|]]; reflexivity.
  Qed.

  Lemma erase_leaf_entries t : leaf_entries (erase t) = s_leaf_entries t.
  Proof. destruct t; reflexivity. Qed.

  Lemma erase_apply_child_deletion d c0 rest i r dflt :
    apply_child_deletion ksize vsize fixed_k fixed_v page_size sep (erase c0) (erase_rest rest) i (erase_del r) dflt =
    erase_del (s_apply_child_deletion d c0 rest i r dflt).
  Proof.
    unfold apply_child_deletion, Shape.s_apply_child_deletion.
    destruct r as [c' same| |retained|p0 prest|g]; cbn [erase_del].
    - change (@nil (K * @node K V)) with (erase_rest []). rewrite erase_set_child.
      destruct (s_set_child i c' [] c0 rest) as [a b]. destruct same; [reflexivity|]. destruct d; reflexivity.
    - rewrite erase_remove_child. destruct (s_remove_child i c0 rest) as [a b]. apply erase_finalize_branch.
    - rewrite erase_nth_child, erase_leaf_entries.
      destruct (single_large ksize vsize fixed_k fixed_v page_size
                  (s_leaf_entries (s_nth_child c0 rest match i with O => 1 | S i' => i' end))).
      + change (Leaf retained) with (erase (mk_leaf retained)).
        change (@nil (K * @node K V)) with (erase_rest []). rewrite erase_set_child.
        destruct (s_set_child i (mk_leaf retained) [] c0 rest) as [a b]. apply erase_finalize_branch.
      + rewrite erase_build_leaf.
        destruct (s_build_leaf_maybe_split ksize vsize fixed_k fixed_v page_size sep _ dflt) as [nc ns].
        rewrite erase_merge_pair. destruct (s_merge_pair _ nc ns c0 rest) as [a b]. apply erase_finalize_branch.
    - rewrite erase_sep_at, erase_nth_child.
      destruct (s_nth_child c0 rest match i with O => 1 | S i' => i' end) as [d' a' es'|d' b0 brest]; [reflexivity|].
      rewrite erase_branch.
      destruct (Nat.ltb i match i with O => 1 | S i' => i' end).
      + change (erase_rest prest ++ (s_sep_at rest (Nat.min i match i with O => 1 | S i' => i' end) dflt, erase b0) :: erase_rest brest)
          with (erase_rest prest ++ erase_rest ((s_sep_at rest (Nat.min i match i with O => 1 | S i' => i' end) dflt, b0) :: brest)).
        rewrite <- erase_rest_app, erase_build_branch.
        destruct (s_build_branch_maybe_split ksize fixed_k page_size p0 _) as [nc ns].
        rewrite erase_merge_pair. destruct (s_merge_pair _ nc ns c0 rest) as [a b]. apply erase_finalize_branch.
      + change (erase_rest brest ++ (s_sep_at rest (Nat.min i match i with O => 1 | S i' => i' end) dflt, erase p0) :: erase_rest prest)
          with (erase_rest brest ++ erase_rest ((s_sep_at rest (Nat.min i match i with O => 1 | S i' => i' end) dflt, p0) :: prest)).
        rewrite <- erase_rest_app, erase_build_branch.
        destruct (s_build_branch_maybe_split ksize fixed_k page_size b0 _) as [nc ns].
        rewrite erase_merge_pair. destruct (s_merge_pair _ nc ns c0 rest) as [a b]. apply erase_finalize_branch.
    - rewrite erase_sep_at, erase_nth_child.
      destruct (s_nth_child c0 rest match i with O => 1 | S i' => i' end) as [d' a' es'|d' b0 brest]; [reflexivity|].
      rewrite erase_branch.
      destruct (Nat.ltb i match i with O => 1 | S i' => i' end).
      + change ((s_sep_at rest (Nat.min i match i with O => 1 | S i' => i' end) dflt, erase b0) :: erase_rest brest)
          with (erase_rest ((s_sep_at rest (Nat.min i match i with O => 1 | S i' => i' end) dflt, b0) :: brest)).
        rewrite erase_build_branch.
        destruct (s_build_branch_maybe_split ksize fixed_k page_size g _) as [nc ns].
        rewrite erase_merge_pair. destruct (s_merge_pair _ nc ns c0 rest) as [a b]. apply erase_finalize_branch.
      + change (erase_rest brest ++ [(s_sep_at rest (Nat.min i match i with O => 1 | S i' => i' end) dflt, erase g)])
          with (erase_rest brest ++ erase_rest [(s_sep_at rest (Nat.min i match i with O => 1 | S i' => i' end) dflt, g)]).
        rewrite <- erase_rest_app, erase_build_branch.
        destruct (s_build_branch_maybe_split ksize fixed_k page_size b0 _) as [nc ns].
        rewrite erase_merge_pair. destruct (s_merge_pair _ nc ns c0 rest) as [a b]. apply erase_finalize_branch.
  Qed.

  Lemma erase_delete_sub fuel : forall t k,
    mdelete_sub fuel (erase t) k = let '(r, found) := s_delete_sub fuel t k in (erase_del r, found).
  Proof.
    induction fuel as [|f IH]; intros t k; destruct t as [d a es|d c0 rest].
    - cbn [Shape.s_delete_sub Shape.erase Mutator.delete_sub]. apply erase_leaf_delete.
    - reflexivity.
    - cbn [Shape.s_delete_sub Shape.erase Mutator.delete_sub]. apply erase_leaf_delete.
    - cbn [Shape.s_delete_sub Mutator.delete_sub]. rewrite erase_branch. cbn [Mutator.delete_sub].
      rewrite erase_child_for_key, erase_nth_child, IH.
      destruct (s_delete_sub f (s_nth_child c0 rest (s_child_for_key cmp rest k)) k) as [r found].
      destruct found as [ov|]; [|reflexivity].
      now rewrite (erase_apply_child_deletion d).
  Qed.

  Lemma erase_finish_deletion r : finish_deletion (erase_del r) = option_map erase (s_finish_deletion r).
  Proof. destruct r; reflexivity. Qed.

  Theorem erase_delete (st : @sbtree K V) k :
    let '(st', old) := s_delete st k in
    mdelete (erase_tree st) k = (erase_tree st', old).
  Proof.
    unfold Shape.s_delete, Mutator.delete, erase_tree. destruct (sb_root st) as [t|] eqn:Er; cbn [option_map bt_root bt_len sb_root sb_len].
    - unfold fuel_of. rewrite erase_height, erase_delete_sub.
      destruct (s_delete_sub (S (sheight t)) t k) as [r found]. destruct found as [ov|].
      + cbn [sb_root sb_len]. now rewrite erase_finish_deletion.
      + cbn [sb_root sb_len]. now rewrite Er.
    - cbn [sb_root sb_len]. now rewrite Er.
  Qed.

  Theorem erase_pop_first (st : @sbtree K V) :
    let '(st', e) := s_pop_first st in
    pop_first_tree cmp ksize vsize fixed_k fixed_v page_size sep (erase_tree st) = (erase_tree st', e).
  Proof.
    unfold Shape.s_pop_first, pop_first_tree. destruct (tfirst (erase_tree st)) as [e|]; [|reflexivity].
    pose proof (erase_delete st (fst e)) as H. destruct (s_delete st (fst e)) as [st' old]. now rewrite H.
  Qed.

  Theorem erase_pop_last (st : @sbtree K V) :
    let '(st', e) := s_pop_last st in
    pop_last_tree cmp ksize vsize fixed_k fixed_v page_size sep (erase_tree st) = (erase_tree st', e).
  Proof.
    unfold Shape.s_pop_last, pop_last_tree. destruct (tlast (erase_tree st)) as [e|]; [|reflexivity].
    pose proof (erase_delete st (fst e)) as H. destruct (s_delete st (fst e)) as [st' old]. now rewrite H.
  Qed.

  (* commit changes no logical content *)
  Fixpoint erase_clean (t : snode) : erase (clean t) = erase t.
  Proof.
    destruct t as [d a es|d c0 rest]; cbn [clean Shape.erase]; [reflexivity|].
    f_equal; [apply erase_clean|].
    rewrite map_map. cbn [fst snd].
    induction rest as [|[s c] r IHr]; cbn [List.map fst snd]; [reflexivity|].
    f_equal; [f_equal; apply erase_clean|exact IHr].
  Qed.

  Theorem erase_commit (st : @sbtree K V) : erase_tree (s_commit st) = erase_tree st.
  Proof.
    unfold s_commit, erase_tree. cbn [sb_root sb_len]. destruct (sb_root st) as [t|]; cbn [option_map]; [|reflexivity].
    now rewrite erase_clean.
  Qed.
End ShapeP.
