(* The logical tree as a store for the cursor machines of Scan.v / RangeMut.v: what the leaf view,
   descend_to_position, delete_leaf_entries and replace_leaf_children do to the abstraction, and that
   they preserve the B-tree invariant. *)
From Coq Require Import List NArith Bool Sorted Lia Arith.
From RV Require Import Base.SortedMap Base.SortedMapP Btree.Tree Btree.TreeP Btree.Read Btree.ReadP
  Btree.Mutator Btree.MutatorP Btree.DeleteP Btree.Scan Btree.ScanTree.
Import ListNotations.

Section LeafView.
  Context {K V : Type}.
  Variable cmp : K -> K -> comparison.
  Hypothesis laws : OrderLaws cmp.

  Notation node := (@node K V).
  Notation inv := (@inv K V cmp).
  Notation chain := (@chain K V cmp).
  Notation abs := (@abs K V).
  Notation abs_rest := (@abs_rest K V).
  Notation leaves := (@leaves K V).
  Notation nleaves := (@nleaves K V).
  Implicit Types (t c : node) (rest : list (K * node)).

  Definition pre_l t j : list (K * V) := concat (firstn j (leaves t)).
  Definition post_l t j : list (K * V) := concat (skipn (S j) (leaves t)).
  Definition leaf_l t j : list (K * V) := nth j (leaves t) [].

  Lemma leaves_branch c0 rest : leaves (Branch c0 rest) = flat_map leaves (children c0 rest).
  Proof.
    cbn [ScanTree.leaves]. unfold children. cbn [flat_map]. f_equal.
    induction rest as [|[s c] r IH]; cbn; [reflexivity|]. now rewrite IH.
  Qed.

  Lemma abs_leaves t : abs t = concat (leaves t).
  Proof.
    induction t using (node_ind2 (K:=K) (V:=V)).
    - cbn. now rewrite app_nil_r.
    - rewrite leaves_branch, abs_branch, <- abs_children. unfold children.
      cbn [flat_map]. rewrite concat_app. f_equal; [assumption|].
      induction rest as [|[s c] r IHr]; cbn; [reflexivity|].
      inversion H as [|? ? Hc Hr]; subst. rewrite concat_app. cbn in Hc. rewrite Hc. f_equal. now apply IHr.
  Qed.

  (* ---- locating a leaf among the children of a branch *)
  Lemma locate_spec (cs : list node) : forall j, j < length (flat_map leaves cs) ->
    let '(c, j') := locate cs j in
    c < length cs /\ j' < nleaves (nth c cs (Leaf [])) /\
    nth j (flat_map leaves cs) [] = nth j' (leaves (nth c cs (Leaf []))) [] /\
    firstn j (flat_map leaves cs) = flat_map leaves (firstn c cs) ++ firstn j' (leaves (nth c cs (Leaf []))) /\
    skipn (S j) (flat_map leaves cs) = skipn (S j') (leaves (nth c cs (Leaf []))) ++ flat_map leaves (skipn (S c) cs).
  Proof.
    induction cs as [|c r IH]; intros j Hj; [cbn in Hj; lia|].
    cbn [locate flat_map] in *. unfold nleaves in *. rewrite app_length in Hj.
    destruct (Nat.ltb j (length (leaves c))) eqn:E.
    - apply Nat.ltb_lt in E. change (skipn 1 (c :: r)) with r. cbn [nth firstn flat_map length]. repeat split; try lia.
      + now rewrite app_nth1.
      + rewrite firstn_app. replace (j - length (leaves c)) with 0 by lia. cbn. now rewrite app_nil_r.
      + rewrite skipn_app. replace (S j - length (leaves c)) with 0 by lia. reflexivity.
    - apply Nat.ltb_ge in E. specialize (IH (j - length (leaves c)) ltac:(lia)).
      destruct (locate r (j - length (leaves c))) as [i j']. destruct IH as (I1 & I2 & I3 & I4 & I5).
      change (skipn (S (S i)) (c :: r)) with (skipn (S i) r). cbn [nth firstn flat_map length]. repeat split; try lia.
      + rewrite app_nth2 by lia. exact I3.
      + rewrite firstn_app, firstn_all2 by lia. rewrite I4. now rewrite app_assoc.
      + rewrite skipn_app. rewrite (skipn_all2 (leaves c)) by lia. cbn [app].
        replace (S j - length (leaves c)) with (S (j - length (leaves c))) by lia. exact I5.
  Qed.

  Lemma nth_children_nth_child c0 rest i : i <= length rest -> nth i (children c0 rest) (Leaf []) = nth_child c0 rest i.
  Proof. intros Hi. unfold nth_child. apply nth_indep. rewrite children_length. lia. Qed.

  Lemma flat_map_leaves_abs (cs : list node) : concat (flat_map leaves cs) = flat_map abs cs.
  Proof. induction cs as [|c r IH]; cbn; [reflexivity|]. now rewrite concat_app, IH, abs_leaves. Qed.

  (* the view of leaf j of a branch through the child that holds it *)
  Lemma view_branch c0 rest j : j < nleaves (Branch c0 rest) ->
    let '(c, j') := locate (children c0 rest) j in
    c <= length rest /\ j' < nleaves (nth_child c0 rest c) /\
    leaf_l (Branch c0 rest) j = leaf_l (nth_child c0 rest c) j' /\
    pre_l (Branch c0 rest) j = pre_abs c0 rest c ++ pre_l (nth_child c0 rest c) j' /\
    post_l (Branch c0 rest) j = post_l (nth_child c0 rest c) j' ++ post_abs c0 rest c.
  Proof.
    unfold nleaves, leaf_l, pre_l, post_l. rewrite leaves_branch. intros Hj.
    pose proof (locate_spec (children c0 rest) j Hj) as H.
    destruct (locate (children c0 rest) j) as [c j']. destruct H as (H1 & H2 & H3 & H4 & H5).
    rewrite children_length in H1. assert (Hc : c <= length rest) by lia.
    rewrite (nth_children_nth_child c0 rest c Hc) in *. unfold nleaves in H2.
    repeat split; auto.
    - rewrite H4, concat_app, flat_map_leaves_abs. reflexivity.
    - rewrite H5, concat_app, flat_map_leaves_abs. reflexivity.
  Qed.

  (* the leaf view of a well-formed tree *)
  Lemma inv_leaves h lo hi t : inv h lo hi t -> leaves t <> [] /\ Forall (fun l => l <> []) (leaves t).
  Proof.
    revert h lo hi. induction t as [es|c0 rest IH0 IHr] using (node_ind2 (K:=K) (V:=V)); intros h lo hi Hi.
    - inversion Hi; subst. cbn. split; [discriminate|]. constructor; [assumption|constructor].
    - inversion Hi as [|h' ? ? ? ? Hne Hc]; subst. rewrite leaves_branch.
      pose proof (chain_children_inv cmp _ _ _ _ _ Hc) as Hall.
      unfold children in *. cbn [flat_map]. inversion Hall as [|? ? [lo' [hi' H0]] Hr]; subst.
      destruct (IH0 _ _ _ H0) as [N0 F0]. split; [destruct (leaves c0); [congruence|discriminate]|].
      apply Forall_app. split; [exact F0|].
      clear Hc Hne Hi Hall. induction rest as [|[s c] r IHrest]; cbn; [constructor|].
      inversion IHr as [|? ? Hc Hr']; subst. inversion Hr as [|? ? [lo1 [hi1 H1]] Hr2]; subst.
      apply Forall_app. split; [apply (Hc _ _ _ H1)|]. apply IHrest; assumption.
  Qed.

  Lemma view_total t j : j < nleaves t -> abs t = pre_l t j ++ leaf_l t j ++ post_l t j.
  Proof.
    unfold nleaves, pre_l, leaf_l, post_l. intros Hj. rewrite abs_leaves.
    rewrite <- (firstn_skipn j (leaves t)) at 1. rewrite concat_app. f_equal.
    destruct (skipn j (leaves t)) as [|x l] eqn:Es.
    - assert (length (skipn j (leaves t)) = 0) by now rewrite Es. rewrite skipn_length in H. lia.
    - change (S j) with (1 + j). rewrite <- skipn_skipn', Es. cbn [skipn concat]. f_equal.
      rewrite <- (firstn_skipn j (leaves t)) at 1. rewrite app_nth2; rewrite firstn_length_le; try lia.
      rewrite Nat.sub_diag, Es. reflexivity.
  Qed.
End LeafView.

Section StoreP.
  Context {K V : Type}.
  Variable cmp : K -> K -> comparison.
  Hypothesis laws : OrderLaws cmp.
  Variable ksize : K -> N.
  Variable vsize : V -> N.
  Variable fixed_k fixed_v : bool.
  Variable page_size : N.
  Variable sep : K -> K -> K.
  Hypothesis Hsep : valid_sep cmp sep.

  Notation node := (@node K V).
  Notation inv := (@inv K V cmp).
  Notation chain := (@chain K V cmp).
  Notation abs := (@abs K V).
  Notation abs_rest := (@abs_rest K V).
  Notation sorted := (@sorted K V cmp).
  Notation leaves := (@leaves K V).
  Notation nleaves := (@nleaves K V).
  Notation del_ok := (@del_ok K V cmp).
  Notation batch_sub := (batch_sub ksize vsize fixed_k fixed_v page_size sep).
  Notation t_flush := (t_flush ksize vsize fixed_k fixed_v page_size sep).
  Notation apply_child_deletion := (apply_child_deletion ksize vsize fixed_k fixed_v page_size sep).
  Implicit Types (t c : node) (rest : list (K * node)) (h : nat) (lo hi : option K).

  (* ---- removing a batch of indexes keeps a subsequence *)
  Lemma remove_indexes_from_Forall (P : K * V -> Prop) (es : list (K * V)) : forall i idx, Forall P es -> Forall P (remove_indexes_from i es idx).
  Proof.
    induction es as [|e r IH]; intros i idx H; cbn; [constructor|].
    inversion H; subst. destruct idx as [|x idx']; [assumption|].
    destruct (Nat.eqb x i); [apply IH; assumption|constructor; [assumption|apply IH; assumption]].
  Qed.

  Lemma remove_indexes_from_sorted (es : list (K * V)) : forall i idx, sorted es -> sorted (remove_indexes_from i es idx).
  Proof.
    induction es as [|e r IH]; intros i idx H; cbn; [constructor|].
    apply (sorted_cons_inv cmp) in H as [Hr Hlt]. destruct idx as [|x idx']; [apply (sorted_cons cmp); assumption|].
    destruct (Nat.eqb x i); [apply IH; assumption|].
    apply (sorted_cons cmp); [apply IH; assumption|]. apply remove_indexes_from_Forall. exact Hlt.
  Qed.

  Definition valid_idx (n : nat) (idx : list nat) : Prop :=
    StronglySorted lt idx /\ Forall (fun x => x < n) idx.

  Lemma remove_indexes_from_length (es : list (K * V)) : forall i idx, StronglySorted lt idx -> Forall (fun x => i <= x < i + length es) idx ->
    length (remove_indexes_from i es idx) + length idx = length es.
  Proof.
    induction es as [|e r IH]; intros i idx Hs Hf; cbn.
    - destruct idx as [|x idx']; [reflexivity|]. inversion Hf; subst. cbn in *. lia.
    - destruct idx as [|x idx']; [cbn; lia|].
      inversion Hs as [|? ? Hs' Hlt]; subst. inversion Hf as [|? ? Hx Hf']; subst.
      destruct (Nat.eqb x i) eqn:E.
      + apply Nat.eqb_eq in E. subst x. cbn [length]. rewrite <- (IH (S i) idx' Hs'); [lia|].
        rewrite Forall_forall in *. intros y Hy. specialize (Hlt y Hy). specialize (Hf' y Hy). cbn in Hf'. lia.
      + apply Nat.eqb_neq in E. cbn [length]. rewrite <- (IH (S i) (x :: idx') Hs); [cbn; lia|].
        constructor; [cbn in Hx; lia|].
        rewrite Forall_forall in *. intros y Hy. specialize (Hlt y Hy). specialize (Hf' y Hy). cbn in Hf', Hx. lia.
  Qed.

  Lemma remove_indexes_length (es : list (K * V)) idx : valid_idx (length es) idx ->
    length (remove_indexes es idx) + length idx = length es.
  Proof.
    intros [Hs Hf]. apply remove_indexes_from_length; [exact Hs|].
    eapply Forall_impl; [|exact Hf]. cbn. intros; lia.
  Qed.

  (* ---- delete_leaf_entries *)
  Lemma leaf_delete_batch_ok lo hi es idx : inv 0 lo hi (Leaf es) ->
    del_ok 0 lo hi (leaf_delete_batch ksize vsize fixed_k fixed_v page_size es idx) (remove_indexes es idx).
  Proof.
    intros Hi. inversion Hi as [? ? ? Hne Hs Hb|]; subst. unfold leaf_delete_batch.
    assert (Hs' : sorted (remove_indexes es idx)) by (apply remove_indexes_from_sorted; assumption).
    assert (Hb' : Forall (in_bounds cmp lo hi) (remove_indexes es idx)) by (apply remove_indexes_from_Forall; assumption).
    destruct (remove_indexes es idx) as [|e l] eqn:Er; [reflexivity|].
    assert (Hi' : inv 0 lo hi (Leaf (e :: l))) by (constructor; [discriminate|assumption|assumption]).
    destruct (leaf_below_merge _ _ _ _ _); cbn; auto.
  Qed.

  Lemma batch_sub_ok fuel : forall t h lo hi j idx dflt, inv h lo hi t -> h <= fuel -> j < nleaves t ->
    del_ok h lo hi (batch_sub fuel t j idx dflt) (pre_l t j ++ remove_indexes (leaf_l t j) idx ++ post_l t j).
  Proof.
    induction fuel as [|f IH]; intros t h lo hi j idx dflt Hi Hf Hj.
    - assert (h = 0) by lia. subst. destruct (inv_0_leaf cmp _ _ _ Hi) as [es ->].
      unfold nleaves in Hj. cbn in Hj. assert (j = 0) by lia. subst.
      unfold pre_l, leaf_l, post_l. cbn. rewrite app_nil_r. now apply leaf_delete_batch_ok.
    - inversion Hi as [lo0 hi0 es Hne Hs Hb|h' lo0 hi0 c0 rest Hne Hc]; subst.
      + unfold nleaves in Hj. cbn in Hj. assert (j = 0) by lia. subst.
        unfold pre_l, leaf_l, post_l. cbn. rewrite app_nil_r. now apply leaf_delete_batch_ok.
      + cbn [ScanTree.batch_sub]. pose proof (view_branch c0 rest j Hj) as Hv.
        destruct (locate (children c0 rest) j) as [c j']. destruct Hv as (Hc1 & Hj' & V1 & V2 & V3).
        pose proof (chain_child_inv cmp _ _ _ _ _ Hc c Hc1) as Hci.
        pose proof (IH _ h' _ _ j' idx dflt Hci ltac:(lia) Hj') as Hsub.
        rewrite V1, V2, V3.
        replace ((pre_abs c0 rest c ++ pre_l (nth_child c0 rest c) j') ++
                 remove_indexes (leaf_l (nth_child c0 rest c) j') idx ++ post_l (nth_child c0 rest c) j' ++ post_abs c0 rest c)
          with (pre_abs c0 rest c ++ (pre_l (nth_child c0 rest c) j' ++ remove_indexes (leaf_l (nth_child c0 rest c) j') idx ++
                                      post_l (nth_child c0 rest c) j') ++ post_abs c0 rest c)
          by (rewrite <- !app_assoc; reflexivity).
        now apply (apply_child_deletion_ok cmp laws ksize vsize fixed_k fixed_v page_size sep Hsep).
  Qed.

  Definition contents (bt : @btree K V) : list (K * V) := concat (bt_leaves bt).

  Lemma contents_abs bt : contents bt = abs_tree bt.
  Proof. unfold contents, bt_leaves, abs_tree. destruct (bt_root bt); [symmetry; apply abs_leaves|reflexivity]. Qed.

  Lemma finish_ok h r X (n : N) : del_ok h None None r X -> n = len X ->
    TreeInv cmp (mk_btree (finish_deletion r) n) /\ abs_tree (mk_btree (finish_deletion r) n) = X.
  Proof.
    intros Hok Hn. unfold TreeInv, abs_tree. destruct r as [t'| |es|p0 prest|c]; cbn [finish_deletion bt_root bt_len del_ok] in *.
    - destruct Hok as [Hi' Habs]. split; [|exact Habs]. split; [exists h; exact Hi'|]. now rewrite Habs.
    - subst X. split; [exact Hn|reflexivity].
    - destruct Hok as (_ & Hi' & Habs). split; [|exact Habs]. split; [exists 0; exact Hi'|]. cbn. now rewrite Habs.
    - destruct Hok as (_ & Hi' & Habs). split; [|exact Habs]. split; [exists h; exact Hi'|]. now rewrite Habs.
    - destruct Hok as (h' & _ & Hi' & Habs). split; [|exact Habs]. split; [exists h'; exact Hi'|]. now rewrite Habs.
  Qed.

  Theorem t_flush_spec allow (bt : @btree K V) j idx : TreeInv cmp bt -> j < length (bt_leaves bt) ->
    valid_idx (length (nth j (bt_leaves bt) [])) idx ->
    TreeInv cmp (t_flush allow bt j idx) /\
    contents (t_flush allow bt j idx) =
      concat (firstn j (bt_leaves bt)) ++ remove_indexes (nth j (bt_leaves bt) []) idx ++ concat (skipn (S j) (bt_leaves bt)).
  Proof.
    intros Hinv Hj Hv. rewrite contents_abs. unfold ScanTree.t_flush, bt_leaves in *.
    destruct (bt_root bt) as [t|] eqn:Er; [|cbn in Hj; lia].
    unfold TreeInv in Hinv. rewrite Er in Hinv. destruct Hinv as [[h Hi] Hlen].
    destruct idx as [|x idx'].
    - split; [unfold TreeInv; rewrite Er; split; [exists h; exact Hi|exact Hlen]|].
      unfold abs_tree. rewrite Er. cbn [remove_indexes remove_indexes_from].
      assert (E : remove_indexes (nth j (leaves t) []) [] = nth j (leaves t) []) by (unfold remove_indexes; destruct (nth j (leaves t) []); reflexivity).
      rewrite E. apply (view_total t j Hj).
    - destruct (inv_leaves cmp _ _ _ _ Hi) as [_ Hall].
      assert (Hne : nth j (leaves t) [] <> []).
      { rewrite Forall_forall in Hall. apply Hall. apply nth_In. exact Hj. }
      destruct (nth j (leaves t) []) as [|[k v] l] eqn:En; [congruence|]. rewrite <- En in *.
      assert (Hf : h <= fuel_of t) by (unfold fuel_of; rewrite (inv_height cmp _ _ _ _ Hi); lia).
      pose proof (batch_sub_ok (fuel_of t) t h None None j (x :: idx') k Hi Hf Hj) as Hok.
      unfold pre_l, leaf_l, post_l in Hok.
      apply (finish_ok h _ _ _ Hok).
      rewrite Hlen. pose proof (remove_indexes_length _ _ Hv) as Hl.
      rewrite (view_total t j Hj). unfold pre_l, leaf_l, post_l, len. rewrite !app_length in *.
      lia.
  Qed.

  (* ---- descend_to_position: the gap it lands on splits the contents at the sought position *)
  Definition below (p : seekpos K) (e : K * V) : Prop :=
    match p with
    | PStart => False
    | PEnd => True
    | PBefore k => cmp (fst e) k = Lt
    | PAfter k => cmp (fst e) k <> Gt
    end.
  Definition above (p : seekpos K) (e : K * V) : Prop :=
    match p with
    | PStart => True
    | PEnd => False
    | PBefore k => cmp k (fst e) <> Gt
    | PAfter k => cmp k (fst e) = Lt
    end.

  Lemma Forall_True {A} (l : list A) : Forall (fun _ => True) l.
  Proof. induction l; constructor; auto. Qed.

  Lemma lower_bound_entry_spec (es : list (K * V)) p : sorted es ->
    let i := lower_bound_entry cmp es p in
    i <= length es /\ Forall (below p) (firstn i es) /\ Forall (above p) (skipn i es).
  Proof.
    intros Hs. destruct p as [| |k|k]; cbn [lower_bound_entry below above].
    - cbn. split; [lia|]. split; [constructor|apply Forall_True].
    - rewrite firstn_all, skipn_all. split; [lia|]. split; [apply Forall_True|constructor].
    - destruct (position cmp es k) as [pos found] eqn:Hp. cbn [fst].
      destruct (position_split cmp laws es k pos found Hs Hp) as (H1 & H2 & H3).
      assert (Hle : pos <= length es).
      { rewrite (position_lin cmp laws es k Hs) in Hp. inversion Hp. rewrite <- (map_length fst es). apply lin_index_le. }
      split; [exact Hle|]. split; [exact H1|].
      destruct found.
      + destruct (H2 eq_refl) as (ov & R & HR & HRlt). rewrite HR. constructor.
        * cbn. rewrite (cmp_refl _ laws). discriminate.
        * eapply Forall_impl; [|exact HRlt]. cbn. intros e He. rewrite He. discriminate.
      + eapply Forall_impl; [|exact (H3 eq_refl)]. cbn. intros e He. rewrite He. discriminate.
    - destruct (position cmp es k) as [pos found] eqn:Hp.
      destruct (position_split cmp laws es k pos found Hs Hp) as (H1 & H2 & H3).
      assert (Hle : pos <= length es).
      { rewrite (position_lin cmp laws es k Hs) in Hp. inversion Hp. rewrite <- (map_length fst es). apply lin_index_le. }
      destruct found.
      + destruct (H2 eq_refl) as (ov & R & HR & HRlt).
        assert (Hlen : S pos <= length es).
        { assert (length (skipn pos es) > 0) by (rewrite HR; cbn; lia). rewrite skipn_length in H. lia. }
        split; [exact Hlen|].
        assert (Hsk : skipn (S pos) es = R).
        { change (S pos) with (1 + pos). rewrite <- skipn_skipn'. now rewrite HR. }
        assert (Hfs : firstn (S pos) es = firstn pos es ++ [(k, ov)]).
        { rewrite <- (firstn_skipn pos es) at 1. rewrite HR.
          rewrite firstn_app, firstn_firstn, firstn_length_le by lia.
          replace (Nat.min (S pos) pos) with pos by lia. replace (S pos - pos) with 1 by lia. reflexivity. }
        rewrite Hsk, Hfs. split; [|exact HRlt].
        apply Forall_app. split.
        * eapply Forall_impl; [|exact H1]. cbn. intros e He. rewrite He. discriminate.
        * constructor; [|constructor]. cbn. rewrite (cmp_refl _ laws). discriminate.
      + split; [exact Hle|]. split; [|exact (H3 eq_refl)].
        eapply Forall_impl; [|exact H1]. cbn. intros e He. rewrite He. discriminate.
  Qed.

  Lemma locate_child (cs : list node) : forall (ci j' : nat), ci < length cs ->
    j' < nleaves (nth ci cs (Leaf [])) -> locate cs (leaves_before cs ci + j') = (ci, j').
  Proof.
    induction cs as [|x r IH]; intros ci j' Hc Hj'; [cbn in Hc; lia|].
    destruct ci as [|c1]; cbn [locate leaves_before firstn fold_right nth] in *.
    - rewrite Nat.add_0_l. assert (E : Nat.ltb j' (nleaves x) = true) by now apply Nat.ltb_lt. now rewrite E.
    - assert (E : Nat.ltb (nleaves x + fold_right (fun c a => nleaves c + a) 0 (firstn c1 r) + j') (nleaves x) = false)
        by (apply Nat.ltb_ge; lia).
      rewrite E. replace (nleaves x + fold_right (fun c a => nleaves c + a) 0 (firstn c1 r) + j' - nleaves x)
        with (leaves_before r c1 + j') by (unfold leaves_before; lia).
      rewrite (IH c1 j'); [reflexivity|cbn in Hc; lia|exact Hj'].
  Qed.

  Lemma leaves_before_lt (cs : list node) (ci j' : nat) : ci < length cs -> j' < nleaves (nth ci cs (Leaf [])) ->
    leaves_before cs ci + j' < length (flat_map leaves cs).
  Proof.
    revert ci. induction cs as [|x r IH]; intros ci Hc Hj'; [cbn in Hc; lia|].
    cbn [flat_map]. rewrite app_length. destruct ci as [|c1]; cbn [leaves_before firstn fold_right nth] in *.
    - unfold nleaves in Hj'. lia.
    - specialize (IH c1 ltac:(cbn in Hc; lia) Hj'). unfold leaves_before, nleaves in *. lia.
  Qed.

  Lemma seek_sub_spec fuel : forall t h lo hi p, inv h lo hi t -> h <= fuel ->
    let '(j, i) := seek_sub cmp fuel t p in
    j < nleaves t /\ i <= length (leaf_l t j) /\
    Forall (below p) (pre_l t j ++ firstn i (leaf_l t j)) /\ Forall (above p) (skipn i (leaf_l t j) ++ post_l t j).
  Proof.
    induction fuel as [|f IH]; intros t h lo hi p Hi Hf.
    - assert (h = 0) by lia. subst. destruct (inv_0_leaf cmp _ _ _ Hi) as [es ->]. inversion Hi; subst.
      cbn [seek_sub]. unfold nleaves, pre_l, leaf_l, post_l. cbn. rewrite app_nil_r.
      destruct (lower_bound_entry_spec es p ltac:(assumption)) as (L1 & L2 & L3). auto.
    - inversion Hi as [lo0 hi0 es Hne Hs Hb|h' lo0 hi0 c0 rest Hne Hc]; subst.
      + cbn [seek_sub]. unfold nleaves, pre_l, leaf_l, post_l. cbn. rewrite app_nil_r.
        destruct (lower_bound_entry_spec es p Hs) as (L1 & L2 & L3). auto.
      + cbn [seek_sub].
        set (ci := match p with
                  | PStart => 0
                  | PEnd => length rest
                  | PBefore q | PAfter q => child_for_key cmp rest q
                  end).
        assert (Hc1 : ci <= length rest).
        { destruct p; unfold ci; try lia;
            rewrite (child_for_key_lin cmp laws _ _ _ _ _ _ Hc), <- (map_length fst rest); apply lin_index_le. }
        pose proof (chain_child_inv cmp _ _ _ _ _ Hc ci Hc1) as Hci.
        specialize (IH (nth_child c0 rest ci) h' _ _ p Hci ltac:(lia)).
        destruct (seek_sub cmp f (nth_child c0 rest ci) p) as [j' x]. destruct IH as (I1 & I2 & I3 & I4).
        assert (Hcl : ci < length (children c0 rest)) by (rewrite children_length; lia).
        assert (Hj'n : j' < nleaves (nth ci (children c0 rest) (Leaf []))) by (rewrite nth_children_nth_child; assumption).
        assert (Hjn : leaves_before (children c0 rest) ci + j' < nleaves (Branch c0 rest)).
        { unfold nleaves. rewrite leaves_branch. now apply leaves_before_lt. }
        pose proof (view_branch c0 rest _ Hjn) as Hv. rewrite (locate_child _ ci j' Hcl Hj'n) in Hv.
        destruct Hv as (_ & _ & V1 & V2 & V3). rewrite V1, V2, V3. split; [exact Hjn|]. split; [exact I2|].
        assert (HL : Forall (below p) (pre_abs c0 rest ci)).
        { unfold pre_abs. destruct p as [| |q|q]; unfold ci.
          - cbn. constructor.
          - apply Forall_True.
          - rewrite (child_for_key_lin cmp laws _ _ _ _ _ q Hc). apply Forall_flat_map'.
            eapply Forall_impl; [|apply (chain_left_of cmp laws _ _ _ _ _ q Hc)]. intros c1 H1. exact H1.
          - rewrite (child_for_key_lin cmp laws _ _ _ _ _ q Hc). apply Forall_flat_map'.
            eapply Forall_impl; [|apply (chain_left_of cmp laws _ _ _ _ _ q Hc)]. intros c1 H1.
            eapply Forall_impl; [|exact H1]. cbn. intros e He. rewrite He. discriminate. }
        assert (HR : Forall (above p) (post_abs c0 rest ci)).
        { unfold post_abs. destruct p as [| |q|q]; unfold ci.
          - apply Forall_True.
          - rewrite skipn_all2; [constructor|]. rewrite children_length. lia.
          - rewrite (child_for_key_lin cmp laws _ _ _ _ _ q Hc). apply Forall_flat_map'.
            eapply Forall_impl; [|apply (chain_right_of cmp laws _ _ _ _ _ q Hc)]. intros c1 H1.
            eapply Forall_impl; [|exact H1]. cbn. intros e He. rewrite He. discriminate.
          - rewrite (child_for_key_lin cmp laws _ _ _ _ _ q Hc). apply Forall_flat_map'.
            eapply Forall_impl; [|apply (chain_right_of cmp laws _ _ _ _ _ q Hc)]. intros c1 H1. exact H1. }
        split.
        * rewrite <- app_assoc. apply Forall_app. split; [exact HL|exact I3].
        * rewrite app_assoc. apply Forall_app. split; [exact I4|exact HR].
  Qed.
End StoreP.
