(* Concrete instance used by the C04/C18 oracles: keys are either u64 values or byte strings
   (&[u8] and &str order as their bytes), values are byte strings.  Definitions only. *)
From Coq Require Import List NArith Bool.
From RV Require Import Base.Bytes Base.SortedMap.
Import ListNotations.
Open Scope N_scope.

Inductive key : Type := KU64 (n : N) | KBytes (b : bytes).

Definition key_cmp (a b : key) : comparison :=
  match a, b with
  | KU64 x, KU64 y => x ?= y
  | KBytes x, KBytes y => lex_cmp x y
  | KU64 _, KBytes _ => Lt
  | KBytes _, KU64 _ => Gt
  end.

(* encoded size in bytes (u64 is fixed width 8) *)
Definition key_size (k : key) : N :=
  match k with KU64 _ => 8 | KBytes b => N.of_nat (length b) end.

Definition val_size (v : bytes) : N := N.of_nat (length v).

Definition key_of_u64_bytes (b : bytes) : key := KU64 (le_decode b).

(* the predicate family used by retain / retain_in / extract_if / extract_from_if in the harness:
   keep/extract iff (h(key) + |value|) mod m < r, h(u64 k) = k, h(bytes) = sum of the bytes *)
Definition key_hash (k : key) : N :=
  match k with KU64 n => n | KBytes b => fold_left N.add b 0 end.

Definition pred_mod (m r : N) (k : key) (v : bytes) : bool :=
  ((key_hash k + N.of_nat (length v)) mod m) <? r.

Definition smap := @SortedMap.map key bytes.
