(* RangeMut / BtreeExtractIf (RangeMut.v) consumed from BOTH ends in any order: the double-ended protocol
   (park a live end as Parked / Pending with a leaf snapshot, activate the other end by its own bound, re-attach a
   pending batch when the landed leaf still equals the snapshot, else resolve_batch = delete by key, the peer's bound
   as the scan limit, close with one end pending) refines the specification's double-ended iterator, for every store
   that satisfies the interface laws of ScanP.v / ScanBackP.v plus `seek_before_post`. *)
From Coq Require Import List NArith Bool Sorted Lia Arith.
From RV Require Import Base.SortedMap Base.SortedMapP Btree.Tree Btree.Read Btree.ReadP Btree.Scan Btree.RangeMut
  Btree.ScanTreeP Btree.SpliceP Btree.ScanP Btree.ScanBackP.
Import ListNotations.

Section MixLists.
  Context {A : Type}.
  Lemma Subseq_In (a b : list A) x : Subseq a b -> In x a -> In x b.
  Proof.
    intros Hs Hi. assert (H : Forall (fun y => In y b) a).
    { eapply Subseq_Forall; [exact Hs|]. rewrite Forall_forall. auto. }
    rewrite Forall_forall in H. auto.
  Qed.

  Lemma skipn_cons_inv (l : list A) : forall i e sk, skipn i l = e :: sk -> nth_error l i = Some e /\ skipn (S i) l = sk.
  Proof.
    induction l as [|x l IH]; intros i e sk H; [destruct i; discriminate|].
    destruct i as [|i]; cbn in *; [inversion H; auto|]. now apply IH.
  Qed.

  Lemma nth_error_firstn' (l : list A) : forall n x, x < n -> nth_error (firstn n l) x = nth_error l x.
  Proof.
    induction l as [|a l IH]; intros n x H; [destruct n, x; reflexivity|].
    destruct n as [|n]; [lia|]. destruct x as [|x]; cbn; [reflexivity|]. apply IH. lia.
  Qed.

  Lemma nth_error_skipn' (l : list A) : forall n x, nth_error (skipn n l) x = nth_error l (n + x).
  Proof.
    induction l as [|a l IH]; intros n x; [destruct n, x; reflexivity|].
    destruct n as [|n]; [reflexivity|]. cbn. apply IH.
  Qed.
End MixLists.

Section ScanMixP.
  Context {K V T : Type}.
  Variable cmp : K -> K -> comparison.
  Hypothesis laws : OrderLaws cmp.
  Variable entry_eqb : K * V -> K * V -> bool.
  Hypothesis entry_eqb_sound : forall x y, entry_eqb x y = true -> x = y.

  Variable leaves : T -> list (list (K * V)).
  Variable seek : T -> seekpos K -> nat * nat.
  Variable flush : bool -> T -> nat -> list nat -> T.
  Variable splice : T -> nat -> nat -> list (K * V) -> N -> T.
  Variable has_parent : T -> nat -> bool.
  Variable more_children : T -> nat -> direction -> bool.
  Variable underfilling : list (K * V) -> bool.
  Variable packs : list (K * V) -> bool.
  Variable ok : T -> Prop.

  Notation sorted := (@sorted K V cmp).
  Notation leaf_at := (leaf_at leaves).
  Notation cstate := (@cstate K V).
  Notation contents := (ScanP.contents leaves).
  Notation pre := (ScanP.pre leaves).
  Notation post := (ScanP.post leaves).
  Notation run_leaves := (ScanP.run_leaves leaves).
  Notation wf := (ScanP.wf leaves has_parent more_children).
  Notation VP := (ScanP.VP leaves).
  Notation Bs := (ScanP.Bs leaves).
  Notation wfb := (ScanBackP.wfb leaves has_parent more_children).
  Notation VPb := (ScanBackP.VPb leaves).
  Notation Bsb := (ScanBackP.Bsb leaves).
  Notation below := (@ScanTreeP.below K V cmp).
  Notation above := (@ScanTreeP.above K V cmp).

  Hypothesis ok_leaves : forall t, ok t -> Forall (fun l => l <> []) (leaves t) /\ sorted (contents t).
  Hypothesis seek_ok : forall t p, ok t -> leaves t <> [] ->
    let '(j, i) := seek t p in
    j < length (leaves t) /\ i <= length (leaf_at t j) /\
    Forall (below p) (pre t j ++ firstn i (leaf_at t j)) /\ Forall (above p) (skipn i (leaf_at t j) ++ post t j).
  Hypothesis flush_ok : forall a t j idx, ok t -> j < length (leaves t) -> idx <> [] ->
    valid_idx (length (leaf_at t j)) idx ->
    ok (flush a t j idx) /\ contents (flush a t j idx) = pre t j ++ remove_indexes (leaf_at t j) idx ++ post t j.
  Hypothesis splice_ok : forall t a n es r, ok t -> 1 <= n -> a + n <= length (leaves t) ->
    has_parent t a = true -> (forall x, S x < n -> more_children t (a + x) DNext = true) ->
    Subseq es (run_leaves t a n) -> N.of_nat (length (run_leaves t a n)) = (N.of_nat (length es) + r)%N ->
    ok (splice t a n es r) /\ contents (splice t a n es r) = concat (firstn a (leaves t)) ++ es ++ concat (skipn (a + n) (leaves t)).
  Hypothesis more_next : forall t j, ok t -> j < length (leaves t) -> more_children t j DNext = true -> S j < length (leaves t).
  Hypothesis more_prev : forall t j, ok t -> j < length (leaves t) -> more_children t j DPrev = true ->
    1 <= j /\ more_children t (j - 1) DNext = true.
  Hypothesis has_parent_const : forall t j j', has_parent t j = has_parent t j'.
  (* the one additional law: descend_to_position(Before(k)) never stops in front of a leaf that still holds k *)
  Hypothesis seek_before_post : forall t k, ok t -> leaves t <> [] ->
    let '(j, i) := seek t (PBefore k) in Forall (fun e : K * V => cmp k (fst e) = Lt) (post t j).

  Notation seek_to := (seek_to leaves seek).
  Notation ensure_has_entry := (ensure_has_entry leaves seek flush splice has_parent more_children underfilling packs).
  Notation finish_pending := (finish_pending leaves flush splice has_parent more_children underfilling packs).
  Notation splice_open := (splice_open splice).
  Notation rstate := (@RangeMut.rstate K V T).
  Notation xstate := (@RangeMut.xstate K V T).
  Notation end_state := (@RangeMut.end_state K V).
  Notation delete_key := (RangeMut.delete_key cmp leaves seek flush).
  Notation resolve_batch := (RangeMut.resolve_batch cmp leaves seek flush).
  Notation list_eqb := (RangeMut.list_eqb entry_eqb).
  Notation park := (RangeMut.park leaves splice).
  Notation seek_end := (RangeMut.seek_end leaves seek).
  Notation activate := (RangeMut.activate cmp entry_eqb leaves seek flush splice).
  Notation flush_end := (RangeMut.flush_end cmp entry_eqb leaves seek flush splice has_parent more_children underfilling packs).
  Notation range_close := (RangeMut.range_close cmp entry_eqb leaves seek flush splice has_parent more_children underfilling packs).
  Notation extract_step := (RangeMut.extract_step cmp entry_eqb leaves seek flush splice has_parent more_children underfilling packs).
  Notation extract_next := (RangeMut.extract_next cmp entry_eqb leaves seek flush splice has_parent more_children underfilling packs).
  Notation extract_close := (RangeMut.extract_close cmp entry_eqb leaves seek flush splice has_parent more_children underfilling packs).
  Notation extract_tree := (RangeMut.extract_tree cmp entry_eqb leaves seek flush splice has_parent more_children underfilling packs).
  Notation settle' := (RangeMut.settle' cmp entry_eqb leaves seek flush splice has_parent more_children underfilling packs).
  Notation range_remove := (RangeMut.range_remove cmp entry_eqb leaves seek flush splice has_parent more_children underfilling packs).
  Notation range_advance := (RangeMut.range_advance cmp entry_eqb leaves seek flush splice has_parent more_children underfilling packs).

  (* ---------------------------------------------------------------- the store only ever shrinks *)
  (* the cursor lemmas of ScanP.v / ScanBackP.v are used with this invariant in place of `ok` *)
  Definition okx (t0 t : T) : Prop := ok t /\ Subseq (contents t) (contents t0).

  Lemma okx_refl t : ok t -> okx t t.
  Proof. intros H. split; [exact H|apply Subseq_refl]. Qed.
  Lemma okx_trans t0 t1 t : okx t0 t1 -> okx t1 t -> okx t0 t.
  Proof. intros [_ S1] [H S2]. split; [exact H|eapply Subseq_trans; eauto]. Qed.

  Lemma okx_leaves t0 : forall t, okx t0 t -> Forall (fun l => l <> []) (leaves t) /\ sorted (contents t).
  Proof. intros t [H _]. now apply ok_leaves. Qed.
  Lemma okx_seek t0 : forall t p, okx t0 t -> leaves t <> [] ->
    let '(j, i) := seek t p in
    j < length (leaves t) /\ i <= length (leaf_at t j) /\
    Forall (below p) (pre t j ++ firstn i (leaf_at t j)) /\ Forall (above p) (skipn i (leaf_at t j) ++ post t j).
  Proof. intros t p [H _]. now apply seek_ok. Qed.
  Lemma okx_flush t0 : forall a t j idx, okx t0 t -> j < length (leaves t) -> idx <> [] ->
    valid_idx (length (leaf_at t j)) idx ->
    okx t0 (flush a t j idx) /\ contents (flush a t j idx) = pre t j ++ remove_indexes (leaf_at t j) idx ++ post t j.
  Proof.
    intros a t j idx [H S] Hj Hi Hv. destruct (flush_ok a t j idx H Hj Hi Hv) as [F1 F2]. split; [|exact F2]. split; [exact F1|].
    eapply Subseq_trans; [|exact S]. rewrite F2, (ScanP.view leaves t j Hj).
    apply Subseq_app; [apply Subseq_refl|]. apply Subseq_app; [|apply Subseq_refl]. apply remove_indexes_from_Subseq.
  Qed.
  Lemma contents_run t a n : a + n <= length (leaves t) ->
    contents t = concat (firstn a (leaves t)) ++ run_leaves t a n ++ concat (skipn (a + n) (leaves t)).
  Proof.
    intros H. rewrite app_assoc, <- (ScanP.pre_run leaves t a n H). unfold ScanP.contents, ScanP.pre.
    rewrite <- concat_app, firstn_skipn. reflexivity.
  Qed.
  Lemma okx_splice t0 : forall t a n es r, okx t0 t -> 1 <= n -> a + n <= length (leaves t) ->
    has_parent t a = true -> (forall x, S x < n -> more_children t (a + x) DNext = true) ->
    Subseq es (run_leaves t a n) -> N.of_nat (length (run_leaves t a n)) = (N.of_nat (length es) + r)%N ->
    okx t0 (splice t a n es r) /\ contents (splice t a n es r) = concat (firstn a (leaves t)) ++ es ++ concat (skipn (a + n) (leaves t)).
  Proof.
    intros t a n es r [H S] H1 H2 H3 H4 H5 H6. destruct (splice_ok t a n es r H H1 H2 H3 H4 H5 H6) as [F1 F2].
    split; [|exact F2]. split; [exact F1|]. eapply Subseq_trans; [|exact S]. rewrite F2, (contents_run t a n H2).
    apply Subseq_app; [apply Subseq_refl|]. apply Subseq_app; [exact H5|apply Subseq_refl].
  Qed.
  Lemma okx_more_next t0 : forall t j, okx t0 t -> j < length (leaves t) -> more_children t j DNext = true -> S j < length (leaves t).
  Proof. intros t j [H _]. now apply more_next. Qed.
  Lemma okx_more_prev t0 : forall t j, okx t0 t -> j < length (leaves t) -> more_children t j DPrev = true ->
    1 <= j /\ more_children t (j - 1) DNext = true.
  Proof. intros t j [H _]. now apply more_prev. Qed.

  Definition E_ensure t0 := ScanP.ensure_ok cmp laws leaves seek flush splice has_parent more_children underfilling packs
    (okx t0) (okx_leaves t0) (okx_seek t0) (okx_flush t0) (okx_splice t0) (okx_more_next t0) has_parent_const.
  Definition E_finish t0 := ScanP.finish_ok leaves flush splice has_parent more_children underfilling packs
    (okx t0) (okx_flush t0) (okx_splice t0) has_parent_const.
  Definition E_ensureb t0 := ScanBackP.ensure_okb cmp laws leaves seek flush splice has_parent more_children underfilling packs
    (okx t0) (okx_leaves t0) (okx_seek t0) (okx_flush t0) (okx_splice t0) (okx_more_prev t0) has_parent_const.
  Definition E_finishb t0 := ScanBackP.finish_okb leaves flush splice has_parent more_children underfilling packs
    (okx t0) (okx_flush t0) (okx_splice t0) (okx_more_prev t0) has_parent_const.

  (* ---------------------------------------------------------------- order and list facts *)
  Lemma below_above_disj p e : below p e -> above p e -> False.
  Proof.
    destruct p as [| |k|k]; cbn; auto.
    - intros H1 H2. apply (cmp_lt_gt cmp laws) in H1. congruence.
    - intros H1 H2. apply (cmp_lt_gt cmp laws) in H2. congruence.
  Qed.

  Lemma sorted_disj X Y e : sorted (X ++ Y) -> In e X -> In e Y -> False.
  Proof.
    intros Hs H1 H2. apply (sorted_app_inv cmp) in Hs as (_ & _ & Hlt). specialize (Hlt e e H1 H2).
    rewrite (cmp_refl _ laws) in Hlt. discriminate.
  Qed.

  Lemma shrink_left (P : K * V -> Prop) X X' Y : sorted (X ++ Y) -> Subseq (X' ++ Y) (X ++ Y) -> Forall P X -> Forall P X'.
  Proof.
    intros Hs Hsub HP. rewrite Forall_forall in *. intros e He.
    assert (Hin : In e (X ++ Y)) by (eapply Subseq_In; [exact Hsub|apply in_or_app; auto]).
    apply in_app_or in Hin as [H|H]; [auto|]. exfalso.
    assert (Hs' : sorted (X' ++ Y)) by (eapply Subseq_sorted; eauto).
    eapply sorted_disj; eauto.
  Qed.

  Lemma shrink_right (P : K * V -> Prop) X Y Y' : sorted (X ++ Y) -> Subseq (X ++ Y') (X ++ Y) -> Forall P Y -> Forall P Y'.
  Proof.
    intros Hs Hsub HP. rewrite Forall_forall in *. intros e He.
    assert (Hin : In e (X ++ Y)) by (eapply Subseq_In; [exact Hsub|apply in_or_app; auto]).
    apply in_app_or in Hin as [H|H]; [|auto]. exfalso.
    assert (Hs' : sorted (X ++ Y')) by (eapply Subseq_sorted; eauto).
    eapply sorted_disj; eauto.
  Qed.

  (* a sorted list around one of its entries *)
  Lemma sorted_mid X e Y : sorted (X ++ e :: Y) ->
    Forall (fun x => cmp (fst x) (fst e) = Lt) X /\ Forall (fun x => cmp (fst e) (fst x) = Lt) Y.
  Proof.
    intros Hs. apply (sorted_app_inv cmp) in Hs as (_ & Hs2 & Hlt). split.
    - rewrite Forall_forall. intros x Hx. apply Hlt; [exact Hx|cbn; auto].
    - apply (sorted_cons_inv cmp) in Hs2 as [_ H]. exact H.
  Qed.

  Lemma Forall_weaken_lt_le (f : K * V -> comparison) l : Forall (fun x => f x = Lt) l -> Forall (fun x => f x <> Gt) l.
  Proof. intros H. eapply Forall_impl; [|exact H]. cbn. intros a Ha. rewrite Ha. discriminate. Qed.

  Lemma list_eqb_eq (a : list (K * V)) : forall b, list_eqb a b = true -> a = b.
  Proof.
    induction a as [|x a IH]; intros [|y b] H; cbn in H; try discriminate; [reflexivity|].
    apply andb_true_iff in H as [H1 H2]. f_equal; [now apply entry_eqb_sound|now apply IH].
  Qed.

  (* removing the largest of a batch of indexes (offset o) *)
  Lemma remove_last_idx o (S : list (K * V)) R x e : StronglySorted lt R -> Forall (fun y => o <= y < x) R -> o <= x ->
    nth_error S (x - o) = Some e ->
    remove_indexes_from o S R = remove_indexes_from o (firstn (x - o) S) R ++ e :: skipn (Datatypes.S (x - o)) S /\
    remove_indexes_from o S (R ++ [x]) = remove_indexes_from o (firstn (x - o) S) R ++ skipn (Datatypes.S (x - o)) S.
  Proof.
    intros HS HF Hox En.
    assert (Hlt : x - o < length S) by (apply nth_error_Some; congruence).
    assert (ES : S = firstn (x - o) S ++ e :: skipn (Datatypes.S (x - o)) S).
    { rewrite <- (firstn_skipn (x - o) S) at 1. f_equal. now apply skipn_nth_cons. }
    set (F := firstn (x - o) S) in *. set (sk := skipn (Datatypes.S (x - o)) S) in *.
    assert (HlF : length F = x - o) by (unfold F; rewrite firstn_length_le; lia).
    split.
    - rewrite ES at 1. apply remove_from_app. rewrite HlF. eapply Forall_impl; [|exact HF]. cbn. intros; lia.
    - rewrite ES at 1. change (F ++ e :: sk) with (F ++ [e] ++ sk). rewrite app_assoc.
      rewrite remove_from_app.
      + f_equal. replace x with (o + length F) at 1 by lia. apply remove_from_snoc_kill; [exact HS|].
        rewrite HlF. eapply Forall_impl; [|exact HF]. cbn. intros; lia.
      + rewrite app_length, HlF. cbn. apply Forall_app. split; [eapply Forall_impl; [|exact HF]; cbn; intros; lia|].
        constructor; [lia|constructor].
  Qed.

  (* ---------------------------------------------------------------- seeking the gap a bound describes *)
  Lemma reseek_gen t p X Y : ok t -> contents t = X ++ Y -> Forall (below p) X -> Forall (above p) Y ->
    match seek_to t p with
    | None => leaves t = [] /\ X = [] /\ Y = []
    | Some (j, i) => j < length (leaves t) /\ i <= length (leaf_at t j) /\
                     pre t j ++ firstn i (leaf_at t j) = X /\ skipn i (leaf_at t j) ++ post t j = Y
    end.
  Proof.
    intros Hok Hc HX HY. unfold Scan.seek_to, has_root. destruct (leaves t) as [|l0 ls] eqn:EL.
    - unfold ScanP.contents in Hc. rewrite EL in Hc. cbn in Hc. symmetry in Hc. apply app_eq_nil in Hc as [-> ->]. auto.
    - pose proof (seek_ok t p Hok ltac:(rewrite EL; discriminate)) as Hseek. rewrite EL in Hseek.
      destruct (seek t p) as [j i]. destruct Hseek as (Hj & Hi & Hb & Ha). rewrite <- EL in *.
      assert (Hsplit : (pre t j ++ firstn i (leaf_at t j)) ++ (skipn i (leaf_at t j) ++ post t j) = X ++ Y).
      { rewrite <- Hc, (ScanP.view leaves t j Hj). rewrite <- !app_assoc. f_equal. rewrite app_assoc, firstn_skipn. reflexivity. }
      destruct (split_unique (below p) (above p) (below_above_disj p) _ _ _ _ Hsplit Hb Ha HX HY) as [E1 E2]. auto.
  Qed.

  (* a clean cursor at a gap, seen as a front end and as a back end *)
  Lemma clean_front t j i det : j < length (leaves t) -> i <= length (leaf_at t j) ->
    let c := mk_cstate (Some (j, i)) [] det None in
    wf t c /\ VP t c = pre t j ++ firstn i (leaf_at t j) /\ Bs t c = skipn i (leaf_at t j) ++ post t j.
  Proof.
    intros Hj Hi. unfold ScanP.wf, ScanP.VP, ScanP.Bs. cbn [c_pos c_removed c_run ScanP.run_prefix ScanP.run_wf].
    rewrite remove_indexes_nil. repeat split; auto; constructor.
  Qed.
  Lemma clean_back t j i det : j < length (leaves t) -> i <= length (leaf_at t j) ->
    let c := mk_cstate (Some (j, i)) [] det None in
    wfb t c /\ Bsb t c = pre t j ++ firstn i (leaf_at t j) /\ VPb t c = skipn i (leaf_at t j) ++ post t j.
  Proof.
    intros Hj Hi. unfold ScanBackP.wfb, ScanBackP.VPb, ScanBackP.Bsb. cbn [c_pos c_removed c_run ScanBackP.run_suffix ScanBackP.run_wfb rev].
    rewrite remove_from_nil. repeat split; auto; constructor.
  Qed.

  (* ---------------------------------------------------------------- delete_key / resolve_batch *)
  Lemma delete_key_ok t0 t X e Y : okx t0 t -> contents t = X ++ e :: Y ->
    okx t0 (delete_key t (fst e)) /\ contents (delete_key t (fst e)) = X ++ Y.
  Proof.
    intros Hx Hc. pose proof Hx as [Hok _]. destruct (ok_leaves t Hok) as [_ Hs].
    assert (Hne : leaves t <> []).
    { intros E. unfold ScanP.contents in Hc. rewrite E in Hc. cbn in Hc. destruct X; discriminate. }
    unfold RangeMut.delete_key. assert (Hr : has_root leaves t = true) by (unfold has_root; destruct (leaves t); congruence).
    rewrite Hr. pose proof (seek_ok t (PBefore (fst e)) Hok Hne) as Hseek. pose proof (seek_before_post t (fst e) Hok Hne) as Hpost.
    destruct (seek t (PBefore (fst e))) as [j i]. destruct Hseek as (Hj & Hi & Hb & Ha).
    rewrite Hc in Hs. destruct (sorted_mid X e Y Hs) as [SX SY].
    assert (Hsplit : (pre t j ++ firstn i (leaf_at t j)) ++ (skipn i (leaf_at t j) ++ post t j) = X ++ e :: Y).
    { rewrite <- Hc, (ScanP.view leaves t j Hj). rewrite <- !app_assoc. f_equal. rewrite app_assoc, firstn_skipn. reflexivity. }
    assert (HaY : Forall (above (PBefore (fst e))) (e :: Y)).
    { constructor; [cbn; rewrite (cmp_refl _ laws); discriminate|]. cbn. now apply Forall_weaken_lt_le. }
    destruct (split_unique (below (PBefore (fst e))) (above (PBefore (fst e))) (below_above_disj _) _ _ _ _ Hsplit Hb Ha SX HaY) as [E1 E2].
    destruct (skipn i (leaf_at t j)) as [|e' sk] eqn:Esk.
    { exfalso. cbn [app] in E2. rewrite E2 in Hpost. inversion Hpost as [|? ? Hh _]; subst. rewrite (cmp_refl _ laws) in Hh. discriminate. }
    cbn [app] in E2. injection E2 as Ee EY. subst e'. destruct (skipn_cons_inv _ _ _ _ Esk) as [En Esk'].
    rewrite En, (cmp_refl _ laws).
    assert (Hlt : i < length (leaf_at t j)) by (apply nth_error_Some; congruence).
    destruct (okx_flush t0 false t j [i] Hx Hj ltac:(discriminate)
                ltac:(split; [repeat constructor|constructor; [exact Hlt|constructor]])) as [F1 F2].
    split; [exact F1|]. rewrite F2. rewrite <- E1, <- EY, <- Esk'.
    assert (Erm : remove_indexes (leaf_at t j) [i] = firstn i (leaf_at t j) ++ skipn (S i) (leaf_at t j)).
    { unfold remove_indexes.
      destruct (remove_last_idx 0 (leaf_at t j) [] i e ltac:(constructor) ltac:(constructor) ltac:(lia)
                  ltac:(now rewrite Nat.sub_0_r)) as [_ H2].
      cbn [app] in H2. rewrite Nat.sub_0_r in H2. rewrite H2. now rewrite remove_from_nil. }
    rewrite Erm, <- !app_assoc. reflexivity.
  Qed.

  (* the pending batch of a parked FRONT end (indexes ascending, all below the gap) applied by key *)
  Lemma resolve_front t0 snap (S : list (K * V)) : forall idx t X Y, okx t0 t -> contents t = X ++ S ++ Y ->
    StronglySorted lt idx -> Forall (fun x => x < length S) idx -> (forall x, x < length S -> nth_error snap x = nth_error S x) ->
    okx t0 (resolve_batch t snap idx) /\ contents (resolve_batch t snap idx) = X ++ remove_indexes S idx ++ Y.
  Proof.
    induction idx as [|x idx' IH] using rev_ind; intros t X Y Hx Hc HS HF Hsn.
    - cbn. rewrite remove_indexes_nil. auto.
    - unfold RangeMut.resolve_batch. rewrite fold_left_app. cbn [fold_left].
      fold (resolve_batch t snap idx').
      apply Forall_app in HF as [HF' HFx]. inversion HFx as [|? ? Hxl _]; subst.
      assert (HS' : StronglySorted lt idx' /\ Forall (fun y => y < x) idx').
      { clear -HS. induction idx' as [|a l IHl]; cbn in *; [split; constructor|].
        inversion HS as [|? ? HS1 HF1]; subst. destruct (IHl HS1) as [I1 I2]. apply Forall_app in HF1 as [F1 F2].
        inversion F2; subst. split; [constructor; assumption|constructor; assumption]. }
      destruct HS' as [HS' Hlt].
      destruct (IH t X Y Hx Hc HS' HF' Hsn) as [I1 I2].
      rewrite (Hsn x Hxl). destruct (nth_error S x) as [e|] eqn:En; [|apply nth_error_None in En; lia].
      destruct (remove_last_idx 0 S idx' x e HS' ltac:(eapply Forall_impl; [|exact Hlt]; cbn; intros; lia) ltac:(lia)
                  ltac:(now rewrite Nat.sub_0_r)) as [R1 R2].
      rewrite Nat.sub_0_r in R1, R2. fold (remove_indexes S idx') in R1. fold (remove_indexes S (idx' ++ [x])) in R2.
      fold (remove_indexes (firstn x S) idx') in R1, R2.
      rewrite R1 in I2. rewrite <- app_assoc in I2. cbn [app] in I2. rewrite app_assoc in I2.
      destruct (delete_key_ok t0 _ _ e _ I1 I2) as [D1 D2]. split; [exact D1|].
      rewrite D2, R2, <- !app_assoc. reflexivity.
  Qed.

  (* the pending batch of a parked BACK end (indexes descending, all at or above the gap o) applied by key *)
  Lemma resolve_back t0 snap o : forall idx (S : list (K * V)) t X Y, okx t0 t -> contents t = X ++ S ++ Y ->
    StronglySorted lt (rev idx) -> Forall (fun x => o <= x < o + length S) idx ->
    (forall x, o <= x < o + length S -> nth_error snap x = nth_error S (x - o)) ->
    okx t0 (resolve_batch t snap idx) /\ contents (resolve_batch t snap idx) = X ++ remove_indexes_from o S (rev idx) ++ Y.
  Proof.
    induction idx as [|x idx' IH]; intros S t X Y Hx Hc HS HF Hsn.
    - cbn. rewrite remove_from_nil. auto.
    - cbn [rev] in *. unfold RangeMut.resolve_batch. cbn [fold_left].
      inversion HF as [|? ? Hxr HF']; subst.
      assert (HS' : StronglySorted lt (rev idx') /\ Forall (fun y => y < x) (rev idx')).
      { clear -HS. induction (rev idx') as [|a l IHl]; cbn in *; [split; constructor|].
        inversion HS as [|? ? HS1 HF1]; subst. destruct (IHl HS1) as [I1 I2]. apply Forall_app in HF1 as [F1 F2].
        inversion F2; subst. split; [constructor; assumption|constructor; assumption]. }
      destruct HS' as [HS' Hlt].
      rewrite (Hsn x ltac:(lia)). destruct (nth_error S (x - o)) as [e|] eqn:En; [|apply nth_error_None in En; lia].
      assert (Hrange : Forall (fun y => o <= y < x) (rev idx')).
      { rewrite Forall_forall in *. intros y Hy. specialize (Hlt y Hy). apply in_rev in Hy. specialize (HF' y Hy). lia. }
      destruct (remove_last_idx o S (rev idx') x e HS' Hrange ltac:(lia) En) as [_ R2].
      assert (ES : S = firstn (x - o) S ++ e :: skipn (Datatypes.S (x - o)) S).
      { rewrite <- (firstn_skipn (x - o) S) at 1. f_equal. now apply skipn_nth_cons. }
      assert (Hc' : contents t = (X ++ firstn (x - o) S) ++ e :: (skipn (Datatypes.S (x - o)) S ++ Y)).
      { rewrite Hc. rewrite ES at 1. rewrite <- !app_assoc. reflexivity. }
      destruct (delete_key_ok t0 t _ e _ Hx Hc') as [D1 D2].
      fold (resolve_batch (delete_key t (fst e)) snap idx').
      assert (HlF : length (firstn (x - o) S) = x - o).
      { rewrite firstn_length_le; [reflexivity|]. assert (x - o < length S) by (apply nth_error_Some; congruence). lia. }
      destruct (IH (firstn (x - o) S) (delete_key t (fst e)) X (skipn (Datatypes.S (x - o)) S ++ Y) D1
                  ltac:(rewrite D2, <- !app_assoc; reflexivity) HS') as [I1 I2].
      + rewrite HlF. rewrite Forall_forall in *. intros y Hy. apply in_rev in Hy. specialize (Hrange y Hy). lia.
      + intros y Hy. rewrite HlF in Hy. rewrite (Hsn y ltac:(lia)). rewrite nth_error_firstn' by lia. reflexivity.
      + split; [exact I1|]. rewrite I2, R2, <- !app_assoc. reflexivity.
  Qed.


  (* ---------------------------------------------------------------- the two ends of the range *)
  Definition splitL (b : bound K) (X Y : list (K * V)) : Prop :=
    Forall (below (pos_of_lower b)) X /\ Forall (above (pos_of_lower b)) Y.
  Definition splitU (b : bound K) (X Y : list (K * V)) : Prop :=
    Forall (below (pos_of_upper b)) X /\ Forall (above (pos_of_upper b)) Y.

  (* a front end that is not live: PF = what physically precedes its gap, Rest = what follows, xp = PF once the
     pending batch is applied.  s = the bound is meaningful (false only for the junk bound left by flush_end) *)
  Definition frontNL (s : Prop) (fe : end_state) (PF Rest xp : list (K * V)) : Prop :=
    match fe with
    | EParked b => PF = xp /\ (s -> splitL b PF Rest)
    | EPending b snap idx => exists A i, PF = A ++ firstn i snap /\ xp = A ++ remove_indexes (firstn i snap) idx /\
        i <= length snap /\ StronglySorted lt idx /\ Forall (fun x => x < i) idx /\
        splitL b PF Rest /\ Forall (above (pos_of_lower b)) (skipn i snap)
    | ELive _ => False
    end.
  Definition backNL (s : Prop) (be : end_state) (Front PB xq : list (K * V)) : Prop :=
    match be with
    | EParked b => PB = xq /\ (s -> splitU b Front PB)
    | EPending b snap idx => exists A i, PB = skipn i snap ++ A /\ xq = remove_indexes_from i (skipn i snap) (rev idx) ++ A /\
        i <= length snap /\ StronglySorted lt (rev idx) /\ Forall (fun x => i <= x < length snap) idx /\
        splitU b Front PB /\ Forall (below (pos_of_upper b)) (firstn i snap)
    | ELive _ => False
    end.

  Lemma frontNL_rest s fe PF Rest Rest' xp : (forall P : K * V -> Prop, Forall P Rest -> Forall P Rest') ->
    frontNL s fe PF Rest xp -> frontNL s fe PF Rest' xp.
  Proof.
    intros HR. destruct fe as [b|b snap idx|c]; cbn; [| |auto].
    - intros [E H]. split; [exact E|]. intros Hs. destruct (H Hs) as [H1 H2]. split; [exact H1|now apply HR].
    - intros (A & i & H1 & H2 & H3 & H4 & H5 & [H6 H7] & H8). exists A, i. repeat split; auto.
  Qed.
  Lemma backNL_front s be F F' PB xq : (forall P : K * V -> Prop, Forall P F -> Forall P F') ->
    backNL s be F PB xq -> backNL s be F' PB xq.
  Proof.
    intros HR. destruct be as [b|b snap idx|c]; cbn; [| |auto].
    - intros [E H]. split; [exact E|]. intros Hs. destruct (H Hs) as [H1 H2]. split; [now apply HR|exact H2].
    - intros (A & i & H1 & H2 & H3 & H4 & H5 & [H6 H7] & H8). exists A, i. repeat split; auto.
  Qed.
  Lemma frontNL_weaken (s : Prop) fe PF Rest xp : frontNL True fe PF Rest xp -> frontNL s fe PF Rest xp.
  Proof. destruct fe; cbn; auto. intros [E H]. auto. Qed.
  Lemma backNL_weaken (s : Prop) be F PB xq : backNL True be F PB xq -> backNL s be F PB xq.
  Proof. destruct be; cbn; auto. intros [E H]. auto. Qed.

  Definition parked_of (t : T) (c : cstate) (d : direction) : end_state :=
    let b := park_bound leaves t c d in
    match c_removed c, c_pos c with
    | _ :: _, Some (j, _) => EPending b (leaf_at t j) (c_removed c)
    | _, _ => EParked b
    end.

  Lemma run_prefix_sub t c j i : wf t c -> c_pos c = Some (j, i) -> Subseq (ScanP.run_prefix leaves t j (c_run c)) (pre t j).
  Proof.
    unfold ScanP.wf. intros Hwf E. rewrite E in Hwf. destruct Hwf as (Hj & _ & _ & _ & Hrun).
    destruct (c_run c) as [[d r]|]; cbn [ScanP.run_prefix]; [|apply Subseq_refl].
    destruct Hrun as (_ & Ej & _ & _ & _ & Hsub & _). rewrite <- Ej, ScanP.pre_run by lia.
    apply Subseq_app; [apply Subseq_refl|exact Hsub].
  Qed.
  Lemma run_suffix_sub t c j i : wfb t c -> c_pos c = Some (j, i) -> Subseq (ScanBackP.run_suffix leaves t j (c_run c)) (post t j).
  Proof.
    unfold ScanBackP.wfb. intros Hwf E. rewrite E in Hwf. destruct Hwf as (Hj & _ & _ & _ & Hrun).
    destruct (c_run c) as [[d r]|]; cbn [ScanBackP.run_suffix]; [|apply Subseq_refl].
    destruct Hrun as (_ & Ej & _ & _ & _ & _ & _ & Hsub & _). rewrite (ScanBackP.post_run leaves t j (r_count r)), <- Ej.
    apply Subseq_app; [exact Hsub|apply Subseq_refl].
  Qed.

  (* parking a live FRONT end: its open run is spliced, its gap becomes a bound, its batch a snapshot *)
  Lemma park_front (s : Prop) t0 t c Rest xp : okx t0 t -> wf t c -> (s -> c_pos c <> None) -> VP t c = xp -> Bs t c = Rest ->
    let t' := fst (splice_open t c) in
    okx t0 t' /\ exists PF, contents t' = PF ++ Rest /\ frontNL s (parked_of t c DNext) PF Rest xp.
  Proof.
    intros Hx Hwf Hs HV HB. pose proof Hx as [Hok _]. cbn zeta. destruct (c_pos c) as [[j i]|] eqn:Epos.
    - pose proof (run_prefix_sub t c j i Hwf Epos) as HA.
      pose proof Hwf as Hwf0. unfold ScanP.wf in Hwf0. rewrite Epos in Hwf0. destruct Hwf0 as (Hj & Hi & HS & HF & Hrun).
      set (A := ScanP.run_prefix leaves t j (c_run c)) in *.
      assert (Hsp : okx t0 (fst (splice_open t c)) /\ contents (fst (splice_open t c)) = A ++ leaf_at t j ++ post t j).
      { unfold Scan.splice_open, A. destruct (c_run c) as [[d r]|] eqn:Er; cbn [fst ScanP.run_prefix].
        - destruct Hrun as (_ & Ej & Hn & Hp & Hmore & Hsub & Hcnt).
          destruct (okx_splice t0 t (r_first r) (r_count r) (r_entries r) (r_removed r) Hx Hn ltac:(lia) Hp
                      ltac:(intros x Hxx; apply Hmore; lia) Hsub Hcnt) as [S1 S2].
          split; [exact S1|]. rewrite S2, Ej, (concat_skipn_S (leaves t) j Hj). fold (leaf_at t j). unfold ScanP.post.
          now rewrite <- app_assoc.
        - split; [exact Hx|]. apply (ScanP.view leaves t j Hj). }
      destruct Hsp as [Sx Sc]. split; [exact Sx|].
      exists (A ++ firstn i (leaf_at t j)).
      assert (ER : Rest = skipn i (leaf_at t j) ++ post t j) by (rewrite <- HB; unfold ScanP.Bs; now rewrite Epos).
      assert (EX : xp = A ++ remove_indexes (firstn i (leaf_at t j)) (c_removed c)) by (rewrite <- HV; unfold ScanP.VP; now rewrite Epos).
      assert (Hc : contents (fst (splice_open t c)) = (A ++ firstn i (leaf_at t j)) ++ Rest).
      { rewrite Sc, ER. rewrite <- (firstn_skipn i (leaf_at t j)) at 1. rewrite <- !app_assoc. reflexivity. }
      split; [exact Hc|].
      destruct Sx as [Sok _]. destruct (ok_leaves _ Sok) as [_ Hsorted]. rewrite Hc in Hsorted.
      assert (Hsplit : splitL (park_bound leaves t c DNext) (A ++ firstn i (leaf_at t j)) Rest).
      { unfold RangeMut.park_bound. rewrite Epos. destruct (nth_error (leaf_at t j) i) as [e|] eqn:En.
        - rewrite ER in Hsorted |- *. rewrite (skipn_nth_cons _ _ _ En) in Hsorted |- *. cbn [app] in Hsorted |- *.
          destruct (sorted_mid _ e _ Hsorted) as [M1 M2]. split; cbn [pos_of_lower].
          + exact M1.
          + constructor; [cbn; rewrite (cmp_refl _ laws); discriminate|]. cbn. now apply Forall_weaken_lt_le.
        - apply nth_error_None in En. assert (Ei : i = length (leaf_at t j)) by lia.
          assert (Hsub : Subseq (A ++ firstn i (leaf_at t j)) (pre t j ++ leaf_at t j)).
          { rewrite Ei, firstn_all. apply Subseq_app; [exact HA|apply Subseq_refl]. }
          destruct (ScanP.bounds_at_leaf_end cmp laws leaves ok ok_leaves t j _ Hok Hj Hsub) as (k & Ek & HX & HY).
          rewrite Ek. cbn [pos_of_lower]. split; [exact HX|]. rewrite ER, Ei, skipn_all. exact HY. }
      apply frontNL_weaken. unfold parked_of. cbn zeta. set (b := park_bound leaves t c DNext) in *. clearbody b.
      rewrite Epos. destruct (c_removed c) as [|x0 R0] eqn:ERm.
      + cbn. split; [|auto]. rewrite EX. now rewrite remove_indexes_nil.
      + rewrite <- ERm in *. unfold frontNL. exists A, i. repeat split; auto; try apply Hsplit.
        destruct Hsplit as [_ H2]. rewrite ER in H2. apply Forall_app in H2. tauto.
    - unfold ScanP.wf in Hwf. rewrite Epos in Hwf. destruct Hwf as [ERm Er].
      unfold Scan.splice_open. rewrite Er. cbn [fst]. split; [exact Hx|]. exists (contents t).
      assert (ER : Rest = []) by (rewrite <- HB; unfold ScanP.Bs; now rewrite Epos).
      assert (EX : xp = contents t) by (rewrite <- HV; unfold ScanP.VP; now rewrite Epos).
      split; [rewrite ER; now rewrite app_nil_r|]. unfold parked_of. rewrite ERm. cbn. split; [now rewrite EX|].
      intros Hss. exfalso. now apply (Hs Hss).
  Qed.

  (* parking a live BACK end *)
  Lemma park_back (s : Prop) t0 t c Front xq : okx t0 t -> wfb t c -> (s -> c_pos c <> None) -> VPb t c = xq -> Bsb t c = Front ->
    let t' := fst (splice_open t c) in
    okx t0 t' /\ exists PB, contents t' = Front ++ PB /\ backNL s (parked_of t c DPrev) Front PB xq.
  Proof.
    intros Hx Hwf Hs HV HB. pose proof Hx as [Hok _]. cbn zeta. destruct (c_pos c) as [[j i]|] eqn:Epos.
    - pose proof (run_suffix_sub t c j i Hwf Epos) as HA.
      pose proof Hwf as Hwf0. unfold ScanBackP.wfb in Hwf0. rewrite Epos in Hwf0. destruct Hwf0 as (Hj & Hi & HS & HF & Hrun).
      set (A := ScanBackP.run_suffix leaves t j (c_run c)) in *.
      assert (Hsp : okx t0 (fst (splice_open t c)) /\ contents (fst (splice_open t c)) = pre t j ++ leaf_at t j ++ A).
      { unfold Scan.splice_open, A. destruct (c_run c) as [[d r]|] eqn:Er; cbn [fst ScanBackP.run_suffix].
        - destruct Hrun as (_ & Ej & Hn & Hle & Hp & _ & Hmore & Hsub & Hcnt).
          destruct (okx_splice t0 t (r_first r) (r_count r) (r_entries r) (r_removed r) Hx Hn Hle Hp Hmore Hsub Hcnt) as [S1 S2].
          split; [exact S1|]. rewrite S2, Ej. change (concat (firstn (S j) (leaves t))) with (pre t (S j)).
          rewrite (ScanBackP.pre_Sb leaves t j Hj). now rewrite <- !app_assoc.
        - split; [exact Hx|]. apply (ScanP.view leaves t j Hj). }
      destruct Hsp as [Sx Sc]. split; [exact Sx|].
      exists (skipn i (leaf_at t j) ++ A).
      assert (EF : Front = pre t j ++ firstn i (leaf_at t j)) by (rewrite <- HB; unfold ScanBackP.Bsb; now rewrite Epos).
      assert (EX : xq = remove_indexes_from i (skipn i (leaf_at t j)) (rev (c_removed c)) ++ A) by (rewrite <- HV; unfold ScanBackP.VPb; now rewrite Epos).
      assert (Hc : contents (fst (splice_open t c)) = Front ++ skipn i (leaf_at t j) ++ A).
      { rewrite Sc, EF. rewrite <- (firstn_skipn i (leaf_at t j)) at 1. rewrite <- !app_assoc. reflexivity. }
      split; [exact Hc|].
      destruct Sx as [Sok _]. destruct (ok_leaves _ Sok) as [_ Hsorted]. rewrite Hc in Hsorted.
      assert (Hsplit : splitU (park_bound leaves t c DPrev) Front (skipn i (leaf_at t j) ++ A)).
      { unfold RangeMut.park_bound. rewrite Epos. destruct i as [|i'].
        - assert (Hsub : Subseq (skipn 0 (leaf_at t j) ++ A) (leaf_at t j ++ post t j)).
          { cbn [skipn]. apply Subseq_app; [apply Subseq_refl|exact HA]. }
          destruct (ScanBackP.bounds_at_leaf_start cmp laws leaves ok ok_leaves t j _ Hok Hj Hsub) as (k & Ek & HY & HX).
          rewrite Ek. cbn [pos_of_upper]. split; [|exact HY]. rewrite EF. cbn [firstn]. now rewrite app_nil_r.
        - destruct (nth_error (leaf_at t j) i') as [e|] eqn:En; [|apply nth_error_None in En; lia].
          rewrite EF in Hsorted |- *. rewrite (firstn_S_snoc _ _ _ En) in Hsorted |- *.
          rewrite <- !app_assoc in Hsorted. cbn [app] in Hsorted. rewrite app_assoc in Hsorted.
          destruct (sorted_mid _ e _ Hsorted) as [M1 M2]. cbn [pos_of_upper]. split; [|exact M2].
          rewrite app_assoc. apply Forall_app. split; [cbn; now apply Forall_weaken_lt_le|].
          constructor; [cbn; rewrite (cmp_refl _ laws); discriminate|constructor]. }
      apply backNL_weaken. unfold parked_of. cbn zeta. set (b := park_bound leaves t c DPrev) in *. clearbody b.
      rewrite Epos. destruct (c_removed c) as [|x0 R0] eqn:ERm.
      + cbn. split; [|auto]. rewrite EX. cbn [rev]. now rewrite remove_from_nil.
      + rewrite <- ERm in *. unfold backNL. exists A, i. repeat split; auto; try apply Hsplit.
        destruct Hsplit as [H1 _]. rewrite EF in H1. apply Forall_app in H1. tauto.
    - unfold ScanBackP.wfb in Hwf. rewrite Epos in Hwf. destruct Hwf as [ERm Er].
      unfold Scan.splice_open. rewrite Er. cbn [fst]. split; [exact Hx|]. exists (contents t).
      assert (EF : Front = []) by (rewrite <- HB; unfold ScanBackP.Bsb; now rewrite Epos).
      assert (EX : xq = contents t) by (rewrite <- HV; unfold ScanBackP.VPb; now rewrite Epos).
      split; [rewrite EF; reflexivity|]. unfold parked_of. rewrite ERm. cbn. split; [now rewrite EX|].
      intros Hss. exfalso. now apply (Hs Hss).
  Qed.


  (* ---------------------------------------------------------------- activating a parked / pending end *)
  Lemma front_at t p X Y det : ok t -> contents t = X ++ Y -> Forall (below p) X -> Forall (above p) Y ->
    let c := mk_cstate (seek_to t p) [] det None in
    wf t c /\ VP t c = X /\ Bs t c = Y /\ (c_pos c = None -> Y = []).
  Proof.
    intros Hok Hc HX HY. pose proof (reseek_gen t p X Y Hok Hc HX HY) as H. cbn zeta.
    destruct (seek_to t p) as [[j i]|].
    - destruct H as (Hj & Hi & E1 & E2). destruct (clean_front t j i det Hj Hi) as (W1 & W2 & W3).
      rewrite W2, W3. split; [exact W1|]. split; [exact E1|]. split; [exact E2|]. intros HH; discriminate HH.
    - destruct H as (EL & -> & ->). unfold ScanP.wf, ScanP.VP, ScanP.Bs. cbn. rewrite Hc. auto.
  Qed.
  Lemma back_at t p X Y det : ok t -> contents t = X ++ Y -> Forall (below p) X -> Forall (above p) Y ->
    let c := mk_cstate (seek_to t p) [] det None in
    wfb t c /\ VPb t c = Y /\ Bsb t c = X /\ (c_pos c = None -> X = []).
  Proof.
    intros Hok Hc HX HY. pose proof (reseek_gen t p X Y Hok Hc HX HY) as H. cbn zeta.
    destruct (seek_to t p) as [[j i]|].
    - destruct H as (Hj & Hi & E1 & E2). destruct (clean_back t j i det Hj Hi) as (W1 & W2 & W3).
      rewrite W2, W3. split; [exact W1|]. split; [exact E2|]. split; [exact E1|]. intros HH; discriminate HH.
    - destruct H as (EL & -> & ->). unfold ScanBackP.wfb, ScanBackP.VPb, ScanBackP.Bsb. cbn. rewrite Hc. auto.
  Qed.

  Definition activate_own (st1 : rstate) (d : direction) (own : end_state) : rstate :=
    let c := seek_end st1 d in
    match own with
    | EPending b snapshot idx =>
        let matches := match c_pos c with
                       | Some (j, _) => list_eqb (leaf_at (RangeMut.rg_tree st1) j) snapshot
                       | None => false
                       end in
        if matches then RangeMut.set_end st1 d (ELive (mk_cstate (c_pos c) idx true None))
        else
          let st2 := RangeMut.set_end st1 d (EParked b) in
          let st3 := RangeMut.set_tree st2 (resolve_batch (RangeMut.rg_tree st2) snapshot idx) in
          RangeMut.set_end st3 d (ELive (seek_end st3 d))
    | _ => RangeMut.set_end st1 d (ELive c)
    end.

  Lemma activate_unfold st d : match RangeMut.end_of st d with
                               | ELive _ => activate st d = st
                               | own => activate st d = activate_own (park st (dir_opposite d)) d own
                               end.
  Proof. unfold RangeMut.activate, activate_own. destruct (RangeMut.end_of st d); reflexivity. Qed.

  Lemma firstn_eq_len {A} (l : list A) i i' : i <= length l -> i' <= length l -> firstn i' l = firstn i l -> i' = i.
  Proof. intros H1 H2 E. apply (f_equal (@length A)) in E. rewrite !firstn_length_le in E by lia. exact E. Qed.

  Lemma own_front t0 t fe be PF Rest xp : okx t0 t -> contents t = PF ++ Rest -> frontNL True fe PF Rest xp ->
    exists t1 c1, activate_own (RangeMut.mk_rstate t fe be None) DNext fe = RangeMut.mk_rstate t1 (ELive c1) be None /\
      okx t0 t1 /\ wf t1 c1 /\ VP t1 c1 = xp /\ Bs t1 c1 = Rest /\ (c_pos c1 = None -> Rest = []) /\
      exists PF1, contents t1 = PF1 ++ Rest /\ Subseq PF1 PF.
  Proof.
    intros Hx Hc HF. pose proof Hx as [Hok _]. destruct fe as [b|b snap idx|c0]; [| |destruct HF].
    - destruct HF as [E Hs]. subst xp. destruct (Hs I) as [HbX HaY].
      destruct (front_at t (pos_of_lower b) PF Rest false Hok Hc HbX HaY) as (W1 & W2 & W3 & W4).
      exists t, (mk_cstate (seek_to t (pos_of_lower b)) [] false None). split; [reflexivity|].
      split; [exact Hx|]. split; [exact W1|]. split; [exact W2|]. split; [exact W3|]. split; [exact W4|].
      exists PF. split; [exact Hc|apply Subseq_refl].
    - destruct HF as (A & i & EPF & Exp & Hi & HS & HFi & [HbX HaY] & Hsk).
      (* the batch applied by key, then the reseek *)
      assert (Hres : let t3 := resolve_batch t snap idx in let c3 := mk_cstate (seek_to t3 (pos_of_lower b)) [] false None in
                okx t0 t3 /\ wf t3 c3 /\ VP t3 c3 = xp /\ Bs t3 c3 = Rest /\ (c_pos c3 = None -> Rest = []) /\ contents t3 = xp ++ Rest /\ Subseq xp PF).
      { cbn zeta. assert (Hl : length (firstn i snap) = i) by (rewrite firstn_length_le; lia).
        destruct (resolve_front t0 snap (firstn i snap) idx t A Rest Hx ltac:(rewrite Hc, EPF, <- app_assoc; reflexivity) HS
                    ltac:(rewrite Hl; exact HFi) ltac:(intros x Hxl; rewrite Hl in Hxl; now rewrite nth_error_firstn')) as [R1 R2].
        rewrite app_assoc, <- Exp in R2.
        assert (Hsub : Subseq xp PF).
        { rewrite Exp, EPF. apply Subseq_app; [apply Subseq_refl|apply remove_indexes_from_Subseq]. }
        destruct R1 as [R1ok R1s].
        destruct (front_at (resolve_batch t snap idx) (pos_of_lower b) xp Rest false R1ok R2
                    (Subseq_Forall _ _ _ Hsub HbX) HaY) as (W1 & W2 & W3 & W4).
        repeat split; auto. }
      cbn zeta in Hres. destruct Hres as (R1 & R2 & R3 & R4 & R5 & R6 & R7).
      pose proof (reseek_gen t (pos_of_lower b) PF Rest Hok Hc HbX HaY) as Hseek.
      unfold activate_own, RangeMut.seek_end.
      cbn [RangeMut.end_of RangeMut.rg_front RangeMut.rg_back RangeMut.rg_tree RangeMut.rg_settled RangeMut.set_end RangeMut.set_tree c_pos].
      destruct (seek_to t (pos_of_lower b)) as [[j i']|] eqn:Es.
      + destruct Hseek as (Hj & Hi' & E1 & E2).
        destruct (list_eqb (leaf_at t j) snap) eqn:Em.
        * apply list_eqb_eq in Em.
          assert (Ei : i' = i).
          { rewrite <- Em in Hi. apply (firstn_eq_len (leaf_at t j)); auto.
            assert (Hb1 : Forall (below (pos_of_lower b)) (firstn i' (leaf_at t j))).
            { pose proof HbX as H. rewrite <- E1 in H. apply Forall_app in H. tauto. }
            assert (Ha1 : Forall (above (pos_of_lower b)) (skipn i' (leaf_at t j))).
            { pose proof HaY as H. rewrite <- E2 in H. apply Forall_app in H. tauto. }
            assert (Hb2 : Forall (below (pos_of_lower b)) (firstn i (leaf_at t j))).
            { pose proof HbX as H. rewrite EPF, <- Em in H. apply Forall_app in H. tauto. }
            assert (Ha2 : Forall (above (pos_of_lower b)) (skipn i (leaf_at t j))) by (rewrite Em; exact Hsk).
            destruct (split_unique (below (pos_of_lower b)) (above (pos_of_lower b)) (below_above_disj _)
                        (firstn i' (leaf_at t j)) (skipn i' (leaf_at t j)) (firstn i (leaf_at t j)) (skipn i (leaf_at t j))
                        ltac:(now rewrite !firstn_skipn) Hb1 Ha1 Hb2 Ha2) as [E _]. exact E. }
          subst i'. rewrite <- Em in *.
          assert (EA : pre t j = A) by (rewrite EPF in E1; now apply app_inv_tail in E1).
          exists t, (mk_cstate (Some (j, i)) idx true None). split; [reflexivity|]. split; [exact Hx|].
          split; [unfold ScanP.wf; cbn; repeat split; auto|].
          split; [unfold ScanP.VP; cbn [c_pos c_removed c_run ScanP.run_prefix]; now rewrite EA, Exp|].
          split; [unfold ScanP.Bs; cbn [c_pos]; exact E2|]. split; [intros HH; discriminate HH|].
          exists PF. split; [exact Hc|apply Subseq_refl].
        * exists (resolve_batch t snap idx), (mk_cstate (seek_to (resolve_batch t snap idx) (pos_of_lower b)) [] false None).
          split; [reflexivity|]. split; [exact R1|]. split; [exact R2|]. split; [exact R3|]. split; [exact R4|]. split; [exact R5|].
          exists xp. split; assumption.
      + exists (resolve_batch t snap idx), (mk_cstate (seek_to (resolve_batch t snap idx) (pos_of_lower b)) [] false None).
        split; [reflexivity|]. split; [exact R1|]. split; [exact R2|]. split; [exact R3|]. split; [exact R4|]. split; [exact R5|].
          exists xp. split; assumption.
  Qed.


  Lemma own_back t0 t fe be Front PB xq : okx t0 t -> contents t = Front ++ PB -> backNL True be Front PB xq ->
    exists t1 c1, activate_own (RangeMut.mk_rstate t fe be None) DPrev be = RangeMut.mk_rstate t1 fe (ELive c1) None /\
      okx t0 t1 /\ wfb t1 c1 /\ VPb t1 c1 = xq /\ Bsb t1 c1 = Front /\ (c_pos c1 = None -> Front = []) /\
      exists PB1, contents t1 = Front ++ PB1 /\ Subseq PB1 PB.
  Proof.
    intros Hx Hc HF. pose proof Hx as [Hok _]. destruct be as [b|b snap idx|c0]; [| |destruct HF].
    - destruct HF as [E Hs]. subst xq. destruct (Hs I) as [HbX HaY].
      destruct (back_at t (pos_of_upper b) Front PB false Hok Hc HbX HaY) as (W1 & W2 & W3 & W4).
      exists t, (mk_cstate (seek_to t (pos_of_upper b)) [] false None). split; [reflexivity|].
      split; [exact Hx|]. split; [exact W1|]. split; [exact W2|]. split; [exact W3|]. split; [exact W4|].
      exists PB. split; [exact Hc|apply Subseq_refl].
    - destruct HF as (A & i & EPB & Exq & Hi & HS & HFi & [HbX HaY] & Hfi).
      assert (Hres : let t3 := resolve_batch t snap idx in let c3 := mk_cstate (seek_to t3 (pos_of_upper b)) [] false None in
                okx t0 t3 /\ wfb t3 c3 /\ VPb t3 c3 = xq /\ Bsb t3 c3 = Front /\ (c_pos c3 = None -> Front = []) /\ contents t3 = Front ++ xq /\ Subseq xq PB).
      { cbn zeta. assert (Hl : i + length (skipn i snap) = length snap) by (rewrite skipn_length; lia).
        destruct (resolve_back t0 snap i idx (skipn i snap) t Front A Hx ltac:(rewrite Hc, EPB; reflexivity) HS
                    ltac:(rewrite Hl; exact HFi)
                    ltac:(intros x Hxl; rewrite nth_error_skipn'; f_equal; lia)) as [R1 R2].
        rewrite <- Exq in R2.
        assert (Hsub : Subseq xq PB).
        { rewrite Exq, EPB. apply Subseq_app; [apply remove_indexes_from_Subseq|apply Subseq_refl]. }
        destruct R1 as [R1ok R1s].
        destruct (back_at (resolve_batch t snap idx) (pos_of_upper b) Front xq false R1ok R2
                    HbX (Subseq_Forall _ _ _ Hsub HaY)) as (W1 & W2 & W3 & W4).
        repeat split; auto. }
      cbn zeta in Hres. destruct Hres as (R1 & R2 & R3 & R4 & R5 & R6 & R7).
      pose proof (reseek_gen t (pos_of_upper b) Front PB Hok Hc HbX HaY) as Hseek.
      unfold activate_own, RangeMut.seek_end.
      cbn [RangeMut.end_of RangeMut.rg_front RangeMut.rg_back RangeMut.rg_tree RangeMut.rg_settled RangeMut.set_end RangeMut.set_tree c_pos].
      destruct (seek_to t (pos_of_upper b)) as [[j i']|] eqn:Es.
      + destruct Hseek as (Hj & Hi' & E1 & E2).
        destruct (list_eqb (leaf_at t j) snap) eqn:Em.
        * apply list_eqb_eq in Em.
          assert (Ei : i' = i).
          { rewrite <- Em in Hi. apply (firstn_eq_len (leaf_at t j)); auto.
            assert (Hb1 : Forall (below (pos_of_upper b)) (firstn i' (leaf_at t j))).
            { pose proof HbX as H. rewrite <- E1 in H. apply Forall_app in H. tauto. }
            assert (Ha1 : Forall (above (pos_of_upper b)) (skipn i' (leaf_at t j))).
            { pose proof HaY as H. rewrite <- E2 in H. apply Forall_app in H. tauto. }
            assert (Hb2 : Forall (below (pos_of_upper b)) (firstn i (leaf_at t j))) by (rewrite Em; exact Hfi).
            assert (Ha2 : Forall (above (pos_of_upper b)) (skipn i (leaf_at t j))).
            { pose proof HaY as H. rewrite EPB, <- Em in H. apply Forall_app in H. tauto. }
            destruct (split_unique (below (pos_of_upper b)) (above (pos_of_upper b)) (below_above_disj _)
                        (firstn i' (leaf_at t j)) (skipn i' (leaf_at t j)) (firstn i (leaf_at t j)) (skipn i (leaf_at t j))
                        ltac:(now rewrite !firstn_skipn) Hb1 Ha1 Hb2 Ha2) as [E _]. exact E. }
          subst i'. rewrite <- Em in *.
          assert (EA : post t j = A) by (rewrite EPB in E2; now apply app_inv_head in E2).
          exists t, (mk_cstate (Some (j, i)) idx true None). split; [reflexivity|]. split; [exact Hx|].
          split; [unfold ScanBackP.wfb; cbn; repeat split; auto|].
          split; [unfold ScanBackP.VPb; cbn [c_pos c_removed c_run ScanBackP.run_suffix]; now rewrite EA, Exq|].
          split; [unfold ScanBackP.Bsb; cbn [c_pos]; exact E1|]. split; [intros HH; discriminate HH|].
          exists PB. split; [exact Hc|apply Subseq_refl].
        * exists (resolve_batch t snap idx), (mk_cstate (seek_to (resolve_batch t snap idx) (pos_of_upper b)) [] false None).
          split; [reflexivity|]. split; [exact R1|]. split; [exact R2|]. split; [exact R3|]. split; [exact R4|]. split; [exact R5|].
          exists xq. split; assumption.
      + exists (resolve_batch t snap idx), (mk_cstate (seek_to (resolve_batch t snap idx) (pos_of_upper b)) [] false None).
        split; [reflexivity|]. split; [exact R1|]. split; [exact R2|]. split; [exact R3|]. split; [exact R4|]. split; [exact R5|].
        exists xq. split; assumption.
  Qed.


  (* ---------------------------------------------------------------- a live end scanning against the peer's bound *)
  Definition peer_bound (e : end_state) : bound K :=
    match e with EParked b => b | EPending b _ _ => b | ELive _ => Unbounded end.
  Definition nonlive (e : end_state) : Prop := match e with ELive _ => False | _ => True end.
  Definition fstate (t : T) (c : cstate) (be : end_state) (s : option direction) : rstate := RangeMut.mk_rstate t (ELive c) be s.
  Definition bstate (t : T) (fe : end_state) (c : cstate) (s : option direction) : rstate := RangeMut.mk_rstate t fe (ELive c) s.

  Lemma in_range_front t c be s (e : K * V) :
    RangeMut.entry_in_range cmp (fstate t c be s) DNext (fst e) = true <-> below (pos_of_upper (peer_bound be)) e.
  Proof.
    unfold RangeMut.entry_in_range, fstate, peer_bound. cbn [dir_opposite RangeMut.end_of RangeMut.rg_back].
    destruct be as [[|x|x]|[|x|x] sn ix|c']; cbn; unfold kle, klt; try (destruct (cmp (fst e) x));
      split; intros; try congruence; try discriminate; auto.
  Qed.
  Lemma in_range_back t fe c s (e : K * V) :
    RangeMut.entry_in_range cmp (bstate t fe c s) DPrev (fst e) = true <-> above (pos_of_lower (peer_bound fe)) e.
  Proof.
    unfold RangeMut.entry_in_range, bstate, peer_bound. cbn [dir_opposite RangeMut.end_of RangeMut.rg_front].
    destruct fe as [[|x|x]|[|x|x] sn ix|c']; cbn; unfold kle, klt; try (destruct (cmp x (fst e)));
      split; intros; try congruence; try discriminate; auto.
  Qed.

  Lemma snoc_cases' {A} (l : list A) : l = [] \/ exists m e, l = m ++ [e].
  Proof. destruct l as [|a l]; [left; reflexivity|right]. destruct (exists_last (l:=a :: l)) as (m & e & ->); [discriminate|eauto]. Qed.

  Section Steps.
  Variables (p : K -> V -> bool) (efuel : nat).
  Hypothesis efuel_ok : 2 <= efuel.

  Lemma settle_front t0 be PB t c (st : @ext_state K V) : okx t0 t -> wf t c -> VP t c = x_pre st -> Bs t c = x_mid st ++ PB ->
    Forall (below (pos_of_upper (peer_bound be))) (x_mid st) -> Forall (above (pos_of_upper (peer_bound be))) PB ->
    let '(b, r) := settle' efuel (fstate t c be None) DNext in
    exists t1 c1, okx t0 t1 /\ wf t1 c1 /\ VP t1 c1 = x_pre st /\ Bs t1 c1 = x_mid st ++ PB /\
      ((b = true /\ r = fstate t1 c1 be (Some DNext) /\ exists e rest, x_mid st = e :: rest /\ current_entry leaves t1 c1 DNext = Some e /\ ScanP.entry_at leaves t1 c1) \/
       (b = false /\ r = fstate t1 c1 be None /\ x_mid st = [])).
  Proof.
    intros Hx Hwf HVP HBs Hmid HPB.
    unfold RangeMut.settle', fstate. cbn [RangeMut.rg_settled RangeMut.activate RangeMut.end_of RangeMut.rg_front RangeMut.rg_tree RangeMut.rg_back RangeMut.set_end RangeMut.set_tree].
    pose proof (E_ensure t0 efuel t c efuel_ok Hx Hwf) as He.
    destruct (ensure_has_entry efuel t c DNext) as [[b t1] c1]. destruct He as (E1 & E2 & E3 & E4 & E5 & E6).
    rewrite <- E3 in HVP. rewrite <- E4 in HBs.
    destruct b.
    - destruct (ScanP.entry_exists leaves t1 c1 (E5 eq_refl)) as (j & i & e & Epos & En & Ecur). rewrite Ecur.
      fold (fstate t1 c1 be None).
      destruct (ScanP.move_ok leaves has_parent more_children t1 c1 j i e E2 Epos En) as (_ & _ & M3). rewrite HBs in M3.
      pose proof (in_range_front t1 c1 be None e) as Hir.
      destruct (x_mid st) as [|e' rest] eqn:Em.
      + cbn [app] in M3. assert (Ha : above (pos_of_upper (peer_bound be)) e) by (rewrite M3 in HPB; now inversion HPB).
        destruct (RangeMut.entry_in_range cmp (fstate t1 c1 be None) DNext (fst e)) eqn:Er.
        * exfalso. apply (below_above_disj (pos_of_upper (peer_bound be)) e); [now apply Hir|exact Ha].
        * exists t1, c1. split; [exact E1|]. split; [exact E2|]. split; [exact HVP|]. split; [exact HBs|]. right. auto.
      + cbn [app] in M3. inversion M3; subst e'. inversion Hmid as [|? ? Hb _]; subst.
        apply Hir in Hb. rewrite Hb.
        exists t1, c1. split; [exact E1|]. split; [exact E2|]. split; [exact HVP|]. split; [exact HBs|]. left.
        split; [reflexivity|]. split; [reflexivity|]. exists e, rest. split; [reflexivity|]. split; [exact Ecur|apply E5; reflexivity].
    - exists t1, c1. split; [exact E1|]. split; [exact E2|]. split; [exact HVP|]. split; [exact HBs|]. right.
      split; [reflexivity|]. split; [reflexivity|]. specialize (E6 eq_refl). rewrite E4 in HBs. rewrite HBs in E6. apply app_eq_nil in E6. tauto.
  Qed.

  Lemma live_front t0 be PB : Forall (above (pos_of_upper (peer_bound be))) PB ->
    forall fuel t c (st : @ext_state K V), okx t0 t -> wf t c -> VP t c = x_pre st -> Bs t c = x_mid st ++ PB ->
    Forall (below (pos_of_upper (peer_bound be))) (x_mid st) -> length (x_mid st) < fuel ->
    let '(o, x') := extract_step fuel efuel p (fstate t c be None) DNext in
    let '(o', st') := ext_next p st in
    o = o' /\ x_post st' = x_post st /\
    exists t' c', okx t0 t' /\ wf t' c' /\ VP t' c' = x_pre st' /\ Bs t' c' = x_mid st' ++ PB /\
      Forall (below (pos_of_upper (peer_bound be))) (x_mid st') /\
      match o with
      | Some _ => x' = RangeMut.mk_xstate (fstate t' c' be None) false /\ c_pos c' <> None
      | None => x' = extract_close (RangeMut.mk_xstate (fstate t' c' be None) false) /\ x_mid st' = []
      end.
  Proof.
    intros HPB. induction fuel as [|f IH]; intros t c st Hx Hwf HVP HBs Hmid Hlen; [lia|].
    cbn [RangeMut.extract_step]. unfold RangeMut.range_peek.
    pose proof (settle_front t0 be PB t c st Hx Hwf HVP HBs Hmid HPB) as Hs.
    destruct (settle' efuel (fstate t c be None) DNext) as [b r].
    destruct Hs as (t1 & c1 & Hx1 & Hwf1 & HVP1 & HBs1 & [(-> & -> & e & rest & Em & Ecur & Hent)|(-> & -> & Em)]).
    - cbn [RangeMut.live_cursor RangeMut.end_of fstate RangeMut.rg_front RangeMut.rg_tree]. rewrite Ecur. destruct e as [k v].
      destruct (ScanP.entry_exists leaves t1 c1 Hent) as (j & i & e' & Epos & En & Ecur'). rewrite Ecur in Ecur'. inversion Ecur'; subst e'.
      unfold ext_next. rewrite Em. cbn [take_while drop_while fst snd].
      destruct (p k v) eqn:Ep; cbn [negb].
      + fold (fstate t1 c1 be (Some DNext)).
        assert (Erm : range_remove efuel (fstate t1 c1 be (Some DNext)) DNext =
                      (current_entry leaves t1 c1 DNext, fstate t1 (cursor_remove c1 DNext true) be None)) by reflexivity.
        rewrite Erm, Ecur. split; [reflexivity|]. cbn [x_post]. split; [reflexivity|].
        exists t1, (cursor_remove c1 DNext true).
        destruct (ScanP.remove_ok leaves has_parent more_children t1 c1 j i (k, v) true Hwf1 Epos En) as (R1 & R2 & R3).
        cbn [x_pre x_mid x_post]. rewrite app_nil_r.
        split; [exact Hx1|]. split; [exact R1|]. split; [now rewrite R2|].
        split; [rewrite HBs1, Em in R3; cbn [app] in R3; now inversion R3|].
        split; [rewrite Em in Hmid; now inversion Hmid|]. split; [reflexivity|].
        unfold cursor_remove. rewrite Epos. cbn. discriminate.
      + fold (fstate t1 c1 be (Some DNext)).
        assert (Ead : range_advance efuel (fstate t1 c1 be (Some DNext)) DNext = fstate t1 (cursor_move c1 DNext) be None) by reflexivity.
        rewrite Ead.
        destruct (ScanP.move_ok leaves has_parent more_children t1 c1 j i (k, v) Hwf1 Epos En) as (M1 & M2 & M3).
        set (st2 := mk_ext (x_pre st ++ [(k, v)]) rest (x_post st)).
        specialize (IH t1 (cursor_move c1 DNext) st2 Hx1 M1).
        unfold st2 in IH. cbn [x_pre x_mid x_post] in IH.
        specialize (IH ltac:(now rewrite M2, HVP1) ltac:(rewrite HBs1, Em in M3; cbn [app] in M3; now inversion M3)
                      ltac:(rewrite Em in Hmid; now inversion Hmid) ltac:(rewrite Em in Hlen; cbn in Hlen; lia)).
        destruct (extract_step f efuel p (fstate t1 (cursor_move c1 DNext) be None) DNext) as [o x'].
        unfold ext_next in IH. cbn [x_pre x_mid x_post] in IH.
        destruct (drop_while (fun e : K * V => negb (p (fst e) (snd e))) rest) as [|e2 r2] eqn:Ed;
          rewrite <- app_assoc in IH; cbn [app] in IH; exact IH.
    - unfold ext_next. rewrite Em. cbn [take_while drop_while]. split; [reflexivity|]. cbn [x_post x_pre x_mid]. split; [reflexivity|].
      exists t1, c1. rewrite app_nil_r. rewrite Em in HBs1.
      split; [exact Hx1|]. split; [exact Hwf1|]. split; [exact HVP1|]. split; [exact HBs1|]. split; [constructor|]. split; reflexivity.
  Qed.

  Lemma settle_back t0 fe PF t c (st : @ext_state K V) : okx t0 t -> wfb t c -> VPb t c = x_post st -> Bsb t c = PF ++ x_mid st ->
    Forall (above (pos_of_lower (peer_bound fe))) (x_mid st) -> Forall (below (pos_of_lower (peer_bound fe))) PF ->
    let '(b, r) := settle' efuel (bstate t fe c None) DPrev in
    exists t1 c1, okx t0 t1 /\ wfb t1 c1 /\ VPb t1 c1 = x_post st /\ Bsb t1 c1 = PF ++ x_mid st /\
      ((b = true /\ r = bstate t1 fe c1 (Some DPrev) /\ exists m e, x_mid st = m ++ [e] /\ current_entry leaves t1 c1 DPrev = Some e /\ ScanBackP.entry_atb t1 c1) \/
       (b = false /\ r = bstate t1 fe c1 None /\ x_mid st = [])).
  Proof.
    intros Hx Hwf HVP HBs Hmid HPF.
    unfold RangeMut.settle', bstate. cbn [RangeMut.rg_settled RangeMut.activate RangeMut.end_of RangeMut.rg_front RangeMut.rg_tree RangeMut.rg_back RangeMut.set_end RangeMut.set_tree].
    pose proof (E_ensureb t0 efuel t c efuel_ok Hx Hwf) as He.
    destruct (ensure_has_entry efuel t c DPrev) as [[b t1] c1]. destruct He as (E1 & E2 & E3 & E4 & E5 & E6).
    rewrite <- E3 in HVP. rewrite <- E4 in HBs.
    destruct b.
    - destruct (ScanBackP.entry_existsb leaves has_parent more_children t1 c1 E2 (E5 eq_refl)) as (j & i & e & Epos & En & Ecur). rewrite Ecur.
      fold (bstate t1 fe c1 None).
      destruct (ScanBackP.move_okb leaves has_parent more_children t1 c1 j i e E2 Epos En) as (_ & _ & M3). rewrite HBs in M3.
      pose proof (in_range_back t1 fe c1 None e) as Hir.
      destruct (snoc_cases' (x_mid st)) as [Em|(m & e' & Em)].
      + rewrite Em, app_nil_r in M3.
        assert (Hb : below (pos_of_lower (peer_bound fe)) e).
        { rewrite M3 in HPF. apply Forall_app in HPF as [_ H]. now inversion H. }
        destruct (RangeMut.entry_in_range cmp (bstate t1 fe c1 None) DPrev (fst e)) eqn:Er.
        * exfalso. apply (below_above_disj (pos_of_lower (peer_bound fe)) e); [exact Hb|now apply Hir].
        * exists t1, c1. split; [exact E1|]. split; [exact E2|]. split; [exact HVP|]. split; [exact HBs|]. right. auto.
      + rewrite Em, app_assoc in M3. apply app_inj_tail in M3 as [_ ->].
        rewrite Em in Hmid. apply Forall_app in Hmid as [_ Ha]. inversion Ha as [|? ? Ha' _]; subst.
        apply Hir in Ha'. rewrite Ha'.
        exists t1, c1. split; [exact E1|]. split; [exact E2|]. split; [exact HVP|]. split; [exact HBs|]. left.
        split; [reflexivity|]. split; [reflexivity|]. exists m, e. split; [exact Em|]. split; [exact Ecur|apply E5; reflexivity].
    - exists t1, c1. split; [exact E1|]. split; [exact E2|]. split; [exact HVP|]. split; [exact HBs|]. right.
      split; [reflexivity|]. split; [reflexivity|]. specialize (E6 eq_refl). rewrite E4 in HBs. rewrite HBs in E6. apply app_eq_nil in E6. tauto.
  Qed.

  Lemma live_back t0 fe PF : Forall (below (pos_of_lower (peer_bound fe))) PF ->
    forall fuel t c (st : @ext_state K V), okx t0 t -> wfb t c -> VPb t c = x_post st -> Bsb t c = PF ++ x_mid st ->
    Forall (above (pos_of_lower (peer_bound fe))) (x_mid st) -> length (x_mid st) < fuel ->
    let '(o, x') := extract_step fuel efuel p (bstate t fe c None) DPrev in
    let '(o', st') := ext_next_back p st in
    o = o' /\ x_pre st' = x_pre st /\
    exists t' c', okx t0 t' /\ wfb t' c' /\ VPb t' c' = x_post st' /\ Bsb t' c' = PF ++ x_mid st' /\
      Forall (above (pos_of_lower (peer_bound fe))) (x_mid st') /\
      match o with
      | Some _ => x' = RangeMut.mk_xstate (bstate t' fe c' None) false /\ c_pos c' <> None
      | None => x' = extract_close (RangeMut.mk_xstate (bstate t' fe c' None) false) /\ x_mid st' = []
      end.
  Proof.
    intros HPF. induction fuel as [|f IH]; intros t c st Hx Hwf HVP HBs Hmid Hlen; [lia|].
    cbn [RangeMut.extract_step]. unfold RangeMut.range_peek.
    pose proof (settle_back t0 fe PF t c st Hx Hwf HVP HBs Hmid HPF) as Hs.
    destruct (settle' efuel (bstate t fe c None) DPrev) as [b r].
    destruct Hs as (t1 & c1 & Hx1 & Hwf1 & HVP1 & HBs1 & [(-> & -> & m & e & Em & Ecur & Hent)|(-> & -> & Em)]).
    - cbn [RangeMut.live_cursor RangeMut.end_of bstate RangeMut.rg_back RangeMut.rg_tree]. rewrite Ecur. destruct e as [k v].
      destruct (ScanBackP.entry_existsb leaves has_parent more_children t1 c1 Hwf1 Hent) as (j & i & e' & Epos & En & Ecur'). rewrite Ecur in Ecur'. inversion Ecur'; subst e'.
      unfold ext_next_back. rewrite Em, rev_app_distr. cbn [rev app take_while drop_while fst snd].
      destruct (p k v) eqn:Ep; cbn [negb].
      + fold (bstate t1 fe c1 (Some DPrev)).
        assert (Erm : range_remove efuel (bstate t1 fe c1 (Some DPrev)) DPrev =
                      (current_entry leaves t1 c1 DPrev, bstate t1 fe (cursor_remove c1 DPrev true) None)) by reflexivity.
        rewrite Erm, Ecur. split; [reflexivity|]. cbn [x_pre]. split; [reflexivity|].
        exists t1, (cursor_remove c1 DPrev true).
        destruct (ScanBackP.remove_okb leaves has_parent more_children t1 c1 j i (k, v) true Hwf1 Epos En) as (R1 & R2 & R3).
        cbn [x_pre x_mid x_post rev app]. rewrite rev_involutive.
        split; [exact Hx1|]. split; [exact R1|]. split; [now rewrite R2|].
        split; [rewrite HBs1, Em, app_assoc in R3; now apply app_inj_tail in R3 as [R3 _]|].
        split; [rewrite Em in Hmid; now apply Forall_app in Hmid as [Hm _]|]. split; [reflexivity|].
        unfold cursor_remove. rewrite Epos. cbn. discriminate.
      + fold (bstate t1 fe c1 (Some DPrev)).
        assert (Ead : range_advance efuel (bstate t1 fe c1 (Some DPrev)) DPrev = bstate t1 fe (cursor_move c1 DPrev) None) by reflexivity.
        rewrite Ead.
        destruct (ScanBackP.move_okb leaves has_parent more_children t1 c1 j i (k, v) Hwf1 Epos En) as (M1 & M2 & M3).
        set (st2 := mk_ext (x_pre st) m ((k, v) :: x_post st)).
        specialize (IH t1 (cursor_move c1 DPrev) st2 Hx1 M1).
        unfold st2 in IH. cbn [x_pre x_mid x_post] in IH.
        specialize (IH ltac:(now rewrite M2, HVP1) ltac:(rewrite HBs1, Em, app_assoc in M3; now apply app_inj_tail in M3 as [M3 _])
                      ltac:(rewrite Em in Hmid; now apply Forall_app in Hmid as [Hm _])
                      ltac:(rewrite Em, app_length in Hlen; cbn in Hlen; lia)).
        destruct (extract_step f efuel p (bstate t1 fe (cursor_move c1 DPrev) None) DPrev) as [o x'].
        unfold ext_next_back in IH. cbn [x_pre x_mid x_post] in IH.
        destruct (drop_while (fun e : K * V => negb (p (fst e) (snd e))) (rev m)) as [|e2 r2] eqn:Ed;
          cbn [rev]; rewrite <- app_assoc; cbn [app]; exact IH.
    - unfold ext_next_back. rewrite Em. cbn [rev take_while drop_while app]. split; [reflexivity|]. cbn [x_post x_pre x_mid]. split; [reflexivity|].
      exists t1, c1. rewrite Em in HBs1.
      split; [exact Hx1|]. split; [exact Hwf1|]. split; [exact HVP1|]. split; [exact HBs1|]. split; [constructor|]. split; reflexivity.
  Qed.
  End Steps.


  (* ---------------------------------------------------------------- the invariant of the whole range *)
  Definition FrontD (s : Prop) (t : T) (fe : end_state) (PF Rest xp : list (K * V)) : Prop :=
    match fe with
    | ELive c => wf t c /\ VP t c = xp /\ Bs t c = Rest /\ (s -> c_pos c <> None)
    | _ => frontNL s fe PF Rest xp
    end.
  Definition BackD (s : Prop) (t : T) (be : end_state) (Front PB xq : list (K * V)) : Prop :=
    match be with
    | ELive c => wfb t c /\ VPb t c = xq /\ Bsb t c = Front /\ (s -> c_pos c <> None)
    | _ => backNL s be Front PB xq
    end.
  Definition Inv (s : Prop) (t : T) (fe be : end_state) (st : @ext_state K V) : Prop :=
    ok t /\ exists PF PB, contents t = PF ++ x_mid st ++ PB /\
      FrontD s t fe PF (x_mid st ++ PB) (x_pre st) /\ BackD s t be (PF ++ x_mid st) PB (x_post st) /\
      (nonlive fe \/ nonlive be).

  Lemma phys_front t c : wf t c -> exists PF, contents t = PF ++ Bs t c.
  Proof.
    unfold ScanP.wf, ScanP.Bs. destruct (c_pos c) as [[j i]|].
    - intros (Hj & _). exists (pre t j ++ firstn i (leaf_at t j)). rewrite (ScanP.view leaves t j Hj).
      rewrite <- !app_assoc. f_equal. rewrite app_assoc, firstn_skipn. reflexivity.
    - intros _. exists (contents t). now rewrite app_nil_r.
  Qed.
  Lemma phys_back t c : wfb t c -> exists PB, contents t = Bsb t c ++ PB.
  Proof.
    unfold ScanBackP.wfb, ScanBackP.Bsb. destruct (c_pos c) as [[j i]|].
    - intros (Hj & _). exists (skipn i (leaf_at t j) ++ post t j). rewrite (ScanP.view leaves t j Hj).
      rewrite <- !app_assoc. f_equal. rewrite app_assoc, firstn_skipn. reflexivity.
    - intros _. exists (contents t). reflexivity.
  Qed.

  Lemma frontNL_split fe PF Rest xp : frontNL True fe PF Rest xp -> splitL (peer_bound fe) PF Rest.
  Proof. destruct fe as [b|b sn ix|c]; cbn; [intros [_ H]; auto|intros (A & i & _ & _ & _ & _ & _ & H & _); exact H|contradiction]. Qed.
  Lemma backNL_split be F PB xq : backNL True be F PB xq -> splitU (peer_bound be) F PB.
  Proof. destruct be as [b|b sn ix|c]; cbn; [intros [_ H]; auto|intros (A & i & _ & _ & _ & _ & _ & H & _); exact H|contradiction]. Qed.
  Lemma frontNL_nonlive s fe PF Rest xp : frontNL s fe PF Rest xp -> nonlive fe.
  Proof. destruct fe; cbn; auto. Qed.
  Lemma backNL_nonlive s be F PB xq : backNL s be F PB xq -> nonlive be.
  Proof. destruct be; cbn; auto. Qed.
  Lemma parked_nonlive t c d : nonlive (parked_of t c d).
  Proof. unfold parked_of. destruct (c_removed c); [exact I|]. destruct (c_pos c) as [[j i]|]; exact I. Qed.

  (* parking the peer (if it is live) *)
  Lemma park_peer_back (s : Prop) t fe be Front PB xq : ok t -> contents t = Front ++ PB -> BackD s t be Front PB xq ->
    exists t' be1 PB1, park (RangeMut.mk_rstate t fe be None) DPrev = RangeMut.mk_rstate t' fe be1 None /\ okx t t' /\
      contents t' = Front ++ PB1 /\ backNL s be1 Front PB1 xq /\ (nonlive be -> be1 = be).
  Proof.
    intros Hok Hc HB. destruct be as [b|b sn ix|c].
    - exists t, (EParked b), PB. split; [reflexivity|]. split; [now apply okx_refl|]. auto.
    - exists t, (EPending b sn ix), PB. split; [reflexivity|]. split; [now apply okx_refl|]. auto.
    - destruct HB as (Hwf & HV & HBs & Hs).
      destruct (park_back s t t c Front xq (okx_refl t Hok) Hwf Hs HV HBs) as (P1 & PB1 & P2 & P3).
      exists (fst (splice_open t c)), (parked_of t c DPrev), PB1. split; [|split; [exact P1|split; [exact P2|split; [exact P3|intros []]]]].
      unfold RangeMut.park, parked_of. cbn [RangeMut.set_settled RangeMut.end_of RangeMut.rg_back RangeMut.rg_tree RangeMut.rg_front RangeMut.rg_settled].
      destruct (splice_open t c) as [t' c']. reflexivity.
  Qed.
  Lemma park_peer_front (s : Prop) t fe be PF Rest xp : ok t -> contents t = PF ++ Rest -> FrontD s t fe PF Rest xp ->
    exists t' fe1 PF1, park (RangeMut.mk_rstate t fe be None) DNext = RangeMut.mk_rstate t' fe1 be None /\ okx t t' /\
      contents t' = PF1 ++ Rest /\ frontNL s fe1 PF1 Rest xp /\ (nonlive fe -> fe1 = fe).
  Proof.
    intros Hok Hc HB. destruct fe as [b|b sn ix|c].
    - exists t, (EParked b), PF. split; [reflexivity|]. split; [now apply okx_refl|]. auto.
    - exists t, (EPending b sn ix), PF. split; [reflexivity|]. split; [now apply okx_refl|]. auto.
    - destruct HB as (Hwf & HV & HBs & Hs).
      destruct (park_front s t t c Rest xp (okx_refl t Hok) Hwf Hs HV HBs) as (P1 & PF1 & P2 & P3).
      exists (fst (splice_open t c)), (parked_of t c DNext), PF1. split; [|split; [exact P1|split; [exact P2|split; [exact P3|intros []]]]].
      unfold RangeMut.park, parked_of. cbn [RangeMut.set_settled RangeMut.end_of RangeMut.rg_back RangeMut.rg_tree RangeMut.rg_front RangeMut.rg_settled].
      destruct (splice_open t c) as [t' c']. reflexivity.
  Qed.

  (* activate: the peer is parked, the own end reseeks (re-attaching or resolving its batch) *)
  Lemma act_front (s : Prop) t fe be (M xp xq PF PB : list (K * V)) : ok t -> contents t = PF ++ M ++ PB ->
    frontNL True fe PF (M ++ PB) xp -> BackD s t be (PF ++ M) PB xq ->
    exists t1 c1 be1 PF1 PB1, activate (RangeMut.mk_rstate t fe be None) DNext = RangeMut.mk_rstate t1 (ELive c1) be1 None /\ okx t t1 /\
      wf t1 c1 /\ VP t1 c1 = xp /\ Bs t1 c1 = M ++ PB1 /\ (c_pos c1 = None -> M ++ PB1 = []) /\
      contents t1 = PF1 ++ M ++ PB1 /\ backNL s be1 (PF1 ++ M) PB1 xq /\ (nonlive be -> be1 = be).
  Proof.
    intros Hok Hc HF HB. destruct (ok_leaves t Hok) as [_ Hsorted].
    pose proof (activate_unfold (RangeMut.mk_rstate t fe be None) DNext) as HU. cbn [RangeMut.end_of RangeMut.rg_front dir_opposite] in HU.
    destruct (park_peer_back s t fe be (PF ++ M) PB xq Hok ltac:(now rewrite <- app_assoc) HB) as (t' & be1 & PB1 & P1 & P2 & P3 & P4 & P5).
    rewrite P1 in HU.
    assert (HF' : frontNL True fe PF (M ++ PB1) xp).
    { apply (frontNL_rest True fe PF (M ++ PB)); [|exact HF]. intros P HP.
      apply (shrink_right P PF (M ++ PB) (M ++ PB1)); [now rewrite <- Hc| |exact HP].
      destruct P2 as [_ P2]. rewrite P3, Hc, <- !app_assoc in P2. exact P2. }
    destruct (own_front t t' fe be1 PF (M ++ PB1) xp P2 ltac:(now rewrite P3, <- app_assoc) HF')
      as (t1 & c1 & O1 & O2 & O3 & O4 & O5 & O6 & PF1 & O7 & O8).
    exists t1, c1, be1, PF1, PB1.
    assert (HUe : activate (RangeMut.mk_rstate t fe be None) DNext = RangeMut.mk_rstate t1 (ELive c1) be1 None).
    { destruct fe as [b|b sn ix|c]; [| |destruct HF]; rewrite HU; exact O1. }
    split; [exact HUe|]. split; [exact O2|]. split; [exact O3|]. split; [exact O4|]. split; [exact O5|]. split; [exact O6|].
    split; [exact O7|]. split; [|exact P5]. apply (backNL_front s be1 (PF ++ M)); [|exact P4].
    intros P HP. apply Forall_app in HP as [H1 H2]. apply Forall_app. split; [eapply Subseq_Forall; eauto|exact H2].
  Qed.

  Lemma act_back (s : Prop) t fe be (M xp xq PF PB : list (K * V)) : ok t -> contents t = PF ++ M ++ PB ->
    backNL True be (PF ++ M) PB xq -> FrontD s t fe PF (M ++ PB) xp ->
    exists t1 c1 fe1 PF1 PB1, activate (RangeMut.mk_rstate t fe be None) DPrev = RangeMut.mk_rstate t1 fe1 (ELive c1) None /\ okx t t1 /\
      wfb t1 c1 /\ VPb t1 c1 = xq /\ Bsb t1 c1 = PF1 ++ M /\ (c_pos c1 = None -> PF1 ++ M = []) /\
      contents t1 = PF1 ++ M ++ PB1 /\ frontNL s fe1 PF1 (M ++ PB1) xp /\ (nonlive fe -> fe1 = fe).
  Proof.
    intros Hok Hc HB HF. destruct (ok_leaves t Hok) as [_ Hsorted].
    pose proof (activate_unfold (RangeMut.mk_rstate t fe be None) DPrev) as HU. cbn [RangeMut.end_of RangeMut.rg_back dir_opposite] in HU.
    destruct (park_peer_front s t fe be PF (M ++ PB) xp Hok Hc HF) as (t' & fe1 & PF1 & P1 & P2 & P3 & P4 & P5).
    rewrite P1 in HU.
    assert (HB' : backNL True be (PF1 ++ M) PB xq).
    { apply (backNL_front True be (PF ++ M)); [|exact HB]. intros P HP.
      apply (shrink_left P (PF ++ M) (PF1 ++ M) PB); [now rewrite <- app_assoc, <- Hc| |exact HP].
      destruct P2 as [_ P2]. rewrite P3, Hc in P2. rewrite <- !app_assoc. exact P2. }
    destruct (own_back t t' fe1 be (PF1 ++ M) PB xq P2 ltac:(now rewrite P3, <- app_assoc) HB')
      as (t1 & c1 & O1 & O2 & O3 & O4 & O5 & O6 & PB1 & O7 & O8).
    exists t1, c1, fe1, PF1, PB1.
    assert (HUe : activate (RangeMut.mk_rstate t fe be None) DPrev = RangeMut.mk_rstate t1 fe1 (ELive c1) None).
    { destruct be as [b|b sn ix|c]; [| |destruct HB]; rewrite HU; exact O1. }
    split; [exact HUe|]. split; [exact O2|]. split; [exact O3|]. split; [exact O4|]. split; [exact O5|]. split; [exact O6|].
    split; [now rewrite O7, <- app_assoc|]. split; [|exact P5]. apply (frontNL_rest s fe1 PF1 (M ++ PB)); [|exact P4].
    intros P HP. apply Forall_app in HP as [H1 H2]. apply Forall_app. split; [exact H1|eapply Subseq_Forall; eauto].
  Qed.


  Lemma BackD_nl s t be F PB xq : nonlive be -> BackD s t be F PB xq = backNL s be F PB xq.
  Proof. destruct be; cbn; [reflexivity|reflexivity|contradiction]. Qed.
  Lemma FrontD_nl s t fe PF Rest xp : nonlive fe -> FrontD s t fe PF Rest xp = frontNL s fe PF Rest xp.
  Proof. destruct fe; cbn; [reflexivity|reflexivity|contradiction]. Qed.

  Section Calls.
  Variables (p : K -> V -> bool) (efuel : nat).
  Hypothesis efuel_ok : 2 <= efuel.

  Lemma step_activate f st d c : RangeMut.rg_settled st = None -> RangeMut.end_of (activate st d) d = ELive c ->
    RangeMut.rg_settled (activate st d) = None ->
    extract_step (S f) efuel p st d = extract_step (S f) efuel p (activate st d) d.
  Proof.
    intros H1 H2 H3. cbn [RangeMut.extract_step]. unfold RangeMut.range_peek.
    assert (E : settle' efuel st d = settle' efuel (activate st d) d).
    { unfold RangeMut.settle'. rewrite H1, H3.
      assert (Ea : activate (activate st d) d = activate st d) by (unfold RangeMut.activate at 1; now rewrite H2).
      now rewrite Ea. }
    now rewrite E.
  Qed.

  (* one call of next() *)
  Lemma call_front fuel t fe be (st : @ext_state K V) : Inv True t fe be st -> length (contents t) < fuel ->
    let '(o, x') := extract_step fuel efuel p (RangeMut.mk_rstate t fe be None) DNext in
    let '(o', st') := ext_next p st in
    o = o' /\ exists t' fe' be',
      match o with
      | Some _ => x' = RangeMut.mk_xstate (RangeMut.mk_rstate t' fe' be' None) false /\ Inv True t' fe' be' st'
      | None => x' = extract_close (RangeMut.mk_xstate (RangeMut.mk_rstate t' fe' be' None) false) /\ Inv False t' fe' be' st' /\ x_mid st' = []
      end.
  Proof.
    intros (Hok & PF & PB & Hc & HF & HB & Hnl) Hfuel.
    assert (Hlive : exists t1 c1 be1 PF1 PB1,
              extract_step fuel efuel p (RangeMut.mk_rstate t fe be None) DNext = extract_step fuel efuel p (fstate t1 c1 be1 None) DNext /\
              ok t1 /\ wf t1 c1 /\ VP t1 c1 = x_pre st /\ Bs t1 c1 = x_mid st ++ PB1 /\ contents t1 = PF1 ++ x_mid st ++ PB1 /\
              backNL True be1 (PF1 ++ x_mid st) PB1 (x_post st)).
    { destruct fe as [b|b sn ix|c].
      - destruct (act_front True t (EParked b) be (x_mid st) (x_pre st) (x_post st) PF PB Hok Hc HF HB)
          as (t1 & c1 & be1 & PF1 & PB1 & A1 & A2 & A3 & A4 & A5 & A6 & A7 & A8 & _).
        exists t1, c1, be1, PF1, PB1. destruct fuel as [|f]; [lia|].
        rewrite (step_activate f (RangeMut.mk_rstate t (EParked b) be None) DNext c1 eq_refl ltac:(now rewrite A1) ltac:(now rewrite A1)). rewrite A1.
        destruct A2 as [A2 _]. repeat split; auto.
      - destruct (act_front True t (EPending b sn ix) be (x_mid st) (x_pre st) (x_post st) PF PB Hok Hc HF HB)
          as (t1 & c1 & be1 & PF1 & PB1 & A1 & A2 & A3 & A4 & A5 & A6 & A7 & A8 & _).
        exists t1, c1, be1, PF1, PB1. destruct fuel as [|f]; [lia|].
        rewrite (step_activate f (RangeMut.mk_rstate t (EPending b sn ix) be None) DNext c1 eq_refl ltac:(now rewrite A1) ltac:(now rewrite A1)). rewrite A1.
        destruct A2 as [A2 _]. repeat split; auto.
      - destruct HF as (F1 & F2 & F3 & _). destruct Hnl as [[]|Hnl]. rewrite (BackD_nl _ _ _ _ _ _ Hnl) in HB.
        exists t, c, be, PF, PB. repeat split; auto. }
    destruct Hlive as (t1 & c1 & be1 & PF1 & PB1 & Eq & Hok1 & W1 & W2 & W3 & W4 & W5). rewrite Eq.
    destruct (backNL_split _ _ _ _ W5) as [Sb Sa]. apply Forall_app in Sb as [_ Sm].
    destruct (ok_leaves t1 Hok1) as [_ Hsorted1].
    assert (Hlen : length (x_mid st) < fuel) by (rewrite Hc, !app_length in Hfuel; lia).
    pose proof (live_front p efuel efuel_ok t1 be1 PB1 Sa fuel t1 c1 st (okx_refl t1 Hok1) W1 W2 W3 Sm Hlen) as HL.
    destruct (extract_step fuel efuel p (fstate t1 c1 be1 None) DNext) as [o x'].
    destruct (ext_next p st) as [o' st'].
    destruct HL as (Eo & Epost & t' & c' & [L1 L1s] & L2 & L3 & L4 & L5 & Lm).
    split; [exact Eo|]. exists t', (ELive c'), be1.
    destruct (phys_front t' c' L2) as [PF' Hc']. rewrite L4 in Hc'.
    assert (HB' : backNL True be1 (PF' ++ x_mid st') PB1 (x_post st')).
    { rewrite Epost. apply (backNL_front True be1 (PF1 ++ x_mid st)); [|exact W5]. intros P HP.
      apply (shrink_left P (PF1 ++ x_mid st) (PF' ++ x_mid st') PB1); [now rewrite <- app_assoc, <- W4| |exact HP].
      rewrite <- !app_assoc, <- Hc', <- W4. exact L1s. }
    pose proof (backNL_nonlive _ _ _ _ _ HB') as Hnl1.
    destruct o as [e|].
    - destruct Lm as [-> Lp]. split; [reflexivity|]. split; [exact L1|]. exists PF', PB1. split; [exact Hc'|].
      split; [cbn; auto|]. split; [|right; exact Hnl1]. rewrite (BackD_nl _ _ _ _ _ _ Hnl1). exact HB'.
    - destruct Lm as [-> Lp]. split; [reflexivity|]. split; [|exact Lp]. split; [exact L1|]. exists PF', PB1. split; [exact Hc'|].
      split; [cbn; repeat split; auto; intros []|]. split; [|right; exact Hnl1]. rewrite (BackD_nl _ _ _ _ _ _ Hnl1).
      apply backNL_weaken. exact HB'.
  Qed.

  (* one call of next_back() *)
  Lemma call_back fuel t fe be (st : @ext_state K V) : Inv True t fe be st -> length (contents t) < fuel ->
    let '(o, x') := extract_step fuel efuel p (RangeMut.mk_rstate t fe be None) DPrev in
    let '(o', st') := ext_next_back p st in
    o = o' /\ exists t' fe' be',
      match o with
      | Some _ => x' = RangeMut.mk_xstate (RangeMut.mk_rstate t' fe' be' None) false /\ Inv True t' fe' be' st'
      | None => x' = extract_close (RangeMut.mk_xstate (RangeMut.mk_rstate t' fe' be' None) false) /\ Inv False t' fe' be' st' /\ x_mid st' = []
      end.
  Proof.
    intros (Hok & PF & PB & Hc & HF & HB & Hnl) Hfuel.
    assert (Hlive : exists t1 c1 fe1 PF1 PB1,
              extract_step fuel efuel p (RangeMut.mk_rstate t fe be None) DPrev = extract_step fuel efuel p (bstate t1 fe1 c1 None) DPrev /\
              ok t1 /\ wfb t1 c1 /\ VPb t1 c1 = x_post st /\ Bsb t1 c1 = PF1 ++ x_mid st /\ contents t1 = PF1 ++ x_mid st ++ PB1 /\
              frontNL True fe1 PF1 (x_mid st ++ PB1) (x_pre st)).
    { destruct be as [b|b sn ix|c].
      - destruct (act_back True t fe (EParked b) (x_mid st) (x_pre st) (x_post st) PF PB Hok Hc HB HF)
          as (t1 & c1 & fe1 & PF1 & PB1 & A1 & A2 & A3 & A4 & A5 & A6 & A7 & A8 & _).
        exists t1, c1, fe1, PF1, PB1. destruct fuel as [|f]; [lia|].
        rewrite (step_activate f (RangeMut.mk_rstate t fe (EParked b) None) DPrev c1 eq_refl ltac:(now rewrite A1) ltac:(now rewrite A1)). rewrite A1.
        destruct A2 as [A2 _]. repeat split; auto.
      - destruct (act_back True t fe (EPending b sn ix) (x_mid st) (x_pre st) (x_post st) PF PB Hok Hc HB HF)
          as (t1 & c1 & fe1 & PF1 & PB1 & A1 & A2 & A3 & A4 & A5 & A6 & A7 & A8 & _).
        exists t1, c1, fe1, PF1, PB1. destruct fuel as [|f]; [lia|].
        rewrite (step_activate f (RangeMut.mk_rstate t fe (EPending b sn ix) None) DPrev c1 eq_refl ltac:(now rewrite A1) ltac:(now rewrite A1)). rewrite A1.
        destruct A2 as [A2 _]. repeat split; auto.
      - destruct HB as (F1 & F2 & F3 & _). destruct Hnl as [Hnl|[]]. rewrite (FrontD_nl _ _ _ _ _ _ Hnl) in HF.
        exists t, c, fe, PF, PB. repeat split; auto. }
    destruct Hlive as (t1 & c1 & fe1 & PF1 & PB1 & Eq & Hok1 & W1 & W2 & W3 & W4 & W5). rewrite Eq.
    destruct (frontNL_split _ _ _ _ W5) as [Sb Sa]. apply Forall_app in Sa as [Sm _].
    destruct (ok_leaves t1 Hok1) as [_ Hsorted1].
    assert (Hlen : length (x_mid st) < fuel) by (rewrite Hc, !app_length in Hfuel; lia).
    pose proof (live_back p efuel efuel_ok t1 fe1 PF1 Sb fuel t1 c1 st (okx_refl t1 Hok1) W1 W2 W3 Sm Hlen) as HL.
    destruct (extract_step fuel efuel p (bstate t1 fe1 c1 None) DPrev) as [o x'].
    destruct (ext_next_back p st) as [o' st'].
    destruct HL as (Eo & Epre & t' & c' & [L1 L1s] & L2 & L3 & L4 & L5 & Lm).
    split; [exact Eo|]. exists t', fe1, (ELive c').
    destruct (phys_back t' c' L2) as [PB' Hc']. rewrite L4, <- app_assoc in Hc'.
    assert (HF' : frontNL True fe1 PF1 (x_mid st' ++ PB') (x_pre st')).
    { rewrite Epre. apply (frontNL_rest True fe1 PF1 (x_mid st ++ PB1)); [|exact W5]. intros P HP.
      apply (shrink_right P PF1 (x_mid st ++ PB1) (x_mid st' ++ PB')); [now rewrite <- W4| |exact HP].
      rewrite <- Hc', <- W4. exact L1s. }
    pose proof (frontNL_nonlive _ _ _ _ _ HF') as Hnl1.
    destruct o as [e|].
    - destruct Lm as [-> Lp]. split; [reflexivity|]. split; [exact L1|]. exists PF1, PB'. split; [exact Hc'|].
      split; [rewrite (FrontD_nl _ _ _ _ _ _ Hnl1); exact HF'|]. split; [cbn; auto|left; exact Hnl1].
    - destruct Lm as [-> Lp]. split; [reflexivity|]. split; [|exact Lp]. split; [exact L1|]. exists PF1, PB'. split; [exact Hc'|].
      split; [rewrite (FrontD_nl _ _ _ _ _ _ Hnl1); apply frontNL_weaken; exact HF'|]. split; [cbn; repeat split; auto; intros []|left; exact Hnl1].
  Qed.
  End Calls.


  (* ---------------------------------------------------------------- close: flush_end of both ends *)
  Lemma finish_clean t c : (c_pos c = None -> c_removed c = []) -> c_removed (snd (finish_pending t c)) = [].
  Proof.
    assert (Hso : forall t0 c0, c_removed (snd (splice_open t0 c0)) = c_removed c0).
    { intros t0 c0. unfold Scan.splice_open. destruct (c_run c0) as [[d r]|]; reflexivity. }
    intros H. unfold Scan.finish_pending.
    destruct (c_pos c) as [[j i]|] eqn:Epos.
    - destruct (c_removed c) as [|x R] eqn:ER.
      + rewrite Hso. exact ER.
      + unfold Scan.close_current_leaf. rewrite Epos, ER. cbn zeta.
        repeat match goal with |- context [if ?b then _ else _] => destruct b end.
        * cbv beta iota zeta. rewrite Hso. reflexivity.
        * cbv beta iota zeta. rewrite Hso. reflexivity.
        * match goal with |- context [splice_open t ?cc] => pose proof (Hso t cc) as H1; destruct (splice_open t cc) as [t' c'] end.
          cbv beta iota zeta. cbn [snd c_removed] in H1. rewrite Hso. exact H1.
    - rewrite Hso. now apply H.
  Qed.

  Definition fl_body (st : rstate) (d : direction) (c : cstate) : rstate :=
    let '(t', c') := finish_pending (RangeMut.rg_tree st) c in
    park (RangeMut.set_end (RangeMut.set_tree st t') d (ELive c')) d.

  Lemma flush_end_unfold st d :
    flush_end st d = match RangeMut.end_of st d with
                     | ELive c => fl_body st d c
                     | EPending _ _ _ => match RangeMut.end_of (activate st d) d with
                                         | ELive c => fl_body (activate st d) d c
                                         | _ => activate st d
                                         end
                     | EParked _ => st
                     end.
  Proof. unfold RangeMut.flush_end, fl_body. destruct (RangeMut.end_of st d); reflexivity. Qed.

  Lemma finish_front_live t0 t c be xp Rest : okx t0 t -> wf t c -> VP t c = xp -> Bs t c = Rest ->
    exists t' b, fl_body (RangeMut.mk_rstate t (ELive c) be None) DNext c = RangeMut.mk_rstate t' (EParked b) be None /\
      okx t0 t' /\ contents t' = xp ++ Rest.
  Proof.
    intros Hx Hwf HV HB. unfold fl_body. cbn [RangeMut.rg_tree].
    pose proof (E_finish t0 t c Hx Hwf) as Hf.
    pose proof (ScanP.finish_norun leaves flush splice has_parent more_children underfilling packs t c) as Hn.
    assert (Hcl : c_removed (snd (finish_pending t c)) = []).
    { apply finish_clean. unfold ScanP.wf in Hwf. destruct (c_pos c) as [[j i]|]; [discriminate|tauto]. }
    destruct (finish_pending t c) as [t' c']. destruct Hf as [F1 F2]. cbn [snd] in Hn, Hcl.
    cbn [RangeMut.set_end RangeMut.set_tree RangeMut.rg_tree RangeMut.rg_front RangeMut.rg_back RangeMut.rg_settled].
    unfold RangeMut.park. cbn [RangeMut.set_settled RangeMut.end_of RangeMut.rg_front RangeMut.rg_tree RangeMut.rg_back RangeMut.rg_settled].
    unfold Scan.splice_open. rewrite Hn, Hcl.
    cbn [RangeMut.set_end RangeMut.set_tree RangeMut.rg_tree RangeMut.rg_front RangeMut.rg_back RangeMut.rg_settled].
    eexists t', _. split; [reflexivity|]. split; [exact F1|]. now rewrite F2, HV, HB.
  Qed.
  Lemma finish_back_live t0 t c fe xq Front : okx t0 t -> wfb t c -> VPb t c = xq -> Bsb t c = Front ->
    exists t' b, fl_body (RangeMut.mk_rstate t fe (ELive c) None) DPrev c = RangeMut.mk_rstate t' fe (EParked b) None /\
      okx t0 t' /\ contents t' = Front ++ xq.
  Proof.
    intros Hx Hwf HV HB. unfold fl_body. cbn [RangeMut.rg_tree].
    pose proof (E_finishb t0 t c Hx Hwf) as Hf.
    pose proof (ScanP.finish_norun leaves flush splice has_parent more_children underfilling packs t c) as Hn.
    assert (Hcl : c_removed (snd (finish_pending t c)) = []).
    { apply finish_clean. unfold ScanBackP.wfb in Hwf. destruct (c_pos c) as [[j i]|]; [discriminate|tauto]. }
    destruct (finish_pending t c) as [t' c']. destruct Hf as [F1 F2]. cbn [snd] in Hn, Hcl.
    cbn [RangeMut.set_end RangeMut.set_tree RangeMut.rg_tree RangeMut.rg_front RangeMut.rg_back RangeMut.rg_settled].
    unfold RangeMut.park. cbn [RangeMut.set_settled RangeMut.end_of RangeMut.rg_front RangeMut.rg_tree RangeMut.rg_back RangeMut.rg_settled].
    unfold Scan.splice_open. rewrite Hn, Hcl.
    cbn [RangeMut.set_end RangeMut.set_tree RangeMut.rg_tree RangeMut.rg_front RangeMut.rg_back RangeMut.rg_settled].
    eexists t', _. split; [reflexivity|]. split; [exact F1|]. now rewrite F2, HV, HB.
  Qed.

  Lemma flush_front_inv t fe be (st : @ext_state K V) : Inv False t fe be st ->
    exists t' b be', flush_end (RangeMut.mk_rstate t fe be None) DNext = RangeMut.mk_rstate t' (EParked b) be' None /\
      Inv False t' (EParked b) be' st.
  Proof.
    intros (Hok & PF & PB & Hc & HF & HB & Hnl). rewrite flush_end_unfold. cbn [RangeMut.end_of RangeMut.rg_front].
    assert (Hfin : forall t1 c1 be1 PF1 PB1, ok t1 -> wf t1 c1 -> VP t1 c1 = x_pre st -> Bs t1 c1 = x_mid st ++ PB1 ->
              contents t1 = PF1 ++ x_mid st ++ PB1 -> backNL False be1 (PF1 ++ x_mid st) PB1 (x_post st) ->
              exists t' b, fl_body (RangeMut.mk_rstate t1 (ELive c1) be1 None) DNext c1 = RangeMut.mk_rstate t' (EParked b) be1 None /\
                Inv False t' (EParked b) be1 st).
    { intros t1 c1 be1 PF1 PB1 Hok1 W1 W2 W3 W4 W5. destruct (ok_leaves t1 Hok1) as [_ Hs1].
      destruct (finish_front_live t1 t1 c1 be1 _ _ (okx_refl t1 Hok1) W1 W2 W3) as (t' & b & E & [F1 F1s] & F2).
      exists t', b. split; [exact E|]. split; [exact F1|]. exists (x_pre st), PB1. split; [exact F2|].
      split; [cbn; split; [reflexivity|intros []]|]. split; [|left; exact I].
      pose proof (backNL_nonlive _ _ _ _ _ W5) as Hn1. rewrite (BackD_nl _ _ _ _ _ _ Hn1).
      apply (backNL_front False be1 (PF1 ++ x_mid st)); [|exact W5]. intros P HP.
      apply (shrink_left P (PF1 ++ x_mid st) (x_pre st ++ x_mid st) PB1); [now rewrite <- app_assoc, <- W4| |exact HP].
      rewrite <- !app_assoc, <- F2, <- W4. exact F1s. }
    destruct fe as [b|b sn ix|c].
    - exists t, b, be. split; [reflexivity|]. split; [exact Hok|]. exists PF, PB. auto.
    - destruct (act_front False t (EPending b sn ix) be (x_mid st) (x_pre st) (x_post st) PF PB Hok Hc HF HB)
        as (t1 & c1 & be1 & PF1 & PB1 & A1 & [A2 _] & A3 & A4 & A5 & A6 & A7 & A8 & _).
      rewrite A1. cbn [RangeMut.end_of RangeMut.rg_front].
      destruct (Hfin t1 c1 be1 PF1 PB1 A2 A3 A4 A5 A7 A8) as (t' & b' & E & HI). exists t', b', be1. auto.
    - destruct HF as (F1 & F2 & F3 & _). destruct Hnl as [[]|Hnl]. rewrite (BackD_nl _ _ _ _ _ _ Hnl) in HB.
      destruct (Hfin t c be PF PB Hok F1 F2 F3 Hc HB) as (t' & b' & E & HI). exists t', b', be. auto.
  Qed.

  Lemma flush_back_inv t b be (st : @ext_state K V) : Inv False t (EParked b) be st ->
    exists t' fe' b2, flush_end (RangeMut.mk_rstate t (EParked b) be None) DPrev = RangeMut.mk_rstate t' fe' (EParked b2) None /\
      ok t' /\ contents t' = ext_finish st.
  Proof.
    intros (Hok & PF & PB & Hc & HF & HB & Hnl). rewrite flush_end_unfold. cbn [RangeMut.end_of RangeMut.rg_back].
    assert (Hfin : forall t1 c1 PF1 PB1, ok t1 -> wfb t1 c1 -> VPb t1 c1 = x_post st -> Bsb t1 c1 = PF1 ++ x_mid st ->
              frontNL False (EParked b) PF1 (x_mid st ++ PB1) (x_pre st) ->
              exists t' b2, fl_body (RangeMut.mk_rstate t1 (EParked b) (ELive c1) None) DPrev c1 = RangeMut.mk_rstate t' (EParked b) (EParked b2) None /\
                ok t' /\ contents t' = ext_finish st).
    { intros t1 c1 PF1 PB1 Hok1 W1 W2 W3 [W5 _].
      destruct (finish_back_live t1 t1 c1 (EParked b) _ _ (okx_refl t1 Hok1) W1 W2 W3) as (t' & b2 & E & [F1 F1s] & F2).
      exists t', b2. split; [exact E|]. split; [exact F1|]. rewrite F2, W5. unfold ext_finish. now rewrite <- app_assoc. }
    cbn in HF. destruct be as [b2|b2 sn ix|c].
    - exists t, (EParked b), b2. split; [reflexivity|]. split; [exact Hok|]. cbn in HB. destruct HF as [-> _]. destruct HB as [-> _].
      exact Hc.
    - destruct (act_back False t (EParked b) (EPending b2 sn ix) (x_mid st) (x_pre st) (x_post st) PF PB Hok Hc HB HF)
        as (t1 & c1 & fe1 & PF1 & PB1 & A1 & [A2 _] & A3 & A4 & A5 & A6 & A7 & A8 & A9).
      rewrite (A9 I) in *. rewrite A1. cbn [RangeMut.end_of RangeMut.rg_back].
      destruct (Hfin t1 c1 PF1 PB1 A2 A3 A4 A5 A8) as (t' & b' & E & HI). exists t', (EParked b), b'. auto.
    - destruct HB as (F1 & F2 & F3 & _).
      destruct (Hfin t c PF PB Hok F1 F2 F3 HF) as (t' & b' & E & HI). exists t', (EParked b), b'. auto.
  Qed.

  Lemma close_inv t fe be (st : @ext_state K V) : Inv False t fe be st ->
    let x := extract_close (RangeMut.mk_xstate (RangeMut.mk_rstate t fe be None) false) in
    RangeMut.x_closed x = true /\ ok (RangeMut.rg_tree (RangeMut.x_range x)) /\ contents (RangeMut.rg_tree (RangeMut.x_range x)) = ext_finish st.
  Proof.
    intros HI. cbn zeta. unfold RangeMut.extract_close. cbn [RangeMut.x_closed RangeMut.x_range]. unfold RangeMut.range_close.
    destruct (flush_front_inv t fe be st HI) as (t1 & b & be1 & E1 & I1). rewrite E1.
    destruct (flush_back_inv t1 b be1 st I1) as (t2 & fe2 & b2 & E2 & O2 & C2). rewrite E2. cbn. auto.
  Qed.

  Lemma Inv_weaken t fe be (st : @ext_state K V) : Inv True t fe be st -> Inv False t fe be st.
  Proof.
    intros (Hok & PF & PB & Hc & HF & HB & Hnl). split; [exact Hok|]. exists PF, PB. split; [exact Hc|].
    split; [|split; [|exact Hnl]].
    - destruct fe; cbn in *; [destruct HF; auto|exact HF|destruct HF as (H1 & H2 & H3 & _); repeat split; auto; intros []].
    - destruct be; cbn in *; [destruct HB; auto|exact HB|destruct HB as (H1 & H2 & H3 & _); repeat split; auto; intros []].
  Qed.


  (* ---------------------------------------------------------------- any script of next() / next_back(), then drop *)
  Section Main.
  Variables (lo hi : bound K) (p : K -> V -> bool).
  Variable fuelf : T -> nat.
  Hypothesis fuelf_ok : forall t, length (contents t) < fuelf t.
  Variable efuel : nat.
  Hypothesis efuel_ok : 2 <= efuel.

  Definition relm (x : xstate) (st : @ext_state K V) : Prop :=
    (RangeMut.x_closed x = true /\ ok (RangeMut.rg_tree (RangeMut.x_range x)) /\
     contents (RangeMut.rg_tree (RangeMut.x_range x)) = ext_finish st /\ x_mid st = []) \/
    (exists t fe be, x = RangeMut.mk_xstate (RangeMut.mk_rstate t fe be None) false /\ Inv True t fe be st) \/
    (exists t, x = RangeMut.extract_new t lo hi /\ ok t /\ st = ext_begin cmp (contents t) lo hi).

  Lemma init_inv t : ok t -> x_mid (ext_begin cmp (contents t) lo hi) <> [] ->
    Inv True t (EParked lo) (EParked hi) (ext_begin cmp (contents t) lo hi).
  Proof.
    intros Hok Hne.
    pose proof (ScanP.init_live cmp laws leaves seek has_parent more_children ok seek_ok lo hi t Hok) as HL.
    pose proof (ScanBackP.init_liveb cmp laws leaves seek has_parent more_children underfilling packs ok ok_leaves seek_ok entry_eqb lo hi t Hok) as HLb.
    assert (Hfin : contents t = ext_finish (ext_begin cmp (contents t) lo hi)) by (symmetry; apply (ext_begin_finish cmp)).
    remember (ext_begin cmp (contents t) lo hi) as st eqn:Est.
    assert (Hnl : leaves t <> []).
    { intros EL. apply Hne. rewrite Est. unfold ScanP.contents. rewrite EL. reflexivity. }
    destruct HL as (_ & _ & HV & HBs & _). destruct HLb as (_ & _ & (G & HVb & HBb & HG) & _ & _).
    rewrite (HG Hne) in HVb, HBb. cbn [app] in HVb. rewrite app_nil_r in HBb.
    assert (Hroot : has_root leaves t = true) by (unfold has_root; destruct (leaves t); congruence).
    unfold ScanP.c_start, Scan.seek_to in HV, HBs. rewrite Hroot in HV, HBs.
    unfold ScanBackP.c_startb, Scan.seek_to in HVb, HBb. rewrite Hroot in HVb, HBb.
    pose proof (seek_ok t (pos_of_lower lo) Hok Hnl) as S1. destruct (seek t (pos_of_lower lo)) as [j i].
    destruct S1 as (Hj & Hi & Hb & Ha). destruct (clean_front t j i false Hj Hi) as (_ & W2 & W3).
    rewrite W2 in HV. rewrite W3 in HBs. rewrite HV in Hb. rewrite HBs in Ha.
    pose proof (seek_ok t (pos_of_upper hi) Hok Hnl) as S2. destruct (seek t (pos_of_upper hi)) as [j2 i2].
    destruct S2 as (Hj2 & Hi2 & Hb2 & Ha2). destruct (clean_back t j2 i2 false Hj2 Hi2) as (_ & W4 & W5).
    rewrite W4 in HBb. rewrite W5 in HVb. rewrite HBb in Hb2. rewrite HVb in Ha2.
    split; [exact Hok|]. exists (x_pre st), (x_post st). split; [exact Hfin|].
    split; [cbn; split; [reflexivity|intros _; split; assumption]|].
    split; [cbn; split; [reflexivity|intros _; split; assumption]|left; exact I].
  Qed.

  Lemma open_next (front : bool) t fe be st : Inv True t fe be st ->
    let '(o, x') := extract_step (fuelf t) efuel p (RangeMut.mk_rstate t fe be None) (if front then DNext else DPrev) in
    let '(o', st') := (if front then ext_next p st else ext_next_back p st) in o = o' /\ relm x' st'.
  Proof.
    intros HI. destruct front.
    - pose proof (call_front p efuel efuel_ok (fuelf t) t fe be st HI (fuelf_ok t)) as H.
      destruct (extract_step (fuelf t) efuel p (RangeMut.mk_rstate t fe be None) DNext) as [o x'].
      destruct (ext_next p st) as [o' st']. destruct H as (Eo & t' & fe' & be' & Hm). split; [exact Eo|].
      destruct o as [e|].
      + destruct Hm as [-> HI']. right. left. exists t', fe', be'. auto.
      + destruct Hm as (-> & HI' & Hmid). left. destruct (close_inv t' fe' be' st' HI') as (C1 & C2 & C3). auto.
    - pose proof (call_back p efuel efuel_ok (fuelf t) t fe be st HI (fuelf_ok t)) as H.
      destruct (extract_step (fuelf t) efuel p (RangeMut.mk_rstate t fe be None) DPrev) as [o x'].
      destruct (ext_next_back p st) as [o' st']. destruct H as (Eo & t' & fe' & be' & Hm). split; [exact Eo|].
      destruct o as [e|].
      + destruct Hm as [-> HI']. right. left. exists t', fe', be'. auto.
      + destruct Hm as (-> & HI' & Hmid). left. destruct (close_inv t' fe' be' st' HI') as (C1 & C2 & C3). auto.
  Qed.

  Lemma next_relm (front : bool) x st : relm x st ->
    let '(o, x') := extract_next (fuelf (RangeMut.rg_tree (RangeMut.x_range x))) efuel p x (if front then DNext else DPrev) in
    let '(o', st') := (if front then ext_next p st else ext_next_back p st) in o = o' /\ relm x' st'.
  Proof.
    intros [(Hc & Hok & Hcont & Hmid)|[(t & fe & be & -> & HI)|(t & -> & Hok & ->)]].
    - unfold RangeMut.extract_next. rewrite Hc. destruct front.
      + unfold ext_next. rewrite Hmid. cbn [take_while drop_while]. split; [reflexivity|]. left. cbn [x_mid]. repeat split; auto.
        rewrite Hcont. unfold ext_finish. cbn [x_pre x_mid x_post]. now rewrite Hmid, app_nil_r.
      + unfold ext_next_back. rewrite Hmid. cbn [rev take_while drop_while app]. split; [reflexivity|]. left. cbn [x_mid]. repeat split; auto.
        rewrite Hcont. unfold ext_finish. cbn [x_pre x_mid x_post]. now rewrite Hmid.
    - unfold RangeMut.extract_next. cbn [RangeMut.x_closed RangeMut.x_range RangeMut.rg_tree]. now apply open_next.
    - destruct (x_mid (ext_begin cmp (contents t) lo hi)) as [|m0 mr] eqn:Em.
      + (* empty window (possibly reversed bounds): the first call closes the iterator; the one-ended lemmas apply *)
        unfold RangeMut.extract_next, RangeMut.extract_new. cbn [RangeMut.x_closed RangeMut.x_range RangeMut.rg_tree RangeMut.range_new].
        assert (Hlen : length (x_mid (ext_begin cmp (contents t) lo hi)) < fuelf t) by (rewrite Em; cbn; pose proof (fuelf_ok t); lia).
        destruct front.
        * pose proof (ScanP.init_live cmp laws leaves seek has_parent more_children ok seek_ok lo hi t Hok) as Hl.
          pose proof (ScanP.step_fwd cmp laws leaves seek flush splice has_parent more_children underfilling packs ok ok_leaves seek_ok
                        flush_ok splice_ok more_next has_parent_const entry_eqb hi p efuel efuel_ok (fuelf t) t _ _ Hl Hlen) as H.
          destruct (fuelf t) as [|f] eqn:Ef; [lia|].
          change (RangeMut.mk_rstate t (EParked lo) (EParked hi) None) with (@RangeMut.range_new K V T t lo hi).
          rewrite (ScanP.init_step cmp leaves seek flush splice has_parent more_children underfilling packs entry_eqb lo hi p f efuel t).
          destruct (extract_step (S f) efuel p (ScanP.live_state hi t (ScanP.c_start leaves seek lo t) None) DNext) as [o x'].
          unfold ext_next in *. rewrite Em in *. cbn [take_while drop_while] in *. destruct H as [E H]. subst o.
          split; [reflexivity|]. left. exact H.
        * pose proof (ScanBackP.init_liveb cmp laws leaves seek has_parent more_children underfilling packs ok ok_leaves seek_ok entry_eqb lo hi t Hok) as Hl.
          pose proof (ScanBackP.step_bwd cmp laws leaves seek flush splice has_parent more_children underfilling packs ok ok_leaves seek_ok
                        flush_ok splice_ok more_prev has_parent_const entry_eqb lo p efuel efuel_ok (fuelf t) t _ _ Hl Hlen) as H.
          destruct (fuelf t) as [|f] eqn:Ef; [lia|].
          change (RangeMut.mk_rstate t (EParked lo) (EParked hi) None) with (@RangeMut.range_new K V T t lo hi).
          rewrite (ScanBackP.init_stepb cmp leaves seek flush splice has_parent more_children underfilling packs entry_eqb lo hi p f efuel t).
          destruct (extract_step (S f) efuel p (ScanBackP.live_stateb lo t (ScanBackP.c_startb leaves seek hi t) None) DPrev) as [o x'].
          unfold ext_next_back in *. rewrite Em in *. cbn [rev take_while drop_while app] in *. destruct H as [E H]. subst o.
          split; [reflexivity|]. left. exact H.
      + unfold RangeMut.extract_next. cbn [RangeMut.x_closed RangeMut.x_range RangeMut.rg_tree RangeMut.extract_new RangeMut.range_new].
        apply open_next. apply init_inv; [exact Hok|]. rewrite Em. discriminate.
  Qed.

  Lemma tree_relm x st : relm x st -> ok (extract_tree x) /\ contents (extract_tree x) = ext_finish st.
  Proof.
    intros [(Hc & Hok & Hcont & _)|[(t & fe & be & -> & HI)|(t & -> & Hok & ->)]].
    - unfold RangeMut.extract_tree, RangeMut.extract_close. rewrite Hc. auto.
    - unfold RangeMut.extract_tree. destruct (close_inv t fe be st (Inv_weaken _ _ _ _ HI)) as (_ & C2 & C3). auto.
    - unfold RangeMut.extract_tree, RangeMut.extract_close, RangeMut.extract_new. cbn [RangeMut.x_closed RangeMut.x_range].
      unfold RangeMut.range_close, RangeMut.flush_end, RangeMut.range_new. cbn [RangeMut.end_of RangeMut.rg_front RangeMut.rg_back RangeMut.rg_tree].
      split; [exact Hok|]. symmetry. apply ext_begin_finish.
  Qed.

  (* THE THEOREM: any script of next() (true) / next_back() (false) calls, then the iterator is dropped *)
  Theorem extract_mixed_ok t (script : list bool) : ok t ->
    let '(os, x) := ScanBackP.xrun cmp leaves seek flush splice has_parent more_children underfilling packs entry_eqb p fuelf efuel
                      script (RangeMut.extract_new t lo hi) in
    let '(os', st) := ext_run p script (ext_begin cmp (contents t) lo hi) in
    os = os' /\ ok (extract_tree x) /\ contents (extract_tree x) = ext_finish st.
  Proof.
    intros Hok.
    assert (H : forall sc x st, relm x st ->
              let '(os, x') := ScanBackP.xrun cmp leaves seek flush splice has_parent more_children underfilling packs entry_eqb p fuelf efuel sc x in
              let '(os', st') := ext_run p sc st in os = os' /\ relm x' st').
    { clear t Hok. induction sc as [|front sc IH]; intros x st Hr.
      - cbn. split; [reflexivity|exact Hr].
      - cbn [ScanBackP.xrun ext_run]. pose proof (next_relm front x st Hr) as Hn.
        destruct (extract_next (fuelf (RangeMut.rg_tree (RangeMut.x_range x))) efuel p x (if front then DNext else DPrev)) as [o x1].
        destruct (if front then ext_next p st else ext_next_back p st) as [o' st1]. destruct Hn as [E Hr1]. subst o'.
        specialize (IH x1 st1 Hr1).
        destruct (ScanBackP.xrun cmp leaves seek flush splice has_parent more_children underfilling packs entry_eqb p fuelf efuel sc x1) as [os x2].
        destruct (ext_run p sc st1) as [os' st2]. destruct IH as [E2 Hr2]. subst os'. split; [reflexivity|exact Hr2]. }
    specialize (H script (RangeMut.extract_new t lo hi) (ext_begin cmp (contents t) lo hi)
                  (or_intror (or_intror (ex_intro _ t (conj eq_refl (conj Hok eq_refl)))))).
    destruct (ScanBackP.xrun cmp leaves seek flush splice has_parent more_children underfilling packs entry_eqb p fuelf efuel script (RangeMut.extract_new t lo hi)) as [os x].
    destruct (ext_run p script (ext_begin cmp (contents t) lo hi)) as [os' st]. destruct H as [E Hr]. split; [exact E|]. now apply tree_relm.
  Qed.
  End Main.

End ScanMixP.
