(* Read path of the redb B-tree on the logical tree -- definitions only.
   LeafAccessor::position and BranchAccessor::child_for_key are the same binary search
   (min inclusive, max exclusive-as-"past the end", midpoint = floor((min+max)/2),
    Less -> max = mid, Equal -> return mid, Greater -> min = mid + 1).
   Descents carry a fuel argument like Btree::get_helper's `for _ in 0..MAX_BTREE_DEPTH`. *)
From Coq Require Import List NArith Bool Arith.
From RV Require Import Base.SortedMap Btree.Tree.
Import ListNotations.

Section Read.
  Context {K V : Type}.
  Variable cmp : K -> K -> comparison.
  Notation node := (@node K V).

  Fixpoint bsearch (fuel : nat) (keys : list K) (q : K) (lo hi : nat) : nat * bool :=
    match fuel with
    | O => (lo, false)
    | S f =>
        if Nat.ltb lo hi then
          let mid := Nat.div2 (lo + hi) in
          match nth_error keys mid with
          | None => (lo, false)
          | Some key =>
              match cmp q key with
              | Lt => bsearch f keys q lo mid
              | Eq => (mid, true)
              | Gt => bsearch f keys q (S mid) hi
              end
          end
        else (lo, false)
    end.

  (* LeafAccessor::position : (index, found) *)
  Definition position (es : list (K * V)) (q : K) : nat * bool :=
    bsearch (S (length es)) (List.map fst es) q 0 (length es).

  (* BranchAccessor::child_for_key : index of the child to descend into *)
  Definition child_for_key (rest : list (K * node)) (q : K) : nat :=
    fst (bsearch (S (length rest)) (seps rest) q 0 (length rest)).

  Definition nth_child (c0 : node) (rest : list (K * node)) (i : nat) : node :=
    nth i (children c0 rest) c0.

  Definition leaf_get (es : list (K * V)) (q : K) : option V :=
    let '(i, found) := position es q in
    if found then option_map snd (nth_error es i) else None.

  Fixpoint get_sub (fuel : nat) (t : node) (q : K) : option V :=
    match t with
    | Leaf es => leaf_get es q
    | Branch c0 rest =>
        match fuel with
        | O => None
        | S f => get_sub f (nth_child c0 rest (child_for_key rest q)) q
        end
    end.

  Fixpoint first_sub (fuel : nat) (t : node) : option (K * V) :=
    match t with
    | Leaf es => hd_error es
    | Branch c0 rest => match fuel with O => None | S f => first_sub f c0 end
    end.

  Fixpoint last_sub (fuel : nat) (t : node) : option (K * V) :=
    match t with
    | Leaf es => last_opt es
    | Branch c0 rest =>
        match fuel with O => None | S f => last_sub f (nth_child c0 rest (length rest)) end
    end.

  (* Range scan: the front cursor seeks to the lower bound and the back cursor to the upper bound
     (Cursor::seek_to descends with child_for_key); only the children between the two are visited.
     The cursor stack / normalize_forward_gap machinery of btree_cursor_range.rs is abstracted to
     this pruned in-order traversal. *)
  Definition lo_child (rest : list (K * node)) (lo : bound K) : nat :=
    match lo with Unbounded => O | Included k | Excluded k => child_for_key rest k end.
  Definition hi_child (rest : list (K * node)) (hi : bound K) : nat :=
    match hi with Unbounded => length rest | Included k | Excluded k => child_for_key rest k end.

  Fixpoint range_sub (fuel : nat) (t : node) (lo hi : bound K) : list (K * V) :=
    match t with
    | Leaf es => filter (fun e => in_range cmp lo hi (fst e)) es
    | Branch c0 rest =>
        match fuel with
        | O => []
        | S f =>
            let i := lo_child rest lo in
            let j := hi_child rest hi in
            flat_map (fun c => range_sub f c lo hi) (firstn (S j - i) (skipn i (children c0 rest)))
        end
    end.

  (* table level *)
  Definition fuel_of (t : node) : nat := S (height t).

  Definition tget (bt : btree) (q : K) : option V :=
    match bt_root bt with None => None | Some t => get_sub (fuel_of t) t q end.
  Definition tfirst (bt : @btree K V) : option (K * V) :=
    match bt_root bt with None => None | Some t => first_sub (fuel_of t) t end.
  Definition tlast (bt : @btree K V) : option (K * V) :=
    match bt_root bt with None => None | Some t => last_sub (fuel_of t) t end.
  Definition trange (bt : @btree K V) (lo hi : bound K) : list (K * V) :=
    match bt_root bt with
    | None => []
    | Some t => if bounds_empty cmp lo hi then [] else range_sub (fuel_of t) t lo hi
    end.
  Definition tlen (bt : @btree K V) : N := bt_len bt.

  Definition query (bt : @btree K V) (q : SortedMap.query) : SortedMap.out :=
    match q with
    | QGet k => OVal (tget bt k)
    | QRange lo hi => OList (trange bt lo hi)
    | QRangeRev lo hi => OList (rev (trange bt lo hi))
    | QFirst => OEntry (tfirst bt)
    | QLast => OEntry (tlast bt)
    | QLen => ONum (tlen bt)
    end.

End Read.
