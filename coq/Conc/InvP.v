(* Conc/InvP.v -- id discipline, publication order, readers (proofs) *)
From Coq Require Import List NArith Bool String Lia Sorted PeanoNat.
From RV Require Import Conc.Sched Conc.SchedP Conc.Programs Conc.ProgramsP.
Import ListNotations.
Open Scope N_scope.

(* ---------------------------------------------------------------- phase classes *)
Definition unpublished (p : N) : bool :=
  (p =? ph_open) || (p =? ph_horizon) || (p =? ph_reclaimed) || (p =? ph_nhorizon) || (p =? ph_nreclaimed).
Definition epi_published (p : N) : bool := p =? ph_epublished.
Definition epi_reserved (p : N) : bool := (p =? ph_ereserved) || (p =? ph_eregistered).

(* transaction ids: the published id never runs ahead of the id counter, except between the epilogue's
   publication and its T.reserve_id, where it is exactly one ahead and the slot is held *)
Definition ids_ok (s : st) : Prop :=
  match writers s with
  | [] => fst (latest s) <= next_id s
  | (_, w) :: _ =>
    let p := w_phase w in
    if unpublished p then fst (latest s) < w_id w /\ w_id w = next_id s
    else if epi_published p then fst (latest s) = w_id w + 1 /\ w_id w = next_id s
    else if epi_reserved p then fst (latest s) = w_id w + 1 /\ next_id s = w_id w + 1
    else fst (latest s) = w_id w /\ w_id w = next_id s
  end.

Definition desc (l : list N) : Prop := StronglySorted N.gt l.

(* hist is the list of publications, newest first, ids strictly decreasing, head = the published header *)
Definition hist_ok (s : st) : Prop :=
  (exists tl, hist s = latest s :: tl) /\ desc (map fst (hist s)).

Definition inv2 (s : st) : Prop := slot_inv s /\ ids_ok s /\ hist_ok s.

Lemma writer_of : forall t s w, slot_inv s -> my_writer t s = Some w -> writers s = [(tkey t, w)].
Proof. intros. apply my_writer_single; assumption. Qed.

Lemma put_writer_writers : forall t s w w', writers s = [(tkey t, w)] ->
  writers (put_writer t w' s) = [(tkey t, w')].
Proof. intros. unfold put_writer, set_writers, aset; simpl. rewrite H. simpl. rewrite N.eqb_refl. reflexivity. Qed.

Lemma desc_cons : forall x l, desc l -> (forall y, In y l -> x > y) -> desc (x :: l).
Proof. intros. constructor; [assumption|]. apply Forall_forall. assumption. Qed.

Lemma desc_head_max : forall x l y, desc (x :: l) -> In y l -> x > y.
Proof. intros x l y H Hin. inversion H; subst. rewrite Forall_forall in H3. auto. Qed.

Lemma hist_publish : forall s id p src d,
  hist_ok s -> id > fst (latest s) -> hist_ok (publish s id p src d).
Proof.
  intros s id p src d [[tl Hh] Hd] Hgt. split.
  - simpl. eexists; reflexivity.
  - simpl. rewrite Hh in *. simpl in *. apply desc_cons; [assumption|].
    intros y [Hy|Hy]; [subst; assumption|].
    pose proof (desc_head_max _ _ _ Hd Hy). lia.
Qed.

Lemma hist_frame : forall s s', hist s' = hist s -> latest s' = latest s -> hist_ok s -> hist_ok s'.
Proof. unfold hist_ok. intros s s' H1 H2. rewrite H1, H2. auto. Qed.

Lemma add_entry_frame2 : forall w s,
  latest (add_entry w s) = latest s /\ hist (add_entry w s) = hist s /\ next_id (add_entry w s) = next_id s.
Proof. intros. unfold add_entry. destruct (w_tag w); repeat split; reflexivity. Qed.

Ltac phase_facts :=
  repeat match goal with
  | H : (w_phase ?w =? ?c) = true |- _ => apply N.eqb_eq in H
  | H : (_ || _) = true |- _ => apply orb_true_iff in H
  end.

(* one tactic for all the steps of a writer: reduce ids_ok before/after to arithmetic *)
Ltac ids_writer t s w Hi :=
  let Hw := fresh "Hw" in
  pose proof (writer_of t s w ltac:(assumption) ltac:(assumption)) as Hw;
  unfold ids_ok in *; rewrite Hw in *.

Ltac split_phases := repeat (phase_facts; repeat match goal with H : _ \/ _ |- _ => destruct H end).
Ltac unfold_state :=
  unfold put_writer, set_writers, set_readers, set_live_reads, set_sps, set_flags, set_next_tag, add_entry,
         reclaim_durable, reclaim_nd, publish, set_pages, set_tracker, wphase, wset in *.
Ltac phases_compute :=
  cbv [unpublished epi_published epi_reserved ph_open ph_horizon ph_reclaimed ph_published ph_cleared ph_ehorizon
       ph_ereclaimed ph_epublished ph_ereserved ph_eregistered ph_nhorizon ph_nreclaimed ph_npublished ph_nregistered] in *.

Ltac writer_ids t s w :=
  let Hw := fresh "Hw" in
  pose proof (writer_of t s w ltac:(assumption) ltac:(assumption)) as Hw;
  unfold ids_ok in *; unfold_state; simpl in *;
  repeat match goal with |- context [match w_tag ?w0 with _ => _ end] => destruct (w_tag w0) end;
  simpl in *; rewrite ?Hw in *; simpl in *; rewrite ?N.eqb_refl in *; simpl in *;
  repeat match goal with H : w_phase ?w0 = _ |- _ => rewrite H in * end;
  phases_compute; simpl in *; try lia.

Lemma exec_inv2 : forall t c x s s' k, inv2 s -> exec t c x s = Some (s', k) -> inv2 s'.
Proof.
  intros t c x s s' k (Hs & Hi & Hh) H.
  split; [eapply exec_slot_inv; eauto|].
  destruct x; exec_inv H; phase_facts.
  all: try (split; [ | eapply hist_frame; [| |exact Hh]; reflexivity ]).
  all: try assumption.
  all: try (unfold ids_ok in *; simpl; assumption).
  all: try match goal with
           | Hm : my_writer ?t0 ?s0 = Some ?w |- ids_ok _ => solve [writer_ids t0 s0 w]
           end.
  all: try match goal with
           | Hm : my_writer ?t0 ?s0 = Some ?w |- ids_ok _ /\ hist_ok (put_writer _ _ (add_entry _ _)) =>
             split; [ solve [writer_ids t0 s0 w]
                    | eapply hist_frame; [| |exact Hh]; [apply add_entry_frame2|apply add_entry_frame2] ]
           end.
  all: try match goal with
           | Hm : my_writer ?t0 ?s0 = Some ?w |- ids_ok _ /\ hist_ok (put_writer _ _ (publish ?s1 ?id ?p ?src ?d)) =>
             split; [ solve [writer_ids t0 s0 w]
                    | eapply (hist_frame (publish s1 id p src d)); [reflexivity|reflexivity|];
                      apply hist_publish; [exact Hh|]; writer_ids t0 s0 w ]
           end.
  - (* T.start_write *)
    unfold slot_inv in Hs. rewrite E in Hs. unfold ids_ok in *. unfold_state. simpl. rewrite Hs in *. simpl.
    phases_compute. simpl. lia.
  - (* M.get_data_root of begin_write: the handle's registers change, phase and id do not *)
    pose proof (writer_of t s w Hs E) as Hw. unfold ids_ok in *. unfold_state. simpl. rewrite Hw in *. simpl.
    rewrite ?N.eqb_refl. simpl. exact Hi.
  - split_phases; writer_ids t s w.
  - split_phases; writer_ids t s w.
  - split_phases; writer_ids t s w.
Qed.

Lemma enter_inv2 : forall t c s, inv2 s -> inv2 (enter t c s).
Proof.
  intros t c s (Hs & Hi & Hh). split; [apply enter_slot_inv; assumption|].
  destruct c; simpl; try (split; assumption).
  destruct (my_writer t s) as [w|] eqn:Hm; [|split; assumption].
  split; [|eapply hist_frame; [| |exact Hh]; reflexivity].
  pose proof (writer_of t s w Hs Hm) as Hw. unfold ids_ok in *. unfold_state. simpl. rewrite Hw in *. simpl.
  rewrite ?N.eqb_refl. simpl. exact Hi.
Qed.

Lemma init_inv2 : inv2 init.
Proof.
  split; [reflexivity|]. split; [unfold ids_ok; simpl; lia|].
  split; [eexists; reflexivity|]. simpl. repeat constructor.
Qed.

Lemma inv2_reachable : forall sched progs, inv2 (final sched progs).
Proof.
  intros. unfold final, prun.
  apply (run_inv st call step string res steps_of name_of exec enter result inv2 exec_inv2 enter_inv2).
  exact init_inv2.
Qed.

(* ================================================================ publications are monotone *)
Definition grows (s s' : st) : Prop :=
  fst (latest s) <= fst (latest s') /\ exists pre, hist s' = pre ++ hist s.

Lemma grows_refl : forall s, grows s s.
Proof. intros. split; [lia|exists []; reflexivity]. Qed.

Lemma grows_trans : forall a b c, grows a b -> grows b c -> grows a c.
Proof.
  intros a b c [H1 [p1 E1]] [H2 [p2 E2]]. split; [lia|]. exists (p2 ++ p1). rewrite E2, E1, app_assoc. reflexivity.
Qed.

Lemma grows_frame : forall s s', latest s' = latest s -> hist s' = hist s -> grows s s'.
Proof. intros s s' H1 H2. split; [rewrite H1; lia|exists []; rewrite H2; reflexivity]. Qed.

Lemma grows_publish : forall s s1 id p src d, latest s1 = latest (publish s id p src d) ->
  hist s1 = hist (publish s id p src d) -> id > fst (latest s) -> grows s s1.
Proof.
  intros s s1 id p src d H1 H2 Hgt. split; [rewrite H1; simpl; lia|]. exists [(id, p)]. rewrite H2. reflexivity.
Qed.

Lemma exec_grows : forall t c x s s' k, inv2 s -> exec t c x s = Some (s', k) -> grows s s'.
Proof.
  intros t c x s s' k (Hs & Hi & Hh) H.
  destruct x; exec_inv H; phase_facts.
  all: try (apply grows_refl).
  all: try (apply grows_frame; reflexivity).
  all: try (apply grows_frame; apply add_entry_frame2).
  all: try match goal with
           | Hm : my_writer ?t0 ?s0 = Some ?w |- grows _ (put_writer _ _ (publish ?s1 ?id ?p ?src ?d)) =>
             eapply (grows_publish s1 _ id p src d); [reflexivity|reflexivity|]; writer_ids t0 s0 w
           end.
Qed.

Lemma enter_grows : forall t c s, grows s (enter t c s).
Proof.
  intros. destruct c; simpl; try apply grows_refl.
  destruct (my_writer t s); [apply grows_frame; reflexivity|apply grows_refl].
Qed.

(* the state reached by a schedule, and by any extension of it *)
Lemma final_app_grows : forall a b progs, grows (final a progs) (final (a ++ b) progs).
Proof.
  intros. unfold final, prun.
  rewrite (run_app st call step string res steps_of name_of exec enter result a b).
  destruct (Sched.run st call step string res steps_of name_of exec enter result a (pstart progs) init)
    as [[p1 s1] e1] eqn:Ea.
  pose proof (inv2_reachable a progs) as Hinv. unfold final, prun in Hinv. rewrite Ea in Hinv. simpl in Hinv.
  pose proof (run_mono st call step string res steps_of name_of exec enter result grows grows_refl grows_trans inv2
               (fun t c x s s' k Hi H => conj (exec_inv2 t c x s s' k Hi H) (exec_grows t c x s s' k Hi H))
               (fun t c s Hi => conj (enter_inv2 t c s Hi) (enter_grows t c s)) b p1 s1 Hinv) as [_ Hg].
  destruct (Sched.run st call step string res steps_of name_of exec enter result b p1 s1) as [[p2 s2] e2].
  simpl in *. exact Hg.
Qed.

(* publish_monotone: the id of the published header never decreases, and publications are never retracted;
   the list of publications is strictly ordered by id (one serial order) and its head is what readers get *)
Theorem publish_monotone : forall a b progs,
  fst (latest (final a progs)) <= fst (latest (final (a ++ b) progs)) /\
  exists pre, hist (final (a ++ b) progs) = pre ++ hist (final a progs).
Proof. intros. apply final_app_grows. Qed.

Theorem publications_serial : forall sched progs,
  let s := final sched progs in
  (exists tl, hist s = latest s :: tl) /\ StronglySorted N.gt (map fst (hist s)).
Proof. intros. destruct (inv2_reachable sched progs) as (_ & _ & H). exact H. Qed.

(* the published id is bounded by the id counter: a new write transaction always gets a fresh, larger id *)
Theorem fresh_ids : forall sched progs,
  let s := final sched progs in fst (latest s) <= next_id s + 1 /\ (writers s = [] -> fst (latest s) <= next_id s).
Proof.
  intros. destruct (inv2_reachable sched progs) as (_ & Hi & _). fold s in Hi. unfold ids_ok in Hi.
  destruct (writers s) as [|[k w] r].
  - split; [lia|auto].
  - split; [|discriminate].
    destruct (unpublished (w_phase w)); [lia|]. destruct (epi_published (w_phase w)); [lia|].
    destruct (epi_reserved (w_phase w)); lia.
Qed.

(* ================================================================ readers *)
Definition reader_ok (s : st) (rs : rstate) : Prop :=
  r_reg rs <= fst (latest s) /\
  match r_root rs with
  | None => True
  | Some x => r_reg rs = fst x /\ nth_error (rev (hist s)) (pred (r_pubs rs)) = Some x /\ (0 < r_pubs rs)%nat
  end.
Definition readers_ok (s : st) : Prop := forall r rs, aget r (readers s) = Some rs -> reader_ok s rs.

Lemma reader_ok_grows : forall s s' rs, grows s s' -> reader_ok s rs -> reader_ok s' rs.
Proof.
  intros s s' rs [Hl [pre Hh]] [H1 H2]. split; [lia|].
  destruct (r_root rs) as [x|]; [|exact I]. destruct H2 as (Ha & Hb & Hc). repeat split; auto.
  rewrite Hh, rev_app_distr. rewrite nth_error_app1; [assumption|].
  apply nth_error_Some. congruence.
Qed.

Lemma readers_ok_frame : forall s s', readers s' = readers s -> grows s s' -> readers_ok s -> readers_ok s'.
Proof.
  intros s s' Hr Hg H r rs Hget. rewrite Hr in Hget. eapply reader_ok_grows; eauto.
Qed.

Definition inv3 (s : st) : Prop := inv2 s /\ readers_ok s.

Lemma exec_inv3 : forall t c x s s' k, inv3 s -> exec t c x s = Some (s', k) -> inv3 s'.
Proof.
  intros t c x s s' k [H2 Hr] H.
  pose proof (exec_inv2 _ _ _ _ _ _ H2 H) as H2'. pose proof (exec_grows _ _ _ _ _ _ H2 H) as Hg.
  split; [assumption|].
  destruct x; try (eapply readers_ok_frame; [|exact Hg|exact Hr]; exec_inv H; unfold_state; simpl;
                   repeat match goal with |- context [match w_tag ?w0 with _ => _ end] => destruct (w_tag w0) end;
                   reflexivity).
  - (* T.register_read *)
    exec_inv H. intros r' rs' Hget. unfold set_readers in Hget; cbn [readers] in Hget.
    destruct (N.eq_dec r' r) as [->|Hne].
    + rewrite aget_aset_same in Hget. inv Hget. split; simpl; [lia|exact I].
    + rewrite aget_aset_other in Hget by assumption. apply Hr in Hget. destruct Hget as [Ha Hb]. split; assumption.
  - (* M.get_data_root (begin_read): keeps the registration only when it is the id of the root *)
    exec_inv H.
    + intros r' rs' Hget. unfold set_readers in Hget; cbn [readers] in Hget.
      destruct (N.eq_dec r' r) as [->|Hne].
      * rewrite aget_aset_same in Hget. inv Hget.
        match goal with E : aget _ (readers _) = Some _ |- _ => apply Hr in E; destruct E as [Ha _] end.
        destruct H2 as (_ & _ & [[tl Hh] _]).
        match goal with E : (fst (latest _) =? _) = true |- _ => apply N.eqb_eq in E; rename E into Heq end.
        split; simpl; [assumption|]. repeat split; [symmetry; exact Heq| |rewrite Hh; simpl; lia].
        rewrite Hh. simpl. rewrite nth_error_app2; rewrite rev_length; [|lia]. rewrite PeanoNat.Nat.sub_diag. reflexivity.
      * rewrite aget_aset_other in Hget by assumption. apply Hr in Hget. assumption.
    + exact Hr.
  - (* T.dealloc_read *)
    exec_inv H. intros r' rs' Hget. unfold set_readers in Hget; cbn [readers] in Hget.
    destruct (N.eq_dec r' r) as [->|Hne].
    + rewrite aget_adel_same in Hget. discriminate.
    + rewrite aget_adel_other in Hget by assumption. apply Hr in Hget. assumption.
  - (* T.dealloc_read of a begin_read that registers again *)
    exec_inv H. intros r' rs' Hget. unfold set_readers in Hget; cbn [readers] in Hget.
    destruct (N.eq_dec r' r) as [->|Hne].
    + rewrite aget_adel_same in Hget. discriminate.
    + rewrite aget_adel_other in Hget by assumption. apply Hr in Hget. assumption.
Qed.

Lemma enter_inv3 : forall t c s, inv3 s -> inv3 (enter t c s).
Proof.
  intros t c s [H2 Hr]. split; [apply enter_inv2; assumption|].
  eapply readers_ok_frame; [|apply enter_grows|exact Hr].
  destruct c; simpl; try reflexivity. destruct (my_writer t s); reflexivity.
Qed.

Lemma inv3_reachable : forall sched progs, inv3 (final sched progs).
Proof.
  intros. unfold final, prun.
  apply (run_inv st call step string res steps_of name_of exec enter result inv3 exec_inv3 enter_inv3).
  split; [exact init_inv2|]. intros r rs H. discriminate.
Qed.

(* reader_id_le_root: the id a reader registered (its pin) is never newer than the root it then reads *)
Theorem reader_id_eq_root : forall sched progs r rs v p,
  aget r (readers (final sched progs)) = Some rs -> r_root rs = Some (v, p) -> r_reg rs = v.
Proof.
  intros sched progs r rs v p Hget Hroot. destruct (inv3_reachable sched progs) as [_ Hr].
  apply Hr in Hget. destruct Hget as [_ H]. rewrite Hroot in H. apply H.
Qed.

Theorem reader_id_le_root : forall sched progs r rs v p,
  aget r (readers (final sched progs)) = Some rs -> r_root rs = Some (v, p) -> r_reg rs <= v.
Proof. intros. rewrite (reader_id_eq_root sched progs r rs v p H H0). lia. Qed.

(* linearizable_by_publication: what a reader sees is exactly the k-th publication, k = the number of
   publications that had happened at its M.get_data_root step; it is never anything else afterwards
   (the list of publications only grows at the head), and Observe returns that publication's payload *)
Theorem linearizable_by_publication : forall sched progs r rs x,
  let s := final sched progs in
  aget r (readers s) = Some rs -> r_root rs = Some x ->
  nth_error (rev (hist s)) (pred (r_pubs rs)) = Some x /\ In x (hist s) /\
  (forall t, result t (Observe r) s = RTag (snd x)).
Proof.
  intros sched progs r rs x s Hget Hroot. destruct (inv3_reachable sched progs) as [_ Hr]. fold s in Hr.
  pose proof (Hr _ _ Hget) as [_ H]. rewrite Hroot in H. destruct H as (_ & Hn & _).
  split; [assumption|]. split.
  - apply in_rev. eapply nth_error_In; eauto.
  - intros t. simpl. rewrite Hget. destruct rs as [rg rt rp]. simpl in *. subst rt. destruct x; reflexivity.
Qed.

(* ================================================================ no uncommitted / aborted data visible *)
(* payload tags: every published payload is older than the tag counter; a live writer's start root is a
   publication; while a writer has not published, its own tag is not the payload of any publication *)
Definition writer_tags_ok (s : st) (w : wstate) : Prop :=
  In (w_root w) (hist s) /\
  forall c, w_tag w = Some c -> c < next_tag s /\ (unpublished (w_phase w) = true -> forall x, In x (hist s) -> snd x <> c).
Definition tags_ok (s : st) : Prop :=
  (forall x, In x (hist s) -> snd x < next_tag s) /\
  (forall k w, In (k, w) (writers s) -> writer_tags_ok s w).
Definition inv4 (s : st) : Prop := inv2 s /\ tags_ok s.

Lemma in_hist_latest : forall s, hist_ok s -> In (latest s) (hist s).
Proof. intros s [[tl H] _]. rewrite H. left. reflexivity. Qed.

Lemma tags_frame : forall s s', hist s' = hist s -> next_tag s' = next_tag s -> writers s' = writers s ->
  tags_ok s -> tags_ok s'.
Proof.
  intros s s' H1 H2 H3 [Ha Hb]. split.
  - intros x Hx. rewrite H1 in Hx. rewrite H2. auto.
  - intros k w Hin. rewrite H3 in Hin. destruct (Hb k w Hin) as [Hr Ht]. split.
    + rewrite H1. assumption.
    + intros c Hc. destruct (Ht c Hc). rewrite H1, H2. auto.
Qed.

(* a step of the slot holder that replaces its handle by w' (same tag or an explicit new one) *)
Lemma tags_put : forall t s s1 w w',
  slot_inv s -> my_writer t s = Some w -> writers s1 = writers s ->
  (forall x, In x (hist s1) -> snd x < next_tag s1) ->
  writer_tags_ok s1 w' -> 
  tags_ok (put_writer t w' s1).
Proof.
  intros t s s1 w w' Hs Hm Hw Ha Hb. pose proof (writer_of t s w Hs Hm) as Hws. split.
  - exact Ha.
  - intros k w0 Hin. unfold put_writer, set_writers, aset in Hin. simpl in Hin. rewrite Hw, Hws in Hin. simpl in Hin.
    rewrite N.eqb_refl in Hin. destruct Hin as [Hin|[]]. inv Hin. exact Hb.
Qed.

Lemma wtags_frame : forall s s1 w w',
  hist s1 = hist s -> next_tag s1 = next_tag s -> w_root w' = w_root w -> w_tag w' = w_tag w ->
  (unpublished (w_phase w') = true -> unpublished (w_phase w) = true) ->
  writer_tags_ok s w -> writer_tags_ok s1 w'.
Proof.
  intros s s1 w w' H1 H2 H3 H4 H5 [Ha Hb]. split.
  - rewrite H1, H3. assumption.
  - intros c Hc. rewrite H4 in Hc. destruct (Hb c Hc) as [Hlt Hn]. rewrite H1, H2. split; auto.
Qed.

Lemma hist_tags_publish : forall s w id src d,
  (forall x, In x (hist s) -> snd x < next_tag s) -> writer_tags_ok s w ->
  forall x, In x (hist (publish s id (payload_of w) src d)) -> snd x < next_tag (publish s id (payload_of w) src d).
Proof.
  intros s w id src d Ha [Hr Ht] x Hin. simpl in *. destruct Hin as [<-|Hin]; [|auto]. simpl.
  unfold payload_of. destruct (w_tag w) as [c|]; [apply (Ht c eq_refl)|apply Ha; assumption].
Qed.

Lemma wtags_publish : forall s s1 w w' pl,
  hist s1 = pl :: hist s -> next_tag s1 = next_tag s -> w_root w' = w_root w -> w_tag w' = w_tag w ->
  unpublished (w_phase w') = false -> writer_tags_ok s w -> writer_tags_ok s1 w'.
Proof.
  intros s s1 w w' pl H1 H2 H3 H4 H5 [Ha Hb]. split.
  - rewrite H1, H3. right. assumption.
  - intros c Hc. rewrite H4 in Hc. destruct (Hb c Hc) as [Hlt _]. rewrite H2. split; [assumption|].
    rewrite H5. discriminate.
Qed.

Ltac tag_side :=
  unfold_state; simpl;
  repeat match goal with |- context [match w_tag ?w0 with _ => _ end] => destruct (w_tag w0) end;
  try reflexivity.

Lemma mine_tags : forall t s w, slot_inv s -> tags_ok s -> my_writer t s = Some w -> writer_tags_ok s w.
Proof.
  intros t s w Hs [_ Hb] Hm. apply (Hb (tkey t)). rewrite (writer_of t s w Hs Hm). left. reflexivity.
Qed.

Lemma exec_inv4 : forall t c x s s' k, inv4 s -> exec t c x s = Some (s', k) -> inv4 s'.
Proof.
  intros t c x s s' k [H2 Ht] H.
  pose proof (exec_inv2 _ _ _ _ _ _ H2 H) as H2'. split; [assumption|].
  destruct H2 as (Hs & Hi & Hh). pose proof Ht as [Ha Hb].
  destruct x; exec_inv H; phase_facts;
    try (eapply tags_frame; [| | |exact Ht]; reflexivity).
  all: try match goal with
    | Hm : my_writer ?t0 ?s0 = Some ?w |- tags_ok (put_writer ?t0 ?w' (publish ?s2 ?id (payload_of ?w) ?src ?d)) =>
      apply (tags_put t0 s0 _ w w' Hs Hm);
      [ reflexivity
      | apply hist_tags_publish; [exact Ha|exact (mine_tags t0 s0 w Hs Ht Hm)]
      | eapply (wtags_publish s0 _ w w'); [reflexivity|reflexivity|reflexivity|reflexivity| |exact (mine_tags t0 s0 w Hs Ht Hm)];
        simpl; phases_compute; reflexivity ]
    | Hm : my_writer ?t0 ?s0 = Some ?w |- tags_ok (put_writer ?t0 ?w' ?s1) =>
      apply (tags_put t0 s0 s1 w w' Hs Hm);
      [ tag_side
      | tag_side; exact Ha
      | eapply (wtags_frame s0 s1 w w'); [tag_side|tag_side|reflexivity|reflexivity| |exact (mine_tags t0 s0 w Hs Ht Hm)];
        simpl; repeat match goal with H : w_phase ?w0 = _ |- _ => rewrite H end; phases_compute; simpl; auto ]
    end.
  - (* T.start_write *)
    unfold slot_inv in Hs. rewrite E in Hs. split; [exact Ha|].
    intros k0 w0 Hin. unfold_state. simpl in Hin. rewrite Hs in Hin. simpl in Hin. destruct Hin as [Hin|[]]. inv Hin.
    split; simpl; [apply in_hist_latest; exact Hh|discriminate].
  - (* M.get_data_root of begin_write *)
    apply (tags_put t s s w _ Hs E); [reflexivity|exact Ha|].
    destruct (mine_tags t s w Hs Ht E) as [_ Hc]. split; simpl; [apply in_hist_latest; exact Hh|exact Hc].
  - (* epilogue publication: same payload under the next id *)
    apply (tags_put t s _ w _ Hs E); [reflexivity| |].
    + intros x Hin. simpl in *. destruct Hin as [<-|Hin]; [|auto]. simpl. apply Ha. apply in_hist_latest. exact Hh.
    + eapply (wtags_publish s _ w _); [reflexivity|reflexivity|reflexivity|reflexivity| |exact (mine_tags t s w Hs Ht E)].
      simpl. phases_compute. reflexivity.
  - (* T.end_write *)
    pose proof (writer_of t s w Hs E) as Hw. split; [exact Ha|]. intros k0 w0 Hin. unfold_state. simpl in Hin.
    rewrite Hw in Hin. simpl in Hin. rewrite N.eqb_refl in Hin. destruct Hin.
  - pose proof (writer_of t s w Hs E) as Hw. split; [exact Ha|]. intros k0 w0 Hin. unfold_state. simpl in Hin.
    rewrite Hw in Hin. simpl in Hin. rewrite N.eqb_refl in Hin. destruct Hin.
  - pose proof (writer_of t s w Hs E) as Hw. split; [exact Ha|]. intros k0 w0 Hin. unfold_state. simpl in Hin.
    rewrite Hw in Hin. simpl in Hin. rewrite N.eqb_refl in Hin. destruct Hin.
Qed.

Lemma enter_inv4 : forall t c s, inv4 s -> inv4 (enter t c s).
Proof.
  intros t c s [H2 Ht]. split; [apply enter_inv2; assumption|]. destruct H2 as (Hs & Hi & Hh). pose proof Ht as [Ha Hb].
  destruct c; simpl; try exact Ht.
  destruct (my_writer t s) as [w|] eqn:Hm; [|exact Ht].
  apply (tags_put t s _ w _ Hs Hm); [reflexivity| |].
  - intros x Hin. simpl in *. specialize (Ha x Hin). lia.
  - destruct (mine_tags t s w Hs Ht Hm) as [Hr _]. split; simpl; [exact Hr|].
    intros c Hc. inv Hc. split; [lia|]. intros _ x Hin Heq. specialize (Ha x Hin). lia.
Qed.

Lemma inv4_reachable : forall sched progs, inv4 (final sched progs).
Proof.
  intros. unfold final, prun.
  apply (run_inv st call step string res steps_of name_of exec enter result inv4 exec_inv4 enter_inv4).
  split; [exact init_inv2|]. split.
  - intros x [<-|[]]. simpl. lia.
  - intros k w [].
Qed.

(* no_uncommitted_visible: whatever a reader or a beginning write transaction reads is a publication, and the
   payload of a write transaction that has not reached its publication step is not the payload of any publication *)
Theorem no_uncommitted_visible : forall sched progs s, s = final sched progs ->
  (forall r rs x, aget r (readers s) = Some rs -> r_root rs = Some x -> In x (hist s)) /\
  (forall t w, my_writer t s = Some w -> In (w_root w) (hist s)) /\
  (forall t w c, my_writer t s = Some w -> w_tag w = Some c -> unpublished (w_phase w) = true ->
     forall x, In x (hist s) -> snd x <> c).
Proof.
  intros sched progs s ->. destruct (inv4_reachable sched progs) as [(Hs & _ & _) Ht]. split; [|split].
  - intros r rs x Hget Hroot. apply (linearizable_by_publication sched progs r rs x Hget Hroot).
  - intros t w Hm. apply (mine_tags t _ w Hs Ht Hm).
  - intros t w c Hm Hc Hu. destruct (mine_tags t _ w Hs Ht Hm) as [_ H]. apply (H c Hc); assumption.
Qed.

(* ---- a payload that is neither published nor held by a live write transaction (e.g. the tag of an aborted
        one) can never become visible later *)
Definition dead_tag (c : N) (s : st) : Prop :=
  c < next_tag s /\ (forall x, In x (hist s) -> snd x <> c) /\ (forall k w, In (k, w) (writers s) -> w_tag w <> Some c).
Definition inv5 (c : N) (s : st) : Prop := inv4 s /\ dead_tag c s.

Lemma dead_frame : forall c s s', hist s' = hist s -> next_tag s' = next_tag s -> writers s' = writers s ->
  dead_tag c s -> dead_tag c s'.
Proof. unfold dead_tag. intros c s s' H1 H2 H3. rewrite H1, H2, H3. auto. Qed.

Lemma dead_put : forall c t s s1 w w', slot_inv s -> my_writer t s = Some w -> writers s1 = writers s ->
  c < next_tag s1 -> (forall x, In x (hist s1) -> snd x <> c) -> w_tag w' <> Some c -> dead_tag c (put_writer t w' s1).
Proof.
  intros c t s s1 w w' Hs Hm Hw H1 H2 H3. pose proof (writer_of t s w Hs Hm) as Hws. split; [exact H1|]. split; [exact H2|].
  intros k w0 Hin. unfold put_writer, set_writers, aset in Hin. simpl in Hin. rewrite Hw, Hws in Hin. simpl in Hin.
  rewrite N.eqb_refl in Hin. destruct Hin as [Hin|[]]. inv Hin. exact H3.
Qed.

Lemma mine_dead : forall c t s w, slot_inv s -> dead_tag c s -> my_writer t s = Some w -> w_tag w <> Some c.
Proof.
  intros c t s w Hs (_ & _ & H) Hm. apply (H (tkey t)). rewrite (writer_of t s w Hs Hm). left. reflexivity.
Qed.

Lemma exec_inv5 : forall c t cl x s s' k, inv5 c s -> exec t cl x s = Some (s', k) -> inv5 c s'.
Proof.
  intros c t cl x s s' k [H4 Hd] H.
  pose proof (exec_inv4 _ _ _ _ _ _ H4 H) as H4'. split; [assumption|].
  destruct H4 as [(Hs & Hi & Hh) Ht]. pose proof Hd as (Hc & Hn & Hw).
  destruct x; exec_inv H; phase_facts;
    try (eapply dead_frame; [| | |exact Hd]; reflexivity).
  all: try match goal with
    | Hm : my_writer ?t0 ?s0 = Some ?w |- dead_tag _ (put_writer ?t0 ?w' (publish ?s2 ?id (payload_of ?w) ?src ?d)) =>
      apply (dead_put c t0 s0 _ w w' Hs Hm); [reflexivity|exact Hc| |exact (mine_dead c t0 s0 w Hs Hd Hm)];
      intros x0 [<-|Hin]; [|auto]; simpl; unfold payload_of;
      pose proof (mine_dead c t0 s0 w Hs Hd Hm) as Hne; destruct (w_tag w) as [c0|];
      [ intro; subst; apply Hne; reflexivity | apply Hn; apply (mine_tags t0 s0 w Hs Ht Hm) ]
    | Hm : my_writer ?t0 ?s0 = Some ?w |- dead_tag _ (put_writer ?t0 ?w' ?s1) =>
      apply (dead_put c t0 s0 s1 w w' Hs Hm);
      [ tag_side | tag_side; exact Hc | tag_side; exact Hn | exact (mine_dead c t0 s0 w Hs Hd Hm) ]
    end.
  - (* T.start_write *)
    unfold slot_inv in Hs. rewrite E in Hs. split; [exact Hc|]. split; [exact Hn|].
    intros k0 w0 Hin. unfold_state. simpl in Hin. rewrite Hs in Hin. simpl in Hin. destruct Hin as [Hin|[]]. inv Hin.
    simpl. discriminate.
  - (* epilogue publication *)
    apply (dead_put c t s _ w _ Hs E); [reflexivity|exact Hc| |exact (mine_dead c t s w Hs Hd E)].
    intros x0 [<-|Hin]; [|auto]. simpl. apply Hn. apply in_hist_latest. exact Hh.
  - pose proof (writer_of t s w Hs E) as Hws. split; [exact Hc|]. split; [exact Hn|]. intros k0 w0 Hin. unfold_state.
    simpl in Hin. rewrite Hws in Hin. simpl in Hin. rewrite N.eqb_refl in Hin. destruct Hin.
  - pose proof (writer_of t s w Hs E) as Hws. split; [exact Hc|]. split; [exact Hn|]. intros k0 w0 Hin. unfold_state.
    simpl in Hin. rewrite Hws in Hin. simpl in Hin. rewrite N.eqb_refl in Hin. destruct Hin.
  - pose proof (writer_of t s w Hs E) as Hws. split; [exact Hc|]. split; [exact Hn|]. intros k0 w0 Hin. unfold_state.
    simpl in Hin. rewrite Hws in Hin. simpl in Hin. rewrite N.eqb_refl in Hin. destruct Hin.
Qed.

Lemma enter_inv5 : forall c t cl s, inv5 c s -> inv5 c (enter t cl s).
Proof.
  intros c t cl s [H4 Hd]. split; [apply enter_inv4; assumption|]. destruct H4 as [(Hs & _ & _) _].
  pose proof Hd as (Hc & Hn & Hw).
  destruct cl; simpl; try exact Hd.
  destruct (my_writer t s) as [w|] eqn:Hm; [|exact Hd].
  apply (dead_put c t s _ w _ Hs Hm); [reflexivity|simpl; lia|exact Hn|].
  simpl. intro Heq. inv Heq. lia.
Qed.

Theorem aborted_never_visible : forall a b progs c,
  dead_tag c (final a progs) -> forall x, In x (hist (final (a ++ b) progs)) -> snd x <> c.
Proof.
  intros a b progs c Hd. unfold final, prun in *.
  rewrite (run_app st call step string res steps_of name_of exec enter result a b).
  destruct (Sched.run st call step string res steps_of name_of exec enter result a (pstart progs) init)
    as [[p1 s1] e1] eqn:Ea.
  pose proof (inv4_reachable a progs) as Hinv. unfold final, prun in Hinv. rewrite Ea in Hinv. simpl in Hinv, Hd.
  pose proof (run_inv st call step string res steps_of name_of exec enter result (inv5 c)
               (exec_inv5 c) (enter_inv5 c) b p1 s1 (conj Hinv Hd)) as [_ (_ & H & _)].
  destruct (Sched.run st call step string res steps_of name_of exec enter result b p1 s1) as [[p2 s2] e2].
  simpl in *. exact H.
Qed.
