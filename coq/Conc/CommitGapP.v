(* Conc/CommitGapP.v -- proofs about Conc/CommitGap.v (C16: epilogue_horizon_safe, lock_order_acyclic) *)
From Coq Require Import List NArith Arith Bool Lia Permutation Relations.
From RV Require Import Conc.Sched Conc.SchedP Conc.CommitGap.
Import ListNotations.
Open Scope N_scope.

(* ---------------------------------------------------------------- list helpers *)
Definition cnt (x : N) (l : list N) : nat := count_occ N.eq_dec l x.

Lemma cnt_app : forall x a b, cnt x (a ++ b) = (cnt x a + cnt x b)%nat.
Proof. intros; unfold cnt; apply count_occ_app. Qed.

Lemma cnt_cons : forall x y l, cnt x (y :: l) = ((if N.eq_dec y x then 1 else 0) + cnt x l)%nat.
Proof. intros; unfold cnt; simpl; destruct (N.eq_dec y x); reflexivity. Qed.

Arguments cnt : simpl never.

Lemma cnt_in : forall x l, (0 < cnt x l)%nat <-> In x l.
Proof. intros; unfold cnt; split; intro H; [apply (count_occ_In N.eq_dec) | apply (count_occ_In N.eq_dec)]; assumption. Qed.

Lemma memN_in : forall x l, memN x l = true <-> In x l.
Proof.
  intros; unfold memN; rewrite existsb_exists; split.
  - intros [y [Hy E]]. apply N.eqb_eq in E; subst; assumption.
  - intro H; exists x; split; [assumption | apply N.eqb_refl].
Qed.

Lemma rm1_in : forall x y l, In y (rm1 x l) -> In y l.
Proof.
  induction l as [|z l IH]; simpl; [tauto|].
  destruct (N.eqb x z); simpl; intuition.
Qed.

Lemma cnt_rm1 : forall x y l, In x l -> (cnt y (rm1 x l) + (if N.eq_dec x y then 1 else 0) = cnt y l)%nat.
Proof.
  induction l as [|z l IH]; simpl; [tauto|].
  intros [E|Hin].
  - subst z. rewrite N.eqb_refl. rewrite cnt_cons. lia.
  - destruct (N.eqb x z) eqn:Exz.
    + apply N.eqb_eq in Exz; subst z. rewrite cnt_cons. lia.
    + rewrite !cnt_cons. specialize (IH Hin). lia.
Qed.

Lemma nmin_none : forall l, nmin l = None -> l = [].
Proof. destruct l as [|x r]; simpl; [reflexivity|]. destruct (nmin r); discriminate. Qed.

Lemma nmin_le : forall l m, nmin l = Some m -> forall x, In x l -> m <= x.
Proof.
  induction l as [|y r IH]; simpl; [discriminate|].
  intros m H x [E|Hin].
  - subst y. destruct (nmin r); inversion H; subst; lia.
  - destruct (nmin r) as [m'|] eqn:E.
    + inversion H; subst. specialize (IH m' eq_refl x Hin). lia.
    + apply nmin_none in E; subst; contradiction.
Qed.

Lemma nmin_in : forall l m, nmin l = Some m -> In m l.
Proof.
  induction l as [|y r IH]; simpl; [discriminate|].
  intros m H. destruct (nmin r) as [m'|] eqn:E.
  - inversion H; subst. destruct (N.min_spec y m') as [[_ E']|[_ E']]; rewrite E'; auto.
  - inversion H; auto.
Qed.

Lemma in_below : forall h t e, In e (below h t) <-> In e t /\ fst e < h.
Proof. intros; unfold below; rewrite filter_In, N.ltb_lt; tauto. Qed.

Lemma in_above : forall h t e, In e (above h t) <-> In e t /\ h <= fst e.
Proof. intros; unfold above; rewrite filter_In, negb_true_iff, N.ltb_ge; tauto. Qed.

Lemma below_or_above : forall h t e, In e t -> In e (below h t) \/ In e (above h t).
Proof. intros h t e H. rewrite in_below, in_above. destruct (N.lt_ge_cases (fst e) h); auto. Qed.

Lemma in_pages_of : forall t p, In p (pages_of t) <-> exists F pf, In (F, pf) t /\ In p pf.
Proof.
  intros; unfold pages_of; rewrite in_flat_map; split.
  - intros [[F pf] [H1 H2]]; exists F, pf; auto.
  - intros [F [pf [H1 H2]]]; exists (F, pf); auto.
Qed.

Lemma in_remove_pages : forall ps al p, In p (remove_pages ps al) <-> In p al /\ ~ In p ps.
Proof.
  intros; unfold remove_pages; rewrite filter_In, negb_true_iff.
  split; intros [H1 H2]; split; auto.
  - intro H; apply memN_in in H; congruence.
  - destruct (memN p ps) eqn:E; [apply memN_in in E; contradiction | reflexivity].
Qed.

Lemma nodup_app_r : forall (a b : list N), NoDup (a ++ b) -> NoDup b.
Proof. induction a as [|x a IH]; simpl; intros b H; [assumption|]. inversion H; auto. Qed.

Lemma nodup_app_disj : forall (a b : list N) x, NoDup (a ++ b) -> In x a -> In x b -> False.
Proof.
  induction a as [|y a IH]; simpl; intros b x H Ha Hb; [contradiction|].
  inversion H; subst. destruct Ha as [E|Ha]; [subst; apply H2; apply in_or_app; auto | eauto].
Qed.

Lemma nodup_app_keep : forall (a b c : list N), NoDup (a ++ b) -> NoDup c -> (forall x, In x c -> In x b) -> NoDup (a ++ c).
Proof.
  induction a as [|y a IH]; simpl; intros b c H Hc Hs; [assumption|].
  inversion H; subst. constructor; [|eauto].
  intro Hin; apply H2. apply in_app_or in Hin as [Hin|Hin]; apply in_or_app; auto.
Qed.

Lemma nodup_pages_filter : forall f (t : tab), NoDup (pages_of t) -> NoDup (pages_of (filter f t)).
Proof.
  induction t as [|e t IH]; simpl; intro H; [constructor|].
  unfold pages_of in *; simpl in H.
  destruct (f e); simpl.
  - eapply nodup_app_keep; [exact H | apply IH; eapply nodup_app_r; eauto |].
    intros x Hin. apply in_flat_map in Hin as [e' [He' Hp]]. apply filter_In in He' as [He' _]. apply in_flat_map; eauto.
  - apply IH. eapply nodup_app_r; eauto.
Qed.

(* a page is named by one record only *)
Lemma nodup_pages_unique : forall (t : tab) e1 e2 p,
  NoDup (pages_of t) -> In e1 t -> In e2 t -> In p (snd e1) -> In p (snd e2) -> fst e1 <> fst e2 -> False.
Proof.
  induction t as [|e t IH]; simpl; intros e1 e2 p H H1 H2 P1 P2 Hne; [contradiction|].
  unfold pages_of in *; simpl in H.
  assert (D : forall x, In x (snd e) -> In x (flat_map snd t) -> False).
  { intros x Hx Hy. eapply nodup_app_disj; eauto. }
  destruct H1 as [E1|H1], H2 as [E2|H2]; subst.
  - congruence.
  - apply (D p P1). apply in_flat_map; eauto.
  - apply (D p P2). apply in_flat_map; eauto.
  - apply nodup_app_r in H. eapply IH; eauto.
Qed.

Lemma has_sp_in : forall sp t v, has_sp sp t v = true -> In (sp, t) v.
Proof.
  intros sp t v H; unfold has_sp in H; apply existsb_exists in H as [[a b] [Hin E]].
  simpl in E; apply andb_true_iff in E as [E1 E2]; apply N.eqb_eq in E1, E2; subst; assumption.
Qed.

Lemma remove_sp_in : forall sp t v e, In e (remove_sp sp t v) -> In e v.
Proof.
  induction v as [|a v IH]; simpl; [tauto|].
  intro e. destruct (N.eqb (fst a) sp && N.eqb (snd a) t); simpl; intuition.
Qed.

Lemma remove_sp_cnt : forall sp t v y, In (sp, t) v ->
  (cnt y (map snd (remove_sp sp t v)) + (if N.eq_dec t y then 1 else 0) = cnt y (map snd v))%nat.
Proof.
  induction v as [|a v IH]; simpl; [tauto|].
  intros y [E|Hin].
  - subst a; simpl. rewrite !N.eqb_refl; simpl. rewrite cnt_cons. lia.
  - destruct (N.eqb (fst a) sp && N.eqb (snd a) t) eqn:Ea.
    + apply andb_true_iff in Ea as [E1 E2]; apply N.eqb_eq in E1, E2. rewrite cnt_cons, E2. lia.
    + simpl. rewrite !cnt_cons. specialize (IH y Hin). lia.
Qed.

Lemma mono_remove_sp : forall sp t v, mono v -> mono (remove_sp sp t v).
Proof.
  induction v as [|a v IH]; simpl; [tauto|].
  intros [H1 H2]. destruct (N.eqb (fst a) sp && N.eqb (snd a) t); simpl; [assumption|].
  split; [|auto]. intros e' He'; apply H1. eapply remove_sp_in; eauto.
Qed.

Lemma mono_head : forall e v, mono (e :: v) -> forall e', In e' (e :: v) -> snd e <= snd e'.
Proof. simpl; intros e v [H _] e' [E|Hin]; [subst; lia | auto]. Qed.

Lemma reader_of_in : forall t l r, reader_of t l = Some r -> In (t, r) l.
Proof.
  induction l as [|[t' r'] l IH]; simpl; [discriminate|].
  intros r. destruct (Nat.eqb t t') eqn:E.
  - intro H; inversion H; subst. apply Nat.eqb_eq in E; subst; auto.
  - intro H; right; auto.
Qed.

Lemma rm_reader_in : forall t l e, In e (rm_reader t l) -> In e l.
Proof.
  induction l as [|[t' r'] l IH]; simpl; [tauto|].
  intro e. destruct (Nat.eqb t t'); simpl; intuition.
Qed.

Lemma rm_reader_cnt : forall t l r y, reader_of t l = Some r ->
  (cnt y (map snd (rm_reader t l)) + (if N.eq_dec r y then 1 else 0) = cnt y (map snd l))%nat.
Proof.
  induction l as [|[t' r'] l IH]; simpl; [discriminate|].
  intros r y. destruct (Nat.eqb t t') eqn:E.
  - intro H; inversion H; subst. rewrite cnt_cons. lia.
  - intro H. simpl. rewrite !cnt_cons. specialize (IH r y H). lia.
Qed.

Lemma release_all_in : forall ids l y, In y (release_all ids l) -> In y l.
Proof.
  unfold release_all. induction ids as [|a ids IH]; simpl; [tauto|].
  intros l y H. apply IH in H. eapply rm1_in; eauto.
Qed.

Lemma release_all_cnt : forall ids l, (forall y, cnt y ids <= cnt y l)%nat ->
  forall y, (cnt y (release_all ids l) + cnt y ids = cnt y l)%nat.
Proof.
  unfold release_all. induction ids as [|a ids IH]; simpl; intros l H y; [unfold cnt at 2; simpl; lia|].
  assert (Ha : In a l). { apply cnt_in. specialize (H a). rewrite cnt_cons in H. destruct (N.eq_dec a a); [lia|congruence]. }
  assert (H' : forall y, (cnt y ids <= cnt y (rm1 a l))%nat).
  { intro z. specialize (H z). rewrite cnt_cons in H. pose proof (cnt_rm1 a z l Ha). lia. }
  specialize (IH _ H' y). rewrite cnt_cons. pose proof (cnt_rm1 a y l Ha). lia.
Qed.

(* ---------------------------------------------------------------- the invariant *)
Definition gone (s : cst) : tab := g_gone_main s ++ g_gone_epi s.
Definition owners (x : N) (s : cst) : nat :=
  (cnt x (map snd (g_pending s)) + cnt x (map snd (g_valid s)) + cnt x (g_mid s) + cnt x (map snd (g_readers s)) +
   cnt x (g_held s))%nat.

Section Inv.
Variable s0 : cst.

Record ginv (s : cst) : Prop := {
  i_pins : forall x, cnt x (g_live s) = owners x s;
  i_mono : mono (g_valid s);
  i_nodup : NoDup (pages_of (g_freed s));
  i_cross : forall A pa F pf p, In (A, pa) (g_alloc s) -> In (F, pf) (g_freed s) -> In p pa -> In p pf -> A < F;
  i_keys : forall F pf, In (F, pf) (g_freed s) -> (F <= g_last s \/ F = g_txid s) /\ F <= g_txid s;
  i_akeys : forall A pa, In (A, pa) (g_alloc s) -> A <= g_txid s;
  i_live : forall r, In r (g_live s) -> r <= g_last s;
  i_last_lo : g_pc s < 6 -> g_last s < g_txid s;
  i_last_hi : 6 <= g_pc s -> g_txid s <= g_last s;
  i_last_up : g_last s <= g_txid s + 1;
  i_freed_alloc : forall F pf p, In (F, pf) (g_freed s) -> In p pf -> In p (g_allocated s);
  i_gone_live : forall F pf r, In (F, pf) (gone s) -> In r (g_live s) -> F <= r;
  i_gone_last : forall F pf, In (F, pf) (gone s) -> F <= g_last s /\ F <= g_txid s;
  i_part : forall e, In e (g_freed s0) -> In e (g_freed s) \/ In e (gone s);
  i_h1 : g_pc s = 1 -> g_h1 s <= g_txid s /\
         (forall r F pf, In r (g_live s) -> In (F, pf) (g_freed s) -> F < g_h1 s -> F <= r) /\
         (forall sp S, In (sp, S) (g_valid s) -> g_h1 s <= S + 1);
  i_pre : g_pc s < 2 -> alloc_ok s;
  i_mid : g_pc s = 2 -> alloc_ok_mid s;
  i_post : 3 <= g_pc s -> alloc_ok s /\ (g_sph s = None -> g_alloc s = []) /\
           (forall h, g_sph s = Some h -> forall A pa, In (A, pa) (g_alloc s) -> h <= A);
  i_eh : g_pc s = 9 -> (forall r F pf, In r (g_live s) -> In (F, pf) (g_freed s) -> F < g_eh s -> F <= r) /\
         (forall h, g_sph s = Some h -> g_eh s <= h + 1)
}.

(* every valid savepoint holds a pin *)
Lemma valid_pinned : forall s, ginv s -> forall sp S, In (sp, S) (g_valid s) -> In S (g_live s).
Proof.
  intros s H sp S Hin. apply cnt_in. rewrite (i_pins s H). unfold owners.
  assert (0 < cnt S (map snd (g_valid s)))%nat; [|lia].
  apply cnt_in. apply in_map_iff. exists (sp, S); auto.
Qed.

Lemma reader_pinned : forall s, ginv s -> forall t r, In (t, r) (g_readers s) -> In r (g_live s).
Proof.
  intros s H t r Hin. apply cnt_in. rewrite (i_pins s H). unfold owners.
  assert (0 < cnt r (map snd (g_readers s)))%nat; [|lia].
  apply cnt_in. apply in_map_iff. exists (t, r); auto.
Qed.

(* steps of the other threads (and the committer's tracker-only sections): only the tracker's pins / savepoints and
   thread-local ownership change; new pins are at the last published id, or at/after the committing transaction *)
Lemma frame_tracker : forall s s', ginv s ->
  g_txid s' = g_txid s -> g_last s' = g_last s -> g_held s' = g_held s -> g_freed s' = g_freed s ->
  g_alloc s' = g_alloc s -> g_allocated s' = g_allocated s -> g_pc s' = g_pc s -> g_h1 s' = g_h1 s ->
  g_sph s' = g_sph s -> g_eh s' = g_eh s -> g_gone_main s' = g_gone_main s -> g_gone_epi s' = g_gone_epi s ->
  (forall x, cnt x (g_live s') = owners x s') ->
  (forall e, In e (g_valid s') -> In e (g_valid s)) -> mono (g_valid s') ->
  (forall r, In r (g_live s') -> In r (g_live s) \/ (r <= g_last s /\ ((g_pc s < 6 /\ r = g_last s) \/ g_txid s <= r))) ->
  ginv s'.
Proof.
  intros s s' H E1 E2 E3 E4 E5 E6 E7 E8 E9 E10 E11 E12 Hp Hv Hm Hl.
  assert (Eg : gone s' = gone s) by (unfold gone; congruence).
  constructor; rewrite ?E1, ?E2, ?E4, ?E5, ?E6, ?E7, ?E8, ?E9, ?E10, ?Eg; unfold alloc_ok, alloc_ok_mid; rewrite ?E5, ?E6;
    try solve [apply H].
  - assumption.
  - assumption.
  - intros r Hr. destruct (Hl r Hr) as [Hr'|[Hr' _]]; [apply (i_live s H); assumption | assumption].
  - intros F pf r Hg Hr. destruct (Hl r Hr) as [Hr'|[Hle [[_ Er]|Ht]]].
    + eapply (i_gone_live s H); eauto.
    + subst r. apply (i_gone_last s H F pf Hg).
    + pose proof (i_gone_last s H F pf Hg). lia.
  - intro Epc. destruct (i_h1 s H Epc) as [A1 [A2 A3]]. split; [assumption|split].
    + intros r F pf Hr Hf Hlt. destruct (Hl r Hr) as [Hr'|[Hle [[_ Er]|Ht]]].
      * eapply A2; eauto.
      * subst r. destruct (i_keys s H F pf Hf) as [[K|K] _]; [assumption|lia].
      * lia.
    + intros sp S Hin. apply (A3 sp S). apply Hv; assumption.
  - intros Epc A pa p Ha Hp' Hn sp S Hin. eapply (i_mid s H Epc); eauto.
  - intro Epc. destruct (i_eh s H Epc) as [A1 A2]. split; [|assumption].
    intros r F pf Hr Hf Hlt. destruct (Hl r Hr) as [Hr'|[Hle [[Hpc _]|Ht]]].
    + eapply A1; eauto.
    + lia.
    + pose proof (i_keys s H F pf Hf). lia.
Qed.

(* a section that changes nothing shared: only the committer's program counter moves *)
Lemma frame_pc : forall s pc', ginv s -> 3 <= g_pc s -> g_pc s <= pc' -> (6 <= pc' -> 6 <= g_pc s) -> pc' <> 9 ->
  ginv (set_pc pc' s).
Proof.
  intros s pc' H H3 Hle H6 H9.
  constructor; simpl; try solve [apply H]; unfold alloc_ok, alloc_ok_mid; simpl; try solve [intros; lia].
  - intro. apply (i_last_lo s H). lia.
  - intro. apply (i_last_hi s H). auto.
  - intro. apply (i_post s H). assumption.
Qed.

(* ---------------------------------------------------------------- the committer's sections *)
Lemma step_oldest_live1 : forall s, ginv s -> g_pc s = 0 ->
  ginv (set_pc (g_pc s + 1) (set_h1 (match oldest_live s with Some r => r + 1 | None => g_txid s end) s)).
Proof.
  intros s H Epc.
  constructor; simpl; try solve [apply H]; unfold alloc_ok, alloc_ok_mid; simpl; rewrite ?Epc; try solve [intros; lia].
  - intro. apply (i_last_lo s H). lia.
  - intros _. unfold oldest_live. destruct (nmin (g_live s)) as [m|] eqn:E.
    + pose proof (nmin_in _ _ E) as Hm. pose proof (i_live s H m Hm). pose proof (i_last_lo s H ltac:(lia)).
      split; [lia|split].
      * intros r F pf Hr Hf Hlt. pose proof (nmin_le _ _ E r Hr). lia.
      * intros sp S Hin. pose proof (nmin_le _ _ E S (valid_pinned s H sp S Hin)). lia.
    + apply nmin_none in E. split; [lia|split].
      * intros r F pf Hr. rewrite E in Hr; contradiction.
      * intros sp S Hin. pose proof (valid_pinned s H sp S Hin) as Hp. rewrite E in Hp; contradiction.
  - intro. apply (i_pre s H). lia.
Qed.

Lemma free_keeps : forall s h F pf p, ginv s -> In (F, pf) (above h (g_freed s)) -> In p pf ->
  In p (remove_pages (pages_of (below h (g_freed s))) (g_allocated s)).
Proof.
  intros s h F pf p H Hin Hp. apply in_above in Hin as [Hin Hge]; simpl in Hge.
  apply in_remove_pages. split; [eapply (i_freed_alloc s H); eauto|].
  intro Hb. apply in_pages_of in Hb as [F' [pf' [Hin' Hp']]]. apply in_below in Hin' as [Hin' Hlt]; simpl in Hlt.
  eapply (nodup_pages_unique (g_freed s) (F, pf) (F', pf') p); eauto; [apply (i_nodup s H) | simpl; lia].
Qed.

Lemma step_horizon : forall s, ginv s -> g_pc s = 1 ->
  ginv (set_pc (g_pc s + 1) (set_gone_main (g_gone_main s ++ below (g_h1 s) (g_freed s)) (free_below (g_h1 s) s))).
Proof.
  intros s H Epc. destruct (i_h1 s H Epc) as [A1 [A2 A3]].
  constructor; simpl; try solve [apply H]; unfold alloc_ok, alloc_ok_mid, gone; simpl; rewrite ?Epc; try solve [intros; lia].
  - apply nodup_pages_filter. apply H.
  - intros A pa F pf p Ha Hf. apply in_above in Hf as [Hf _]. eapply (i_cross s H); eauto.
  - intros F pf Hf. apply in_above in Hf as [Hf _]. eapply (i_keys s H); eauto.
  - intro. apply (i_last_lo s H). lia.
  - intros F pf p Hf Hp. eapply free_keeps; eauto.
  - intros F pf r Hg Hr. apply in_app_or in Hg as [Hg|Hg]; [apply in_app_or in Hg as [Hg|Hg]|].
    + eapply (i_gone_live s H); eauto. unfold gone; apply in_or_app; left; eauto.
    + apply in_below in Hg as [Hg Hlt]; simpl in Hlt. eapply A2; eauto.
    + eapply (i_gone_live s H); eauto. unfold gone; apply in_or_app; right; eauto.
  - intros F pf Hg. apply in_app_or in Hg as [Hg|Hg]; [apply in_app_or in Hg as [Hg|Hg]|].
    + eapply (i_gone_last s H). unfold gone; apply in_or_app; left; eauto.
    + apply in_below in Hg as [Hg Hlt]; simpl in Hlt. destruct (i_keys s H F pf Hg) as [[K|K] K2]; lia.
    + eapply (i_gone_last s H). unfold gone; apply in_or_app; right; eauto.
  - intros e He. destruct (i_part s H e He) as [Hf|Hg].
    + destruct (below_or_above (g_h1 s) _ _ Hf) as [Hb|Ha]; [right|left; assumption].
      apply in_or_app; left; apply in_or_app; right; assumption.
    + right. unfold gone in Hg. apply in_app_or in Hg as [Hg|Hg]; apply in_or_app; [left; apply in_or_app; left|right]; assumption.
  - intros _ A pa p Ha Hp Hn sp S Hv.
    assert (Hal : In p (g_allocated s)) by (eapply (i_pre s H); eauto; lia).
    destruct (in_dec N.eq_dec p (pages_of (below (g_h1 s) (g_freed s)))) as [Hb|Hb].
    + apply in_pages_of in Hb as [F [pf [Hin Hp']]]. apply in_below in Hin as [Hin Hlt]; simpl in Hlt.
      pose proof (i_cross s H A pa F pf p Ha Hin Hp Hp'). pose proof (A3 sp S Hv). lia.
    + exfalso. apply Hn. apply in_remove_pages; auto.
Qed.

Lemma step_oldest_sp : forall s, ginv s -> g_pc s = 2 ->
  ginv (set_pc (g_pc s + 1)
          (set_purged (map fst (match oldest_sp s with Some h => below h (g_alloc s) | None => g_alloc s end))
             (set_alloc (match oldest_sp s with Some h => above h (g_alloc s) | None => [] end) (set_sph (oldest_sp s) s)))).
Proof.
  intros s H Epc.
  assert (Hsub : forall e, In e (match oldest_sp s with Some h => above h (g_alloc s) | None => [] end) -> In e (g_alloc s)).
  { intros e. destruct (oldest_sp s); [intro He; apply in_above in He; tauto | simpl; tauto]. }
  constructor; simpl; try solve [apply H]; unfold alloc_ok, alloc_ok_mid; simpl; rewrite ?Epc; try solve [intros; lia].
  - intros A pa F pf p Ha. apply Hsub in Ha. eapply (i_cross s H); eauto.
  - intros A pa Ha. apply Hsub in Ha. eapply (i_akeys s H); eauto.
  - intro. apply (i_last_lo s H). lia.
  - intros _. split; [|split].
    + intros A pa p Ha Hp. destruct (in_dec N.eq_dec p (g_allocated s)) as [Hal|Hn]; [assumption|exfalso].
      pose proof (i_mid s H Epc A pa p (Hsub _ Ha) Hp Hn) as Hm.
      unfold oldest_sp in Ha. destruct (g_valid s) as [|[sp S] v]; simpl in Ha; [contradiction|].
      apply in_above in Ha as [_ Hge]; simpl in Hge. specialize (Hm sp S (or_introl eq_refl)). lia.
    + unfold oldest_sp. destruct (g_valid s); [reflexivity|discriminate].
    + intros h Eh A pa Ha. rewrite Eh in Ha. apply in_above in Ha as [_ Hge]; assumption.
Qed.

Lemma step_publish : forall s, ginv s -> g_pc s = 5 -> ginv (set_pc (g_pc s + 1) (set_last (g_txid s) s)).
Proof.
  intros s H Epc. pose proof (i_last_lo s H ltac:(lia)) as Hlo.
  constructor; simpl; try solve [apply H]; unfold alloc_ok, alloc_ok_mid, gone; simpl; rewrite ?Epc; try solve [intros; lia].
  - intros F pf Hf. pose proof (i_keys s H F pf Hf). lia.
  - intros r Hr. pose proof (i_live s H r Hr). lia.
  - intros F pf Hg. pose proof (i_gone_last s H F pf Hg). lia.
  - intro. apply (i_post s H). lia.
Qed.

Lemma step_oldest_live2 : forall s, ginv s -> g_pc s = 8 ->
  ginv (set_pc (g_pc s + 1)
          (set_eh (match g_sph s with
                   | Some h => N.min (match oldest_live s with Some r => r + 1 | None => g_txid s + 1 end) (h + 1)
                   | None => match oldest_live s with Some r => r + 1 | None => g_txid s + 1 end
                   end) s)).
Proof.
  intros s H Epc.
  constructor; simpl; try solve [apply H]; unfold alloc_ok, alloc_ok_mid; simpl; rewrite ?Epc; try solve [intros; lia].
  - intro. apply (i_last_hi s H). lia.
  - intro. apply (i_post s H). lia.
  - intros _. split.
    + intros r F pf Hr Hf Hlt. unfold oldest_live in Hlt. destruct (nmin (g_live s)) as [m|] eqn:E.
      * pose proof (nmin_le _ _ E r Hr). destruct (g_sph s); lia.
      * apply nmin_none in E. rewrite E in Hr; contradiction.
    + intros h Eh. rewrite Eh. lia.
Qed.

Lemma step_epi_horizon : forall s pc', ginv s -> g_pc s = 9 -> 10 <= pc' ->
  ginv (set_pc pc' (set_gone_epi (g_gone_epi s ++ below (g_eh s) (g_freed s)) (free_below (g_eh s) s))).
Proof.
  intros s pc' H Epc Hpc. destruct (i_eh s H Epc) as [A1 A2].
  pose proof (i_last_hi s H ltac:(lia)) as Hhi.
  constructor; simpl; try solve [apply H]; unfold alloc_ok, alloc_ok_mid, gone; simpl; try solve [intros; lia].
  - apply nodup_pages_filter. apply H.
  - intros A pa F pf p Ha Hf. apply in_above in Hf as [Hf _]. eapply (i_cross s H); eauto.
  - intros F pf Hf. apply in_above in Hf as [Hf _]. eapply (i_keys s H); eauto.
  - intros F pf p Hf Hp. eapply free_keeps; eauto.
  - intros F pf r Hg Hr. rewrite app_assoc in Hg. apply in_app_or in Hg as [Hg|Hg].
    + eapply (i_gone_live s H); eauto.
    + apply in_below in Hg as [Hg Hlt]; simpl in Hlt. eapply A1; eauto.
  - intros F pf Hg. rewrite app_assoc in Hg. apply in_app_or in Hg as [Hg|Hg].
    + eapply (i_gone_last s H); eauto.
    + apply in_below in Hg as [Hg Hlt]. pose proof (i_keys s H F pf Hg). lia.
  - intros e He. rewrite app_assoc. destruct (i_part s H e He) as [Hf|Hg].
    + destruct (below_or_above (g_eh s) _ _ Hf) as [Hb|Ha]; [right; apply in_or_app; right|left]; assumption.
    + right. apply in_or_app; left; assumption.
  - intros _. destruct (i_post s H ltac:(lia)) as [P1 [P2 P3]]. split; [|split; assumption].
    intros A pa p Ha Hp. apply in_remove_pages. split; [eapply P1; eauto|].
    intro Hb. apply in_pages_of in Hb as [F [pf [Hin Hp']]]. apply in_below in Hin as [Hin Hlt]; simpl in Hlt.
    pose proof (i_cross s H A pa F pf p Ha Hin Hp Hp').
    destruct (g_sph s) as [h|] eqn:Eh.
    + pose proof (P3 h eq_refl A pa Ha). pose proof (A2 h eq_refl). lia.
    + rewrite (P2 eq_refl) in Ha. contradiction.
Qed.

Lemma step_nd_publish : forall s, ginv s -> g_pc s = 11 -> ginv (set_pc (g_pc s + 1) (set_last (g_txid s + 1) s)).
Proof.
  intros s H Epc. pose proof (i_last_up s H) as Hup.
  constructor; simpl; try solve [apply H]; unfold alloc_ok, alloc_ok_mid, gone; simpl; rewrite ?Epc; try solve [intros; lia].
  - intros F pf Hf. pose proof (i_keys s H F pf Hf). lia.
  - intros r Hr. pose proof (i_live s H r Hr). lia.
  - intros F pf Hg. pose proof (i_gone_last s H F pf Hg). lia.
  - intro. apply (i_post s H). lia.
Qed.

Lemma step_clear_pending : forall s, ginv s -> g_pc s = 6 ->
  ginv (set_pc (g_pc s + 1) (set_pending [] (set_live (release_all (map snd (g_pending s)) (g_live s)) s))).
Proof.
  intros s H Epc.
  assert (H1 : ginv (set_pending [] (set_live (release_all (map snd (g_pending s)) (g_live s)) s))).
  { apply (frame_tracker s); try reflexivity; try assumption; simpl.
    - intro x. unfold owners; simpl.
      assert (Hle : forall y, (cnt y (map snd (g_pending s)) <= cnt y (g_live s))%nat).
      { intro y. rewrite (i_pins s H y). unfold owners. lia. }
      pose proof (release_all_cnt _ _ Hle x) as Hc. rewrite (i_pins s H x) in Hc. unfold owners in Hc.
      change (cnt x []) with 0%nat. lia.
    - auto.
    - apply H.
    - intros r Hr. left. eapply release_all_in; eauto. }
  apply (frame_pc _ (g_pc s + 1)) in H1; simpl in *; try lia. exact H1.
Qed.

Lemma step_register_nd : forall s, ginv s -> g_pc s = 13 ->
  ginv (set_pc (g_pc s + 1) (set_pending ((g_txid s + 1, g_txid s) :: g_pending s) (set_live (g_txid s :: g_live s) s))).
Proof.
  intros s H Epc.
  assert (H1 : ginv (set_pending ((g_txid s + 1, g_txid s) :: g_pending s) (set_live (g_txid s :: g_live s) s))).
  { apply (frame_tracker s); try reflexivity; try assumption; simpl.
    - intro x. unfold owners; simpl. rewrite !cnt_cons. rewrite (i_pins s H x). unfold owners. lia.
    - auto.
    - apply H.
    - intros r [E|Hr]; [right|left; assumption]. subst r. pose proof (i_last_hi s H ltac:(lia)). split; [lia|right; lia]. }
  apply (frame_pc _ (g_pc s + 1)) in H1; simpl in *; try lia. exact H1.
Qed.

Lemma step_noop : forall s, ginv s -> (g_pc s = 3 \/ g_pc s = 4 \/ g_pc s = 7 \/ g_pc s = 10 \/ g_pc s = 12 \/ g_pc s = 14) ->
  ginv (set_pc (g_pc s + 1) s).
Proof. intros s H Hpc. apply frame_pc; try assumption; lia. Qed.

(* ---------------------------------------------------------------- the other threads *)
Lemma step_dealloc_sp : forall s sp tx, ginv s -> has_sp sp tx (g_valid s) = true ->
  ginv (set_mid (tx :: g_mid s) (set_valid (remove_sp sp tx (g_valid s)) s)).
Proof.
  intros s sp tx H Hs. apply has_sp_in in Hs.
  apply (frame_tracker s); try reflexivity; try assumption; simpl.
  - intro x. unfold owners; simpl. rewrite cnt_cons. rewrite (i_pins s H x). unfold owners.
    pose proof (remove_sp_cnt sp tx (g_valid s) x Hs). lia.
  - intros e. apply remove_sp_in.
  - apply mono_remove_sp. apply H.
  - auto.
Qed.

Lemma step_dealloc_read : forall s tx, ginv s -> memN tx (g_mid s) = true ->
  ginv (set_mid (rm1 tx (g_mid s)) (set_live (rm1 tx (g_live s)) s)).
Proof.
  intros s tx H Hm. apply memN_in in Hm.
  assert (Hl : In tx (g_live s)).
  { apply cnt_in. rewrite (i_pins s H tx). unfold owners. apply cnt_in in Hm. lia. }
  apply (frame_tracker s); try reflexivity; try assumption; simpl.
  - intro x. unfold owners; simpl. pose proof (cnt_rm1 tx x _ Hm). pose proof (cnt_rm1 tx x _ Hl).
    pose proof (i_pins s H x) as Hp. unfold owners in Hp. lia.
  - auto.
  - apply H.
  - intros r Hr. left. eapply rm1_in; eauto.
Qed.

Lemma step_register_read : forall s t, ginv s ->
  ginv (set_readers ((t, g_last s) :: g_readers s) (set_live (g_last s :: g_live s) s)).
Proof.
  intros s t H.
  apply (frame_tracker s); try reflexivity; try assumption; simpl.
  - intro x. unfold owners; simpl. rewrite !cnt_cons. rewrite (i_pins s H x). unfold owners. lia.
  - auto.
  - apply H.
  - intros r [E|Hr]; [right|left; assumption]. subst r. split; [lia|].
    destruct (N.lt_ge_cases (g_pc s) 6) as [Hlt|Hge]; [left; auto | right; apply (i_last_hi s H Hge)].
Qed.

Lemma step_release_reader : forall s t r, ginv s -> reader_of t (g_readers s) = Some r ->
  ginv (set_readers (rm_reader t (g_readers s)) (set_live (rm1 r (g_live s)) s)).
Proof.
  intros s t r H Hr.
  assert (Hl : In r (g_live s)) by (eapply reader_pinned; eauto; eapply reader_of_in; eauto).
  apply (frame_tracker s); try reflexivity; try assumption; simpl.
  - intro x. unfold owners; simpl. pose proof (rm_reader_cnt t _ r x Hr). pose proof (cnt_rm1 r x _ Hl).
    pose proof (i_pins s H x) as Hp. unfold owners in Hp. lia.
  - auto.
  - apply H.
  - intros y Hy. left. eapply rm1_in; eauto.
Qed.

(* every enabled step of every thread preserves the invariant *)
Lemma gexec_inv : forall t c x s s' k, ginv s -> gexec faithful t c x s = Some (s', k) -> ginv s'.
Proof.
  intros t c x s s' k H E. unfold gexec in E.
  destruct c.
  - (* the committer *)
    destruct (pc_of x) as [n|] eqn:Ep.
    + destruct (N.eqb (g_pc s) n) eqn:En; [|discriminate]. apply N.eqb_eq in En.
      destruct x; simpl in Ep; try discriminate; injection Ep as <-; simpl in E; inversion E; subst; clear E.
      * apply step_oldest_live1; assumption.
      * apply step_horizon; assumption.
      * apply step_oldest_sp; assumption.
      * apply step_noop; auto.
      * apply step_noop; auto.
      * apply step_publish; assumption.
      * apply step_clear_pending; assumption.
      * apply step_noop; auto 10.
      * apply step_oldest_live2; assumption.
      * destruct (pages_of (below (g_eh s) (g_freed s))); inversion H1; subst; apply step_epi_horizon; auto; simpl; lia.
      * apply step_noop; auto 10.
      * apply step_nd_publish; assumption.
      * apply step_noop; auto 10.
      * apply step_register_nd; assumption.
      * apply step_noop; auto 10.
    + destruct x; simpl in Ep; discriminate.
  - (* Savepoint::drop *)
    destruct x; simpl in E; try discriminate.
    + destruct (has_sp sp t0 (g_valid s)) eqn:Hs; [|discriminate]. inversion E; subst. apply step_dealloc_sp; assumption.
    + destruct (memN t0 (g_mid s)) eqn:Hm; [|discriminate]. inversion E; subst. apply step_dealloc_read; assumption.
  - (* begin_read *)
    destruct x; simpl in E; try discriminate.
    + inversion E; subst. apply step_register_read; assumption.
    + destruct (reader_of t (g_readers s)) as [r|] eqn:Hr; [|discriminate].
      destruct (N.eqb r (g_last s)); inversion E; subst; [assumption | eapply step_release_reader; eauto].
  - (* ReadTransaction drop *)
    destruct x; simpl in E; try discriminate.
    destruct (reader_of t (g_readers s)) as [r|] eqn:Hr; [|discriminate].
    inversion E; subst. eapply step_release_reader; eauto.
  - (* the second section of a Savepoint::drop begun during an earlier commit *)
    destruct x; simpl in E; try discriminate.
    destruct (memN t0 (g_mid s)) eqn:Hm; [|discriminate]. inversion E; subst. apply step_dealloc_read; assumption.
Qed.

Lemma ginv_safe : forall s, ginv s -> safe s0 s.
Proof.
  intros s H. split; [|split; [|split]].
  - intro Hpc. destruct (N.lt_ge_cases (g_pc s) 2) as [Hlt|Hge]; [apply (i_pre s H Hlt) | apply (i_post s H); lia].
  - apply (i_mid s H).
  - intros F pf p Hin Hp Hr.
    destruct (i_part s H _ Hin) as [Hf|Hg]; [eapply (i_freed_alloc s H); eauto|exfalso].
    destruct Hr as [[r [Hr Hlt]]|[sp [S [Hv Hlt]]]].
    + pose proof (i_gone_live s H F pf r Hg Hr). lia.
    + pose proof (i_gone_live s H F pf S Hg (valid_pinned s H sp S Hv)). lia.
  - intros t r. apply reader_pinned; assumption.
Qed.
End Inv.

Lemma cnt_nil : forall x, cnt x [] = 0%nat.
Proof. reflexivity. Qed.

(* the general starting condition (Savepoint::drop calls between their sections, reader threads holding reads) *)
Lemma wf_start_ginv : forall s, wf_start s -> ginv s s.
Proof.
  intros s W. destruct W as [Wpc [Wg1 Wg2] Wpins Wmono Wnd Wcross Wkeys Wakeys Wlive Wlast Wfa Waa].
  constructor; unfold gone; rewrite ?Wpc, ?Wg1, ?Wg2; simpl; try assumption; try solve [intros; lia]; try solve [intros; contradiction].
  - intros F pf Hf. pose proof (Wkeys F pf Hf). lia.
  - intros A pa Ha. pose proof (Wakeys A pa Ha). lia.
  - auto.
  - auto.
Qed.

Lemma wf_init_start : forall s, wf_init s -> wf_start s.
Proof.
  intros s W. destruct W as [Wpc [Wr [Wm [Wg1 Wg2]]] Wpins Wmono Wnd Wcross Wkeys Wakeys Wlive Wlast Wfa Waa].
  constructor; auto.
  intro x. rewrite Wpins, Wr, Wm. unfold cntN. simpl. lia.
Qed.

Lemma wf_init_ginv : forall s, wf_init s -> ginv s s.
Proof. intros s W. apply wf_start_ginv. apply wf_init_start. exact W. Qed.

(* epilogue_horizon_safe: after every schedule of one committer against any number of Savepoint droppers and readers *)
Theorem epilogue_horizon_safe : forall s0 progs sched, wf_init s0 -> safe s0 (gfinal faithful sched progs s0).
Proof.
  intros s0 progs sched W. apply ginv_safe. unfold gfinal, grun.
  apply (run_inv cst gcall gstep gstep unit gsteps_of gname (gexec faithful) genter gresult (ginv s0)).
  - intros t c x s s' k Hi He. eapply gexec_inv; eauto.
  - intros; assumption.
  - apply wf_init_ginv; assumption.
Qed.

(* the same for every intermediate state: the state after any prefix of the schedule *)
Corollary epilogue_horizon_safe_prefix : forall s0 progs sched n, wf_init s0 ->
  safe s0 (gfinal faithful (firstn n sched) progs s0).
Proof. intros; apply epilogue_horizon_safe; assumption. Qed.

(* the same from the general starting condition *)
Theorem epilogue_horizon_safe_start : forall s0 progs sched, wf_start s0 -> safe s0 (gfinal faithful sched progs s0).
Proof.
  intros s0 progs sched W. apply ginv_safe. unfold gfinal, grun.
  apply (run_inv cst gcall gstep gstep unit gsteps_of gname (gexec faithful) genter gresult (ginv s0)).
  - intros t c x s s' k Hi He. eapply gexec_inv; eauto.
  - intros; assumption.
  - apply wf_start_ginv; assumption.
Qed.

Lemma gfinal_ginv : forall s0 progs sched, wf_start s0 -> ginv s0 (gfinal faithful sched progs s0).
Proof.
  intros s0 progs sched W. unfold gfinal, grun.
  apply (run_inv cst gcall gstep gstep unit gsteps_of gname (gexec faithful) genter gresult (ginv s0)).
  - intros t c x s s' k Hi He. eapply gexec_inv; eauto.
  - intros; assumption.
  - apply wf_start_ginv; assumption.
Qed.

(* ---------------------------------------------------------------- one commit re-establishes the precondition of the next *)
Lemma in_pages_of_app : forall a b p, In p (pages_of (a ++ b)) <-> In p (pages_of a) \/ In p (pages_of b).
Proof. intros. unfold pages_of. rewrite flat_map_app, in_app_iff. tauto. Qed.

Lemma nodup_app_intro : forall (a b : list N), NoDup a -> NoDup b -> (forall x, In x a -> ~ In x b) -> NoDup (a ++ b).
Proof.
  induction a as [|x a IH]; simpl; intros b Ha Hb Hd; [assumption|].
  inversion Ha; subst. constructor.
  - intro Hin. apply in_app_or in Hin as [Hin|Hin]; [contradiction|]. apply (Hd x); auto.
  - apply IH; auto.
Qed.

(* commit_reestablishes_start: at the end of a commit (the committer has returned: pc = 15), whatever the schedule was, the
   invariant gives the starting condition of the next transaction's commit -- new id, pc = 0, committer's locals and
   observations cleared, the next transaction's own records added *)
Theorem commit_reestablishes_start : forall s0 e n,
  ginv s0 e -> g_pc e = 15 -> next_ok e n -> wf_start (gnext e n).
Proof.
  intros s0 e n H Hpc [Ntx Nnd Nfr Nfresh Nal].
  pose proof (i_last_hi s0 e H ltac:(lia)) as Hhi.
  destruct (i_post s0 e H ltac:(lia)) as [Hok _].
  constructor; simpl.
  - reflexivity.
  - split; reflexivity.
  - intro x. pose proof (i_pins s0 e H x) as Hp. unfold owners, cnt in Hp. unfold cntN. exact Hp.
  - apply H.
  - unfold pages_of. rewrite flat_map_app. simpl. rewrite app_nil_r. apply nodup_app_intro.
    + apply (i_nodup s0 e H).
    + exact Nnd.
    + intros x Hx Hx'. destruct (Nfr x Hx') as [_ Hn]. apply Hn. exact Hx.
  - intros A pa F pf p Ha Hf Hpa Hpf.
    apply in_app_or in Ha as [Ha|Ha]; apply in_app_or in Hf as [Hf|Hf].
    + eapply (i_cross s0 e H); eauto.
    + destruct Hf as [Hf|[]]. inversion Hf; subst. pose proof (i_akeys s0 e H A pa Ha). lia.
    + destruct Ha as [Ha|[]]. inversion Ha; subst. exfalso.
      apply (Nfresh p (Nal p Hpa)). eapply (i_freed_alloc s0 e H); eauto.
    + destruct Ha as [Ha|[]]. destruct Hf as [Hf|[]]. inversion Ha; inversion Hf; subst. exfalso.
      apply (Nfresh p (Nal p Hpa)). apply (Nfr p Hpf).
  - intros F pf Hf. apply in_app_or in Hf as [Hf|Hf].
    + left. destruct (i_keys s0 e H F pf Hf) as [_ K]. lia.
    + destruct Hf as [Hf|[]]. inversion Hf. right. reflexivity.
  - intros A pa Ha. apply in_app_or in Ha as [Ha|Ha].
    + left. pose proof (i_akeys s0 e H A pa Ha). lia.
    + destruct Ha as [Ha|[]]. inversion Ha. right. reflexivity.
  - apply H.
  - exact Ntx.
  - intros F pf p Hf Hp. apply in_or_app. apply in_app_or in Hf as [Hf|Hf].
    + left. eapply (i_freed_alloc s0 e H); eauto.
    + destruct Hf as [Hf|[]]. inversion Hf; subst. left. apply (Nfr p Hp).
  - intros A pa p Ha Hp. simpl. apply in_or_app. apply in_app_or in Ha as [Ha|Ha].
    + left. eapply Hok; eauto.
    + destruct Ha as [Ha|[]]. inversion Ha; subst. right. apply Nal. exact Hp.
Qed.

(* when moreover no Savepoint::drop is between its sections and no reader thread holds a read transaction (every thread of
   the commit's run has finished and every read transaction it began has ended), the successor state satisfies wf_init
   itself: thread-local state cleared *)
Theorem commit_reestablishes_wf_init : forall s0 e n,
  ginv s0 e -> g_pc e = 15 -> next_ok e n -> g_mid e = [] -> g_readers e = [] -> wf_init (gnext e n).
Proof.
  intros s0 e n H Hpc Hn Hm Hr.
  pose proof (commit_reestablishes_start s0 e n H Hpc Hn) as W.
  destruct W as [Wpc [Wg1 Wg2] Wpins Wmono Wnd Wcross Wkeys Wakeys Wlive Wlast Wfa Waa].
  constructor; auto.
  all: try (simpl; rewrite Hr, Hm; auto; fail).
  all: intro x; specialize (Wpins x); simpl in *; rewrite Hm, Hr in Wpins; unfold cntN in *; simpl in Wpins; lia.
Qed.

(* commit_chain_safe: any number of successive transactions, each committed under any schedule against any droppers and
   readers: every commit starts from a state satisfying the starting condition, and every intermediate state of every
   commit is safe with respect to the state that commit started from *)
Theorem commit_chain_safe : forall txs s0, wf_start s0 -> chain_ok s0 txs ->
  Forall2 (fun (start : cst) (tx : txn) =>
             wf_start start /\
             forall m, safe start (gfinal faithful (firstn m (snd (fst tx))) (fst (fst tx)) start))
          (chain_starts s0 txs) txs.
Proof.
  induction txs as [|[[progs sched] n] txs IH]; intros s0 W C; simpl; [constructor|].
  simpl in C. destruct C as (Cpc & Cn & Cr).
  constructor.
  - split; [exact W|]. intro m. simpl. apply epilogue_horizon_safe_start. exact W.
  - apply IH; [|exact Cr].
    apply (commit_reestablishes_start s0); [apply gfinal_ginv; exact W|exact Cpc|exact Cn].
Qed.

(* ---------------------------------------------------------------- the checkers are sound *)
Lemma nodupb_sound : forall l, nodupb l = true -> NoDup l.
Proof.
  induction l as [|x l IH]; simpl; intro H; [constructor|].
  apply andb_true_iff in H as [H1 H2]. constructor; [|auto].
  intro Hin. apply memN_in in Hin. rewrite Hin in H1; discriminate.
Qed.

Lemma monob_sound : forall v, monob v = true -> mono v.
Proof.
  induction v as [|e v IH]; simpl; intro H; [exact I|].
  apply andb_true_iff in H as [H1 H2]. split; [|auto].
  intros e' He'. rewrite forallb_forall in H1. apply N.leb_le. apply H1; assumption.
Qed.

Lemma emptyb_sound : forall A (l : list A), emptyb l = true -> l = [].
Proof. destruct l; simpl; [reflexivity|discriminate]. Qed.

Lemma alloc_ok_b_sound : forall s, alloc_ok_b s = true -> alloc_ok s.
Proof.
  intros s H A pa p Ha Hp. unfold alloc_ok_b in H. rewrite forallb_forall in H.
  specialize (H _ Ha). simpl in H. rewrite forallb_forall in H. apply memN_in. auto.
Qed.

Lemma wf_init_b_sound : forall s, wf_init_b s = true -> wf_init s.
Proof.
  intros s H. unfold wf_init_b in H.
  repeat (apply andb_true_iff in H; destruct H as [H ?]).
  constructor.
  - apply N.eqb_eq; assumption.
  - repeat split; apply emptyb_sound; assumption.
  - destruct (list_eq_dec N.eq_dec (g_live s) (map snd (g_pending s) ++ map snd (g_valid s) ++ g_held s)) as [e|]; [|discriminate].
    intro x. rewrite e. unfold cntN. rewrite !count_occ_app. lia.
  - apply monob_sound; assumption.
  - apply nodupb_sound; assumption.
  - intros A pa F pf p Ha Hf Hp Hp'.
    match goal with X : forallb _ (g_alloc s) = true |- _ => rewrite forallb_forall in X; specialize (X _ Ha); simpl in X;
      rewrite forallb_forall in X; specialize (X _ Hf); simpl in X; rewrite forallb_forall in X; specialize (X _ Hp) end.
    apply memN_in in Hp'. rewrite Hp' in *. apply N.ltb_lt; assumption.
  - intros F pf Hf.
    match goal with X : forallb (fun f => N.leb (fst f) (g_last s) || _) _ = true |- _ =>
      rewrite forallb_forall in X; specialize (X _ Hf); simpl in X; apply orb_true_iff in X as [X|X] end;
      [left; apply N.leb_le; assumption | right; apply N.eqb_eq; assumption].
  - intros A pa Ha.
    match goal with X : forallb (fun a => N.leb (fst a) (g_last s) || _) (g_alloc s) = true |- _ =>
      rewrite forallb_forall in X; specialize (X _ Ha); simpl in X; apply orb_true_iff in X as [X|X] end;
      [left; apply N.leb_le; assumption | right; apply N.eqb_eq; assumption].
  - intros r Hr.
    match goal with X : forallb _ (g_live s) = true |- _ => rewrite forallb_forall in X; specialize (X _ Hr) end.
    apply N.leb_le; assumption.
  - apply N.ltb_lt; assumption.
  - intros F pf p Hf Hp.
    match goal with X : forallb (fun f => forallb (fun p => memN p (g_allocated s)) (snd f)) (g_freed s) = true |- _ =>
      rewrite forallb_forall in X; specialize (X _ Hf); simpl in X; rewrite forallb_forall in X end.
    apply memN_in; auto.
  - apply alloc_ok_b_sound; assumption.
Qed.

Corollary epilogue_horizon_safe_checked : forall s0 progs sched, wf_init_b s0 = true ->
  safe s0 (gfinal faithful sched progs s0).
Proof. intros; apply epilogue_horizon_safe; apply wf_init_b_sound; assumption. Qed.

(* ---------------------------------------------------------------- lock order *)
Lemma lock_edges_ranked_true : lock_edges_ranked = true.
Proof. vm_compute. reflexivity. Qed.

Lemma edge_rank : forall a b, holds_while_acquiring a b -> lock_rank a < lock_rank b.
Proof.
  intros a b H. pose proof lock_edges_ranked_true as R. unfold lock_edges_ranked in R.
  rewrite forallb_forall in R. specialize (R _ H). simpl in R. apply N.ltb_lt; assumption.
Qed.

(* no cycle in "holds a while acquiring b" over the transcribed sections (29 chains, 9 mutexes): no deadlock by
   lock-order inversion among them *)
Theorem lock_order_acyclic : forall l, ~ clos_trans lock holds_while_acquiring l l.
Proof.
  assert (P : forall a b, clos_trans lock holds_while_acquiring a b -> lock_rank a < lock_rank b).
  { intros a b H. induction H as [a b H | a b c _ IH1 _ IH2]; [apply edge_rank; assumption | lia]. }
  intros l H. specialize (P l l H). lia.
Qed.
