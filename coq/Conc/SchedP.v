(* Conc/SchedP.v -- proofs about the generic interleaving semantics *)
From Coq Require Import List NArith.
From RV Require Import Conc.Sched.
Import ListNotations.

Section SchedP.
  Variable St Call Step Name Res : Type.
  Variable steps_of : Call -> list Step.
  Variable name_of : Step -> Name.
  Variable exec : nat -> Call -> Step -> St -> option (St * list Step).
  Variable enter : nat -> Call -> St -> St.
  Variable result : nat -> Call -> St -> Res.

  Notation grant := (Sched.grant St Call Step Name Res steps_of name_of exec enter result).
  Notation run := (Sched.run St Call Step Name Res steps_of name_of exec enter result).

  (* a state predicate preserved by every enabled step and by entering a call holds after every schedule *)
  Section Invariant.
    Variable I : St -> Prop.
    Hypothesis Hexec : forall t c x s s' k, I s -> exec t c x s = Some (s', k) -> I s'.
    Hypothesis Henter : forall t c s, I s -> I (enter t c s).

    Lemma grant_inv : forall t p s p' s' e, I s -> grant t p s = Some (p', s', e) -> I s'.
    Proof.
      intros t p s p' s' e Hi H. unfold Sched.grant in H.
      destruct (nth_error p t) as [th|]; [|discriminate].
      destruct (cur th) as [[c [|x rest]]|].
      - discriminate.
      - destruct (exec t c x s) as [[s1 k]|] eqn:E.
        + destruct (after St Call Step Name Res name_of result t c (k ++ rest) (todo th) s1) as [th' e'].
          inversion H; subst. eapply Hexec; eauto.
        + inversion H; subst; assumption.
      - destruct (todo th) as [|c td]; [discriminate|].
        destruct (after St Call Step Name Res name_of result t c (steps_of c) td (enter t c s)) as [th' e'].
        inversion H; subst. apply Henter; assumption.
    Qed.

    Lemma run_inv : forall sched p s, I s -> I (snd (fst (run sched p s))).
    Proof.
      induction sched as [|t sched IH]; intros p s Hi; simpl; [assumption|].
      destruct (grant t p s) as [[[p' s'] e]|] eqn:G.
      - specialize (IH p' s' (grant_inv _ _ _ _ _ _ Hi G)).
        destruct (run sched p' s') as [[pf sf] es]. simpl in *. assumption.
      - apply IH; assumption.
    Qed.
  End Invariant.

  (* the same for a relation between the state before and after (monotone quantities) *)
  Section Monotone.
    Variable R : St -> St -> Prop.
    Hypothesis Rrefl : forall s, R s s.
    Hypothesis Rtrans : forall a b c, R a b -> R b c -> R a c.
    Variable I : St -> Prop.
    Hypothesis Hexec : forall t c x s s' k, I s -> exec t c x s = Some (s', k) -> I s' /\ R s s'.
    Hypothesis Henter : forall t c s, I s -> I (enter t c s) /\ R s (enter t c s).

    Lemma grant_mono : forall t p s p' s' e, I s -> grant t p s = Some (p', s', e) -> I s' /\ R s s'.
    Proof.
      intros t p s p' s' e Hi H. unfold Sched.grant in H.
      destruct (nth_error p t) as [th|]; [|discriminate].
      destruct (cur th) as [[c [|x rest]]|].
      - discriminate.
      - destruct (exec t c x s) as [[s1 k]|] eqn:E.
        + destruct (after St Call Step Name Res name_of result t c (k ++ rest) (todo th) s1) as [th' e'].
          inversion H; subst. eapply Hexec; eauto.
        + inversion H; subst; auto.
      - destruct (todo th) as [|c td]; [discriminate|].
        destruct (after St Call Step Name Res name_of result t c (steps_of c) td (enter t c s)) as [th' e'].
        inversion H; subst. apply Henter; assumption.
    Qed.

    Lemma run_mono : forall sched p s, I s -> I (snd (fst (run sched p s))) /\ R s (snd (fst (run sched p s))).
    Proof.
      induction sched as [|t sched IH]; intros p s Hi; simpl; [auto|].
      destruct (grant t p s) as [[[p' s'] e]|] eqn:G.
      - destruct (grant_mono _ _ _ _ _ _ Hi G) as [Hi' Hr].
        specialize (IH p' s' Hi').
        destruct (run sched p' s') as [[pf sf] es]. simpl in *. destruct IH; split; eauto.
      - apply IH; assumption.
    Qed.
  End Monotone.

  (* splitting a schedule: running a ++ b is running a, then b from where a stopped *)
  Lemma run_app : forall a b p s,
    run (a ++ b) p s =
    let '(p1, s1, e1) := run a p s in let '(p2, s2, e2) := run b p1 s1 in (p2, s2, e1 ++ e2).
  Proof.
    induction a as [|t a IH]; intros b p s; simpl.
    - destruct (run b p s) as [[p2 s2] e2]; reflexivity.
    - destruct (grant t p s) as [[[p' s'] e]|].
      + rewrite IH. destruct (run a p' s') as [[p1 s1] e1]. destruct (run b p1 s1) as [[p2 s2] e2]. reflexivity.
      + apply IH.
  Qed.
End SchedP.
