(* Conc/ProgramsP.v -- proofs about the step model of redb's transaction machinery *)
From Coq Require Import List NArith Bool String Lia.
From RV Require Import Conc.Sched Conc.SchedP Conc.Programs.
Import ListNotations.
Open Scope N_scope.

(* ---------------------------------------------------------------- tactics *)
Ltac inv H := inversion H; subst; clear H.

(* break an [exec ... = Some _] hypothesis into one goal per enabled step *)
Ltac break_match_hyp H :=
  match type of H with
  | context [match ?x with _ => _ end] =>
    let E := fresh "E" in destruct x eqn:E; try discriminate H
  | context [if ?x then _ else _] =>
    let E := fresh "E" in destruct x eqn:E; try discriminate H
  end.
Ltac exec_inv H :=
  unfold exec, with_writer, any_writer, guard, ok in H;
  repeat (break_match_hyp H);
  try (inversion H; subst; clear H).

(* ---------------------------------------------------------------- containers *)
Lemma aget_aset_same : forall A k (v : A) l, aget k (aset k v l) = Some v.
Proof. intros. unfold aset. simpl. rewrite N.eqb_refl. reflexivity. Qed.

Lemma aget_adel_same : forall A k (l : list (N * A)), aget k (adel k l) = None.
Proof.
  induction l as [|[k' v] l IH]; simpl; [reflexivity|].
  destruct (N.eqb k k') eqn:E; [assumption|]. simpl. rewrite E. assumption.
Qed.

Lemma aget_adel_other : forall A k k' (l : list (N * A)), k <> k' -> aget k (adel k' l) = aget k l.
Proof.
  induction l as [|[k2 v] l IH]; intros Hne; simpl; [reflexivity|].
  destruct (N.eqb k' k2) eqn:E.
  - apply N.eqb_eq in E. subst. destruct (N.eqb k k2) eqn:E2; [apply N.eqb_eq in E2; congruence|]. auto.
  - simpl. destruct (N.eqb k k2); auto.
Qed.

Lemma aget_aset_other : forall A k k' (v : A) l, k <> k' -> aget k (aset k' v l) = aget k l.
Proof.
  intros. unfold aset. simpl. destruct (N.eqb k k') eqn:E; [apply N.eqb_eq in E; congruence|].
  apply aget_adel_other; assumption.
Qed.

(* ================================================================ single writer *)
(* the write slot and the set of write-transaction handles agree, and there is at most one handle *)
Definition slot_inv (s : st) : Prop :=
  match live_write s with
  | None => writers s = []
  | Some id => exists k w, writers s = [(k, w)] /\ w_id w = id
  end.

Lemma slot_inv_put : forall t s w w', slot_inv s -> my_writer t s = Some w -> w_id w' = w_id w ->
  live_write (put_writer t w' s) = live_write s /\ slot_inv (put_writer t w' s).
Proof.
  intros t s w w' Hi Hm Hid. split; [reflexivity|].
  unfold slot_inv in *. unfold put_writer, set_writers; simpl.
  unfold my_writer in Hm.
  destruct (live_write s) as [id|].
  - destruct Hi as (k & w0 & Hw & Hid0). rewrite Hw in *. simpl in Hm.
    destruct (N.eqb (tkey t) k) eqn:E; [|discriminate]. inv Hm.
    exists (tkey t), w'. unfold aset. simpl. rewrite E. split; [reflexivity|congruence].
  - rewrite Hi in Hm. discriminate.
Qed.

Lemma slot_inv_frame : forall s s', live_write s' = live_write s -> writers s' = writers s -> slot_inv s -> slot_inv s'.
Proof. unfold slot_inv. intros s s' H1 H2. rewrite H1, H2. auto. Qed.

Ltac slot_put :=
  match goal with
  | Hi : slot_inv ?s0, Hm : my_writer ?t ?s = Some ?w |- slot_inv (put_writer ?t ?w' ?s) =>
    eapply (proj2 (slot_inv_put t s w w' _ Hm _))
  end.

Lemma add_entry_frame : forall w s,
  live_write (add_entry w s) = live_write s /\ writers (add_entry w s) = writers s.
Proof. intros. unfold add_entry. destruct (w_tag w); split; reflexivity. Qed.

Lemma my_writer_single : forall t s w, slot_inv s -> my_writer t s = Some w ->
  writers s = [(tkey t, w)] /\ live_write s = Some (w_id w).
Proof.
  intros t s w Hi Hm. unfold slot_inv, my_writer in *.
  destruct (live_write s) as [id|].
  - destruct Hi as (k & w0 & Hw & Hid). rewrite Hw in *. simpl in Hm.
    destruct (N.eqb (tkey t) k) eqn:E; [|discriminate]. inv Hm. apply N.eqb_eq in E. subst. auto.
  - rewrite Hi in Hm. discriminate.
Qed.

Ltac slot_step :=
  match goal with
  | Hi : slot_inv ?s |- slot_inv _ =>
    first
    [ eapply slot_inv_frame; [| |exact Hi]; reflexivity
    | match goal with
      | Hm : my_writer ?t s = Some ?w |- slot_inv (put_writer ?t ?w' (add_entry ?w s)) =>
        apply (proj2 (slot_inv_put t (add_entry w s) w w'
                ltac:(eapply slot_inv_frame; [apply add_entry_frame|apply add_entry_frame|exact Hi])
                ltac:(unfold my_writer in *; rewrite (proj2 (add_entry_frame w s)); exact Hm) ltac:(reflexivity)))
      | Hm : my_writer ?t s = Some ?w |- slot_inv (put_writer ?t ?w' ?s1) =>
        apply (proj2 (slot_inv_put t s1 w w' ltac:(eapply slot_inv_frame; [| |exact Hi]; reflexivity)
                                   ltac:(exact Hm) ltac:(reflexivity)))
      | Hm : my_writer ?t s = Some ?w |- _ =>
        let Hws := fresh in let Hlw := fresh in
        destruct (my_writer_single t s w Hi Hm) as [Hws Hlw];
        unfold slot_inv; simpl; rewrite ?Hws; simpl; rewrite ?N.eqb_refl; reflexivity
      end ]
  end.

Lemma exec_slot_inv : forall t c x s s' k, slot_inv s -> exec t c x s = Some (s', k) -> slot_inv s'.
Proof.
  intros t c x s s' k Hi H.
  destruct x; exec_inv H; try slot_step.
  - (* T.start_write *)
    unfold slot_inv in *. rewrite E in Hi. simpl. unfold put_writer, set_writers; simpl. rewrite Hi.
    eexists _, _. split; reflexivity.
  - (* T.defer_close with a live writer *)
    unfold slot_inv in *. simpl. rewrite E0 in *. exact Hi.
Qed.

Lemma enter_slot_inv : forall t c s, slot_inv s -> slot_inv (enter t c s).
Proof.
  intros t c s Hi. destruct c; simpl; try assumption.
  destruct (my_writer t s) as [w|] eqn:Hm; [|assumption].
  slot_step.
Qed.

Lemma init_slot_inv : slot_inv init.
Proof. reflexivity. Qed.

Definition final (sched : list nat) (progs : list (list call)) : st :=
  snd (fst (prun sched (pstart progs) init)).

Lemma slot_inv_reachable : forall sched progs, slot_inv (final sched progs).
Proof.
  intros. unfold final, prun.
  apply (run_inv st call step string res steps_of name_of exec enter result slot_inv exec_slot_inv enter_slot_inv).
  exact init_slot_inv.
Qed.

(* At most one thread holds a write transaction, in every state reachable under any schedule of any programs *)
Theorem single_writer : forall sched progs t1 t2 w1 w2,
  my_writer t1 (final sched progs) = Some w1 -> my_writer t2 (final sched progs) = Some w2 -> t1 = t2.
Proof.
  intros sched progs t1 t2 w1 w2 H1 H2.
  pose proof (slot_inv_reachable sched progs) as Hi.
  destruct (my_writer_single _ _ _ Hi H1) as [Ha _].
  destruct (my_writer_single _ _ _ Hi H2) as [Hb _].
  rewrite Ha in Hb. inv Hb. unfold tkey in *. apply Nnat.Nat2N.inj. assumption.
Qed.

(* the slot is held exactly while a handle exists; begin_write's first step is enabled only when it is free *)
Theorem write_slot_matches_handles : forall sched progs,
  let s := final sched progs in
  (live_write s = None <-> writers s = []).
Proof.
  intros. pose proof (slot_inv_reachable sched progs) as Hi. fold s in Hi. unfold slot_inv in Hi.
  destruct (live_write s); split; intro H; try discriminate; auto.
  destruct Hi as (k & w & Hw & _). rewrite Hw in H. discriminate.
Qed.
