(* Conc/Sched.v -- generic interleaving semantics (definitions only; proofs in SchedP.v).

   A thread runs a list of CALLS.  A call expands to a list of atomic STEPS (one per lock-protected
   section of the code); executing a step may be impossible (the thread is blocked), and otherwise
   yields the next shared state and possibly more steps of the same call (a continuation, used for
   work that is handed to the thread at run time, e.g. a deferred close).  A SCHEDULE is a list of
   thread indices ("grants").  One grant lets the named thread do one thing:
     - if it is between calls: enter its next call (no shared effect) and stop before the call's first step
       (a call without steps completes at once);
     - otherwise: execute the next step of the call in progress, or stay put if that step is blocked.
   Every grant produces an event; a grant to a thread that has nothing left to do is void. *)
From Coq Require Import List NArith.
Import ListNotations.

Section Sched.
  Variable St : Type.
  Variable Call : Type.
  Variable Step : Type.
  Variable Name : Type.
  Variable Res : Type.
  Variable steps_of : Call -> list Step.
  Variable name_of : Step -> Name.
  (* exec t c s st = None: blocked;  Some (st', k): new state and continuation steps *)
  Variable exec : nat -> Call -> Step -> St -> option (St * list Step).
  (* effect of entering a call that has no steps / result reported when a call completes *)
  Variable enter : nat -> Call -> St -> St.
  Variable result : nat -> Call -> St -> Res.

  Inductive event :=
  | EAt (n : Name)        (* stopped before the step called n *)
  | EBlocked              (* the step is not enabled; nothing happened *)
  | EDone (r : Res).      (* the call returned r *)

  Record thread := { cur : option (Call * list Step); todo : list Call }.

  Definition pool := list thread.

  Fixpoint set_nth {A} (i : nat) (x : A) (l : list A) : list A :=
    match l, i with
    | [], _ => []
    | _ :: r, O => x :: r
    | y :: r, S j => y :: set_nth j x r
    end.

  Definition after (t : nat) (c : Call) (rest : list Step) (td : list Call) (st : St) : thread * event :=
    match rest with
    | [] => ({| cur := None; todo := td |}, EDone (result t c st))
    | s :: _ => ({| cur := Some (c, rest); todo := td |}, EAt (name_of s))
    end.

  (* one grant to thread t *)
  Definition grant (t : nat) (p : pool) (st : St) : option (pool * St * event) :=
    match nth_error p t with
    | None => None
    | Some th =>
      match cur th with
      | None =>
        match todo th with
        | [] => None
        | c :: td =>
          let st' := enter t c st in
          let '(th', e) := after t c (steps_of c) td st' in
          Some (set_nth t th' p, st', e)
        end
      | Some (c, []) => None   (* unreachable: a call without remaining steps is never left in progress *)
      | Some (c, s :: rest) =>
        match exec t c s st with
        | None => Some (p, st, EBlocked)
        | Some (st', k) =>
          let '(th', e) := after t c (k ++ rest) (todo th) st' in
          Some (set_nth t th' p, st', e)
        end
      end
    end.

  Fixpoint run (sched : list nat) (p : pool) (st : St) : pool * St * list (nat * event) :=
    match sched with
    | [] => (p, st, [])
    | t :: sched' =>
      match grant t p st with
      | None => run sched' p st
      | Some (p', st', e) =>
        let '(pf, sf, es) := run sched' p' st' in (pf, sf, (t, e) :: es)
      end
    end.

  Definition start (progs : list (list Call)) : pool :=
    map (fun cs => {| cur := None; todo := cs |}) progs.
End Sched.

Arguments EAt {Name Res}.
Arguments EBlocked {Name Res}.
Arguments EDone {Name Res}.
Arguments cur {Call Step}.
Arguments todo {Call Step}.
