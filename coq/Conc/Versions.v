(* Conc/Versions.v -- an abstract version store for C02 (definitions only; proofs in VersionsP.v).

   Pages are abstract ids.  Every committed version has the set of pages reachable from its roots.
   A durable commit is copy-on-write: it writes only freshly allocated pages (`adds`, which the allocator
   must take from the free set -- property C14), drops some pages of the version it started from
   (`drops`), records the dropped pages under its own transaction id, and then releases the records
   that the free horizon allows: horizon = oldest pinned version + 1, or its own id when nothing is
   pinned -- once before publication and once more in the epilogue (own id + 1 when nothing is pinned).
   A pin is what begin_read / a savepoint / an owned guard holds: the id registered with the tracker.
   By C03 (reader_id_le_root) the version a reader actually reads is >= its pin, so the theorem
   protects every version from the pin upwards.
   Not modelled: non-durable commits (their early reclaim is where finding F1 lives), savepoint restore. *)
From Coq Require Import List NArith Bool.
Import ListNotations.
Open Scope N_scope.

Definition mem (x : N) (l : list N) : bool := existsb (N.eqb x) l.
Definition minus (a b : list N) : list N := filter (fun x => negb (mem x b)) a.
Fixpoint vget (k : N) (l : list (N * list N)) : list N :=
  match l with [] => [] | (k', v) :: r => if N.eqb k k' then v else vget k r end.
Fixpoint rm_one (x : N) (l : list N) : list N :=
  match l with [] => [] | y :: r => if N.eqb x y then r else y :: rm_one x r end.
Fixpoint least (l : list N) : option N :=
  match l with [] => None | x :: r => match least r with None => Some x | Some m => Some (N.min x m) end end.

Record vst := {
  v_alloc : list N;                (* allocated pages *)
  v_reach : list (N * list N);     (* committed version -> its reachable pages; newest first *)
  v_latest : N;
  v_freed : list (N * list N);     (* pending-free records: transaction -> pages it made unreachable *)
  v_pins : list N;                 (* multiset of pinned transaction ids *)
  v_stamp : list (N * N)           (* page -> transaction that last wrote it (ghost) *)
}.

Inductive vop :=
| VBeginRead                       (* pin the latest version *)
| VDropRead (v : N)                (* release one pin of v *)
| VCommit (adds drops : list N)    (* durable commit *)
| VAbort (adds : list N).          (* allocate, write, roll back *)

Definition reach (s : vst) (v : N) : list N := vget v (v_reach s).

(* release every record with key < h *)
Definition release (h : N) (s : vst) : vst :=
  let gone := flat_map snd (filter (fun r => N.ltb (fst r) h) (v_freed s)) in
  {| v_alloc := minus (v_alloc s) gone; v_reach := v_reach s; v_latest := v_latest s;
     v_freed := filter (fun r => negb (N.ltb (fst r) h)) (v_freed s); v_pins := v_pins s; v_stamp := v_stamp s |}.

Definition disjoint (a b : list N) : bool := forallb (fun x => negb (mem x b)) a.
Definition subset (a b : list N) : bool := forallb (fun x => mem x b) a.

Definition restamp (id : N) (adds : list N) (st : list (N * N)) : list (N * N) :=
  map (fun p => (p, id)) adds ++ st.

(* None = the operation is not possible in this state (its guard fails) *)
Definition vstep (o : vop) (s : vst) : option vst :=
  match o with
  | VBeginRead =>
    Some {| v_alloc := v_alloc s; v_reach := v_reach s; v_latest := v_latest s; v_freed := v_freed s;
            v_pins := v_latest s :: v_pins s; v_stamp := v_stamp s |}
  | VDropRead v =>
    if mem v (v_pins s) then
      Some {| v_alloc := v_alloc s; v_reach := v_reach s; v_latest := v_latest s; v_freed := v_freed s;
              v_pins := rm_one v (v_pins s); v_stamp := v_stamp s |}
    else None
  | VAbort adds =>
    (* the pages come from the free set, are written, and go back to the free set: nothing committed changes *)
    if disjoint adds (v_alloc s) then Some s else None
  | VCommit adds drops =>
    if disjoint adds (v_alloc s) && subset drops (reach s (v_latest s)) then
      let id := v_latest s + 1 in
      (* in a history nothing observes the state between the first reclaim and the publication, so the
         publication is modelled first; both reclaims use the pins as they are (the code reads the oldest
         live read twice, here nothing can change in between) *)
      let s1 := {| v_alloc := adds ++ v_alloc s;
                   v_reach := (id, adds ++ minus (reach s (v_latest s)) drops) :: v_reach s;
                   v_latest := id;
                   v_freed := (id, drops) :: v_freed s; v_pins := v_pins s;
                   v_stamp := restamp id adds (v_stamp s) |} in
      let h1 := match least (v_pins s) with Some o => o + 1 | None => id end in
      let h2 := match least (v_pins s) with Some o => o + 1 | None => id + 1 end in
      Some (release h2 (release h1 s1))
    else None
  end.

Fixpoint vrun (ops : list vop) (s : vst) : option vst :=
  match ops with
  | [] => Some s
  | o :: r => match vstep o s with Some s' => vrun r s' | None => None end
  end.

Definition vinit : vst :=
  {| v_alloc := [1]; v_reach := [(1, [1])]; v_latest := 1; v_freed := []; v_pins := []; v_stamp := [(1, 1)] |}.

Fixpoint sget (p : N) (l : list (N * N)) : option N :=
  match l with [] => None | (k, v) :: r => if N.eqb p k then Some v else sget p r end.
