(* Conc/Shared.v -- one WriteTransaction used from several threads (C16; definitions only).

   Threads open DIFFERENT tables of one write transaction, run their own operation streams on them, and
   other threads call ephemeral_savepoint() / persistent_savepoint() / drop Savepoints / list tables / ask for
   stats / delete tables meanwhile.  Shared between them: the `tables` mutex (catalog + dirty flag transitions),
   the dirty flag, the allocation-tracking switch of the transaction's PageTracker, the tracker's valid
   savepoints, the page allocator, the `freed_pages` mutex with the transaction-wide list of replaced committed
   pages behind it, and the `system_tables` mutex.
   A LOG is a list of (thread, label): `LEnter c` = the thread starts call c and runs to its first pause
   point, `LSec n` = it runs the section that begins at pause point n.  `sstep` is partial: a label that the
   code could not execute in that state (mutex held by another thread, wrong call) has no successor;
   `sblocked` tells the steps that are missing because a MUTEX is held (the thread sleeps until it is released).

   Table operations.  `SPut` / `SDel` are single steps without page effects (the schedules that do not stop inside a
   table operation).  `SOp tb e secs` is a table operation with its effect `e` on the table's contents and its
   freed_pages sections, in code order: (true, r) = r committed pages replaced by copy-on-write, queued in the table's
   scratch list `local_freed` and MERGED into the transaction-wide list under the mutex (merge_freed_pages: pause point
   F.merge, then lock; append; unlock); (false, n) = n pages pushed directly under the mutex (get_mut / and_modify:
   one page per tree level; MultimapValue::drop, multimap remove, extract_if: one batch; pause points F.x before the
   lock and F.x.locked inside).  Which pages an operation replaces is the operation's business (the B-tree): here it
   takes them from the front of the table's committed pages.  `SDelete tb rm b`: delete_table under the tables mutex --
   set_dirty, the catalog entry removed (rm catalog pages replaced, merged), the table's b committed pages pushed.
   `SHold k`: a call that takes the tables mutex (k = 0: list_tables, list_multimap_tables, an open_table that fails),
   tables then system_tables (k = 1: stats) or system_tables only (k >= 2: list_persistent_savepoints) and does NOT
   make the transaction dirty.

   Seeded variants (flags in the state, false in every initial state the theorems speak about):
   s_try_merge = merge_freed_pages gives up when the mutex is busy (try_lock; the pages stay in the scratch list);
   s_try_esp = ephemeral_savepoint() takes a busy tables mutex for a dirty transaction (try_lock; InvalidSavepoint). *)
From Coq Require Import List NArith Bool.
Import ListNotations.
Open Scope N_scope.

Inductive effect := ENone | EPut (k v : N) | EDel (k : N) | EDelRange (lo hi : N).

Inductive scall :=
| SOpen (tb : N) | SPut (tb k v : N) | SDel (tb k : N) | SClose (tb : N)
| SSavepoint (h : N) | SDropSavepoint (h : N)
| SOp (tb : N) (e : effect) (secs : list (bool * N))
| SHold (k : N)
| SDelete (tb rm b : N).

Inductive sname :=
| NSetDirty | NSetDirtyStored | NAnySavepoint                    (* open_table, delete_table: set_dirty *)
| NEsp | NEspLocked | NRegisterRead | NAllocSavepoint | NEspUnlocked | NGetDataRoot | NGetVersion  (* ephemeral_savepoint *)
| NDeallocSavepoint | NDeallocRead                               (* Savepoint::drop *)
| NPspSys | NPspSysLocked                                        (* persistent_savepoint: the record, under system_tables *)
| NMerge | NFreedPre | NFreedLocked                              (* freed_pages sections of a table operation *)
| NHold | NHoldSys.                                              (* inside the tables / system_tables section of a non-dirtying call *)

Scheme Equality for sname.

Inductive slabel := LEnter (c : scall) | LSec (n : sname).

Inductive sres := SOk | SErrDirty | SErrOpen.

Record table := {
  tb_map : list (N * N);
  tb_pages : list N;                  (* pages allocated for the table by this transaction *)
  tb_owner : option nat;
  tb_committed : list N;              (* committed pages still linked into the table's tree *)
  tb_local : list N;                  (* BtreeMut::local_freed between operations (empty in the code as it is) *)
  tb_todo : list (bool * list N)      (* the freed_pages sections the operation in progress still has to run, with their pages *)
}.

Record sst := {
  s_dirty : bool;
  s_tracking : bool;                  (* PageTracker state Track (true) / Ignore (false) *)
  s_lock : option nat;                (* holder of the `tables` mutex *)
  s_valid : list N;                   (* tracker.valid_savepoints (ids) *)
  s_next_sp : N;
  s_pins : list N;                    (* tracker.live_read_transactions as a multiset of ids *)
  s_base : N;                         (* the transaction id savepoints of this transaction pin *)
  s_tables : list (N * table);
  s_next_page : N;                    (* the allocator: hands out each page id once (C14) *)
  s_tracked : list N;                 (* pages recorded by the PageTracker while tracking *)
  s_at : list (nat * (scall * option sname));   (* thread -> call in progress and the pause point it waits at *)
  s_handles : list (N * N);           (* savepoint handle -> savepoint id *)
  s_results : list (nat * scall * sres);        (* completed calls, newest first *)
  s_flock : option nat;               (* holder of the `freed_pages` mutex *)
  s_syslock : option nat;             (* holder of the `system_tables` mutex *)
  s_freed : list N;                   (* the transaction-wide list of replaced committed pages (DATA_FREED at commit) *)
  s_replaced : list N;                (* ghost: every committed page an operation has replaced so far, in order *)
  s_try_merge : bool;
  s_try_esp : bool
}.

Fixpoint tget (k : N) (l : list (N * table)) : option table :=
  match l with [] => None | (k', v) :: r => if N.eqb k k' then Some v else tget k r end.
Fixpoint tset (k : N) (v : table) (l : list (N * table)) : list (N * table) :=
  match l with
  | [] => [(k, v)]
  | (k', v') :: r => if N.eqb k k' then (k, v) :: r else (k', v') :: tset k v r
  end.
Fixpoint nget {A} (t : nat) (l : list (nat * A)) : option A :=
  match l with [] => None | (t', v) :: r => if Nat.eqb t t' then Some v else nget t r end.
Fixpoint ndel {A} (t : nat) (l : list (nat * A)) : list (nat * A) :=
  match l with [] => [] | (t', v) :: r => if Nat.eqb t t' then ndel t r else (t', v) :: ndel t r end.
Fixpoint mput (k v : N) (m : list (N * N)) : list (N * N) :=
  match m with
  | [] => [(k, v)]
  | (k', v') :: r => if N.eqb k k' then (k, v) :: r else if N.ltb k k' then (k, v) :: m else (k', v') :: mput k v r
  end.
Fixpoint mdel (k : N) (m : list (N * N)) : list (N * N) :=
  match m with [] => [] | (k', v') :: r => if N.eqb k k' then r else (k', v') :: mdel k r end.
Definition mdelrange (lo hi : N) (m : list (N * N)) : list (N * N) :=
  filter (fun e => negb (N.leb lo (fst e) && N.ltb (fst e) hi)) m.
Fixpoint hget (k : N) (l : list (N * N)) : option N :=
  match l with [] => None | (k', v) :: r => if N.eqb k k' then Some v else hget k r end.
Fixpoint rm1 (x : N) (l : list N) : list N :=
  match l with [] => [] | y :: r => if N.eqb x y then r else y :: rm1 x r end.

(* ---------------------------------------------------------------- setters *)
Definition mk (s : sst) dirty tracking lock valid nsp pins tables npage tracked at_ handles results flock syslock freed replaced : sst :=
  {| s_dirty := dirty; s_tracking := tracking; s_lock := lock; s_valid := valid; s_next_sp := nsp; s_pins := pins;
     s_base := s_base s; s_tables := tables; s_next_page := npage; s_tracked := tracked; s_at := at_;
     s_handles := handles; s_results := results; s_flock := flock; s_syslock := syslock; s_freed := freed;
     s_replaced := replaced; s_try_merge := s_try_merge s; s_try_esp := s_try_esp s |}.
Definition set_at (s : sst) (t : nat) (c : scall) (n : option sname) : sst :=
  mk s (s_dirty s) (s_tracking s) (s_lock s) (s_valid s) (s_next_sp s) (s_pins s) (s_tables s) (s_next_page s)
     (s_tracked s) ((t, (c, n)) :: ndel t (s_at s)) (s_handles s) (s_results s) (s_flock s) (s_syslock s) (s_freed s) (s_replaced s).
Definition finish (s : sst) (t : nat) (c : scall) (r : sres) : sst :=
  mk s (s_dirty s) (s_tracking s) (s_lock s) (s_valid s) (s_next_sp s) (s_pins s) (s_tables s) (s_next_page s)
     (s_tracked s) (ndel t (s_at s)) (s_handles s) ((t, c, r) :: s_results s) (s_flock s) (s_syslock s) (s_freed s) (s_replaced s).
Definition set_dirty (s : sst) (b : bool) : sst :=
  mk s b (s_tracking s) (s_lock s) (s_valid s) (s_next_sp s) (s_pins s) (s_tables s) (s_next_page s)
     (s_tracked s) (s_at s) (s_handles s) (s_results s) (s_flock s) (s_syslock s) (s_freed s) (s_replaced s).
Definition set_tracking (s : sst) (b : bool) : sst :=
  mk s (s_dirty s) b (s_lock s) (s_valid s) (s_next_sp s) (s_pins s) (s_tables s) (s_next_page s)
     (s_tracked s) (s_at s) (s_handles s) (s_results s) (s_flock s) (s_syslock s) (s_freed s) (s_replaced s).
Definition set_lock (s : sst) (l : option nat) : sst :=
  mk s (s_dirty s) (s_tracking s) l (s_valid s) (s_next_sp s) (s_pins s) (s_tables s) (s_next_page s)
     (s_tracked s) (s_at s) (s_handles s) (s_results s) (s_flock s) (s_syslock s) (s_freed s) (s_replaced s).
Definition set_flock (s : sst) (l : option nat) : sst :=
  mk s (s_dirty s) (s_tracking s) (s_lock s) (s_valid s) (s_next_sp s) (s_pins s) (s_tables s) (s_next_page s)
     (s_tracked s) (s_at s) (s_handles s) (s_results s) l (s_syslock s) (s_freed s) (s_replaced s).
Definition set_syslock (s : sst) (l : option nat) : sst :=
  mk s (s_dirty s) (s_tracking s) (s_lock s) (s_valid s) (s_next_sp s) (s_pins s) (s_tables s) (s_next_page s)
     (s_tracked s) (s_at s) (s_handles s) (s_results s) (s_flock s) l (s_freed s) (s_replaced s).
Definition set_tables (s : sst) (tb : list (N * table)) : sst :=
  mk s (s_dirty s) (s_tracking s) (s_lock s) (s_valid s) (s_next_sp s) (s_pins s) tb (s_next_page s)
     (s_tracked s) (s_at s) (s_handles s) (s_results s) (s_flock s) (s_syslock s) (s_freed s) (s_replaced s).
Definition set_freed (s : sst) (f : list N) : sst :=
  mk s (s_dirty s) (s_tracking s) (s_lock s) (s_valid s) (s_next_sp s) (s_pins s) (s_tables s) (s_next_page s)
     (s_tracked s) (s_at s) (s_handles s) (s_results s) (s_flock s) (s_syslock s) f (s_replaced s).
Definition set_replaced (s : sst) (r : list N) : sst :=
  mk s (s_dirty s) (s_tracking s) (s_lock s) (s_valid s) (s_next_sp s) (s_pins s) (s_tables s) (s_next_page s)
     (s_tracked s) (s_at s) (s_handles s) (s_results s) (s_flock s) (s_syslock s) (s_freed s) r.
(* one page from the allocator, recorded by the PageTracker while it tracks *)
Definition alloc_page (s : sst) : sst :=
  mk s (s_dirty s) (s_tracking s) (s_lock s) (s_valid s) (s_next_sp s) (s_pins s) (s_tables s) (s_next_page s + 1)
     (if s_tracking s then s_next_page s :: s_tracked s else s_tracked s) (s_at s) (s_handles s) (s_results s)
     (s_flock s) (s_syslock s) (s_freed s) (s_replaced s).
Definition set_savepoints (s : sst) valid nsp pins handles : sst :=
  mk s (s_dirty s) (s_tracking s) (s_lock s) valid nsp pins (s_tables s) (s_next_page s)
     (s_tracked s) (s_at s) handles (s_results s) (s_flock s) (s_syslock s) (s_freed s) (s_replaced s).

Definition lock_free (s : sst) : bool := match s_lock s with None => true | Some _ => false end.
Definition holds (s : sst) (t : nat) : bool := match s_lock s with Some t' => Nat.eqb t t' | None => false end.
Definition flock_free (s : sst) : bool := match s_flock s with None => true | Some _ => false end.
Definition fholds (s : sst) (t : nat) : bool := match s_flock s with Some t' => Nat.eqb t t' | None => false end.
Definition sys_free (s : sst) : bool := match s_syslock s with None => true | Some _ => false end.
Definition sholds (s : sst) (t : nat) : bool := match s_syslock s with Some t' => Nat.eqb t t' | None => false end.
Definition empty_table : table :=
  {| tb_map := []; tb_pages := []; tb_owner := None; tb_committed := []; tb_local := []; tb_todo := [] |}.
Definition owner_is (tbl : table) (t : nat) : bool := match tb_owner tbl with Some o => Nat.eqb o t | None => false end.
Definition with_owner (tbl : table) (o : option nat) : table :=
  {| tb_map := tb_map tbl; tb_pages := tb_pages tbl; tb_owner := o; tb_committed := tb_committed tbl;
     tb_local := tb_local tbl; tb_todo := tb_todo tbl |}.
Definition with_map (tbl : table) (m : list (N * N)) : table :=
  {| tb_map := m; tb_pages := tb_pages tbl; tb_owner := tb_owner tbl; tb_committed := tb_committed tbl;
     tb_local := tb_local tbl; tb_todo := tb_todo tbl |}.
Definition with_pages (tbl : table) (p : list N) : table :=
  {| tb_map := tb_map tbl; tb_pages := p; tb_owner := tb_owner tbl; tb_committed := tb_committed tbl;
     tb_local := tb_local tbl; tb_todo := tb_todo tbl |}.
Definition with_free (tbl : table) (comm local : list N) (todo : list (bool * list N)) : table :=
  {| tb_map := tb_map tbl; tb_pages := tb_pages tbl; tb_owner := tb_owner tbl; tb_committed := comm;
     tb_local := local; tb_todo := todo |}.

Definition is_persistent (h : N) : bool := N.leb 500 h && N.ltb h 900.
Definition master : N := 0.              (* the catalog (master table) as a table of the model: only its pages matter *)

Definition apply_effect (e : effect) (m : list (N * N)) : list (N * N) :=
  match e with ENone => m | EPut k v => mput k v m | EDel k => mdel k m | EDelRange lo hi => mdelrange lo hi m end.
Definition is_put (e : effect) : bool := match e with EPut _ _ => true | _ => false end.

(* the pages of the sections, in order, from the front of the committed pages *)
Fixpoint take_secs (secs : list (bool * N)) (comm : list N) : list (bool * list N) * list N :=
  match secs with
  | [] => ([], comm)
  | (m, n) :: r =>
    let '(rest, comm') := take_secs r (skipn (N.to_nat n) comm) in ((m, firstn (N.to_nat n) comm) :: rest, comm')
  end.
Definition pages_of_todo (todo : list (bool * list N)) : list N := flat_map snd todo.

(* where a table operation goes after its body / after a section *)
Definition continue_op (s : sst) (t : nat) (c : scall) (todo : list (bool * list N)) : sst :=
  match todo with
  | [] => finish s t c SOk
  | (true, _) :: _ => set_at s t c (Some NMerge)
  | (false, _) :: _ => set_at s t c (Some NFreedPre)
  end.

(* ---------------------------------------------------------------- entering a call *)
Definition step_enter (t : nat) (c : scall) (s : sst) : option sst :=
  match c with
  | SOpen tb =>
    (* WriteTransaction::open_table takes the tables mutex before anything else; inner_open *)
    if lock_free s then
      let tbl := match tget tb (s_tables s) with Some x => x | None => empty_table end in
      match tb_owner tbl with
      | Some _ => Some (finish s t c SErrOpen)       (* TableAlreadyOpen; the mutex is released again *)
      | None => Some (set_at (set_lock (set_tables s (tset tb (with_owner tbl (Some t)) (s_tables s))) (Some t)) t c (Some NSetDirty))
      end
    else None
  | SPut tb k v =>
    match tget tb (s_tables s) with
    | Some tbl =>
      if owner_is tbl t then
        let p := s_next_page s in
        Some (finish (alloc_page (set_tables s (tset tb (with_pages (with_map tbl (mput k v (tb_map tbl))) (p :: tb_pages tbl)) (s_tables s)))) t c SOk)
      else None
    | None => None
    end
  | SDel tb k =>
    match tget tb (s_tables s) with
    | Some tbl =>
      if owner_is tbl t then Some (finish (set_tables s (tset tb (with_map tbl (mdel k (tb_map tbl))) (s_tables s))) t c SOk)
      else None
    | None => None
    end
  | SOp tb e secs =>
    match tget tb (s_tables s) with
    | Some tbl =>
      if owner_is tbl t then
        let '(todo, comm') := take_secs secs (tb_committed tbl) in
        let p := s_next_page s in
        let tbl1 := with_free (with_map tbl (apply_effect e (tb_map tbl))) comm' (tb_local tbl) (tb_todo tbl ++ todo) in
        let tbl2 := if is_put e then with_pages tbl1 (p :: tb_pages tbl) else tbl1 in
        let s1 := set_replaced (set_tables s (tset tb tbl2 (s_tables s))) (s_replaced s ++ pages_of_todo todo) in
        let s2 := if is_put e then alloc_page s1 else s1 in
        Some (continue_op s2 t c (tb_todo tbl ++ todo))
      else None
    | None => None
    end
  | SClose tb =>
    (* dropping the table handle: close_table under the tables mutex; whatever is still in the scratch list dies with it *)
    if lock_free s then
      match tget tb (s_tables s) with
      | Some tbl =>
        if owner_is tbl t then
          Some (finish (set_tables s (tset tb (with_free (with_owner tbl None) (tb_committed tbl) [] (tb_todo tbl)) (s_tables s))) t c SOk)
        else None
      | None => None
      end
    else None
  | SSavepoint _ => Some (set_at s t c (Some NEsp))
  | SDropSavepoint h =>
    match hget h (s_handles s) with
    | Some _ => Some (set_at s t c (Some NDeallocSavepoint))
    | None => None
    end
  | SHold k =>
    if N.leb k 1 then
      if lock_free s then Some (set_at (set_lock s (Some t)) t c (Some NHold)) else None
    else
      if sys_free s then Some (set_at (set_syslock s (Some t)) t c (Some NHoldSys)) else None
  | SDelete tb rm b =>
    (* delete_table of a table nobody has open, under the tables mutex for the whole call *)
    if lock_free s then
      match tget tb (s_tables s), tget master (s_tables s) with
      | Some tbl, Some mt =>
        match tb_owner tbl with
        | Some _ => None
        | None =>
          if N.eqb tb master then None else
          let mps := firstn (N.to_nat rm) (tb_committed mt) in
          let bps := firstn (N.to_nat b) (tb_committed tbl) in
          let todo := (match mps with [] => [] | _ => [(true, mps)] end) ++ [(false, bps)] in
          let tabs1 := tset master (with_free mt (skipn (N.to_nat rm) (tb_committed mt)) (tb_local mt) (tb_todo mt)) (s_tables s) in
          let tabs2 := tset tb (with_free (with_pages (with_map tbl []) []) (skipn (N.to_nat b) (tb_committed tbl)) (tb_local tbl) (tb_todo tbl ++ todo)) tabs1 in
          Some (set_at (set_lock (set_replaced (set_tables s tabs2) (s_replaced s ++ pages_of_todo todo)) (Some t)) t c (Some NSetDirty))
        end
      | _, _ => None
      end
    else None
  end.

(* ---------------------------------------------------------------- the sections *)
(* set_dirty under the tables mutex: open_table and delete_table *)
Definition sec_set_dirty (t : nat) (c : scall) (n : sname) (s : sst) : option sst :=
  if holds s t then
    match n with
    | NSetDirty => Some (set_at (set_dirty s true) t c (Some NSetDirtyStored))
    | NSetDirtyStored => Some (set_at s t c (Some NAnySavepoint))
    | NAnySavepoint =>
      let tr := match s_valid s with [] => false | _ => s_tracking s end in
      match c with
      | SOpen _ => Some (finish (set_lock (set_tracking s tr) None) t c SOk)
      | _ => Some (set_at (set_tracking s tr) t c (Some NFreedPre))      (* delete_table: on to the catalog and the table's pages *)
      end
    | _ => None
    end
  else None.

(* ephemeral_savepoint / persistent_savepoint: dirty check and registration under the tables mutex *)
Definition sec_savepoint (t : nat) (c : scall) (h : N) (n : sname) (s : sst) : option sst :=
  match n with
  | NEsp =>
    if lock_free s then Some (set_at (set_lock s (Some t)) t c (Some NEspLocked))
    else if s_try_esp s then Some (finish s t c SErrDirty)
    else None
  | NEspLocked =>
    if holds s t then
      if s_dirty s then Some (finish (set_lock s None) t c SErrDirty)
      else Some (set_at s t c (Some NRegisterRead))
    else None
  | NRegisterRead =>
    if holds s t then Some (set_at (set_savepoints s (s_valid s) (s_next_sp s) (s_base s :: s_pins s) (s_handles s)) t c (Some NAllocSavepoint))
    else None
  | NAllocSavepoint =>
    if holds s t then
      let id := s_next_sp s + 1 in
      Some (set_at (set_lock (set_savepoints s (id :: s_valid s) id (s_pins s) ((h, id) :: s_handles s)) None) t c (Some NEspUnlocked))
    else None
  | NEspUnlocked => Some (set_at s t c (Some NGetDataRoot))
  | NGetDataRoot => Some (set_at s t c (Some NGetVersion))
  | NGetVersion => if is_persistent h then Some (set_at s t c (Some NPspSys)) else Some (finish s t c SOk)
  | NPspSys => if sys_free s then Some (set_at (set_syslock s (Some t)) t c (Some NPspSysLocked)) else None
  | NPspSysLocked => if sholds s t then Some (finish (set_syslock s None) t c SOk) else None
  | _ => None
  end.

Definition sec_drop (t : nat) (c : scall) (h : N) (n : sname) (s : sst) : option sst :=
  match n with
  | NDeallocSavepoint =>
    match hget h (s_handles s) with
    | Some id => Some (set_at (set_savepoints s (rm1 id (s_valid s)) (s_next_sp s) (s_pins s) (s_handles s)) t c (Some NDeallocRead))
    | None => None
    end
  | NDeallocRead =>
    Some (finish (set_savepoints s (s_valid s) (s_next_sp s) (rm1 (s_base s) (s_pins s))
                                 (filter (fun x => negb (N.eqb (fst x) h)) (s_handles s))) t c SOk)
  | _ => None
  end.

(* the freed_pages sections of a table operation *)
Definition sec_op (t : nat) (c : scall) (tb : N) (n : sname) (s : sst) : option sst :=
  match tget tb (s_tables s) with
  | Some tbl =>
    match n, tb_todo tbl with
    | NMerge, (true, ps) :: rest =>
      (* merge_freed_pages: lock; append the scratch list; unlock *)
      match s_flock s with
      | None =>
        Some (continue_op (set_freed (set_tables s (tset tb (with_free tbl (tb_committed tbl) [] rest) (s_tables s)))
                                     (s_freed s ++ tb_local tbl ++ ps)) t c rest)
      | Some _ =>
        if s_try_merge s then
          Some (continue_op (set_tables s (tset tb (with_free tbl (tb_committed tbl) (tb_local tbl ++ ps) rest) (s_tables s))) t c rest)
        else None
      end
    | NFreedPre, (false, _) :: _ =>
      if flock_free s then Some (set_at (set_flock s (Some t)) t c (Some NFreedLocked)) else None
    | NFreedLocked, (false, ps) :: rest =>
      if fholds s t then
        Some (continue_op (set_flock (set_freed (set_tables s (tset tb (with_free tbl (tb_committed tbl) (tb_local tbl) rest) (s_tables s)))
                                                (s_freed s ++ ps)) None) t c rest)
      else None
    | _, _ => None
    end
  | None => None
  end.

(* delete_table after set_dirty: the catalog entry (merge), then the table's pages, all under the tables mutex *)
Definition sec_delete (t : nat) (c : scall) (tb : N) (n : sname) (s : sst) : option sst :=
  if holds s t then
    match tget tb (s_tables s) with
    | Some tbl =>
      match n, tb_todo tbl with
      | NFreedPre, (true, _) :: _ => Some (set_at s t c (Some NMerge))
      | NFreedPre, (false, _) :: _ =>
        if flock_free s then Some (set_at (set_flock s (Some t)) t c (Some NFreedLocked)) else None
      | NMerge, (true, ps) :: rest =>
        if flock_free s then
          Some (set_at (set_flock (set_freed (set_tables s (tset tb (with_free tbl (tb_committed tbl) (tb_local tbl) rest) (s_tables s)))
                                             (s_freed s ++ ps)) (Some t)) t c (Some NFreedLocked))
        else None
      | NFreedLocked, (false, ps) :: ([] as rest) =>
        if fholds s t then
          Some (finish (set_lock (set_flock (set_freed (set_tables s (tset tb (with_free tbl (tb_committed tbl) (tb_local tbl) rest) (s_tables s)))
                                                       (s_freed s ++ ps)) None) None) t c SOk)
        else None
      | _, _ => None
      end
    | None => None
    end
  else None.

Definition sec_hold (t : nat) (c : scall) (k : N) (n : sname) (s : sst) : option sst :=
  match n with
  | NHold =>
    if holds s t then
      if N.eqb k 0 then Some (finish (set_lock s None) t c SOk)
      else if sys_free s then Some (set_at (set_syslock s (Some t)) t c (Some NHoldSys)) else None
    else None
  | NHoldSys =>
    if sholds s t then
      if N.eqb k 1 then (if holds s t then Some (finish (set_lock (set_syslock s None) None) t c SOk) else None)
      else Some (finish (set_syslock s None) t c SOk)
    else None
  | _ => None
  end.

Definition step_sec (t : nat) (c : scall) (n : sname) (s : sst) : option sst :=
  match c with
  | SOpen _ => match n with NSetDirty | NSetDirtyStored | NAnySavepoint => sec_set_dirty t c n s | _ => None end
  | SDelete tb _ _ =>
    match n with
    | NSetDirty | NSetDirtyStored | NAnySavepoint => sec_set_dirty t c n s
    | _ => sec_delete t c tb n s
    end
  | SSavepoint h => sec_savepoint t c h n s
  | SDropSavepoint h => sec_drop t c h n s
  | SOp tb _ _ => sec_op t c tb n s
  | SHold k => sec_hold t c k n s
  | _ => None
  end.

Definition sstep (t : nat) (l : slabel) (s : sst) : option sst :=
  match l with
  | LEnter c =>
    match nget t (s_at s) with
    | Some _ => None                                     (* a thread runs one call at a time *)
    | None => step_enter t c s
    end
  | LSec n =>
    match nget t (s_at s) with
    | Some (c, Some n') => if sname_beq n n' then step_sec t c n s else None
    | _ => None
    end
  end.

Fixpoint srun (log : list (nat * slabel)) (s : sst) : option sst :=
  match log with
  | [] => Some s
  | (t, l) :: r => match sstep t l s with Some s' => srun r s' | None => None end
  end.

(* the step is missing because it needs a MUTEX that another thread holds: the thread sleeps, nothing changes *)
Definition sblocked (t : nat) (l : slabel) (s : sst) : bool :=
  match l with
  | LEnter c =>
    match nget t (s_at s) with
    | Some _ => false
    | None =>
      match c with
      | SOpen _ | SClose _ | SDelete _ _ _ => negb (lock_free s)
      | SHold k => if N.leb k 1 then negb (lock_free s) else negb (sys_free s)
      | _ => false
      end
    end
  | LSec n =>
    match nget t (s_at s) with
    | Some (c, Some n') =>
      if sname_beq n n' then
        match c, n with
        | SSavepoint _, NEsp => negb (lock_free s) && negb (s_try_esp s)
        | SSavepoint _, NPspSys => negb (sys_free s)
        | SOp _ _ _, NMerge => negb (flock_free s) && negb (s_try_merge s)
        | SOp _ _ _, NFreedPre => negb (flock_free s)
        | SDelete tb _ _, NFreedPre =>
          match tget tb (s_tables s) with
          | Some tbl => match tb_todo tbl with (false, _) :: _ => negb (flock_free s) | _ => false end
          | None => false
          end
        | SDelete _ _ _, NMerge => negb (flock_free s)
        | SHold k, NHold => negb (N.eqb k 0) && negb (sys_free s)
        | _, _ => false
        end
      else false
    | _ => false
    end
  end.

(* ---------------------------------------------------------------- initial states *)
(* a fresh write transaction; `pre` = savepoints that are valid already (taken by earlier transactions; their
   handles carry the same numbers); `tabs` = tables that exist already with their committed contents; `comm` = the
   committed pages of the tables (and of the catalog, table `master`) *)
Fixpoint cget (k : N) (l : list (N * list N)) : list N :=
  match l with [] => [] | (k', v) :: r => if N.eqb k k' then v else cget k r end.
Definition seed_table (m : list (N * N)) (c : list N) : table :=
  {| tb_map := m; tb_pages := []; tb_owner := None; tb_committed := c; tb_local := []; tb_todo := [] |}.
Definition init_tables (tabs : list (N * list (N * N))) (comm : list (N * list N)) : list (N * table) :=
  fold_right (fun x acc => tset (fst x) (seed_table (snd x) (cget (fst x) comm)) acc)
             (fold_right (fun y acc => tset (fst y) (seed_table [] (snd y)) acc) [] comm) tabs.
Definition sinit_cfg (try_merge try_esp : bool) (pre : list N) (tabs : list (N * list (N * N))) (comm : list (N * list N)) : sst :=
  {| s_dirty := false; s_tracking := true; s_lock := None; s_valid := pre; s_next_sp := 100; s_pins := map (fun _ => 1) pre;
     s_base := 1; s_tables := init_tables tabs comm; s_next_page := 1; s_tracked := []; s_at := [];
     s_handles := map (fun x => (x, x)) pre; s_results := []; s_flock := None; s_syslock := None; s_freed := [];
     s_replaced := []; s_try_merge := try_merge; s_try_esp := try_esp |}.
Definition sinit_full (pre : list N) (tabs : list (N * list (N * N))) (comm : list (N * list N)) : sst := sinit_cfg false false pre tabs comm.
Definition sinit_tables (pre : list N) (tabs : list (N * list (N * N))) : sst := sinit_full pre tabs [].
Definition sinit (pre : list N) : sst := sinit_tables pre [].

(* ---------------------------------------------------------------- specifications *)
(* the specification of one table: its own operations, applied in order *)
Definition apply_call (tb : N) (m : list (N * N)) (c : scall) : list (N * N) :=
  match c with
  | SPut tb' k v => if N.eqb tb tb' then mput k v m else m
  | SDel tb' k => if N.eqb tb tb' then mdel k m else m
  | SOp tb' e _ => if N.eqb tb tb' then apply_effect e m else m
  | SDelete tb' _ _ => if N.eqb tb tb' then [] else m
  | _ => m
  end.
Definition own_stream (tb : N) (log : list (nat * slabel)) : list scall :=
  flat_map (fun e => match snd e with LEnter c => [c] | _ => [] end) log.
Definition spec_table_from (m0 : list (N * N)) (tb : N) (log : list (nat * slabel)) : list (N * N) :=
  fold_left (apply_call tb) (own_stream tb log) m0.
Definition spec_table (tb : N) (log : list (nat * slabel)) : list (N * N) := spec_table_from [] tb log.
Definition table_map (s : sst) (tb : N) : list (N * N) :=
  match tget tb (s_tables s) with Some t => tb_map t | None => [] end.
Definition table_pages (s : sst) (tb : N) : list N :=
  match tget tb (s_tables s) with Some t => tb_pages t | None => [] end.
Definition table_committed (s : sst) (tb : N) : list N :=
  match tget tb (s_tables s) with Some t => tb_committed t | None => [] end.

(* a dirtying step: the store of the dirty flag (open_table / delete_table, under the tables mutex) *)
Definition is_store (l : slabel) : bool := match l with LSec NSetDirty => true | _ => false end.
Definition dirtied (log : list (nat * slabel)) : bool := existsb (fun e => is_store (snd e)) log.

(* what the table operations of a log replace, in log order: a function of the log and of the committed pages of each
   table (comm tb = the committed pages of table tb not replaced yet) *)
Definition sum_secs (secs : list (bool * N)) : nat := fold_right (fun x a => (N.to_nat (snd x) + a)%nat) 0%nat secs.
Fixpoint repl_log (comm : N -> list N) (log : list (nat * slabel)) : list N :=
  match log with
  | [] => []
  | (_, LEnter (SOp tb _ secs)) :: r =>
    firstn (sum_secs secs) (comm tb) ++
    repl_log (fun x => if N.eqb x tb then skipn (sum_secs secs) (comm tb) else comm x) r
  | (_, LEnter (SDelete tb rm b)) :: r =>
    firstn (N.to_nat rm) (comm master) ++ firstn (N.to_nat b) (comm tb) ++
    repl_log (fun x => if N.eqb x tb then skipn (N.to_nat b) (comm tb)
                       else if N.eqb x master then skipn (N.to_nat rm) (comm master) else comm x) r
  | _ :: r => repl_log comm r
  end.

(* the replaced pages that are not in the transaction-wide list yet: scratch lists and sections still to run *)
Definition pending_of (x : N * table) : list N := tb_local (snd x) ++ pages_of_todo (tb_todo (snd x)).
Definition pending (s : sst) : list N := flat_map pending_of (s_tables s).
