(* Conc/Shared.v -- one WriteTransaction used from several threads (C16; definitions only).

   Threads open DIFFERENT tables of one write transaction, run their own operation streams on them, and
   other threads call ephemeral_savepoint() / drop Savepoints meanwhile.  Shared between them: the `tables`
   mutex (catalog + dirty flag transitions), the dirty flag, the allocation-tracking switch of the
   transaction's PageTracker, the tracker's valid savepoints, and the page allocator.
   A LOG is a list of (thread, label): `LEnter c` = the thread starts call c and runs to its first pause
   point, `LSec n` = it runs the section that begins at pause point n.  `sstep` is partial: a label that the
   code could not execute in that state (mutex held by another thread, wrong call) has no successor.
   Table operations (insert/remove) have no pause point inside: they are single steps here. *)
From Coq Require Import List NArith Bool.
Import ListNotations.
Open Scope N_scope.

Inductive scall :=
| SOpen (tb : N) | SPut (tb k v : N) | SDel (tb k : N) | SClose (tb : N)
| SSavepoint (h : N) | SDropSavepoint (h : N).

Inductive sname :=
| NSetDirty | NSetDirtyStored | NAnySavepoint                    (* open_table *)
| NEsp | NEspLocked | NRegisterRead | NAllocSavepoint | NEspUnlocked | NGetDataRoot | NGetVersion  (* ephemeral_savepoint *)
| NDeallocSavepoint | NDeallocRead.                              (* Savepoint::drop *)

Inductive slabel := LEnter (c : scall) | LSec (n : sname).

Inductive sres := SOk | SErrDirty | SErrOpen.

Record table := { tb_map : list (N * N); tb_pages : list N; tb_owner : option nat }.

Record sst := {
  s_dirty : bool;
  s_tracking : bool;                  (* PageTracker state Track (true) / Ignore (false) *)
  s_lock : option nat;                (* holder of the `tables` mutex *)
  s_valid : list N;                   (* tracker.valid_savepoints (ids) *)
  s_next_sp : N;
  s_pins : list N;                    (* tracker.live_read_transactions as a multiset of ids *)
  s_base : N;                         (* the transaction id savepoints of this transaction pin *)
  s_tables : list (N * table);
  s_next_page : N;                    (* the allocator: hands out each page id once (C14) *)
  s_tracked : list N;                 (* pages recorded by the PageTracker while tracking *)
  s_at : list (nat * (scall * option sname));   (* thread -> call in progress and the pause point it waits at *)
  s_handles : list (N * N);           (* savepoint handle -> savepoint id *)
  s_results : list (nat * scall * sres)         (* completed calls, newest first *)
}.

Fixpoint tget (k : N) (l : list (N * table)) : option table :=
  match l with [] => None | (k', v) :: r => if N.eqb k k' then Some v else tget k r end.
Fixpoint tset (k : N) (v : table) (l : list (N * table)) : list (N * table) :=
  match l with
  | [] => [(k, v)]
  | (k', v') :: r => if N.eqb k k' then (k, v) :: r else (k', v') :: tset k v r
  end.
Fixpoint nget {A} (t : nat) (l : list (nat * A)) : option A :=
  match l with [] => None | (t', v) :: r => if Nat.eqb t t' then Some v else nget t r end.
Fixpoint ndel {A} (t : nat) (l : list (nat * A)) : list (nat * A) :=
  match l with [] => [] | (t', v) :: r => if Nat.eqb t t' then ndel t r else (t', v) :: ndel t r end.
Fixpoint mput (k v : N) (m : list (N * N)) : list (N * N) :=
  match m with
  | [] => [(k, v)]
  | (k', v') :: r => if N.eqb k k' then (k, v) :: r else if N.ltb k k' then (k, v) :: m else (k', v') :: mput k v r
  end.
Fixpoint mdel (k : N) (m : list (N * N)) : list (N * N) :=
  match m with [] => [] | (k', v') :: r => if N.eqb k k' then r else (k', v') :: mdel k r end.
Fixpoint hget (k : N) (l : list (N * N)) : option N :=
  match l with [] => None | (k', v) :: r => if N.eqb k k' then Some v else hget k r end.
Fixpoint rm1 (x : N) (l : list N) : list N :=
  match l with [] => [] | y :: r => if N.eqb x y then r else y :: rm1 x r end.

Definition upd (s : sst) dirty tracking lock valid nsp pins tables npage tracked at_ handles results : sst :=
  {| s_dirty := dirty; s_tracking := tracking; s_lock := lock; s_valid := valid; s_next_sp := nsp; s_pins := pins;
     s_base := s_base s; s_tables := tables; s_next_page := npage; s_tracked := tracked; s_at := at_;
     s_handles := handles; s_results := results |}.

Definition set_at (s : sst) (t : nat) (c : scall) (n : option sname) : sst :=
  upd s (s_dirty s) (s_tracking s) (s_lock s) (s_valid s) (s_next_sp s) (s_pins s) (s_tables s) (s_next_page s)
      (s_tracked s) ((t, (c, n)) :: ndel t (s_at s)) (s_handles s) (s_results s).
Definition finish (s : sst) (t : nat) (c : scall) (r : sres) : sst :=
  upd s (s_dirty s) (s_tracking s) (s_lock s) (s_valid s) (s_next_sp s) (s_pins s) (s_tables s) (s_next_page s)
      (s_tracked s) (ndel t (s_at s)) (s_handles s) ((t, c, r) :: s_results s).
Definition set_lock (s : sst) (l : option nat) : sst :=
  upd s (s_dirty s) (s_tracking s) l (s_valid s) (s_next_sp s) (s_pins s) (s_tables s) (s_next_page s)
      (s_tracked s) (s_at s) (s_handles s) (s_results s).
Definition lock_free (s : sst) : bool := match s_lock s with None => true | Some _ => false end.
Definition holds (s : sst) (t : nat) : bool := match s_lock s with Some t' => Nat.eqb t t' | None => false end.
Definition empty_table : table := {| tb_map := []; tb_pages := []; tb_owner := None |}.

Definition sstep (t : nat) (l : slabel) (s : sst) : option sst :=
  match l with
  | LEnter c =>
    match nget t (s_at s) with
    | Some _ => None                                     (* a thread runs one call at a time *)
    | None =>
      match c with
      | SOpen tb =>
        (* WriteTransaction::open_table takes the tables mutex before anything else; inner_open *)
        if lock_free s then
          let tbl := match tget tb (s_tables s) with Some x => x | None => empty_table end in
          match tb_owner tbl with
          | Some _ => Some (finish s t c SErrOpen)       (* TableAlreadyOpen; the mutex is released again *)
          | None =>
            let s1 := upd s (s_dirty s) (s_tracking s) (Some t) (s_valid s) (s_next_sp s) (s_pins s)
                          (tset tb {| tb_map := tb_map tbl; tb_pages := tb_pages tbl; tb_owner := Some t |} (s_tables s))
                          (s_next_page s) (s_tracked s) (s_at s) (s_handles s) (s_results s) in
            Some (set_at s1 t c (Some NSetDirty))
          end
        else None
      | SPut tb k v =>
        match tget tb (s_tables s) with
        | Some tbl =>
          if match tb_owner tbl with Some o => Nat.eqb o t | None => false end then
            let p := s_next_page s in
            let s1 := upd s (s_dirty s) (s_tracking s) (s_lock s) (s_valid s) (s_next_sp s) (s_pins s)
                          (tset tb {| tb_map := mput k v (tb_map tbl); tb_pages := p :: tb_pages tbl; tb_owner := tb_owner tbl |}
                                (s_tables s))
                          (p + 1) (if s_tracking s then p :: s_tracked s else s_tracked s) (s_at s) (s_handles s)
                          (s_results s) in
            Some (finish s1 t c SOk)
          else None
        | None => None
        end
      | SDel tb k =>
        match tget tb (s_tables s) with
        | Some tbl =>
          if match tb_owner tbl with Some o => Nat.eqb o t | None => false end then
            let s1 := upd s (s_dirty s) (s_tracking s) (s_lock s) (s_valid s) (s_next_sp s) (s_pins s)
                          (tset tb {| tb_map := mdel k (tb_map tbl); tb_pages := tb_pages tbl; tb_owner := tb_owner tbl |}
                                (s_tables s))
                          (s_next_page s) (s_tracked s) (s_at s) (s_handles s) (s_results s) in
            Some (finish s1 t c SOk)
          else None
        | None => None
        end
      | SClose tb =>
        (* dropping the table handle: close_table under the tables mutex *)
        if lock_free s then
          match tget tb (s_tables s) with
          | Some tbl =>
            if match tb_owner tbl with Some o => Nat.eqb o t | None => false end then
              let s1 := upd s (s_dirty s) (s_tracking s) (s_lock s) (s_valid s) (s_next_sp s) (s_pins s)
                            (tset tb {| tb_map := tb_map tbl; tb_pages := tb_pages tbl; tb_owner := None |} (s_tables s))
                            (s_next_page s) (s_tracked s) (s_at s) (s_handles s) (s_results s) in
              Some (finish s1 t c SOk)
            else None
          | None => None
          end
        else None
      | SSavepoint _ => Some (set_at s t c (Some NEsp))
      | SDropSavepoint h =>
        match hget h (s_handles s) with
        | Some _ => Some (set_at s t c (Some NDeallocSavepoint))
        | None => None
        end
      end
    end
  | LSec n =>
    match nget t (s_at s) with
    | Some (c, Some n') =>
      if negb (match n, n' with
               | NSetDirty, NSetDirty | NSetDirtyStored, NSetDirtyStored | NAnySavepoint, NAnySavepoint | NEsp, NEsp
               | NEspLocked, NEspLocked | NRegisterRead, NRegisterRead | NAllocSavepoint, NAllocSavepoint
               | NEspUnlocked, NEspUnlocked | NGetDataRoot, NGetDataRoot | NGetVersion, NGetVersion
               | NDeallocSavepoint, NDeallocSavepoint | NDeallocRead, NDeallocRead => true
               | _, _ => false end) then None else
      match c, n with
      (* ---- open_table: set_dirty under the tables mutex *)
      | SOpen _, NSetDirty =>
        if holds s t then
          Some (set_at (upd s true (s_tracking s) (s_lock s) (s_valid s) (s_next_sp s) (s_pins s) (s_tables s)
                            (s_next_page s) (s_tracked s) (s_at s) (s_handles s) (s_results s)) t c (Some NSetDirtyStored))
        else None
      | SOpen _, NSetDirtyStored => if holds s t then Some (set_at s t c (Some NAnySavepoint)) else None
      | SOpen _, NAnySavepoint =>
        if holds s t then
          let tr := match s_valid s with [] => false | _ => s_tracking s end in
          Some (finish (upd s (s_dirty s) tr None (s_valid s) (s_next_sp s) (s_pins s) (s_tables s) (s_next_page s)
                            (s_tracked s) (s_at s) (s_handles s) (s_results s)) t c SOk)
        else None
      (* ---- ephemeral_savepoint: dirty check and registration under the tables mutex *)
      | SSavepoint _, NEsp => if lock_free s then Some (set_at (set_lock s (Some t)) t c (Some NEspLocked)) else None
      | SSavepoint _, NEspLocked =>
        if holds s t then
          if s_dirty s then Some (finish (set_lock s None) t c SErrDirty)
          else Some (set_at s t c (Some NRegisterRead))
        else None
      | SSavepoint _, NRegisterRead =>
        if holds s t then
          Some (set_at (upd s (s_dirty s) (s_tracking s) (s_lock s) (s_valid s) (s_next_sp s) (s_base s :: s_pins s)
                            (s_tables s) (s_next_page s) (s_tracked s) (s_at s) (s_handles s) (s_results s))
                       t c (Some NAllocSavepoint))
        else None
      | SSavepoint h, NAllocSavepoint =>
        if holds s t then
          let id := s_next_sp s + 1 in
          Some (set_at (upd s (s_dirty s) (s_tracking s) None (id :: s_valid s) id (s_pins s) (s_tables s)
                            (s_next_page s) (s_tracked s) (s_at s) ((h, id) :: s_handles s) (s_results s))
                       t c (Some NEspUnlocked))
        else None
      | SSavepoint _, NEspUnlocked => Some (set_at s t c (Some NGetDataRoot))
      | SSavepoint _, NGetDataRoot => Some (set_at s t c (Some NGetVersion))
      | SSavepoint _, NGetVersion => Some (finish s t c SOk)
      (* ---- Savepoint::drop *)
      | SDropSavepoint h, NDeallocSavepoint =>
        match hget h (s_handles s) with
        | Some id =>
          Some (set_at (upd s (s_dirty s) (s_tracking s) (s_lock s) (rm1 id (s_valid s)) (s_next_sp s) (s_pins s)
                            (s_tables s) (s_next_page s) (s_tracked s) (s_at s) (s_handles s) (s_results s))
                       t c (Some NDeallocRead))
        | None => None
        end
      | SDropSavepoint h, NDeallocRead =>
        Some (finish (upd s (s_dirty s) (s_tracking s) (s_lock s) (s_valid s) (s_next_sp s) (rm1 (s_base s) (s_pins s))
                          (s_tables s) (s_next_page s) (s_tracked s) (s_at s)
                          (filter (fun x => negb (N.eqb (fst x) h)) (s_handles s)) (s_results s)) t c SOk)
      | _, _ => None
      end
    | _ => None
    end
  end.

Fixpoint srun (log : list (nat * slabel)) (s : sst) : option sst :=
  match log with
  | [] => Some s
  | (t, l) :: r => match sstep t l s with Some s' => srun r s' | None => None end
  end.

(* a fresh write transaction; `pre` = savepoints that are valid already (taken by earlier transactions; their
   handles carry the same numbers); `tabs` = tables that exist already with their committed contents *)
Definition seed_table (x : N * list (N * N)) : N * table :=
  (fst x, {| tb_map := snd x; tb_pages := []; tb_owner := None |}).
Definition sinit_tables (pre : list N) (tabs : list (N * list (N * N))) : sst :=
  {| s_dirty := false; s_tracking := true; s_lock := None; s_valid := pre; s_next_sp := 100; s_pins := map (fun _ => 1) pre;
     s_base := 1; s_tables := map seed_table tabs; s_next_page := 1; s_tracked := []; s_at := [];
     s_handles := map (fun x => (x, x)) pre; s_results := [] |}.
Definition sinit (pre : list N) : sst := sinit_tables pre [].

(* the specification of one table: its own operations, applied in order *)
Definition apply_call (tb : N) (m : list (N * N)) (c : scall) : list (N * N) :=
  match c with
  | SPut tb' k v => if N.eqb tb tb' then mput k v m else m
  | SDel tb' k => if N.eqb tb tb' then mdel k m else m
  | _ => m
  end.
Definition own_stream (tb : N) (log : list (nat * slabel)) : list scall :=
  flat_map (fun e => match snd e with LEnter c => [c] | _ => [] end) log.
Definition spec_table_from (m0 : list (N * N)) (tb : N) (log : list (nat * slabel)) : list (N * N) :=
  fold_left (apply_call tb) (own_stream tb log) m0.
Definition spec_table (tb : N) (log : list (nat * slabel)) : list (N * N) := spec_table_from [] tb log.
Definition table_map (s : sst) (tb : N) : list (N * N) :=
  match tget tb (s_tables s) with Some t => tb_map t | None => [] end.
Definition table_pages (s : sst) (tb : N) : list N :=
  match tget tb (s_tables s) with Some t => tb_pages t | None => [] end.
