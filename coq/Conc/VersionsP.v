(* Conc/VersionsP.v -- pinned pages are immutable (proofs about Conc/Versions.v) *)
From Coq Require Import List NArith Bool Lia.
From RV Require Import Conc.Versions.
Import ListNotations.
Open Scope N_scope.

Lemma mem_In : forall x l, mem x l = true <-> In x l.
Proof.
  intros. unfold mem. rewrite existsb_exists. split.
  - intros [y [Hy He]]. apply N.eqb_eq in He. subst. assumption.
  - intros H. exists x. split; [assumption|apply N.eqb_refl].
Qed.

Lemma mem_false : forall x l, mem x l = false <-> ~ In x l.
Proof.
  intros. rewrite <- mem_In. destruct (mem x l); split; intro H.
  - discriminate.
  - exfalso. apply H. reflexivity.
  - intro; discriminate.
  - reflexivity.
Qed.

Lemma minus_In : forall x a b, In x (minus a b) <-> In x a /\ ~ In x b.
Proof.
  intros. unfold minus. rewrite filter_In. rewrite negb_true_iff, mem_false. reflexivity.
Qed.

Lemma disjoint_spec : forall a b, disjoint a b = true -> forall x, In x a -> ~ In x b.
Proof. unfold disjoint. intros a b H x Hx. rewrite forallb_forall in H. specialize (H x Hx). rewrite negb_true_iff, mem_false in H. exact H. Qed.

Lemma subset_spec : forall a b, subset a b = true -> forall x, In x a -> In x b.
Proof. unfold subset. intros a b H x Hx. rewrite forallb_forall in H. apply mem_In. auto. Qed.

Lemma least_le : forall l m x, least l = Some m -> In x l -> m <= x.
Proof.
  induction l as [|y l IH]; intros m x Hm Hx; [destruct Hx|]. simpl in Hm.
  destruct (least l) as [m'|] eqn:E.
  - inversion Hm; subst. destruct Hx as [->|Hx]; [lia|]. specialize (IH m' x eq_refl Hx). lia.
  - inversion Hm; subst. destruct Hx as [->|Hx]; [lia|]. destruct l; [destruct Hx|]. simpl in E. destruct (least l); discriminate.
Qed.

Lemma least_none : forall l, least l = None -> l = [].
Proof. destruct l as [|y l]; [reflexivity|]. simpl. destruct (least l); discriminate. Qed.

Lemma rm_one_In : forall x y l, In x (rm_one y l) -> In x l.
Proof.
  induction l as [|z l IH]; simpl; [auto|]. destruct (N.eqb y z); [auto|]. intros [H|H]; auto.
Qed.

(* ---------------------------------------------------------------- invariant *)
Definition protected (s : vst) (u : N) : Prop :=
  u = v_latest s \/ exists v, In v (v_pins s) /\ v <= u /\ u <= v_latest s.

Record vinv (s : vst) : Prop := {
  (* versions newer than the published one do not exist *)
  i_keys : forall u ps, In (u, ps) (v_reach s) -> u <= v_latest s;
  i_rkeys : forall t ps, In (t, ps) (v_freed s) -> t <= v_latest s;
  (* pins never point into the future *)
  i_pins : forall v, In v (v_pins s) -> v <= v_latest s;
  (* a pending-free record names allocated pages that no version from its key upwards reaches *)
  i_rec : forall t ps p, In (t, ps) (v_freed s) -> In p ps ->
            t <= v_latest s /\ In p (v_alloc s) /\ forall u, t <= u -> u <= v_latest s -> ~ In p (reach s u);
  (* a page sits in at most one pending-free record *)
  i_once : forall t ps t' ps' p, In (t, ps) (v_freed s) -> In (t', ps') (v_freed s) -> In p ps -> In p ps' -> t = t';
  (* every version from a pin upwards, and the latest one, has all its pages allocated ... *)
  i_prot : forall u p, protected s u -> In p (reach s u) -> In p (v_alloc s);
  (* ... and last written by a transaction not newer than itself *)
  i_stamp : forall u p, protected s u -> In p (reach s u) -> exists w, sget p (v_stamp s) = Some w /\ w <= u
}.

Lemma vinit_inv : vinv vinit.
Proof.
  constructor; simpl.
  - intros u ps [H|[]]. inversion H; subst. lia.
  - intros t ps [].
  - intros v [].
  - intros t ps p [].
  - intros t ps t' ps' p [].
  - intros u p _ H. unfold reach in H. simpl in H. destruct (u =? 1); [assumption|destruct H].
  - intros u p Hp H. unfold reach in H. simpl in H. destruct (u =? 1) eqn:E; [|destruct H].
    apply N.eqb_eq in E. subst. destruct H as [<-|[]]. exists 1. split; [reflexivity|lia].
Qed.

(* ---------------------------------------------------------------- release *)
Lemma release_reach : forall h s u, reach (release h s) u = reach s u.
Proof. reflexivity. Qed.

Lemma release_inv : forall h s, vinv s ->
  (forall t ps, In (t, ps) (v_freed s) -> t < h -> forall u, protected s u -> t <= u) ->
  vinv (release h s).
Proof.
  intros h s I Hh.
  assert (Hgone : forall p, In p (flat_map snd (filter (fun r => fst r <? h) (v_freed s))) ->
                   exists t ps, In (t, ps) (v_freed s) /\ t < h /\ In p ps).
  { intros p Hp. apply in_flat_map in Hp. destruct Hp as [[t ps] [Hr Hp]]. apply filter_In in Hr.
    destruct Hr as [Hr Hlt]. simpl in *. apply N.ltb_lt in Hlt. eauto. }
  constructor; simpl.
  - apply (i_keys s I).
  - intros t ps Hr. apply filter_In in Hr. destruct Hr as [Hr _]. apply (i_rkeys s I t ps Hr).
  - apply (i_pins s I).
  - intros t ps p Hr Hp. apply filter_In in Hr. destruct Hr as [Hr Hge]. simpl in Hge.
    rewrite negb_true_iff in Hge. apply N.ltb_ge in Hge.
    destruct (i_rec s I t ps p Hr Hp) as (H1 & H2 & H3). split; [assumption|]. split; [|exact H3].
    apply minus_In. split; [assumption|]. intro Hg. destruct (Hgone p Hg) as (t' & ps' & Hr' & Hlt & Hp').
    pose proof (i_once s I t ps t' ps' p Hr Hr' Hp Hp'). lia.
  - intros t ps t' ps' p Hr Hr'. apply filter_In in Hr. apply filter_In in Hr'. destruct Hr, Hr'.
    eapply (i_once s I); eauto.
  - intros u p Hu Hp. apply minus_In. split; [apply (i_prot s I u p Hu Hp)|].
    intro Hg. destruct (Hgone p Hg) as (t & ps & Hr & Hlt & Hp').
    destruct (i_rec s I t ps p Hr Hp') as (_ & _ & H3).
    apply (H3 u); [apply (Hh t ps Hr Hlt u Hu)| |exact Hp].
    destruct Hu as [Hu|(v & _ & _ & Hle)]; [subst u; simpl; lia|exact Hle].
  - intros u p Hu Hp. apply (i_stamp s I u p Hu Hp).
Qed.

(* ---------------------------------------------------------------- one operation *)
Lemma vget_other : forall k k' v l, k <> k' -> vget k ((k', v) :: l) = vget k l.
Proof. intros. simpl. destruct (N.eqb k k') eqn:E; [apply N.eqb_eq in E; congruence|reflexivity]. Qed.

Lemma sget_restamp_other : forall p id adds st, ~ In p adds -> sget p (restamp id adds st) = sget p st.
Proof.
  intros p id adds st. unfold restamp. induction adds as [|a adds IH]; intros Hn; [reflexivity|]. simpl.
  destruct (N.eqb p a) eqn:E; [apply N.eqb_eq in E; subst; exfalso; apply Hn; left; reflexivity|].
  apply IH. intro H. apply Hn. right. exact H.
Qed.

Lemma sget_restamp_in : forall p id adds st, In p adds -> sget p (restamp id adds st) = Some id.
Proof.
  intros p id adds st. unfold restamp. induction adds as [|a adds IH]; intros Hin; [destruct Hin|]. simpl.
  destruct (N.eqb p a) eqn:E; [reflexivity|]. destruct Hin as [->|Hin]; [rewrite N.eqb_refl in E; discriminate|auto].
Qed.

Lemma vstep_inv : forall o s s', vinv s -> vstep o s = Some s' -> vinv s'.
Proof.
  intros o s s' I H. destruct o; simpl in H.
  - (* begin_read: pin the latest version *)
    inversion H; subst; clear H. constructor; simpl; try apply I.
    + intros v [<-|Hv]; [lia|apply (i_pins s I v Hv)].
    + intros u p Hu Hp. apply (i_prot s I u p); [|exact Hp].
      destruct Hu as [->|(v & [<-|Hv] & H1 & H2)]; simpl in *.
      * left; reflexivity.
      * left. lia.
      * right. exists v. auto.
    + intros u p Hu Hp. apply (i_stamp s I u p); [|exact Hp].
      destruct Hu as [->|(v & [<-|Hv] & H1 & H2)]; simpl in *.
      * left; reflexivity.
      * left. lia.
      * right. exists v. auto.
  - (* drop a pin: fewer versions are protected *)
    destruct (mem v (v_pins s)); [|discriminate]. inversion H; subst; clear H.
    assert (Hp : forall u, protected {| v_alloc := v_alloc s; v_reach := v_reach s; v_latest := v_latest s;
                                        v_freed := v_freed s; v_pins := rm_one v (v_pins s); v_stamp := v_stamp s |} u ->
                           protected s u).
    { intros u [->|(v' & Hv & H1 & H2)]; simpl in *; [left; reflexivity|]. right. exists v'. split; [|auto].
      eapply rm_one_In; eauto. }
    constructor; simpl; try apply I.
    + intros v' Hv. apply (i_pins s I). eapply rm_one_In; eauto.
    + intros u p Hu. apply (i_prot s I u p (Hp u Hu)).
    + intros u p Hu. apply (i_stamp s I u p (Hp u Hu)).
  - (* durable commit *)
    destruct (disjoint adds (v_alloc s)) eqn:Hd; [|discriminate].
    destruct (subset drops (reach s (v_latest s))) eqn:Hs; [|discriminate]. simpl in H.
    inversion H; subst; clear H.
    pose proof (disjoint_spec _ _ Hd) as Hfresh. pose proof (subset_spec _ _ Hs) as Hsub.
    set (id := v_latest s + 1) in *.
    set (s1 := {| v_alloc := adds ++ v_alloc s;
                  v_reach := (id, adds ++ minus (reach s (v_latest s)) drops) :: v_reach s; v_latest := id;
                  v_freed := (id, drops) :: v_freed s; v_pins := v_pins s; v_stamp := restamp id adds (v_stamp s) |}).
    assert (Hreach_old : forall u, u <= v_latest s -> reach s1 u = reach s u).
    { intros u Hu. unfold reach, s1. simpl. apply vget_other. unfold id. lia. }
    assert (Hreach_new : reach s1 id = adds ++ minus (reach s (v_latest s)) drops).
    { unfold reach, s1. simpl. rewrite N.eqb_refl. reflexivity. }
    assert (Hprot_old : forall u, protected s1 u -> u <> id -> protected s u /\ u <= v_latest s).
    { intros u [Hu|(v & Hv & H1 & H2)] Hne; [contradiction|]. simpl in *.
      assert (u <= v_latest s) by (unfold id in *; lia). split; [|assumption]. right. exists v. auto. }
    assert (Hlatest_alloc : forall p, In p (reach s (v_latest s)) -> In p (v_alloc s)).
    { intros p Hp. apply (i_prot s I (v_latest s) p); [left; reflexivity|exact Hp]. }
    assert (I1 : vinv s1).
    { constructor.
      - intros u ps [Hin|Hin]; [inversion Hin; subst; simpl; lia|]. simpl. pose proof (i_keys s I u ps Hin). unfold id. lia.
      - intros t ps [Hin|Hin]; [inversion Hin; subst; simpl; lia|]. simpl. pose proof (i_rkeys s I t ps Hin). unfold id. lia.
      - intros v Hv. simpl. pose proof (i_pins s I v Hv). unfold id. lia.
      - intros t ps p [Hin|Hin] Hp.
        + inversion Hin; subst. split; [simpl; lia|]. split; [simpl; apply in_or_app; right; auto|].
          intros u H1 H2. simpl in H2. assert (u = id) by lia. subst u. rewrite Hreach_new. intro Hc.
          apply in_app_or in Hc. destruct Hc as [Hc|Hc].
          * apply (Hfresh p Hc). auto.
          * apply minus_In in Hc. destruct Hc. contradiction.
        + destruct (i_rec s I t ps p Hin Hp) as (H1 & H2 & H3). split; [simpl; unfold id; lia|].
          split; [simpl; apply in_or_app; right; exact H2|].
          intros u Hu1 Hu2. simpl in Hu2. destruct (N.eq_dec u id) as [->|Hne].
          * rewrite Hreach_new. intro Hc. apply in_app_or in Hc. destruct Hc as [Hc|Hc].
            -- apply (Hfresh p Hc). exact H2.
            -- apply minus_In in Hc. destruct Hc as [Hc _]. apply (H3 (v_latest s)); [exact H1|lia|exact Hc].
          * rewrite Hreach_old by (unfold id in *; lia). apply H3; [exact Hu1|unfold id in *; lia].
      - intros t ps t' ps' p [Hin|Hin] [Hin'|Hin'] Hp Hp'.
        + inversion Hin; inversion Hin'; subst. reflexivity.
        + inversion Hin; subst. exfalso. destruct (i_rec s I t' ps' p Hin' Hp') as (H1 & _ & H3).
          apply (H3 (v_latest s)); [exact H1|lia|auto].
        + inversion Hin'; subst. exfalso. destruct (i_rec s I t ps p Hin Hp) as (H1 & _ & H3).
          apply (H3 (v_latest s)); [exact H1|lia|auto].
        + eapply (i_once s I); eauto.
      - intros u p Hu Hp. simpl. apply in_or_app. destruct (N.eq_dec u id) as [->|Hne].
        + rewrite Hreach_new in Hp. apply in_app_or in Hp. destruct Hp as [Hp|Hp]; [left; exact Hp|right].
          apply minus_In in Hp. destruct Hp. auto.
        + destruct (Hprot_old u Hu Hne) as [Hu' Hle]. rewrite Hreach_old in Hp by exact Hle. right.
          apply (i_prot s I u p Hu' Hp).
      - intros u p Hu Hp. simpl. destruct (N.eq_dec u id) as [->|Hne].
        + rewrite Hreach_new in Hp. apply in_app_or in Hp. destruct Hp as [Hp|Hp].
          * exists id. split; [apply sget_restamp_in; exact Hp|lia].
          * apply minus_In in Hp. destruct Hp as [Hp _].
            destruct (i_stamp s I (v_latest s) p (or_introl eq_refl) Hp) as (w & Hw & Hle).
            exists w. split; [|unfold id; lia]. rewrite sget_restamp_other; [exact Hw|].
            intro Hc. apply (Hfresh p Hc). auto.
        + destruct (Hprot_old u Hu Hne) as [Hu' Hle]. rewrite Hreach_old in Hp by exact Hle.
          destruct (i_stamp s I u p Hu' Hp) as (w & Hw & Hlew). exists w. split; [|exact Hlew].
          rewrite sget_restamp_other; [exact Hw|]. intro Hc. apply (Hfresh p Hc). apply (i_prot s I u p Hu' Hp). }
    (* both reclaims respect the horizon condition *)
    assert (Hhor : forall h, (match least (v_pins s) with Some o => h <= o + 1 | None => h <= id + 1 end) ->
                   forall s2, vinv s2 -> v_pins s2 = v_pins s -> v_latest s2 = id ->
                   (forall t ps, In (t, ps) (v_freed s2) -> t <= id) ->
                   forall t ps, In (t, ps) (v_freed s2) -> t < h -> forall u, protected s2 u -> t <= u).
    { intros h Hh s2 I2 Hpins Hlat Hk t ps Hr Hlt u Hu.
      destruct Hu as [->|(v & Hv & H1 & H2)].
      - rewrite Hlat. apply (Hk t ps Hr).
      - rewrite Hpins in Hv. destruct (least (v_pins s)) as [o|] eqn:El.
        + pose proof (least_le _ _ _ El Hv). lia.
        + apply least_none in El. rewrite El in Hv. destruct Hv. }
    set (h1 := match least (v_pins s) with Some o => o + 1 | None => id end).
    set (h2 := match least (v_pins s) with Some o => o + 1 | None => id + 1 end).
    assert (I2 : vinv (release h1 s1)).
    { apply release_inv; [exact I1|].
      apply (Hhor h1); [unfold h1; destruct (least (v_pins s)); lia|exact I1|reflexivity|reflexivity|].
      intros t ps Hr. apply (i_rkeys s1 I1 t ps Hr). }
    apply release_inv; [exact I2|].
    apply (Hhor h2); [unfold h2; destruct (least (v_pins s)); lia|exact I2|reflexivity|reflexivity|].
    intros t ps Hr. apply (i_rkeys (release h1 s1) I2 t ps Hr).
  - (* abort: nothing changes *)
    destruct (disjoint adds (v_alloc s)); [|discriminate]. inversion H; subst. exact I.
Qed.

Lemma vrun_inv : forall ops s s', vinv s -> vrun ops s = Some s' -> vinv s'.
Proof.
  induction ops as [|o ops IH]; intros s s' I H; simpl in H; [inversion H; subst; exact I|].
  destruct (vstep o s) as [s1|] eqn:E; [|discriminate]. eapply IH; [|exact H]. eapply vstep_inv; eauto.
Qed.

(* pinned_pages_immutable: after any history, every version from a pin upwards (C03: a reader reads a version
   >= its pin) and the latest version have all their pages still allocated, and each of those pages was last
   written by a transaction not newer than that version: later commits, aborts and reclaims neither free nor
   rewrite it.  (A page is written only when it is freshly allocated; an allocated page is never handed out.) *)
Theorem pinned_pages_immutable : forall ops s v u p,
  vrun ops vinit = Some s -> In v (v_pins s) -> v <= u -> u <= v_latest s -> In p (reach s u) ->
  In p (v_alloc s) /\ exists w, sget p (v_stamp s) = Some w /\ w <= u.
Proof.
  intros ops s v u p Hrun Hv H1 H2 Hp. pose proof (vrun_inv ops vinit s vinit_inv Hrun) as I.
  assert (Hu : protected s u) by (right; exists v; auto).
  split; [apply (i_prot s I u p Hu Hp)|apply (i_stamp s I u p Hu Hp)].
Qed.

(* the pages a commit may take (`adds`) are never pages of a protected version: a reuse cannot hit a reader *)
Theorem reuse_never_hits_a_pinned_version : forall ops s v u p adds drops s',
  vrun ops vinit = Some s -> In v (v_pins s) -> v <= u -> u <= v_latest s -> In p (reach s u) ->
  vstep (VCommit adds drops) s = Some s' -> ~ In p adds /\ In p (v_alloc s') /\ reach s' u = reach s u.
Proof.
  intros ops s v u p adds drops s' Hrun Hv H1 H2 Hp Hstep.
  pose proof (vrun_inv ops vinit s vinit_inv Hrun) as I.
  assert (Hu : protected s u) by (right; exists v; auto).
  pose proof (vstep_inv _ _ _ I Hstep) as I'.
  simpl in Hstep. destruct (disjoint adds (v_alloc s)) eqn:Hd; [|discriminate].
  destruct (subset drops (reach s (v_latest s))); [|discriminate]. simpl in Hstep. inversion Hstep; subst; clear Hstep.
  assert (Hr : reach (release (match least (v_pins s) with Some o => o + 1 | None => v_latest s + 1 + 1 end)
                  (release (match least (v_pins s) with Some o => o + 1 | None => v_latest s + 1 end)
                     {| v_alloc := adds ++ v_alloc s;
                        v_reach := (v_latest s + 1, adds ++ minus (reach s (v_latest s)) drops) :: v_reach s;
                        v_latest := v_latest s + 1; v_freed := (v_latest s + 1, drops) :: v_freed s;
                        v_pins := v_pins s; v_stamp := restamp (v_latest s + 1) adds (v_stamp s) |})) u = reach s u).
  { unfold reach. simpl. apply vget_other. lia. }
  split; [|split; [|exact Hr]].
  - intro Hc. apply (disjoint_spec _ _ Hd p Hc). apply (i_prot s I u p Hu Hp).
  - apply (i_prot _ I' u p); [|rewrite Hr; exact Hp]. right. exists v. simpl. repeat split; auto. lia.
Qed.
